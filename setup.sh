#!/bin/bash
# Offline setup: build the overlay tool and pre-build every check (warms the Go build cache).
cd /verif
export GOFLAGS=-mod=mod GOPROXY=off GOTOOLCHAIN=auto
mkdir -p .work/bin evidence replays
go build -o .work/bin/overlay ./engine/overlay || exit 1
(cd /repo && go build ./... ) || exit 1
for d in props/*/; do
  id=$(basename $d)
  [ -f $d/main.go ] || continue
  VERIF_BUILD_ONLY=1 ./vcheck $id quick >/dev/null 2>&1 || echo "setup: prebuild of $id failed (will be reported by the check itself)"
done
echo setup done
