// Package codec is the wire matrix for one logical Honeycomb event: a small typed value model, a
// hand-written MessagePack encoder/decoder (NOT the libraries under test) in which every wire format
// choice (integer width and signedness, float32/64, str/bin, header widths, timestamp-extension size) is
// explicit, JSON rendering, and request builders for the ingestion endpoints.
package codec

import (
	"encoding/binary"
	"fmt"
	"math"
	"sort"
	"strconv"
	"strings"
	"time"
)

// Kind is the MessagePack type family of a Value.
type Kind int

const (
	KNil Kind = iota
	KBool
	KInt  // signed family: fixint, int8..int64
	KUint // unsigned family: uint8..uint64
	KF32
	KF64
	KStr
	KBin
	KArr
	KMap
	KExt  // any extension other than the timestamp extension -1
	KTime // timestamp extension (type -1), 32/64/96 bit
)

func (k Kind) String() string {
	return [...]string{"nil", "bool", "int", "uint", "f32", "f64", "str", "bin", "arr", "map", "ext", "time"}[k]
}

// KV is one map entry; maps keep their wire order.
type KV struct {
	K Value
	V Value
}

// Value is one MessagePack value together with the wire format it had (decode) or must get (encode).
type Value struct {
	Kind    Kind
	Bool    bool
	Int     int64   // KInt
	Uint    uint64  // KUint
	F       float64 // KF32 (must be exactly representable as float32) / KF64
	S       string  // KStr text, KBin bytes, KExt payload
	Arr     []Value
	Map     []KV
	ExtType int8
	T       time.Time // KTime
	// Lead is the MessagePack format byte. Decode: the byte seen on the wire (fix formats are
	// normalised to 0x00 posfixint, 0xe0 negfixint, 0xa0 fixstr, 0x90 fixarray, 0x80 fixmap).
	// Encode: 0 = smallest format of the Kind's family, otherwise that format is forced
	// (the encoder panics if the value does not fit it).
	Lead byte
}

// Format bytes usable as Value.Lead.
const (
	PosFixInt byte = 0x00
	NegFixInt byte = 0xe0
	Uint8     byte = 0xcc
	Uint16    byte = 0xcd
	Uint32    byte = 0xce
	Uint64    byte = 0xcf
	Int8      byte = 0xd0
	Int16     byte = 0xd1
	Int32     byte = 0xd2
	Int64     byte = 0xd3
	FixStr    byte = 0xa0
	Str8      byte = 0xd9
	Str16     byte = 0xda
	Str32     byte = 0xdb
	Bin8      byte = 0xc4
	Bin16     byte = 0xc5
	Bin32     byte = 0xc6
	FixArr    byte = 0x90
	Arr16     byte = 0xdc
	Arr32     byte = 0xdd
	FixMap    byte = 0x80
	Map16     byte = 0xde
	Map32     byte = 0xdf
	TS32      byte = 0xd6 // fixext4, type -1
	TS64      byte = 0xd7 // fixext8, type -1
	TS96      byte = 0xc7 // ext8 len 12, type -1
)

// Constructors.
func Nil() Value        { return Value{Kind: KNil} }
func Bool(b bool) Value { return Value{Kind: KBool, Bool: b} }
func Int(v int64) Value { return Value{Kind: KInt, Int: v} }
func IntAs(v int64, lead byte) Value {
	if lead >= Uint8 && lead <= Uint64 {
		if v < 0 {
			panic("codec: negative value in unsigned format")
		}
		return Value{Kind: KUint, Uint: uint64(v), Lead: lead}
	}
	return Value{Kind: KInt, Int: v, Lead: lead}
}
func Uint(v uint64) Value              { return Value{Kind: KUint, Uint: v} }
func UintAs(v uint64, lead byte) Value { return Value{Kind: KUint, Uint: v, Lead: lead} }
func F64(f float64) Value              { return Value{Kind: KF64, F: f} }
func F32(f float32) Value              { return Value{Kind: KF32, F: float64(f)} }
func Str(s string) Value               { return Value{Kind: KStr, S: s} }
func StrAs(s string, lead byte) Value  { return Value{Kind: KStr, S: s, Lead: lead} }
func Bin(b string) Value               { return Value{Kind: KBin, S: b} }
func BinAs(b string, lead byte) Value  { return Value{Kind: KBin, S: b, Lead: lead} }
func Arr(vs ...Value) Value            { return Value{Kind: KArr, Arr: vs} }
func Map(kvs ...KV) Value              { return Value{Kind: KMap, Map: kvs} }
func Ext(typ int8, data string) Value  { return Value{Kind: KExt, ExtType: typ, S: data} }

// Time is a timestamp-extension value; lead 0 = smallest of TS32/TS64/TS96 that holds it exactly.
func Time(t time.Time, lead byte) Value { return Value{Kind: KTime, T: t, Lead: lead} }

// E is shorthand for a map entry with a str key.
func E(k string, v Value) KV { return KV{K: Str(k), V: v} }

// Get returns the value of the first entry of a KMap whose (str or bin) key equals k.
func (v Value) Get(k string) (Value, bool) {
	for _, kv := range v.Map {
		if (kv.K.Kind == KStr || kv.K.Kind == KBin) && kv.K.S == k {
			return kv.V, true
		}
	}
	return Value{}, false
}

// Keys returns the keys of a KMap in wire order (str and bin keys as their bytes, others rendered).
func (v Value) Keys() []string {
	out := make([]string, 0, len(v.Map))
	for _, kv := range v.Map {
		if kv.K.Kind == KStr || kv.K.Kind == KBin {
			out = append(out, kv.K.S)
		} else {
			out = append(out, kv.K.Canon())
		}
	}
	return out
}

// Native converts to plain Go: int64, uint64, float64, string, []byte, bool, nil, time.Time (UTC),
// []any, map[string]any (later duplicates win), ExtValue.
func (v Value) Native() any {
	switch v.Kind {
	case KNil:
		return nil
	case KBool:
		return v.Bool
	case KInt:
		return v.Int
	case KUint:
		return v.Uint
	case KF32, KF64:
		return v.F
	case KStr:
		return v.S
	case KBin:
		return []byte(v.S)
	case KTime:
		return v.T.UTC()
	case KArr:
		out := make([]any, len(v.Arr))
		for i, e := range v.Arr {
			out[i] = e.Native()
		}
		return out
	case KMap:
		out := make(map[string]any, len(v.Map))
		for _, kv := range v.Map {
			if kv.K.Kind == KStr || kv.K.Kind == KBin {
				out[kv.K.S] = kv.V.Native()
			} else {
				out[kv.K.Canon()] = kv.V.Native()
			}
		}
		return out
	}
	return ExtValue{Type: v.ExtType, Data: []byte(v.S)}
}

// ExtValue is the Native() form of a non-timestamp extension.
type ExtValue struct {
	Type int8
	Data []byte
}

// Canon renders the value with its kind class, maps sorted by key: two values have the same Canon
// exactly when they are the same logical value in the same kind class. Signed and unsigned integers
// are ONE class ("i:"), float32 and float64 are one class ("f:", exact value), str and bin differ.
func (v Value) Canon() string {
	var sb strings.Builder
	v.canon(&sb, true)
	return sb.String()
}

// Wire renders like Canon but keeps wire order of maps and shows the exact wire format byte.
func (v Value) Wire() string {
	var sb strings.Builder
	v.canon(&sb, false)
	return sb.String()
}

func (v Value) canon(sb *strings.Builder, canon bool) {
	if !canon {
		fmt.Fprintf(sb, "<%02x>", v.Lead)
	}
	switch v.Kind {
	case KNil:
		sb.WriteString("nil")
	case KBool:
		fmt.Fprintf(sb, "%v", v.Bool)
	case KInt:
		fmt.Fprintf(sb, "i:%d", v.Int)
	case KUint:
		if canon {
			fmt.Fprintf(sb, "i:%d", v.Uint)
		} else {
			fmt.Fprintf(sb, "u:%d", v.Uint)
		}
	case KF32, KF64:
		if canon {
			sb.WriteString("f:" + strconv.FormatFloat(v.F, 'g', -1, 64))
		} else {
			sb.WriteString(v.Kind.String() + ":" + strconv.FormatFloat(v.F, 'g', -1, 64))
		}
	case KStr:
		sb.WriteString("s:" + strconv.Quote(v.S))
	case KBin:
		sb.WriteString("b:" + strconv.Quote(v.S))
	case KTime:
		sb.WriteString("t:" + v.T.UTC().Format(time.RFC3339Nano))
	case KExt:
		fmt.Fprintf(sb, "ext%d:%x", v.ExtType, v.S)
	case KArr:
		sb.WriteByte('[')
		for i, e := range v.Arr {
			if i > 0 {
				sb.WriteByte(',')
			}
			e.canon(sb, canon)
		}
		sb.WriteByte(']')
	case KMap:
		kvs := v.Map
		if canon {
			kvs = append([]KV(nil), kvs...)
			sort.SliceStable(kvs, func(i, j int) bool { return kvs[i].K.Canon() < kvs[j].K.Canon() })
		}
		sb.WriteByte('{')
		for i, kv := range kvs {
			if i > 0 {
				sb.WriteByte(',')
			}
			kv.K.canon(sb, canon)
			sb.WriteByte('=')
			kv.V.canon(sb, canon)
		}
		sb.WriteByte('}')
	}
}

// ---------------------------------------------------------------------------------------------
// Encoder

// Append encodes v onto b, honouring v.Lead.
func Append(b []byte, v Value) []byte {
	switch v.Kind {
	case KNil:
		return append(b, 0xc0)
	case KBool:
		if v.Bool {
			return append(b, 0xc3)
		}
		return append(b, 0xc2)
	case KInt:
		return appendInt(b, v.Int, v.Lead)
	case KUint:
		return appendUint(b, v.Uint, v.Lead)
	case KF32:
		f := float32(v.F)
		if float64(f) != v.F && !math.IsNaN(v.F) {
			panic(fmt.Sprintf("codec: %v is not exactly a float32", v.F))
		}
		b = append(b, 0xca)
		return binary.BigEndian.AppendUint32(b, math.Float32bits(f))
	case KF64:
		b = append(b, 0xcb)
		return binary.BigEndian.AppendUint64(b, math.Float64bits(v.F))
	case KStr:
		return appendStr(b, v.S, v.Lead)
	case KBin:
		return appendBin(b, v.S, v.Lead)
	case KArr:
		b = AppendArrayHeader(b, len(v.Arr), v.Lead)
		for _, e := range v.Arr {
			b = Append(b, e)
		}
		return b
	case KMap:
		b = AppendMapHeader(b, len(v.Map), v.Lead)
		for _, kv := range v.Map {
			b = Append(b, kv.K)
			b = Append(b, kv.V)
		}
		return b
	case KTime:
		return appendTime(b, v.T, v.Lead)
	case KExt:
		return appendExt(b, v.ExtType, v.S)
	}
	panic("codec: bad kind")
}

// Encode is Append(nil, v).
func Encode(v Value) []byte { return Append(nil, v) }

func appendInt(b []byte, x int64, lead byte) []byte {
	if lead == 0 && x >= 0 {
		lead = PosFixInt
		switch {
		case x <= 127:
		case x <= math.MaxInt16:
			lead = Int16
		case x <= math.MaxInt32:
			lead = Int32
		default:
			lead = Int64
		}
	} else if lead == 0 {
		switch {
		case x >= -32:
			lead = NegFixInt
		case x >= math.MinInt8:
			lead = Int8
		case x >= math.MinInt16:
			lead = Int16
		case x >= math.MinInt32:
			lead = Int32
		default:
			lead = Int64
		}
	}
	switch lead {
	case PosFixInt:
		if x < 0 || x > 127 {
			panic("codec: posfixint range")
		}
		return append(b, byte(x))
	case NegFixInt:
		if x < -32 || x > -1 {
			panic("codec: negfixint range")
		}
		return append(b, byte(int8(x)))
	case Int8:
		if x < math.MinInt8 || x > math.MaxInt8 {
			panic("codec: int8 range")
		}
		return append(b, Int8, byte(int8(x)))
	case Int16:
		if x < math.MinInt16 || x > math.MaxInt16 {
			panic("codec: int16 range")
		}
		return binary.BigEndian.AppendUint16(append(b, Int16), uint16(int16(x)))
	case Int32:
		if x < math.MinInt32 || x > math.MaxInt32 {
			panic("codec: int32 range")
		}
		return binary.BigEndian.AppendUint32(append(b, Int32), uint32(int32(x)))
	case Int64:
		return binary.BigEndian.AppendUint64(append(b, Int64), uint64(x))
	}
	panic(fmt.Sprintf("codec: format %#x is not a signed integer format", lead))
}

func appendUint(b []byte, x uint64, lead byte) []byte {
	if lead == 0 {
		switch {
		case x <= math.MaxUint8:
			lead = Uint8
		case x <= math.MaxUint16:
			lead = Uint16
		case x <= math.MaxUint32:
			lead = Uint32
		default:
			lead = Uint64
		}
	}
	switch lead {
	case PosFixInt: // allowed: the ambiguous positive fixint
		if x > 127 {
			panic("codec: posfixint range")
		}
		return append(b, byte(x))
	case Uint8:
		if x > math.MaxUint8 {
			panic("codec: uint8 range")
		}
		return append(b, Uint8, byte(x))
	case Uint16:
		if x > math.MaxUint16 {
			panic("codec: uint16 range")
		}
		return binary.BigEndian.AppendUint16(append(b, Uint16), uint16(x))
	case Uint32:
		if x > math.MaxUint32 {
			panic("codec: uint32 range")
		}
		return binary.BigEndian.AppendUint32(append(b, Uint32), uint32(x))
	case Uint64:
		return binary.BigEndian.AppendUint64(append(b, Uint64), x)
	}
	panic(fmt.Sprintf("codec: format %#x is not an unsigned integer format", lead))
}

func appendStr(b []byte, s string, lead byte) []byte {
	n := len(s)
	if lead == 0 {
		switch {
		case n <= 31:
			lead = FixStr
		case n <= math.MaxUint8:
			lead = Str8
		case n <= math.MaxUint16:
			lead = Str16
		default:
			lead = Str32
		}
	}
	switch lead {
	case FixStr:
		if n > 31 {
			panic("codec: fixstr length")
		}
		b = append(b, 0xa0|byte(n))
	case Str8:
		if n > math.MaxUint8 {
			panic("codec: str8 length")
		}
		b = append(b, Str8, byte(n))
	case Str16:
		if n > math.MaxUint16 {
			panic("codec: str16 length")
		}
		b = binary.BigEndian.AppendUint16(append(b, Str16), uint16(n))
	case Str32:
		b = binary.BigEndian.AppendUint32(append(b, Str32), uint32(n))
	default:
		panic(fmt.Sprintf("codec: format %#x is not a str format", lead))
	}
	return append(b, s...)
}

func appendBin(b []byte, s string, lead byte) []byte {
	n := len(s)
	if lead == 0 {
		switch {
		case n <= math.MaxUint8:
			lead = Bin8
		case n <= math.MaxUint16:
			lead = Bin16
		default:
			lead = Bin32
		}
	}
	switch lead {
	case Bin8:
		if n > math.MaxUint8 {
			panic("codec: bin8 length")
		}
		b = append(b, Bin8, byte(n))
	case Bin16:
		if n > math.MaxUint16 {
			panic("codec: bin16 length")
		}
		b = binary.BigEndian.AppendUint16(append(b, Bin16), uint16(n))
	case Bin32:
		b = binary.BigEndian.AppendUint32(append(b, Bin32), uint32(n))
	default:
		panic(fmt.Sprintf("codec: format %#x is not a bin format", lead))
	}
	return append(b, s...)
}

// AppendArrayHeader writes an array header (lead 0 = smallest).
func AppendArrayHeader(b []byte, n int, lead byte) []byte {
	if lead == 0 {
		switch {
		case n <= 15:
			lead = FixArr
		case n <= math.MaxUint16:
			lead = Arr16
		default:
			lead = Arr32
		}
	}
	switch lead {
	case FixArr:
		if n > 15 {
			panic("codec: fixarray length")
		}
		return append(b, 0x90|byte(n))
	case Arr16:
		return binary.BigEndian.AppendUint16(append(b, Arr16), uint16(n))
	case Arr32:
		return binary.BigEndian.AppendUint32(append(b, Arr32), uint32(n))
	}
	panic(fmt.Sprintf("codec: format %#x is not an array format", lead))
}

// AppendMapHeader writes a map header (lead 0 = smallest).
func AppendMapHeader(b []byte, n int, lead byte) []byte {
	if lead == 0 {
		switch {
		case n <= 15:
			lead = FixMap
		case n <= math.MaxUint16:
			lead = Map16
		default:
			lead = Map32
		}
	}
	switch lead {
	case FixMap:
		if n > 15 {
			panic("codec: fixmap length")
		}
		return append(b, 0x80|byte(n))
	case Map16:
		return binary.BigEndian.AppendUint16(append(b, Map16), uint16(n))
	case Map32:
		return binary.BigEndian.AppendUint32(append(b, Map32), uint32(n))
	}
	panic(fmt.Sprintf("codec: format %#x is not a map format", lead))
}

func appendTime(b []byte, t time.Time, lead byte) []byte {
	sec, ns := t.Unix(), int64(t.Nanosecond())
	if lead == 0 {
		switch {
		case ns == 0 && sec >= 0 && sec <= math.MaxUint32:
			lead = TS32
		case sec >= 0 && sec < 1<<34:
			lead = TS64
		default:
			lead = TS96
		}
	}
	switch lead {
	case TS32:
		if ns != 0 || sec < 0 || sec > math.MaxUint32 {
			panic("codec: timestamp32 range")
		}
		return binary.BigEndian.AppendUint32(append(b, 0xd6, 0xff), uint32(sec))
	case TS64:
		if sec < 0 || sec >= 1<<34 {
			panic("codec: timestamp64 range")
		}
		return binary.BigEndian.AppendUint64(append(b, 0xd7, 0xff), uint64(ns)<<34|uint64(sec))
	case TS96:
		b = append(b, 0xc7, 12, 0xff)
		b = binary.BigEndian.AppendUint32(b, uint32(ns))
		return binary.BigEndian.AppendUint64(b, uint64(sec))
	}
	panic(fmt.Sprintf("codec: format %#x is not a timestamp format", lead))
}

func appendExt(b []byte, typ int8, data string) []byte {
	n := len(data)
	switch n {
	case 1:
		b = append(b, 0xd4)
	case 2:
		b = append(b, 0xd5)
	case 4:
		b = append(b, 0xd6)
	case 8:
		b = append(b, 0xd7)
	case 16:
		b = append(b, 0xd8)
	default:
		switch {
		case n <= math.MaxUint8:
			b = append(b, 0xc7, byte(n))
		case n <= math.MaxUint16:
			b = binary.BigEndian.AppendUint16(append(b, 0xc8), uint16(n))
		default:
			b = binary.BigEndian.AppendUint32(append(b, 0xc9), uint32(n))
		}
	}
	b = append(b, byte(typ))
	return append(b, data...)
}

// ---------------------------------------------------------------------------------------------
// Decoder

// Decode reads exactly one value from b and returns the rest.
func Decode(b []byte) (v Value, rest []byte, err error) {
	defer func() {
		if r := recover(); r != nil {
			err = fmt.Errorf("msgpack: truncated or malformed input (%v)", r)
		}
	}()
	v, rest = decode(b, 0)
	return v, rest, nil
}

// DecodeAll reads one value and requires that nothing follows it.
func DecodeAll(b []byte) (Value, error) {
	v, rest, err := Decode(b)
	if err != nil {
		return v, err
	}
	if len(rest) != 0 {
		return v, fmt.Errorf("msgpack: %d trailing bytes", len(rest))
	}
	return v, nil
}

func decode(b []byte, depth int) (Value, []byte) {
	if depth > 64 {
		panic("nesting too deep")
	}
	c := b[0]
	b = b[1:]
	take := func(n int) string {
		if n < 0 || n > len(b) {
			panic("short input")
		}
		s := string(b[:n])
		b = b[n:]
		return s
	}
	u8 := func() uint64 { x := b[0]; b = b[1:]; return uint64(x) }
	u16 := func() uint64 { x := binary.BigEndian.Uint16(b); b = b[2:]; return uint64(x) }
	u32 := func() uint64 { x := binary.BigEndian.Uint32(b); b = b[4:]; return uint64(x) }
	u64 := func() uint64 { x := binary.BigEndian.Uint64(b); b = b[8:]; return x }
	arr := func(n uint64, lead byte) (Value, []byte) {
		if n > uint64(len(b)) {
			panic("array length exceeds input")
		}
		v := Value{Kind: KArr, Lead: lead, Arr: make([]Value, 0, n)}
		for i := uint64(0); i < n; i++ {
			var e Value
			e, b = decode(b, depth+1)
			v.Arr = append(v.Arr, e)
		}
		return v, b
	}
	mp := func(n uint64, lead byte) (Value, []byte) {
		if n > uint64(len(b)) {
			panic("map length exceeds input")
		}
		v := Value{Kind: KMap, Lead: lead, Map: make([]KV, 0, n)}
		for i := uint64(0); i < n; i++ {
			var k, e Value
			k, b = decode(b, depth+1)
			e, b = decode(b, depth+1)
			v.Map = append(v.Map, KV{k, e})
		}
		return v, b
	}
	ext := func(n uint64, lead byte) (Value, []byte) {
		typ := int8(b[0])
		b = b[1:]
		data := take(int(n))
		if typ == -1 {
			d := []byte(data)
			switch n {
			case 4:
				return Value{Kind: KTime, Lead: lead, T: time.Unix(int64(binary.BigEndian.Uint32(d)), 0).UTC()}, b
			case 8:
				x := binary.BigEndian.Uint64(d)
				return Value{Kind: KTime, Lead: lead, T: time.Unix(int64(x&(1<<34-1)), int64(x>>34)).UTC()}, b
			case 12:
				return Value{Kind: KTime, Lead: lead, T: time.Unix(int64(binary.BigEndian.Uint64(d[4:])), int64(binary.BigEndian.Uint32(d))).UTC()}, b
			}
		}
		return Value{Kind: KExt, Lead: lead, ExtType: typ, S: data}, b
	}
	switch {
	case c <= 0x7f:
		return Value{Kind: KInt, Int: int64(c), Lead: PosFixInt}, b
	case c >= 0xe0:
		return Value{Kind: KInt, Int: int64(int8(c)), Lead: NegFixInt}, b
	case c >= 0xa0 && c <= 0xbf:
		return Value{Kind: KStr, S: take(int(c & 0x1f)), Lead: FixStr}, b
	case c >= 0x90 && c <= 0x9f:
		return arr(uint64(c&0x0f), FixArr)
	case c >= 0x80 && c <= 0x8f:
		return mp(uint64(c&0x0f), FixMap)
	}
	switch c {
	case 0xc0:
		return Value{Kind: KNil, Lead: c}, b
	case 0xc2:
		return Value{Kind: KBool, Lead: c}, b
	case 0xc3:
		return Value{Kind: KBool, Bool: true, Lead: c}, b
	case 0xc4:
		return Value{Kind: KBin, S: take(int(u8())), Lead: c}, b
	case 0xc5:
		return Value{Kind: KBin, S: take(int(u16())), Lead: c}, b
	case 0xc6:
		return Value{Kind: KBin, S: take(int(u32())), Lead: c}, b
	case 0xc7:
		return ext(u8(), c)
	case 0xc8:
		return ext(u16(), c)
	case 0xc9:
		return ext(u32(), c)
	case 0xca:
		return Value{Kind: KF32, F: float64(math.Float32frombits(uint32(u32()))), Lead: c}, b
	case 0xcb:
		return Value{Kind: KF64, F: math.Float64frombits(u64()), Lead: c}, b
	case 0xcc:
		return Value{Kind: KUint, Uint: u8(), Lead: c}, b
	case 0xcd:
		return Value{Kind: KUint, Uint: u16(), Lead: c}, b
	case 0xce:
		return Value{Kind: KUint, Uint: u32(), Lead: c}, b
	case 0xcf:
		return Value{Kind: KUint, Uint: u64(), Lead: c}, b
	case 0xd0:
		return Value{Kind: KInt, Int: int64(int8(u8())), Lead: c}, b
	case 0xd1:
		return Value{Kind: KInt, Int: int64(int16(u16())), Lead: c}, b
	case 0xd2:
		return Value{Kind: KInt, Int: int64(int32(u32())), Lead: c}, b
	case 0xd3:
		return Value{Kind: KInt, Int: int64(u64()), Lead: c}, b
	case 0xd4:
		return ext(1, c)
	case 0xd5:
		return ext(2, c)
	case 0xd6:
		return ext(4, c)
	case 0xd7:
		return ext(8, c)
	case 0xd8:
		return ext(16, c)
	case 0xd9:
		return Value{Kind: KStr, S: take(int(u8())), Lead: c}, b
	case 0xda:
		return Value{Kind: KStr, S: take(int(u16())), Lead: c}, b
	case 0xdb:
		return Value{Kind: KStr, S: take(int(u32())), Lead: c}, b
	case 0xdc:
		return arr(u16(), c)
	case 0xdd:
		return arr(u32(), c)
	case 0xde:
		return mp(u16(), c)
	case 0xdf:
		return mp(u32(), c)
	}
	panic(fmt.Sprintf("reserved format byte %#x", c))
}
