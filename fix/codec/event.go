package codec

import (
	"bytes"
	"compress/gzip"
	"encoding/json"
	"fmt"
	"math"
	"net/url"
	"strconv"
	"time"

	"github.com/klauspost/compress/zstd"
)

// Field is one payload field; fields keep their order (the order they are put on the wire).
type Field struct {
	Key    string
	KeyBin bool // msgpack only: send the key as bin instead of str
	Val    Value
}

// F is shorthand for a Field with a str key.
func F(key string, v Value) Field { return Field{Key: key, Val: v} }

// Event is one logical Honeycomb event as a client would send it.
type Event struct {
	// Time as text: an RFC 3339 time or an integer epoch. Used by the event-time header (single event)
	// and by the "time" member of JSON batches; also by msgpack batches when TimeVal is nil (sent as str).
	// "" = no time supplied.
	TimeText string
	// TimeVal, when non-nil, is what a msgpack batch carries under "time" (normally a codec.Time(...)).
	TimeVal *Value
	// SampleRate; 0 = not supplied (header / member omitted).
	SampleRate int64
	// SampleRateVal, when non-nil, overrides the msgpack encoding of "samplerate" (width/signedness).
	SampleRateVal *Value
	Data          []Field
}

// DataValue is the payload as a msgpack map value (wire order = field order).
func (e Event) DataValue() Value {
	m := Value{Kind: KMap}
	for _, f := range e.Data {
		k := Str(f.Key)
		if f.KeyBin {
			k = Bin(f.Key)
		}
		m.Map = append(m.Map, KV{k, f.Val})
	}
	return m
}

// Permute returns a copy of the event whose fields are reordered: out.Data[i] = e.Data[perm[i]].
func (e Event) Permute(perm []int) Event {
	out := e
	out.Data = make([]Field, len(perm))
	for i, p := range perm {
		out.Data[i] = e.Data[p]
	}
	return out
}

// ---------------------------------------------------------------------------------------------
// JSON

// AppendJSON renders v as JSON. Integers are rendered without fraction or exponent; floats in the
// shortest round-trip form (always with a '.' or exponent so they stay floats for typed readers only
// if forceFloatDot); bin is rendered as a JSON string (JSON has no bytes); time as RFC3339Nano string.
func AppendJSON(b []byte, v Value) []byte {
	switch v.Kind {
	case KNil:
		return append(b, "null"...)
	case KBool:
		return strconv.AppendBool(b, v.Bool)
	case KInt:
		return strconv.AppendInt(b, v.Int, 10)
	case KUint:
		return strconv.AppendUint(b, v.Uint, 10)
	case KF32, KF64:
		if math.IsNaN(v.F) || math.IsInf(v.F, 0) {
			return append(b, "null"...)
		}
		return strconv.AppendFloat(b, v.F, 'g', -1, 64)
	case KStr, KBin, KExt:
		q, _ := json.Marshal(v.S)
		return append(b, q...)
	case KTime:
		q, _ := json.Marshal(v.T.Format(time.RFC3339Nano))
		return append(b, q...)
	case KArr:
		b = append(b, '[')
		for i, e := range v.Arr {
			if i > 0 {
				b = append(b, ',')
			}
			b = AppendJSON(b, e)
		}
		return append(b, ']')
	case KMap:
		b = append(b, '{')
		for i, kv := range v.Map {
			if i > 0 {
				b = append(b, ',')
			}
			q, _ := json.Marshal(kv.K.S)
			b = append(b, q...)
			b = append(b, ':')
			b = AppendJSON(b, kv.V)
		}
		return append(b, '}')
	}
	panic("codec: bad kind")
}

// JSONObject renders the payload of e as one JSON object, members in field order.
func (e Event) JSONObject() []byte { return AppendJSON(nil, e.DataValue()) }

// JSONBatch renders `[{"time":…,"samplerate":…,"data":{…}},…]`. "time" is e.TimeText (omitted when "");
// "samplerate" omitted when 0.
func JSONBatch(evs ...Event) []byte {
	b := []byte{'['}
	for i, e := range evs {
		if i > 0 {
			b = append(b, ',')
		}
		b = append(b, '{')
		if e.TimeText != "" {
			q, _ := json.Marshal(e.TimeText)
			b = append(b, `"time":`...)
			b = append(b, q...)
			b = append(b, ',')
		}
		if e.SampleRate != 0 {
			b = append(b, `"samplerate":`...)
			b = strconv.AppendInt(b, e.SampleRate, 10)
			b = append(b, ',')
		}
		b = append(b, `"data":`...)
		b = append(b, e.JSONObject()...)
		b = append(b, '}')
	}
	return append(b, ']')
}

// ---------------------------------------------------------------------------------------------
// msgpack

// MsgpackBatch renders an array of {"time","samplerate","data"} maps. memberOrder (optional) is a
// permutation of "tsd" giving the order of the three members, default "tsd". Members that are not
// supplied (no time, samplerate 0) are omitted.
func MsgpackBatch(memberOrder string, evs ...Event) []byte {
	if memberOrder == "" {
		memberOrder = "tsd"
	}
	b := AppendArrayHeader(nil, len(evs), 0)
	for _, e := range evs {
		var kvs []KV
		for _, m := range memberOrder {
			switch m {
			case 't':
				if e.TimeVal != nil {
					kvs = append(kvs, E("time", *e.TimeVal))
				} else if e.TimeText != "" {
					kvs = append(kvs, E("time", Str(e.TimeText)))
				}
			case 's':
				if e.SampleRateVal != nil {
					kvs = append(kvs, E("samplerate", *e.SampleRateVal))
				} else if e.SampleRate != 0 {
					kvs = append(kvs, E("samplerate", Int(e.SampleRate)))
				}
			case 'd':
				kvs = append(kvs, E("data", e.DataValue()))
			default:
				panic("codec: memberOrder must be a permutation of \"tsd\"")
			}
		}
		b = Append(b, Map(kvs...))
	}
	return b
}

// MsgpackObject renders the payload of e as one msgpack map (body of a msgpack single-event request).
func (e Event) MsgpackObject() []byte { return Encode(e.DataValue()) }

// ---------------------------------------------------------------------------------------------
// Requests

// Request is an HTTP request to hand to pipeline.Node.Do.
type Request struct {
	Method string
	Path   string // already escaped
	Header map[string]string
	Body   []byte
}

func (r Request) With(header, value string) Request {
	h := map[string]string{}
	for k, v := range r.Header {
		h[k] = v
	}
	h[header] = value
	r.Header = h
	return r
}

// Compressed returns the request with its body compressed ("gzip" or "zstd") and Content-Encoding set.
func (r Request) Compressed(enc string) Request {
	switch enc {
	case "gzip":
		r.Body = Gzip(r.Body)
	case "zstd":
		r.Body = Zstd(r.Body)
	case "":
		return r
	default:
		panic("codec: unknown content encoding " + enc)
	}
	return r.With("Content-Encoding", enc)
}

const (
	CTJSON    = "application/json"
	CTMsgpack = "application/msgpack"
	CTProto   = "application/protobuf"
)

// SingleEvent builds POST /1/events/{dataset}: time and sample rate travel in headers, the body is the
// payload object in the given content type (CTJSON or CTMsgpack).
func SingleEvent(dataset, apiKey, contentType string, e Event) Request {
	h := map[string]string{"Content-Type": contentType}
	if apiKey != "" {
		h["X-Honeycomb-Team"] = apiKey
	}
	if e.TimeText != "" {
		h["X-Honeycomb-Event-Time"] = e.TimeText
	}
	if e.SampleRate != 0 {
		h["X-Honeycomb-Samplerate"] = strconv.FormatInt(e.SampleRate, 10)
	}
	r := Request{Method: "POST", Path: "/1/events/" + url.PathEscape(dataset), Header: h}
	switch contentType {
	case CTJSON:
		r.Body = e.JSONObject()
	case CTMsgpack:
		r.Body = e.MsgpackObject()
	default:
		panic("codec: SingleEvent content type")
	}
	return r
}

// Batch builds POST /1/batch/{dataset} in CTJSON or CTMsgpack.
func Batch(dataset, apiKey, contentType string, evs ...Event) Request {
	h := map[string]string{"Content-Type": contentType}
	if apiKey != "" {
		h["X-Honeycomb-Team"] = apiKey
	}
	r := Request{Method: "POST", Path: "/1/batch/" + url.PathEscape(dataset), Header: h}
	switch contentType {
	case CTJSON:
		r.Body = JSONBatch(evs...)
	case CTMsgpack:
		r.Body = MsgpackBatch("", evs...)
	default:
		panic("codec: Batch content type")
	}
	return r
}

// Gzip / Zstd compress a body.
func Gzip(b []byte) []byte {
	var buf bytes.Buffer
	w := gzip.NewWriter(&buf)
	w.Write(b)
	w.Close()
	return buf.Bytes()
}

var zenc, _ = zstd.NewWriter(nil, zstd.WithEncoderConcurrency(1))
var zdec, _ = zstd.NewReader(nil, zstd.WithDecoderConcurrency(0))

func Zstd(b []byte) []byte { return zenc.EncodeAll(b, nil) }

// Decompress undoes a Content-Encoding ("", "identity", "gzip", "zstd").
func Decompress(enc string, b []byte) ([]byte, error) {
	switch enc {
	case "", "identity":
		return b, nil
	case "gzip":
		r, err := gzip.NewReader(bytes.NewReader(b))
		if err != nil {
			return nil, err
		}
		var out bytes.Buffer
		if _, err := out.ReadFrom(r); err != nil {
			return nil, err
		}
		return out.Bytes(), nil
	case "zstd":
		return zdec.DecodeAll(b, nil)
	}
	return nil, fmt.Errorf("unknown content encoding %q", enc)
}

// ---------------------------------------------------------------------------------------------
// Epoch / RFC 3339 text forms of an instant (for C22-style checks)

// EpochText renders t as an integer Unix epoch with the given total number of digits
// (10 = seconds, 13 = ms, 16 = µs, 19 = ns). ok=false if t is not exactly representable in that
// resolution or its seconds do not have exactly ten digits.
func EpochText(t time.Time, digits int) (string, bool) {
	sec := t.Unix()
	if sec < 1_000_000_000 || sec > 9_999_999_999 || digits < 10 || digits > 19 {
		return "", false
	}
	fracDigits := digits - 10
	div := int64(1)
	for i := 0; i < 9-fracDigits; i++ {
		div *= 10
	}
	ns := int64(t.Nanosecond())
	if ns%div != 0 {
		return "", false
	}
	s := strconv.FormatInt(sec, 10)
	if fracDigits > 0 {
		s += fmt.Sprintf("%0*d", fracDigits, ns/div)
	}
	return s, true
}

// RFC3339Text renders t with exactly fracDigits fractional digits (0–9) in the given zone;
// ok=false if t is not exactly representable with that many digits.
func RFC3339Text(t time.Time, fracDigits int, loc *time.Location) (string, bool) {
	div := int64(1)
	for i := 0; i < 9-fracDigits; i++ {
		div *= 10
	}
	if int64(t.Nanosecond())%div != 0 {
		return "", false
	}
	layout := "2006-01-02T15:04:05"
	if fracDigits > 0 {
		layout += "." + "000000000"[:fracDigits]
	}
	layout += "Z07:00"
	return t.In(loc).Format(layout), true
}
