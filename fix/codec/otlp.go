package codec

import (
	"time"

	collectorlogs "go.opentelemetry.io/proto/otlp/collector/logs/v1"
	collectortrace "go.opentelemetry.io/proto/otlp/collector/trace/v1"
	common "go.opentelemetry.io/proto/otlp/common/v1"
	logs "go.opentelemetry.io/proto/otlp/logs/v1"
	resource "go.opentelemetry.io/proto/otlp/resource/v1"
	trace "go.opentelemetry.io/proto/otlp/trace/v1"
	"google.golang.org/protobuf/encoding/protojson"
	"google.golang.org/protobuf/proto"
)

// OTLPSpan is one span of an OTLP trace export (the client's protobuf library builds the bytes; that
// library is the client side of the wire, not code under test).
type OTLPSpan struct {
	TraceID      []byte // 16 bytes (8 allowed by husky); nil = none
	SpanID       []byte // 8 bytes
	ParentSpanID []byte // nil/empty = root
	Name         string
	Start, End   time.Time
	Attrs        []Field // str / int / f64 / bool values (others are rendered as strings)
}

// OTLPLog is one log record of an OTLP logs export.
type OTLPLog struct {
	TraceID []byte
	SpanID  []byte
	Time    time.Time
	Body    string
	Attrs   []Field
}

func otlpAttrs(fs []Field) []*common.KeyValue {
	var out []*common.KeyValue
	for _, f := range fs {
		av := &common.AnyValue{}
		switch f.Val.Kind {
		case KInt:
			av.Value = &common.AnyValue_IntValue{IntValue: f.Val.Int}
		case KUint:
			av.Value = &common.AnyValue_IntValue{IntValue: int64(f.Val.Uint)}
		case KF32, KF64:
			av.Value = &common.AnyValue_DoubleValue{DoubleValue: f.Val.F}
		case KBool:
			av.Value = &common.AnyValue_BoolValue{BoolValue: f.Val.Bool}
		case KBin:
			av.Value = &common.AnyValue_BytesValue{BytesValue: []byte(f.Val.S)}
		default:
			av.Value = &common.AnyValue_StringValue{StringValue: f.Val.S}
		}
		out = append(out, &common.KeyValue{Key: f.Key, Value: av})
	}
	return out
}

func nanos(t time.Time) uint64 {
	if t.IsZero() {
		return 0
	}
	return uint64(t.UnixNano())
}

// OTLPTraceMessage builds the export request message (resourceAttrs e.g. service.name).
func OTLPTraceMessage(resourceAttrs []Field, spans ...OTLPSpan) *collectortrace.ExportTraceServiceRequest {
	var ss []*trace.Span
	for _, s := range spans {
		ss = append(ss, &trace.Span{TraceId: s.TraceID, SpanId: s.SpanID, ParentSpanId: s.ParentSpanID, Name: s.Name,
			StartTimeUnixNano: nanos(s.Start), EndTimeUnixNano: nanos(s.End), Attributes: otlpAttrs(s.Attrs)})
	}
	return &collectortrace.ExportTraceServiceRequest{ResourceSpans: []*trace.ResourceSpans{{
		Resource:   &resource.Resource{Attributes: otlpAttrs(resourceAttrs)},
		ScopeSpans: []*trace.ScopeSpans{{Spans: ss}},
	}}}
}

// OTLPLogsMessage builds the logs export request message.
func OTLPLogsMessage(resourceAttrs []Field, recs ...OTLPLog) *collectorlogs.ExportLogsServiceRequest {
	var ls []*logs.LogRecord
	for _, l := range recs {
		ls = append(ls, &logs.LogRecord{TraceId: l.TraceID, SpanId: l.SpanID, TimeUnixNano: nanos(l.Time),
			Body:       &common.AnyValue{Value: &common.AnyValue_StringValue{StringValue: l.Body}},
			Attributes: otlpAttrs(l.Attrs)})
	}
	return &collectorlogs.ExportLogsServiceRequest{ResourceLogs: []*logs.ResourceLogs{{
		Resource:  &resource.Resource{Attributes: otlpAttrs(resourceAttrs)},
		ScopeLogs: []*logs.ScopeLogs{{LogRecords: ls}},
	}}}
}

// OTLPProto / OTLPJSON serialise an export message.
func OTLPProto(m proto.Message) []byte {
	b, err := proto.Marshal(m)
	if err != nil {
		panic(err)
	}
	return b
}

func OTLPJSON(m proto.Message) []byte {
	b, err := protojson.Marshal(m)
	if err != nil {
		panic(err)
	}
	return b
}

// OTLPHTTP builds POST /v1/traces or /v1/logs. contentType: CTProto or CTJSON. dataset "" = no dataset header.
func OTLPHTTP(path, apiKey, dataset, contentType string, m proto.Message) Request {
	h := map[string]string{"Content-Type": contentType}
	if apiKey != "" {
		h["X-Honeycomb-Team"] = apiKey
	}
	if dataset != "" {
		h["X-Honeycomb-Dataset"] = dataset
	}
	r := Request{Method: "POST", Path: path, Header: h}
	if contentType == CTJSON {
		r.Body = OTLPJSON(m)
	} else {
		r.Body = OTLPProto(m)
	}
	return r
}
