// Package cx is the shared explicit-state exploration of the collector's event handlers used by
// C01 and C02 (and reusable for C05): event alphabet, replay on a fresh fix/collector fixture, an
// *observer* that attributes every buffered span, decision and transmission to a trace incarnation, the
// quiescence closure (bounded liveness), canonical state keys, and loop conformance.
//
// The observer does not predict WHEN a trace is decided (that is C03's subject): it reads the moment
// off the real trace buffer (a trace leaving the buffer = decided in that handler call) and the decision
// off the real decision cache, and then holds the implementation to what the statements say must
// follow from a decision: all-or-none forwarding, late spans obeying a remembered decision, exactly-once
// transmission, nothing forwarded for undecided or dropped traces, eventual decision.
package cx

import (
	"encoding/json"
	"fmt"
	"sort"
	"strings"
	"sync"
	"time"

	"github.com/honeycombio/refinery/config"
	"github.com/honeycombio/refinery/logger"
	"github.com/honeycombio/refinery/metrics"
	"github.com/honeycombio/refinery/sample"
	"github.com/honeycombio/refinery/types"

	"verif/engine/ev"
	"verif/engine/seqx"
	fx "verif/fix/collector"
)

// Ev is one event of a history.
type Ev struct {
	Op string        `json:"op"`          // span | tick | adv | eject | reload | send | maintain
	T  int           `json:"t,omitempty"` // span: trace index into Scenario.IDs
	K  fx.Kind       `json:"k,omitempty"` // span: kind
	M  bool          `json:"m,omitempty"` // span: carries the marker field "d" (content-sensitive rules)
	W  int           `json:"w,omitempty"` // tick/eject/maintain: worker
	D  time.Duration `json:"d,omitempty"` // adv
	B  int           `json:"b,omitempty"` // eject: bytes (0 = only the heaviest trace, -1 = everything)
}

func (e Ev) String() string {
	switch e.Op {
	case "span":
		m := ""
		if e.M {
			m = "*"
		}
		return fmt.Sprintf("span(%d,%s%s)", e.T, e.K, m)
	case "tick", "maintain":
		return fmt.Sprintf("%s(w%d)", e.Op, e.W)
	case "adv":
		return "adv(" + e.D.String() + ")"
	case "eject":
		return fmt.Sprintf("eject(w%d,%d)", e.W, e.B)
	}
	return e.Op
}

func HistString(h []Ev) string {
	var p []string
	for _, e := range h {
		p = append(p, e.String())
	}
	return strings.Join(p, " ")
}

// Scenario fixes the alphabet and configuration of one exploration.
type Scenario struct {
	Name          string
	Workers       int
	IDs           []string     // trace IDs (worker placement / sampler verdicts are chosen by the caller)
	Kinds         []fx.Kind    // span kinds in the alphabet
	Marked        bool         // also offer child spans carrying the marker field "d"
	Samplers      []func() any // sampler configs; `reload` switches to the next one (cyclically)
	DryRun        bool
	KeptPerWorker uint // capacity of the kept-decision LRU per worker
	Traces        config.TracesConfig
	Advances      []time.Duration
	EjectBytes    []int
	Maintain      bool
	LoopTick      time.Duration // loop conformance: SendTicker period = one "advtick" (default SendDelay)
	LoopNoEject   bool

	Depth            int
	MaxSpansPerTrace int
	MaxAdv           int
	MaxReloads       int
	MaxStates        int
	NoMergeDepth     int // seqx: every history of length <= NoMergeDepth+1 is executed whatever the canonical key says

	hints sync.Map // history key -> *hint
}

type hint struct {
	out     int
	buf     []int
	spans   []int
	adv     int
	reloads int
}

// Finding is one oracle failure; Class starts with the property it belongs to ("c01:" / "c02:").
type Finding struct {
	Class string
	What  string
}

type spanRec struct {
	id    string
	trace string
	spec  fx.SpanSpec
	inc   *inc
	late  bool
	fwd   int
	step  int
}

type inc struct {
	trace     string
	n         int
	worker    int
	spans     []*spanRec // accepted into the buffer
	late      []*spanRec // accepted after the decision
	decided   bool
	keep      bool
	by        string // event kind that decided it
	others    map[string]bool
	reloads   int // reloads seen after the decision
	decidedAt int
}

func (i *inc) all() []*spanRec { return append(append([]*spanRec{}, i.spans...), i.late...) }

// Run is one execution of a history on a fresh fixture.
type Run struct {
	S        *Scenario
	F        *fx.Fixture
	cfg      int
	spans    map[string]*spanRec
	incs     map[string][]*inc
	nspan    map[string]int
	txSeen   int
	step     int
	nadv     int
	nreload  int
	Findings []Finding
	closing  bool
	ties     int
	flags    map[string]bool // outcome flags
}

func (s *Scenario) options(loop bool) fx.Options {
	return fx.Options{
		Workers: s.Workers, Traces: s.Traces, Sampler: s.Samplers[0], DryRun: s.DryRun,
		KeptSize: s.KeptPerWorker * uint(s.Workers), Loop: loop, AddRuleReasonToTrace: true,
	}
}

// padding makes DataSize differ per trace so that the heaviest-first ejection order is never a tie.
var pads = []int{1000, 2003, 4007, 8009}

func (s *Scenario) spec(r *Run, e Ev) fx.SpanSpec {
	id := s.IDs[e.T]
	r.nspan[id]++
	sp := fx.SpanSpec{TraceID: id, Kind: e.K, ID: fmt.Sprintf("%s.%d", id, r.nspan[id]),
		Fields: map[string]any{"pad": strings.Repeat("x", pads[e.T%len(pads)])}}
	if e.M {
		sp.Fields["d"] = int64(1)
	}
	return sp
}

func (r *Run) add(class, format string, a ...any) {
	what := fmt.Sprintf(format, a...)
	if r.closing {
		what += " (during the quiescence closure: advance past every deadline, tick every worker, run the sender)"
	}
	r.Findings = append(r.Findings, Finding{class, fmt.Sprintf("step %d: %s", r.step, what)})
}

// buffered = the UNDECIDED traces of the real buffers. A trace object that is still referenced by the
// buffer but already carries Sent=true has been decided and handed over; whether the buffer entry is
// released in the same handler call is C07's subject, not a forwarding question, so it is not counted here.
func (r *Run) buffered() map[string]fx.TraceView {
	m := map[string]fx.TraceView{}
	for _, v := range r.F.BufferedAll() {
		if !v.Sent {
			m[v.TraceID] = v
		}
	}
	return m
}

func (r *Run) undecided() []fx.TraceView {
	var out []fx.TraceView
	for _, v := range r.F.BufferedAll() {
		if !v.Sent {
			out = append(out, v)
		}
	}
	return out
}

func (r *Run) open(id string) *inc {
	l := r.incs[id]
	if len(l) > 0 && !l[len(l)-1].decided {
		return l[len(l)-1]
	}
	return nil
}

func (r *Run) last(id string) *inc {
	l := r.incs[id]
	if len(l) > 0 {
		return l[len(l)-1]
	}
	return nil
}

// mustRemember: the statement's proviso. A dropped decision is remembered for as long as the process
// runs within these bounds (drop IDs are flushed into the cuckoo filter at the end of every handler call
// and the filter, capacity ≥ 2000, never rotates with ≤ 4 IDs). A kept decision must be remembered while
// fewer than KeptPerWorker OTHER traces of the same worker have been recorded as kept since: an LRU of
// that capacity cannot have evicted it, whatever the recency updates were. Beyond that either is accepted.
func (r *Run) mustRemember(i *inc) bool {
	if !i.keep {
		return true
	}
	return uint(len(i.others)) < r.S.KeptPerWorker
}

// reference verdict of the (trusted) sampler for an incarnation under the active sampler config.
func (r *Run) verdict(i *inc) (keep bool, ok bool) {
	mc := &config.MockConfig{GetSamplerTypeVal: r.S.Samplers[r.cfg]()}
	fac := &sample.SamplerFactory{Config: mc, Metrics: &metrics.NullMetrics{}, Logger: &logger.NullLogger{}}
	fac.Start()
	defer fac.Stop()
	smp := fac.GetSamplerImplementationForKey("ds")
	switch smp.(type) {
	case *sample.DeterministicSampler, *sample.RulesBasedSampler:
	default:
		return false, false
	}
	t := &types.Trace{TraceID: i.trace, Dataset: "ds", APIKey: fx.LegacyAPIKey}
	for _, s := range i.spans {
		c := r.F.MakeSpan(s.spec)
		t.AddSpan(c)
		if c.IsRoot {
			t.RootSpan = c
		}
	}
	_, keep, _, _ = smp.GetSampleRate(t)
	return keep, true
}

// Step applies one event and runs the observer.
func (r *Run) Step(e Ev) {
	r.step++
	b0 := r.buffered()
	q0 := map[*types.Trace]bool{}
	for _, o := range r.F.Outgoing() {
		q0[o.Ptr] = true
	}
	var rec *spanRec
	switch e.Op {
	case "span":
		spec := r.S.spec(r, e)
		rec = &spanRec{id: spec.ID, trace: spec.TraceID, spec: spec, step: r.step}
		r.spans[rec.id] = rec
		r.F.Span(spec)
	case "tick":
		r.F.Tick(e.W)
	case "adv":
		r.nadv++
		r.F.Advance(e.D)
	case "eject":
		// tie detection (ejection order among equal CacheImpact is runtime-random; sizes are chosen so that none occurs)
		vs := r.F.Buffered(e.W)
		seen := map[int]bool{}
		for _, v := range vs {
			if seen[v.DataSize] {
				r.ties++
			}
			seen[v.DataSize] = true
		}
		b := e.B
		if b < 0 {
			b = 1 << 40
		}
		r.F.Eject(e.W, b)
	case "reload":
		r.nreload++
		r.cfg = (r.cfg + 1) % len(r.S.Samplers)
		next := r.S.Samplers[r.cfg]()
		r.F.Reload(func(m *config.MockConfig) { m.GetSamplerTypeVal = next })
		for _, l := range r.incs {
			for _, i := range l {
				if i.decided {
					i.reloads++
				}
			}
		}
	case "send":
		r.F.SendStep()
	case "maintain":
		r.F.Maintain(e.W)
	default:
		panic("cx: unknown event " + e.Op)
	}
	r.observe(e, b0, q0, rec)
}

func (r *Run) observe(e Ev, b0 map[string]fx.TraceView, q0 map[*types.Trace]bool, rec *spanRec) {
	b1 := r.buffered()
	newTx := r.F.Tx.Log(r.txSeen)
	r.txSeen += len(newTx)
	dry := r.S.DryRun

	// 1. traces that left the buffer in this handler call were decided by it
	var left []string
	for id := range b0 {
		if _, still := b1[id]; !still {
			left = append(left, id)
		}
	}
	sort.Strings(left)
	queued := map[string]fx.OutView{} // traces put on the outgoing queue by this call
	for _, o := range r.F.Outgoing() {
		if !q0[o.Ptr] {
			queued[o.TraceID] = o
		}
	}
	var keptNow []*inc
	for _, id := range left {
		i := r.open(id)
		if i == nil {
			r.add("c02:buffer-mismatch", "trace %s left the buffer but the observer has no undecided incarnation of it", id)
			continue
		}
		w := r.F.WorkerFor(id)
		if !((e.Op == "tick" || e.Op == "eject") && e.W == w) {
			r.add("c02:left-buffer-unexpectedly", "trace %s left worker %d's buffer during %v, which is neither a send tick nor an ejection of that worker", id, w, e)
		}
		// The decision is read off the decision cache; a kept record may already have been pushed out of a
		// tiny kept LRU by another trace decided in the same call, so the outgoing queue is consulted first.
		d := r.F.Remembered(id)
		o, isQueued := queued[id]
		var keep bool
		switch {
		case d.Kept && d.Dropped():
			r.add("c01:two-decisions:"+e.Op, "trace %s is recorded both as kept and as dropped after %v", id, e)
			continue
		case isQueued && o.ShouldSend && !d.Dropped():
			keep = true
		case d.Dropped():
			keep = false
		case d.Kept:
			keep = true
		default:
			r.add("c02:left-buffer-undecided:"+e.Op, "trace %s (%d spans) left the buffer during %v without any decision being recorded", id, len(i.spans), e)
			i.decided, i.keep, i.by, i.decidedAt = true, false, e.Op, r.step
			i.others = map[string]bool{}
			continue
		}
		i.decided, i.keep, i.by, i.decidedAt = true, keep, e.Op, r.step
		i.others = map[string]bool{}
		i.worker = w
		if want, ok := r.verdict(i); ok && want != i.keep {
			r.add("c01:decision-differs-from-sampler:"+e.Op, "trace %s decided keep=%v by %v but the configured sampler, given the %d spans accepted so far, says keep=%v",
				id, i.keep, e, len(i.spans), want)
		}
		if i.keep {
			keptNow = append(keptNow, i)
			r.flags["kept"] = true
		} else {
			r.flags["dropped"] = true
		}
	}
	// every kept decision of this call counts against the kept capacity of every other kept trace of the
	// same worker, including those decided in the same call (their relative order is not observed)
	for _, i := range keptNow {
		for oid, l := range r.incs {
			if oid == i.trace {
				continue
			}
			for _, o := range l {
				if o.decided && o.keep && o.worker == i.worker {
					o.others[i.trace] = true
				}
			}
		}
	}

	// 2. the delivered span
	if rec != nil {
		id := rec.trace
		_, was := b0[id]
		_, is := b1[id]
		switch {
		case was:
			i := r.open(id)
			if i == nil {
				r.add("c02:buffer-mismatch", "span %s joined buffered trace %s of which the observer has no undecided incarnation", rec.id, id)
			} else {
				rec.inc = i
				i.spans = append(i.spans, rec)
			}
			if !is {
				r.add("c02:left-buffer-unexpectedly", "delivering span %s removed trace %s from the buffer", rec.id, id)
			}
		case is:
			cur := r.last(id)
			if cur != nil && cur.decided {
				if r.mustRemember(cur) {
					r.add(fmt.Sprintf("c01:decision-forgotten:%s:by-%s%s", kd(cur.keep), cur.by, rl(cur.reloads)),
						"span %s of trace %s arrived after the trace was decided (%s at step %d, %d other kept traces since, kept capacity %d) but started a new trace instead of obeying the decision",
						rec.id, id, kd(cur.keep), cur.decidedAt, len(cur.others), r.S.KeptPerWorker)
				} else {
					r.flags["aged-out"] = true
				}
			}
			ni := &inc{trace: id, n: len(r.incs[id]) + 1, worker: r.F.WorkerFor(id), spans: []*spanRec{rec}}
			rec.inc = ni
			r.incs[id] = append(r.incs[id], ni)
		default:
			cur := r.last(id)
			if cur == nil || !cur.decided {
				r.add("c02:span-vanished", "span %s of never-decided trace %s was neither buffered nor forwarded-by-decision (sent cache says %+v)", rec.id, id, r.F.Remembered(id))
			} else {
				rec.inc, rec.late = cur, true
				cur.late = append(cur.late, rec)
				if cur.keep {
					// the look-up CONSULTED the kept record: it is now the most recent one of its worker ("most recently
					// recorded or consulted"), i.e. it counts against the capacity of every other kept record, and
					// nothing counts against it any more
					cur.others = map[string]bool{}
					for oid, l := range r.incs {
						if oid == id {
							continue
						}
						for _, o := range l {
							if o.decided && o.keep && o.worker == cur.worker {
								o.others[id] = true
							}
						}
					}
				}
				n := 0
				for _, s := range newTx {
					if s.SpanID == rec.id {
						n++
					}
				}
				want := cur.keep || dry
				if want && n == 0 {
					r.add(fmt.Sprintf("c01:late-span-contradicts-decision:kept-not-forwarded:by-%s%s", cur.by, rl(cur.reloads)),
						"late span %s of KEPT trace %s (decided at step %d) was not forwarded", rec.id, id, cur.decidedAt)
				}
				if !want && n > 0 {
					r.add(fmt.Sprintf("c01:late-span-contradicts-decision:dropped-forwarded:by-%s%s", cur.by, rl(cur.reloads)),
						"late span %s of DROPPED trace %s (decided at step %d) was forwarded", rec.id, id, cur.decidedAt)
				}
				r.flags["late-"+kd(cur.keep)] = true
			}
		}
	}

	// 3. transmissions
	for _, s := range newTx {
		sr := r.spans[s.SpanID]
		if sr == nil || sr.trace != s.TraceID {
			r.add("c02:invented-span", "transmission of span %q / trace %q which was never accepted as such", s.SpanID, s.TraceID)
			continue
		}
		sr.fwd++
		if sr.fwd > 1 {
			r.add("c02:duplicate-forward:"+e.Op, "span %s of trace %s handed to transmission %d times (latest during %v)", sr.id, sr.trace, sr.fwd, e)
		}
		switch {
		case sr.inc == nil || !sr.inc.decided:
			r.add("c02:forwarded-undecided:"+e.Op, "span %s of trace %s transmitted while its trace is undecided", sr.id, sr.trace)
		case !sr.inc.keep && !dry:
			r.add("c02:dropped-forwarded:"+e.Op, "span %s of DROPPED trace %s transmitted during %v", sr.id, sr.trace, e)
		}
	}

	// 4. buffer content = spans accepted into the undecided incarnation
	var ids []string
	for id := range b1 {
		ids = append(ids, id)
	}
	sort.Strings(ids)
	for _, id := range ids {
		i := r.open(id)
		if i == nil {
			if len(r.Findings) == 0 {
				r.add("c02:buffer-mismatch", "trace %s is buffered but the observer has no undecided incarnation", id)
			}
			continue
		}
		var want []string
		for _, s := range i.spans {
			want = append(want, s.id)
		}
		got := append([]string{}, b1[id].Spans...)
		sort.Strings(want)
		sort.Strings(got)
		if strings.Join(want, ",") != strings.Join(got, ",") {
			r.add("c02:buffer-mismatch", "buffered trace %s holds spans %v, accepted were %v", id, got, want)
		}
	}
}

func kd(keep bool) string {
	if keep {
		return "kept"
	}
	return "dropped"
}
func rl(n int) string {
	if n > 0 {
		return ":after-reload"
	}
	return ""
}

// Close runs the quiescence closure and the end-of-run oracle, then releases the fixture.
func (r *Run) Close() {
	defer r.F.Close()
	r.closing = true
	flush := time.Duration(r.S.Traces.TraceTimeout)
	if flush == 0 {
		flush = 60 * time.Second
	}
	flush += 5 * time.Second
	r.Step(Ev{Op: "adv", D: flush})
	rounds := 2
	if m := int(r.S.Traces.MaxExpiredTraces); m > 0 {
		rounds += len(r.S.IDs)/m + 1
	}
	for k := 0; k < rounds && len(r.undecided()) > 0; k++ {
		for w := 0; w < r.S.Workers; w++ {
			r.Step(Ev{Op: "tick", W: w})
		}
	}
	for k := 0; k < 4*len(r.S.IDs)+4 && len(r.F.Outgoing()) > 0; k++ {
		r.Step(Ev{Op: "send"})
	}
	for _, v := range r.undecided() {
		r.add("c02:never-decided", "trace %s (%d spans) is still undecided %v after its last deadline and %d send ticks of its worker", v.TraceID, len(v.Spans), flush, rounds)
	}
	if n := len(r.F.Outgoing()); n > 0 {
		r.add("c02:outgoing-stuck", "%d decided traces still wait for the sender", n)
	}
	var ids []string
	for id := range r.incs {
		ids = append(ids, id)
	}
	sort.Strings(ids)
	for _, id := range ids {
		for _, i := range r.incs[id] {
			all := i.all()
			nf := 0
			for _, s := range all {
				if s.fwd > 0 {
					nf++
				}
				if i.decided && (i.keep || r.S.DryRun) && s.fwd == 0 {
					r.add("c02:kept-span-lost:by-"+i.by+lateTag(s.late), "span %s of KEPT trace %s (decided by %s) was never handed to transmission", s.id, id, i.by)
				}
			}
			if nf > 0 && nf < len(all) {
				r.add("c01:partial-trace:by-"+i.by, "trace %s (decided %s by %s): %d of its %d accepted spans were forwarded", id, kd(i.keep), i.by, nf, len(all))
			}
		}
	}
	if m := r.F.Tx.Mutated(); len(m) > 0 {
		r.flags["mutated-after-enqueue"] = true
	}
}

func lateTag(b bool) string {
	if b {
		return ":late"
	}
	return ""
}

// canon: see the argument in props/c01/main.go (merged states have identical futures).
func (r *Run) canon() string {
	now := r.F.Now()
	var b strings.Builder
	fmt.Fprintf(&b, "cfg%d|", r.cfg)
	for w := 0; w < r.S.Workers; w++ {
		fmt.Fprintf(&b, "W%d[", w)
		for _, v := range r.F.Buffered(w) {
			ks := make([]string, len(v.Kinds))
			for k, kk := range v.Kinds {
				ks[k] = kk.String()
				if sr := r.spans[v.Spans[k]]; sr != nil && sr.spec.Fields["d"] != nil {
					ks[k] += "*"
				}
			}
			sort.Strings(ks)
			off := v.SendBy.Sub(now)
			if off < 0 && r.S.Traces.MaxExpiredTraces == 0 {
				off = -1
			}
			fmt.Fprintf(&b, "%s:%s:%v:%d;", v.TraceID, strings.Join(ks, ""), v.HasRoot, off)
		}
		c := r.F.Sent[w]
		fmt.Fprintf(&b, "]K%v", c.KeptKeys())
		rd := c.RecentDropped()
		var rk []string
		for k := range rd {
			rk = append(rk, k)
		}
		sort.Strings(rk)
		for _, k := range rk {
			off := rd[k].Sub(now)
			if off < 0 {
				off = -1
			}
			fmt.Fprintf(&b, "R%s:%d", k, off)
		}
		for _, id := range r.S.IDs {
			if c.InDroppedFilter(id) {
				b.WriteString("F" + id)
			}
		}
		fmt.Fprintf(&b, "P%d S%v|", c.PendingDropped(), r.F.Coll.VerifCachedSamplers(w))
	}
	b.WriteString("Q")
	for _, o := range r.F.Outgoing() {
		fmt.Fprintf(&b, "%s:%d,", o.TraceID, len(o.Spans))
	}
	b.WriteString("|M")
	for _, id := range r.S.IDs {
		fmt.Fprintf(&b, "%s#%d", id, r.nspan[id])
		for _, i := range r.incs[id] {
			fw := ""
			for _, s := range i.all() {
				fw += fmt.Sprint(s.fwd)
			}
			no := len(i.others)
			if uint(no) > r.S.KeptPerWorker {
				no = int(r.S.KeptPerWorker)
			}
			fmt.Fprintf(&b, "(%v%v,%d+%d,%s,o%d,r%v)", i.decided, i.keep, len(i.spans), len(i.late), fw, no, i.reloads > 0)
		}
	}
	fmt.Fprintf(&b, "|a%d r%d", r.nadv, r.nreload)
	return b.String()
}

func (r *Run) outcome() string {
	var p []string
	for _, id := range r.S.IDs {
		s := id + ":"
		for _, i := range r.incs[id] {
			if !i.decided {
				s += "u"
			} else {
				s += kd(i.keep)[:1] + "/" + i.by[:1]
			}
			if len(i.late) > 0 {
				s += "+L"
			}
			s += " "
		}
		p = append(p, s)
	}
	var fl []string
	for f := range r.flags {
		fl = append(fl, f)
	}
	sort.Strings(fl)
	return strings.Join(p, "|") + strings.Join(fl, ",")
}

// NewRun builds a fresh fixture and observer.
func (s *Scenario) NewRun() *Run {
	return &Run{S: s, F: fx.New(s.options(false)), spans: map[string]*spanRec{}, incs: map[string][]*inc{}, nspan: map[string]int{}, flags: map[string]bool{}}
}

func key(h []Ev) string { b, _ := json.Marshal(h); return string(b) }

// Exec replays h, evaluates the oracle after every event and after the quiescence closure.
// prefix selects the property ("c01:" or "c02:"): findings of the other property are counted, not reported.
func (s *Scenario) Exec(r *ev.Run, prefix string, h []Ev) (string, string, *seqx.Failure) {
	run := s.NewRun()
	for _, e := range h {
		run.Step(e)
	}
	canon := run.canon()
	hn := &hint{out: len(run.F.Outgoing()), adv: run.nadv, reloads: run.nreload}
	for w := 0; w < s.Workers; w++ {
		hn.buf = append(hn.buf, len(run.F.Buffered(w)))
	}
	for _, id := range s.IDs {
		hn.spans = append(hn.spans, run.nspan[id])
	}
	s.hints.Store(key(h), hn)
	run.Close()
	if run.ties > 0 {
		r.Add("eject_size_ties", int64(run.ties))
	}
	outcome := run.outcome()
	var fail *seqx.Failure
	for _, f := range run.Findings {
		if strings.HasPrefix(f.Class, prefix) {
			if fail == nil {
				fail = &seqx.Failure{Sig: f.Class, What: f.What + "  [history: " + HistString(h) + "]"}
			}
		} else {
			r.Add("findings_of_sibling_property", 1)
		}
	}
	return canon, outcome, fail
}

// Enabled is the event menu after h (uses what Exec(h) observed: no-op events are not offered).
func (s *Scenario) Enabled(h []Ev) []Ev {
	hn := &hint{buf: make([]int, s.Workers), spans: make([]int, len(s.IDs))}
	if v, ok := s.hints.Load(key(h)); ok {
		hn = v.(*hint)
	}
	var out []Ev
	for t := range s.IDs {
		if s.MaxSpansPerTrace > 0 && hn.spans[t] >= s.MaxSpansPerTrace {
			continue
		}
		for _, k := range s.Kinds {
			out = append(out, Ev{Op: "span", T: t, K: k})
		}
		if s.Marked {
			out = append(out, Ev{Op: "span", T: t, K: fx.Child, M: true})
		}
	}
	for w := 0; w < s.Workers; w++ {
		if hn.buf[w] > 0 {
			out = append(out, Ev{Op: "tick", W: w})
		}
	}
	if hn.adv < s.MaxAdv {
		for _, d := range s.Advances {
			out = append(out, Ev{Op: "adv", D: d})
		}
	}
	for w := 0; w < s.Workers; w++ {
		for _, b := range s.EjectBytes {
			if hn.buf[w] > 1 || (hn.buf[w] == 1 && b == s.EjectBytes[0]) {
				out = append(out, Ev{Op: "eject", W: w, B: b})
			}
		}
	}
	if hn.reloads < s.MaxReloads {
		out = append(out, Ev{Op: "reload"})
	}
	if hn.out > 0 {
		out = append(out, Ev{Op: "send"})
	}
	if s.Maintain {
		for w := 0; w < s.Workers; w++ {
			out = append(out, Ev{Op: "maintain", W: w})
		}
	}
	return out
}

// Explore runs the BFS for one property.
func (s *Scenario) Explore(r *ev.Run, prefix string) seqx.Stats {
	return seqx.Explore(r, seqx.Scenario[Ev]{
		Name:         s.Name,
		Enabled:      s.Enabled,
		Exec:         func(h []Ev) (string, string, *seqx.Failure) { return s.Exec(r, prefix, h) },
		MaxDepth:     s.Depth,
		Workers:      16,
		MaxStates:    s.MaxStates,
		NoMergeDepth: s.NoMergeDepth,
	})
}

// PickIDs returns trace IDs "t<n>" with the requested worker placement (for a collector with `workers`
// workers) and, where keep is non-nil, the requested verdict of the sampler built from cfg.
type Want struct {
	Worker int
	Keep   *bool
}

func PickIDs(workers int, cfg func() any, wants []Want) []string {
	f := fx.New(fx.Options{Workers: workers})
	defer f.Close()
	mc := &config.MockConfig{GetSamplerTypeVal: cfg()}
	fac := &sample.SamplerFactory{Config: mc, Metrics: &metrics.NullMetrics{}, Logger: &logger.NullLogger{}}
	fac.Start()
	defer fac.Stop()
	smp := fac.GetSamplerImplementationForKey("ds")
	var out []string
	used := map[string]bool{}
	for _, w := range wants {
		found := ""
		for n := 0; n < 10000 && found == ""; n++ {
			id := fmt.Sprintf("t%d", n)
			if used[id] || f.WorkerFor(id) != w.Worker {
				continue
			}
			if w.Keep != nil {
				_, keep, _, _ := smp.GetSampleRate(&types.Trace{TraceID: id})
				if keep != *w.Keep {
					continue
				}
			}
			found = id
		}
		if found == "" {
			ev.Harness("no trace ID satisfies %+v", w)
		}
		used[found] = true
		out = append(out, found)
	}
	return out
}

func Bool(b bool) *bool { return &b }
