package cx

import (
	"fmt"
	"os"
	"runtime"
	"runtime/debug"
	"runtime/pprof"
	"strconv"
	"strings"
	"time"

	"github.com/honeycombio/refinery/config"

	"verif/engine/ev"
	fx "verif/fix/collector"
)

func det(n int) func() any {
	return func() any { return &config.DeterministicSamplerConfig{SampleRate: n} }
}

// rulesMarker: a trace containing a span with field "d" is dropped, every other trace is kept — the
// verdict depends on WHICH spans the trace holds when it is decided, so a span that is wrongly evaluated
// apart from its trace shows up as a split decision.
func rulesMarker() any {
	return &config.RulesBasedSamplerConfig{Rules: []*config.RulesBasedSamplerRule{
		{Name: "drop-marked", Drop: true, Conditions: []*config.RulesBasedSamplerCondition{{Field: "d", Operator: config.Exists}}},
		{Name: "keep-rest", SampleRate: 1},
	}}
}

// rulesRoot: traces decided without their root span are dropped, complete ones kept.
func rulesRoot() any {
	return &config.RulesBasedSamplerConfig{Rules: []*config.RulesBasedSamplerRule{
		{Name: "drop-rootless", Drop: true, Conditions: []*config.RulesBasedSamplerCondition{{Operator: config.HasRootSpan, Value: false}}},
		{Name: "keep-rest", SampleRate: 1},
	}}
}

var traces = config.TracesConfig{SendDelay: config.Duration(time.Second), TraceTimeout: config.Duration(4 * time.Second),
	SendTicker: config.Duration(100 * time.Millisecond)}

// recent-drop TTL is 3s: 3s+1ns steps past it; 1s = SendDelay.
var advances = []time.Duration{time.Second, 3*time.Second + 1}

// Scenarios builds the scenario list of a tier. dry selects the dry-run scenario (C02 only).
func Scenarios(r *ev.Run, withDry bool) []*Scenario {
	q := func(a, b int) int { return ev.Pick(r, a, b) }
	k, d := Bool(true), Bool(false)
	w1 := PickIDs(1, det(2), []Want{{0, k}, {0, d}, {0, k}})
	w2 := PickIDs(2, det(2), []Want{{0, k}, {0, d}, {1, k}})
	w3 := PickIDs(3, det(2), []Want{{0, k}, {1, d}, {2, k}})
	rc := []fx.Kind{fx.Root, fx.Child}
	// NoMergeDepth: every history of length <= 4 is executed whatever the canonical key says; <= 5 in three one-worker
	// scenarios with alphabets of 9-10 events. More does not fit the quick budget
	// of C02, whose executions are the dearer ones; with 16-17 events length 5 alone would triple the scenario.
	out := []*Scenario{
		{Name: "det-w1", Workers: 1, IDs: w1[:2], Kinds: rc, Samplers: []func() any{det(2), det(1)}, KeptPerWorker: 4,
			Traces: traces, Advances: advances, EjectBytes: []int{-1, 0}, Depth: q(7, 9), MaxSpansPerTrace: 3, MaxAdv: 2, MaxReloads: 1, NoMergeDepth: 3},
		{Name: "det-w2", Workers: 2, IDs: w2, Kinds: rc, Samplers: []func() any{det(2), det(1)}, KeptPerWorker: 4,
			Traces: traces, Advances: advances, EjectBytes: []int{-1, 0}, Depth: q(6, 7), MaxSpansPerTrace: 2, MaxAdv: 2, MaxReloads: 1, NoMergeDepth: 3},
		{Name: "rules-marker-w1", Workers: 1, IDs: w1[:2], Kinds: []fx.Kind{fx.Child}, Marked: true, Samplers: []func() any{rulesMarker, det(1)}, KeptPerWorker: 4,
			Traces: traces, Advances: advances[:1], EjectBytes: []int{-1, 0}, Depth: q(6, 8), MaxSpansPerTrace: 3, MaxAdv: 2, MaxReloads: 1, NoMergeDepth: 4},
		{Name: "rules-root-w1", Workers: 1, IDs: w1[:2], Kinds: rc, Samplers: []func() any{rulesRoot}, KeptPerWorker: 4,
			Traces: traces, Advances: advances, EjectBytes: []int{-1}, Depth: q(6, 8), MaxSpansPerTrace: 3, MaxAdv: 2, MaxReloads: 1, NoMergeDepth: 4},
		{Name: "kept-capacity-2", Workers: 1, IDs: w1, Kinds: []fx.Kind{fx.Child}, Samplers: []func() any{det(1)}, KeptPerWorker: 2,
			Traces: traces, Advances: advances[:1], EjectBytes: []int{-1, 0}, Depth: q(7, 8), MaxSpansPerTrace: 2, MaxAdv: 1, MaxReloads: 1, NoMergeDepth: 4},
		{Name: "annotations-w3", Workers: 3, IDs: w3, Kinds: []fx.Kind{fx.SpanEvent, fx.Link, fx.Root}, Samplers: []func() any{det(2)}, KeptPerWorker: 4,
			Traces: traces, Advances: advances[1:], EjectBytes: []int{-1}, Depth: q(5, 6), MaxSpansPerTrace: 3, MaxAdv: 1, MaxReloads: 0, NoMergeDepth: 3, Maintain: false},
	}
	// a per-tick decision quota: with MaxExpiredTraces=1 and three traces of one worker expiring together, every
	// tick decides exactly one of them and the rest must stay in line (C02: every accepted span's trace is
	// eventually decided; C01: and its decision is applied to all its spans)
	quota := traces
	quota.MaxExpiredTraces = 1
	out = append(out, &Scenario{Name: "max-expired-1-w1", Workers: 1, IDs: w1, Kinds: rc, Samplers: []func() any{det(1)}, KeptPerWorker: 4,
		Traces: quota, Advances: advances[:1], EjectBytes: []int{-1}, Depth: q(6, 7), MaxSpansPerTrace: 2, MaxAdv: 2, MaxReloads: 0, NoMergeDepth: 3})
	if withDry {
		out = append(out, &Scenario{Name: "dryrun-w1", Workers: 1, IDs: w1[:2], Kinds: rc, Samplers: []func() any{det(2), det(1)}, KeptPerWorker: 4, DryRun: true,
			Traces: traces, Advances: advances[:1], EjectBytes: []int{-1}, Depth: q(6, 7), MaxSpansPerTrace: 3, MaxAdv: 1, MaxReloads: 1, NoMergeDepth: 3})
	}
	if only := os.Getenv("VERIF_SCENARIO"); only != "" {
		var f []*Scenario
		for _, s := range out {
			if strings.Contains(s.Name, only) {
				f = append(f, s)
			}
		}
		out = f
	}
	return out
}

// RunProperty is the whole check for C01 ("c01:") or C02 ("c02:").
func RunProperty(r *ev.Run, prefix string) {
	gcp := 100
	if v, err := strconv.Atoi(os.Getenv("VERIF_GOGC")); err == nil {
		gcp = v
	}
	debug.SetGCPercent(gcp)
	if v, err := strconv.Atoi(os.Getenv("VERIF_BALLAST_MB")); err == nil && v > 0 {
		ballast = make([]byte, v<<20)
	}
	if pf := os.Getenv("VERIF_CPUPROF"); pf != "" {
		fp, _ := os.Create(pf)
		pprof.StartCPUProfile(fp)
		defer pprof.StopCPUProfile()
	}
	if mf := os.Getenv("VERIF_MEMPROF"); mf != "" {
		runtime.MemProfileRate = 4096
		defer func() { fp, _ := os.Create(mf); pprof.Lookup("allocs").WriteTo(fp, 0); fp.Close() }()
	}
	scs := Scenarios(r, prefix == "c02:")
	bounds := map[string]any{}
	for _, s := range scs {
		t := time.Now()
		st := s.Explore(r, prefix)
		bounds[s.Name] = map[string]any{"workers": s.Workers, "ids": s.IDs, "kinds": fmt.Sprint(s.Kinds), "marked": s.Marked, "samplers": len(s.Samplers),
			"kept_per_worker": s.KeptPerWorker, "dry_run": s.DryRun, "depth_bound": s.Depth, "depth_completed": st.DepthCompleted,
			"states": st.States, "transitions": st.Transitions, "max_spans_per_trace": s.MaxSpansPerTrace, "wall_s": time.Since(t).Seconds()}
		fmt.Printf("  %-18s depth %d/%d states %d transitions %d  %.1fs\n", s.Name, st.DepthCompleted, s.Depth, st.States, st.Transitions, time.Since(t).Seconds())
	}
	// loop conformance on the two deterministic-sampler scenarios
	nloop := 0
	for _, s := range scs {
		if d, ok := map[string]int{"det-w1": ev.Pick(r, 3, 5), "det-w2": ev.Pick(r, 2, 4)}[s.Name]; ok {
			t := time.Now()
			n := s.LoopConformance(r, prefix, d)
			nloop += n
			bounds["loop:"+s.Name] = map[string]any{"depth": d, "histories": n, "alphabet": fmt.Sprint(s.loopAlphabet()), "wall_s": time.Since(t).Seconds()}
			fmt.Printf("  loop:%-13s depth %d histories %d  %.1fs\n", s.Name, d, n, time.Since(t).Seconds())
		}
	}
	r.Set("traces_validated_against_impl", nloop)
	r.Set("bounds", bounds)
}

var ballast []byte
