package cx

import (
	"fmt"
	"sort"
	"strings"
	"sync"
	"time"

	"github.com/honeycombio/refinery/config"

	"verif/engine/ev"
	fx "verif/fix/collector"
)

// Loop conformance binds the handler-level search to the real goroutines: every history over the
// "loop-shaped" alphabet {span, advance-by-one-SendTicker (= one real tick on every worker), reload,
// eject-everything} up to a depth is executed twice —
//   (H) on the handlers, exactly like the BFS does (processSpan / sendExpiredTracesInCache / … called directly,
//       the sender body run after every event), with the observer's oracle on, and
//   (L) through the really started collector: Start(), AddSpan through the incoming channel, the workers'
//       own fake-clock tickers, MockConfig.Reload → monitor goroutine → worker reload case, a sendEarly
//       request as checkAlloc posts it, and the sendTraces goroutine (awaited by a sentinel barrier) —
// and the two must agree, AFTER EVERY EVENT, on: the buffered traces with their spans and SendBy instants, the
// remembered decision of every trace ID, the send-reason counters; and at the end on and the multiset of (trace, span, sample rate) handed to the transmission.

type loopResult struct {
	hist string
	sig  string
	what string
	h    []Ev
}

func (s *Scenario) loopAlphabet() []Ev {
	var out []Ev
	for t := range s.IDs {
		for _, k := range s.Kinds {
			out = append(out, Ev{Op: "span", T: t, K: k})
		}
		if s.Marked {
			out = append(out, Ev{Op: "span", T: t, K: fx.Child, M: true})
		}
	}
	out = append(out, Ev{Op: "advtick", D: s.loopTick()})
	if len(s.Samplers) > 1 {
		out = append(out, Ev{Op: "reload"})
	}
	for w := 0; w < s.Workers && !s.LoopNoEject; w++ {
		out = append(out, Ev{Op: "eject", W: w, B: -1})
	}
	return out
}

func (s *Scenario) loopTick() time.Duration {
	if s.LoopTick > 0 {
		return s.LoopTick
	}
	return time.Duration(s.Traces.SendDelay)
}

func snapshotState(f *fx.Fixture, ids []string) string {
	var b strings.Builder
	fmt.Fprintf(&b, "@+%v: ", f.Now().Sub(fx.T0))
	for _, v := range f.BufferedAll() {
		sp := append([]string{}, v.Spans...)
		sort.Strings(sp)
		fmt.Fprintf(&b, "buf %s@w%d %v root=%v sendby=%s; ", v.TraceID, v.Worker, sp, v.HasRoot, v.SendBy.Sub(fx.T0))
	}
	for _, id := range ids {
		d := f.Remembered(id)
		fmt.Fprintf(&b, "dec %s kept=%v dropped=%v; ", id, d.Kept, d.Dropped())
	}
	rc := f.SendReasonCounters()
	var names []string
	for n := range rc {
		names = append(names, n)
	}
	sort.Strings(names)
	for _, n := range names {
		if rc[n] != 0 {
			fmt.Fprintf(&b, "%s=%d ", n, rc[n])
		}
	}
	return b.String()
}

func (s *Scenario) runHandlerTwin(h []Ev) (state string, tx []string, findings []Finding) {
	run := s.NewRun()
	drain := func() {
		for len(run.F.Outgoing()) > 0 {
			run.Step(Ev{Op: "send"})
		}
	}
	for _, e := range h {
		switch e.Op {
		case "advtick":
			run.Step(Ev{Op: "adv", D: e.D})
			for w := 0; w < s.Workers; w++ {
				run.Step(Ev{Op: "tick", W: w})
			}
		default:
			run.Step(e)
		}
		drain()
		state += snapshotState(run.F, s.IDs) + "\n"
	}
	tx = run.F.Tx.Multiset(0)
	findings = run.Findings
	run.F.Close()
	return
}

func (s *Scenario) runLoop(h []Ev) (state string, tx []string) {
	o := s.options(true)
	o.Traces.SendTicker = config.Duration(s.loopTick())
	f := fx.New(o)
	cfg := 0
	n := map[string]int{}
	for _, e := range h {
		switch e.Op {
		case "span":
			id := s.IDs[e.T]
			n[id]++
			sp := fx.SpanSpec{TraceID: id, Kind: e.K, ID: fmt.Sprintf("%s.%d", id, n[id]),
				Fields: map[string]any{"pad": strings.Repeat("x", pads[e.T%len(pads)])}}
			if e.M {
				sp.Fields["d"] = int64(1)
			}
			f.AddSpan(f.MakeSpan(sp))
		case "advtick":
			if got := f.AdvanceLoop(e.D); len(got) != 1 {
				panic(fmt.Sprintf("cx: advtick produced %d ticks", len(got)))
			}
		case "reload":
			cfg = (cfg + 1) % len(s.Samplers)
			next := s.Samplers[cfg]()
			f.ReloadLoop(func(m *config.MockConfig) { m.GetSamplerTypeVal = next })
		case "eject":
			f.EjectLoop(e.W, 1<<40)
		}
		f.QuiesceAll()
		state += snapshotState(f, s.IDs) + "\n"
	}
	f.QuiesceAll()
	f.SenderIdle()
	tx = f.Tx.Multiset(0) // taken BEFORE Stop(): what shutdown does with still-buffered traces is C36's subject
	f.Close()
	return
}

// LoopConformance enumerates all loop-shaped histories of length 1..depth and compares (H) with (L).
// Returns the number of histories compared.
func (s *Scenario) LoopConformance(r *ev.Run, prefix string, depth int) int {
	alpha := s.loopAlphabet()
	var hs [][]Ev
	var gen func(h []Ev)
	gen = func(h []Ev) {
		if len(h) > 0 {
			hs = append(hs, append([]Ev{}, h...))
		}
		if len(h) == depth {
			return
		}
		for _, e := range alpha {
			gen(append(h, e))
		}
	}
	gen(nil)
	res := make([]*loopResult, len(hs))
	var wg sync.WaitGroup
	ch := make(chan int, 64)
	for k := 0; k < 16; k++ {
		wg.Add(1)
		go func() {
			defer wg.Done()
			for i := range ch {
				h := hs[i]
				hState, hTx, finds := s.runHandlerTwin(h)
				lState, lTx := s.runLoop(h)
				var lr *loopResult
				switch {
				case hState != lState:
					lr = &loopResult{sig: prefix + "loop-conformance:state", what: fmt.Sprintf("after %s the started collector went through states\n%s but the handlers through\n%s", HistString(h), lState, hState)}
				case strings.Join(hTx, ",") != strings.Join(lTx, ","):
					lr = &loopResult{sig: prefix + "loop-conformance:transmitted", what: fmt.Sprintf("after %s the started collector transmitted %v, the handlers %v", HistString(h), lTx, hTx)}
				}
				for _, f := range finds {
					if lr == nil && strings.HasPrefix(f.Class, prefix) {
						lr = &loopResult{sig: f.Class, what: f.What + "  [loop-shaped history: " + HistString(h) + "]"}
					}
				}
				if lr != nil {
					lr.h, lr.hist = h, HistString(h)
					res[i] = lr
				}
			}
		}()
	}
	done := 0
	for i := range hs {
		if i%32 == 0 && r.Expired("loop conformance "+s.Name) {
			break
		}
		ch <- i
		done++
	}
	close(ch)
	wg.Wait()
	for _, lr := range res { // enumeration order = shortest first
		if lr != nil {
			r.Violation(lr.sig, s.Name+": "+lr.what, map[string]any{"scenario": s.Name, "loop_history": lr.h})
		}
	}
	r.Add("loop_histories", int64(done))
	r.Add("transitions", int64(done)) // each is also an execution on the real handlers
	return done
}
