package cx

// C05, "DryRun is a reloadable setting": the dry-run scenarios above fix DryRun at start. Debugging.DryRun is
// documented as reloadable, so "in dry-run mode" means "while the running configuration says DryRun": this
// file drives the REAL goroutines (loop mode: worker loops, sendTraces, the reload monitor) through every
// history over
//
//	k  = a root span of a fresh trace the sampler would keep        (client rate 7)
//	d  = a root span of a fresh trace the sampler would drop        (client rate 7)
//	r  = reload that toggles Debugging.DryRun (nothing else changes)
//	a  = the clock moves by SendDelay (every send tick in between runs on every worker)
//
// up to a length bound, from both initial values of DryRun. Every event ends at a quiescence barrier (worker
// queues empty, sender idle), so "the value of DryRun when the trace was decided and sent" is well defined.
// Oracle, applied to the transmissions of every `a` event during which DryRun is on: every span of every trace
// that left the buffer during the event was handed to the transmission exactly once, with the client's sample
// rate, and meta.refinery.dryrun.kept equal to what the sampler decides for that trace ID. While DryRun is off
// nothing is judged here (C02/C04's subject).

import (
	"fmt"
	"sort"
	"strings"
	"sync"
	"time"

	"github.com/honeycombio/refinery/config"

	"verif/engine/ev"
	fx "verif/fix/collector"
)

type toggleFail struct {
	sig, what string
	h         string
	ord       int
}

func runToggleHistory(startDry bool, h string, kept, dropped []string) (sig, what string, decidedDry int) {
	o := fx.Options{Workers: 1, Traces: traces, Sampler: det(2), DryRun: startDry, KeptSize: 8, Loop: true, AddRuleReasonToTrace: true}
	f := fx.New(o)
	defer f.Close()
	dry := startDry
	nk, nd := 0, 0
	wouldKeep := map[string]bool{}
	pending := map[string]bool{} // traces in the buffer
	decidedLive := 0
	_ = decidedLive
	cursor := 0
	const client = 7
	for step, c := range h {
		switch c {
		case 'k', 'd':
			id := ""
			if c == 'k' {
				id, nk = kept[nk], nk+1
				wouldKeep[id] = true
			} else {
				id, nd = dropped[nd], nd+1
				wouldKeep[id] = false
			}
			f.AddSpan(f.MakeSpan(fx.SpanSpec{TraceID: id, Kind: fx.Root, ID: id + ".1", SampleRate: client}))
			pending[id] = true
		case 'r':
			dry = !dry
			v := dry
			f.ReloadLoop(func(m *config.MockConfig) { m.DryRun = v })
		case 'a':
			f.AdvanceLoop(time.Duration(traces.SendDelay))
		}
		f.QuiesceAll()
		f.SenderIdle()
		still := map[string]bool{}
		for _, v := range f.BufferedAll() {
			still[v.TraceID] = true
		}
		log := f.Tx.Log(cursor)
		cursor += len(log)
		if !dry {
			// outside dry run (judged for C04/C02): a trace the sampler keeps is forwarded with client rate x sampler
			// rate, that product as meta.refinery.final_sample_rate, and no dry-run marker; a dropped one is not forwarded
			seen := map[string]int{}
			for _, s := range log {
				seen[s.TraceID]++
				wk, known := wouldKeep[s.TraceID]
				if !known {
					continue
				}
				where := fmt.Sprintf("step %d of [%s] (DryRun at start %v, now off): span %s of trace %s (sampler would %s it, rate 2)", step, h, startDry, s.SpanID, s.TraceID, kd(wk))
				if !wk {
					return "c04:toggle:dropped-trace-forwarded-outside-dry-run", where + " was forwarded", decidedDry
				}
				if s.SampleRate != 2*client {
					return "c04:toggle:sample-rate-not-client-times-trace-rate", fmt.Sprintf("%s was forwarded with sample rate %d, expected %d x 2", where, s.SampleRate, client), decidedDry
				}
				if v, ok := s.Fields["meta.refinery.final_sample_rate"]; !ok || fmt.Sprint(v) != fmt.Sprint(2*client) {
					return "c04:toggle:final-sample-rate-missing-or-wrong", fmt.Sprintf("%s carries meta.refinery.final_sample_rate=%v, expected %d", where, v, 2*client), decidedDry
				}
				if _, present := s.Fields[config.DryRunFieldName]; present {
					return "c04:toggle:dry-run-marker-outside-dry-run", where + " carries the dry-run marker", decidedDry
				}
			}
			for id := range pending {
				if !still[id] {
					delete(pending, id)
					decidedLive++
					if wouldKeep[id] && seen[id] != 1 {
						return "c04:toggle:kept-trace-not-forwarded-exactly-once", fmt.Sprintf("step %d of [%s] (DryRun at start %v, now off): kept trace %s was handed to the transmission %d times", step, h, startDry, id, seen[id]), decidedDry
					}
				}
			}
			continue
		}
		seen := map[string]int{}
		for _, s := range log {
			seen[s.TraceID]++
			wk, known := wouldKeep[s.TraceID]
			if !known {
				continue
			}
			where := fmt.Sprintf("step %d of [%s] (DryRun at start %v, now on): span %s of trace %s (sampler would %s it)", step, h, startDry, s.SpanID, s.TraceID, kd(wk))
			if s.SampleRate != client {
				return "c05:toggle:client-rate-changed:" + kd(wk), fmt.Sprintf("%s was forwarded with sample rate %d, the client sent %d", where, s.SampleRate, client), decidedDry
			}
			m, present := s.Fields[config.DryRunFieldName]
			if !present {
				return "c05:toggle:marker-missing:" + kd(wk), fmt.Sprintf("%s was forwarded without %s", where, config.DryRunFieldName), decidedDry
			}
			if b, ok := m.(bool); !ok || b != wk {
				return "c05:toggle:marker-wrong:" + kd(wk), fmt.Sprintf("%s was forwarded with %s=%v", where, config.DryRunFieldName, m), decidedDry
			}
		}
		for id := range pending {
			if still[id] {
				continue
			}
			delete(pending, id)
			decidedDry++
			if seen[id] != 1 {
				return "c05:toggle:not-forwarded-exactly-once:" + kd(wouldKeep[id]),
					fmt.Sprintf("step %d of [%s] (DryRun at start %v, now on): trace %s (sampler would %s it) left the buffer and its one span was handed to the transmission %d times", step, h, startDry, id, kd(wouldKeep[id]), seen[id]), decidedDry
			}
		}
	}
	return "", "", decidedDry
}

// RunDryToggle enumerates the histories and reports the first failing history (enumeration order) per signature.
func RunDryToggle(r *ev.Run) { runToggle(r, "c05:") }

// RunLiveToggle is the same enumeration judged for the periods OUTSIDE dry run (C04: sample rates compose, no
// dry-run stamping once DryRun has been reloaded to off).
func RunLiveToggle(r *ev.Run) { runToggle(r, "c04:") }

func runToggle(r *ev.Run, want string) {
	depth := ev.Pick(r, 5, 6)
	k, d := Bool(true), Bool(false)
	ids := PickIDs(1, det(2), []Want{{0, k}, {0, k}, {0, d}, {0, d}})
	kept, dropped := ids[:2], ids[2:]
	var hs []string
	var gen func(h string, nk, nd, nr int)
	gen = func(h string, nk, nd, nr int) {
		if len(h) > 0 && h[len(h)-1] == 'a' { // a history is judged at its `a` events: only those ending in one are new
			hs = append(hs, h)
		}
		if len(h) == depth {
			return
		}
		if nk < len(kept) {
			gen(h+"k", nk+1, nd, nr)
		}
		if nd < len(dropped) {
			gen(h+"d", nk, nd+1, nr)
		}
		if nr < 2 {
			gen(h+"r", nk, nd, nr+1)
		}
		gen(h+"a", nk, nd, nr)
	}
	gen("", 0, 0, 0)
	sort.SliceStable(hs, func(a, b int) bool { return len(hs[a]) < len(hs[b]) }) // shortest first: the reported history is minimal
	type job struct {
		start bool
		h     string
		ord   int
	}
	var jobs []job
	for _, st := range []bool{false, true} {
		for _, h := range hs {
			jobs = append(jobs, job{st, h, len(jobs)})
		}
	}
	var mu sync.Mutex
	first := map[string]toggleFail{}
	var decided int64
	ch := make(chan job)
	var wg sync.WaitGroup
	for w := 0; w < 8; w++ {
		wg.Add(1)
		go func() {
			defer wg.Done()
			for j := range ch {
				sig, what, n := runToggleHistory(j.start, j.h, kept, dropped)
				mu.Lock()
				decided += int64(n)
				if sig != "" && strings.HasPrefix(sig, want) {
					if p, ok := first[sig]; !ok || j.ord < p.ord {
						first[sig] = toggleFail{sig, what, j.h, j.ord}
					}
				}
				mu.Unlock()
			}
		}()
	}
	done := 0
	for _, j := range jobs {
		if r.Expired("dry-run toggle histories") {
			break
		}
		ch <- j
		done++
	}
	close(ch)
	wg.Wait()
	for _, f := range first {
		r.Violation(f.sig, "dry-run-toggled-by-reload: "+f.what, map[string]any{"scenario": "dry-toggle-loop", "history": f.h})
	}
	r.Add("toggle_histories", int64(done))
	r.Add("transitions", int64(done))
	r.Add("toggle_traces_decided_while_dry_run_on", decided)
	if done == len(jobs) && decided == 0 {
		ev.Harness("dry-run toggle part: no trace was decided while DryRun was on")
	}
	r.Set("toggle_bounds", map[string]any{"depth": depth, "alphabet": "k d r a", "initial_dry_run": []bool{false, true}, "histories": len(jobs)})
}
