package cx

// C05 — "dry run forwards every span with the would-be decision" — on top of the shared exploration.
//
// This file only ADDS to package cx (nothing used by C01/C02 changes): a DryScenario wraps a Scenario (DryRun on)
// and adds what the C01/C02 alphabet lacks for C05:
//
//   - every span carries a client sample rate (rotation through ClientRates, a function of the trace index and of
//     the span's arrival number within its trace);
//   - event "imm": a span handed to the stress-relief entry point ProcessSpanImmediately (offered only for traces
//     that are not buffered — stress-relief toggles while a trace is buffered are excluded by C01's statement and
//     stay excluded here) under a stress reliever that keeps some trace IDs and drops others;
//   - the dry-run observer: for every event the capturing transmission receives
//       · the sample rate is the client's (absent ≡ 0 ≡ 1),
//       · meta.refinery.dryrun.kept is present, boolean, and equal to the decision recorded for the span's trace
//         incarnation (read by the shared observer off the real decision cache / outgoing queue) AND to the verdict
//         of an independently built sampler of the active configuration on the spans accepted at decision time,
//     and, at the end of the run, that no forwarded event's rate or marker changed after it was enqueued;
//   - "forwarded exactly once" is the shared observer's exactly-once / never-lost / eventually-decided oracle, whose
//     findings are re-classed "c05:forward-exactly-once/…" (in dry run it demands forwarding for dropped traces too).
//
// Spans that went through stress relief are kept out of the shared observer's books: they may be dropped (the one
// documented exception), and when stress relief says "keep" they must be forwarded exactly once with the client's
// rate. A trace DECIDED by stress relief has no sampler decision, so the marker's value is not judged on its spans
// (it must still be forwarded: only spans dropped BY stress relief may be missing).
//
// Canonical state = the shared canon + the (kind, client rate) pairs of every buffered and queued span + which
// incarnations were decided by stress relief: everything the additional oracle reads.

import (
	"fmt"
	"sort"
	"strings"
	"sync"
	"time"

	"github.com/honeycombio/refinery/config"
	"github.com/honeycombio/refinery/types"

	"verif/engine/ev"
	"verif/engine/seqx"
	fx "verif/fix/collector"
)

// DryScenario is a Scenario (with DryRun on) plus the C05 additions.
type DryScenario struct {
	*Scenario
	ClientRates []uint
	Stress      bool   // offer "imm" events
	StressKeep  []bool // per trace index: what stress relief decides for that trace ID
	StressRate  uint

	dhints sync.Map // history key -> *dryHint
}

type dryHint struct{ buffered []bool }

// which (send reason | decision) classes had their marker judged, over the whole process (vacuity guard)
var (
	dryPathsMu   sync.Mutex
	dryPathsSeen = map[string]bool{}
)

// DryPaths lists the (send reason|decision) classes whose forwarded spans have been judged so far, sorted.
func DryPaths() []string {
	dryPathsMu.Lock()
	defer dryPathsMu.Unlock()
	var out []string
	for p := range dryPathsSeen {
		out = append(out, p)
	}
	sort.Strings(out)
	return out
}

// dryStress is the stress reliever of the stress scenario: a fixed verdict per trace ID.
type dryStress struct {
	keep map[string]bool
	rate uint
}

func (d *dryStress) Start() error      { return nil }
func (d *dryStress) UpdateFromConfig() {}
func (d *dryStress) Recalc() uint      { return 0 }
func (d *dryStress) Stressed() bool    { return true }
func (d *dryStress) GetSampleRate(traceID string) (uint, bool, string) {
	return d.rate, d.keep[traceID], "verif-stress"
}

// DryRun is one execution with the dry-run observer attached.
type DryRun struct {
	*Run
	D        *DryScenario
	seen     int // own cursor into the transmission log
	stress   map[*inc]bool
	verdicts map[*inc]int // 0 unknown, 1 keep, 2 drop, 3 sampler not modelled
	Dry      []Finding
	stats    map[string]int64
	paths    map[string]bool
}

func (ds *DryScenario) options(loop bool) fx.Options {
	o := ds.Scenario.options(loop)
	o.DryRun = true
	if ds.Stress {
		keep := map[string]bool{}
		for t, id := range ds.IDs {
			keep[id] = ds.StressKeep[t]
		}
		o.StressRelief = &dryStress{keep: keep, rate: ds.StressRate}
	}
	return o
}

func (ds *DryScenario) NewDryRun() *DryRun {
	r := &Run{S: ds.Scenario, F: fx.New(ds.options(false)), spans: map[string]*spanRec{}, incs: map[string][]*inc{}, nspan: map[string]int{}, flags: map[string]bool{}}
	return &DryRun{Run: r, D: ds, stress: map[*inc]bool{}, verdicts: map[*inc]int{}, stats: map[string]int64{}, paths: map[string]bool{}}
}

func (ds *DryScenario) clientRate(t, n int) uint {
	if len(ds.ClientRates) == 0 {
		return 0
	}
	return ds.ClientRates[(t+n)%len(ds.ClientRates)]
}

func (d *DryRun) spec(e Ev) fx.SpanSpec {
	sp := d.S.spec(d.Run, e) // bumps nspan
	sp.SampleRate = d.D.clientRate(e.T, d.nspan[sp.TraceID])
	return sp
}

func (d *DryRun) addDry(class, format string, a ...any) {
	what := fmt.Sprintf(format, a...)
	if d.closing {
		what += " (during the quiescence closure)"
	}
	d.Dry = append(d.Dry, Finding{class, fmt.Sprintf("step %d: %s", d.step, what)})
}

func normRate(r uint) uint {
	if r < 1 {
		return 1
	}
	return r
}

// Step applies one event (C05 alphabet) and runs both observers.
func (d *DryRun) Step(e Ev) {
	switch e.Op {
	case "span":
		r := d.Run
		r.step++
		b0 := r.buffered()
		q0 := map[*types.Trace]bool{}
		for _, o := range r.F.Outgoing() {
			q0[o.Ptr] = true
		}
		spec := d.spec(e)
		rec := &spanRec{id: spec.ID, trace: spec.TraceID, spec: spec, step: r.step}
		r.spans[rec.id] = rec
		r.F.Span(spec)
		r.observe(e, b0, q0, rec)
	case "imm":
		d.immediately(e)
	default:
		d.Run.Step(e)
	}
	d.observeDry(e.Op)
}

// immediately delivers a span through the stress-relief entry point.
func (d *DryRun) immediately(e Ev) {
	r := d.Run
	r.step++
	id := r.S.IDs[e.T]
	if r.open(id) != nil {
		panic("cx: imm offered for a buffered trace")
	}
	spec := d.spec(e)
	known := r.F.Remembered(id).Known()
	before := r.F.Tx.Len()
	if r.txSeen != before || d.seen != before {
		panic("cx: transmission cursors out of step")
	}
	_, keep := r.F.Immediately(r.F.MakeSpan(spec))
	newTx := r.F.Tx.Log(before)
	r.txSeen += len(newTx)
	d.seen += len(newTx)
	n := 0
	for _, s := range newTx {
		if s.SpanID != spec.ID {
			d.addDry("c05:stress-relief-forwarded-another-span", "handing span %s to stress relief transmitted span %q", spec.ID, s.SpanID)
			continue
		}
		n++
		if normRate(s.SampleRate) != normRate(spec.SampleRate) {
			d.addDry("c05:client-rate-changed:stress-relief", "span %s (client sample rate %d) was forwarded by stress relief with sample rate %d; dry run must leave the client's rate",
				spec.ID, spec.SampleRate, s.SampleRate)
		}
	}
	switch {
	case n > 1:
		d.addDry("c05:forward-exactly-once/stress-relief-duplicate", "span %s handed to stress relief was transmitted %d times", spec.ID, n)
	case keep && n == 0:
		d.addDry("c05:forward-exactly-once/stress-relief-kept-not-forwarded", "stress relief reported keep for span %s of trace %s but nothing was transmitted; only spans DROPPED by stress relief may be missing in dry run", spec.ID, id)
	}
	if n > 0 {
		d.stats["stress_relief_spans_forwarded"]++
		r.flags["imm-forwarded"] = true
	} else {
		d.stats["stress_relief_spans_dropped"]++
		r.flags["imm-dropped"] = true
	}
	if !known {
		// stress relief has just decided this trace: the shared observer must know, late spans obey it
		ni := &inc{trace: id, n: len(r.incs[id]) + 1, worker: r.F.WorkerFor(id), decided: true, keep: keep, by: "imm", others: map[string]bool{}, decidedAt: r.step}
		r.incs[id] = append(r.incs[id], ni)
		d.stress[ni] = true
		if keep {
			for oid, l := range r.incs {
				if oid == id {
					continue
				}
				for _, o := range l {
					if o.decided && o.keep && o.worker == ni.worker {
						o.others[id] = true
					}
				}
			}
		}
		r.flags["decided-by-stress-"+kd(keep)] = true
	} else {
		r.flags["imm-on-decided-trace"] = true
	}
}

// observeDry judges the transmissions the shared observer has already attributed.
func (d *DryRun) observeDry(op string) {
	r := d.Run
	// reference verdicts of incarnations decided since the last call (the active sampler config is unchanged since:
	// a reload is its own event and decides nothing)
	var ids []string
	for id := range r.incs {
		ids = append(ids, id)
	}
	sort.Strings(ids)
	for _, id := range ids {
		for _, i := range r.incs[id] {
			if !i.decided || d.stress[i] || d.verdicts[i] != 0 {
				continue
			}
			if keep, ok := r.verdict(i); !ok {
				d.verdicts[i] = 3
			} else if keep {
				d.verdicts[i] = 1
			} else {
				d.verdicts[i] = 2
			}
		}
	}
	newTx := r.F.Tx.Log(d.seen)
	d.seen += len(newTx)
	for _, s := range newTx {
		rec := r.spans[s.SpanID]
		if rec == nil || rec.trace != s.TraceID {
			continue // the shared observer reports it (c02:invented-span)
		}
		client := rec.spec.SampleRate
		reason, _ := s.Fields[types.MetaRefinerySendReason].(string)
		if reason == "" {
			reason = "?"
		}
		if normRate(s.SampleRate) != normRate(client) {
			d.addDry("c05:client-rate-changed:"+reason, "span %s of trace %s came with client sample rate %d and was forwarded with %d; dry run must leave the client's rate (absent ≡ 0 ≡ 1)",
				rec.id, rec.trace, client, s.SampleRate)
		}
		d.stats["forwarded_spans_checked"]++
		if client > 1 {
			d.stats["forwarded_spans_with_client_rate_above_1"]++
		}
		i := rec.inc
		if i == nil || !i.decided {
			continue // forwarded while undecided: the shared observer's finding
		}
		if d.stress[i] {
			d.stats["spans_of_stress_decided_traces_forwarded"]++
			d.paths["decided-by-stress-relief|"+kd(i.keep)] = true
			continue
		}
		late := ""
		if rec.late {
			late = ":late"
		}
		v, present := s.Fields[config.DryRunFieldName]
		mark, isBool := v.(bool)
		switch {
		case !present:
			d.addDry("c05:marker-missing:"+reason, "span %s of trace %s (decided %s by %s) was forwarded without %s", rec.id, rec.trace, kd(i.keep), i.by, config.DryRunFieldName)
			continue
		case !isBool:
			d.addDry("c05:marker-not-boolean:"+reason, "span %s: %s = %v (%T)", rec.id, config.DryRunFieldName, v, v)
			continue
		}
		if mark != i.keep {
			d.addDry("c05:marker-differs-from-recorded-decision:"+reason+late, "span %s of trace %s carries %s=%v but the decision recorded for the trace (by %s at step %d) is %s",
				rec.id, rec.trace, config.DryRunFieldName, mark, i.by, i.decidedAt, kd(i.keep))
		}
		switch d.verdicts[i] {
		case 1, 2:
			if want := d.verdicts[i] == 1; mark != want {
				d.addDry("c05:marker-differs-from-sampler:"+reason+late, "span %s of trace %s carries %s=%v but the configured sampler, given the %d spans accepted when the trace was decided, says keep=%v",
					rec.id, rec.trace, config.DryRunFieldName, mark, len(i.spans), want)
			}
			d.stats["markers_checked_against_reference_sampler"]++
		}
		d.paths[reason+"|"+kd(i.keep)] = true
		r.flags["marker-"+fmt.Sprint(mark)] = true
	}
}

// finishDry runs after the shared Close(): judges what the closure transmitted and the final state of every event.
func (d *DryRun) finishDry() {
	d.observeDry("closure")
	for _, s := range d.F.Tx.Log(0) {
		if s.Event == nil {
			continue
		}
		if s.Event.SampleRate != s.SampleRate {
			d.addDry("c05:client-rate-changed:after-enqueue", "span %s was enqueued with sample rate %d and holds %d at the end of the run", s.SpanID, s.SampleRate, s.Event.SampleRate)
		}
		was, wok := s.Fields[config.DryRunFieldName]
		now := s.Event.Data.Get(config.DryRunFieldName)
		if wok && fmt.Sprint(was) != fmt.Sprint(now) {
			d.addDry("c05:marker-changed-after-enqueue", "span %s was enqueued with %s=%v and holds %v at the end of the run", s.SpanID, config.DryRunFieldName, was, now)
		}
	}
}

func (d *DryRun) dryCanon() string {
	r := d.Run
	var b strings.Builder
	b.WriteString("|C05:")
	pairs := func(ids []string) string {
		var ks []string
		for _, id := range ids {
			if rec := r.spans[id]; rec != nil {
				ks = append(ks, fmt.Sprintf("%s@%d", rec.spec.Kind, rec.spec.SampleRate))
			} else {
				ks = append(ks, "?"+id)
			}
		}
		sort.Strings(ks)
		return strings.Join(ks, ",")
	}
	for _, v := range r.F.BufferedAll() {
		fmt.Fprintf(&b, "%s[%s]", v.TraceID, pairs(v.Spans))
	}
	b.WriteString("Q")
	for _, o := range r.F.Outgoing() {
		fmt.Fprintf(&b, "%s[%s]", o.TraceID, pairs(o.Spans))
	}
	for _, id := range r.S.IDs {
		for k, i := range r.incs[id] {
			if d.stress[i] {
				fmt.Fprintf(&b, "S%s#%d", id, k)
			}
		}
	}
	return b.String()
}

// base findings that are C05's "every span handled by the collector is forwarded" in dry run
var dryForwarding = []string{"c02:kept-span-lost", "c02:duplicate-forward", "c02:span-vanished", "c01:late-span-contradicts-decision:kept-not-forwarded",
	"c02:never-decided", "c02:outgoing-stuck", "c02:left-buffer-undecided", "c01:partial-trace"}

func (d *DryRun) allFindings() []Finding {
	out := append([]Finding{}, d.Dry...)
	for _, f := range d.Findings {
		for _, p := range dryForwarding {
			if strings.HasPrefix(f.Class, p) {
				out = append(out, Finding{"c05:forward-exactly-once/" + f.Class, strings.Replace(f.What, "of KEPT trace", "of decided (would-be kept or dropped) trace", 1) +
					" — with DryRun on every accepted span must be forwarded exactly once, whatever the decision"})
				break
			}
		}
	}
	return out
}

// dryHist renders a history of the C05 alphabet (HistString plus the trace index of stress-relief deliveries).
func dryHist(h []Ev) string {
	var p []string
	for _, e := range h {
		if e.Op == "imm" {
			p = append(p, fmt.Sprintf("imm(%d,%s)", e.T, e.K))
		} else {
			p = append(p, e.String())
		}
	}
	return strings.Join(p, " ")
}

// Exec replays h under both observers.
func (ds *DryScenario) Exec(r *ev.Run, h []Ev) (string, string, *seqx.Failure) {
	run := ds.NewDryRun()
	for _, e := range h {
		run.Step(e)
	}
	canon := run.canon() + run.dryCanon()
	hn := &hint{out: len(run.F.Outgoing()), adv: run.nadv, reloads: run.nreload}
	for w := 0; w < ds.Workers; w++ {
		hn.buf = append(hn.buf, len(run.F.Buffered(w)))
	}
	dh := &dryHint{}
	for _, id := range ds.IDs {
		hn.spans = append(hn.spans, run.nspan[id])
		dh.buffered = append(dh.buffered, run.open(id) != nil)
	}
	ds.hints.Store(key(h), hn)
	ds.dhints.Store(key(h), dh)
	run.Close()
	run.finishDry()
	if run.ties > 0 {
		r.Add("eject_size_ties", int64(run.ties))
	}
	for k, v := range run.stats {
		r.Add(k, v)
	}
	dryPathsMu.Lock()
	for p := range run.paths {
		dryPathsSeen[p] = true
	}
	dryPathsMu.Unlock()
	outcome := run.outcome()
	var fail *seqx.Failure
	if fs := run.allFindings(); len(fs) > 0 {
		fail = &seqx.Failure{Sig: fs[0].Class, What: fs[0].What + "  [history: " + dryHist(h) + "]"}
	}
	return canon, outcome, fail
}

// Enabled = the shared menu + stress-relief deliveries for traces that are not buffered.
func (ds *DryScenario) Enabled(h []Ev) []Ev {
	out := ds.Scenario.Enabled(h)
	if !ds.Stress {
		return out
	}
	spans := make([]int, len(ds.IDs))
	buffered := make([]bool, len(ds.IDs))
	if v, ok := ds.hints.Load(key(h)); ok {
		spans = v.(*hint).spans
	}
	if v, ok := ds.dhints.Load(key(h)); ok {
		buffered = v.(*dryHint).buffered
	}
	for t := range ds.IDs {
		if buffered[t] || (ds.MaxSpansPerTrace > 0 && spans[t] >= ds.MaxSpansPerTrace) {
			continue
		}
		out = append(out, Ev{Op: "imm", T: t, K: fx.Child})
	}
	return out
}

func (ds *DryScenario) Explore(r *ev.Run) seqx.Stats {
	return seqx.Explore(r, seqx.Scenario[Ev]{
		Name:         ds.Name,
		Enabled:      ds.Enabled,
		Exec:         func(h []Ev) (string, string, *seqx.Failure) { return ds.Exec(r, h) },
		MaxDepth:     ds.Depth,
		Workers:      16,
		MaxStates:    ds.MaxStates,
		NoMergeDepth: ds.NoMergeDepth,
	})
}

// ---------------------------------------------------------------- loop conformance (dry run)

func dryMultiset(f *fx.Fixture) []string {
	var out []string
	for _, s := range f.Tx.Log(0) {
		out = append(out, fmt.Sprintf("%s/%s r%d %s=%v", s.TraceID, s.SpanID, s.SampleRate, config.DryRunFieldName, s.Fields[config.DryRunFieldName]))
	}
	sort.Strings(out)
	return out
}

func (ds *DryScenario) runDryHandlerTwin(h []Ev) (state string, tx []string, findings []Finding) {
	run := ds.NewDryRun()
	drain := func() {
		for len(run.F.Outgoing()) > 0 {
			run.Step(Ev{Op: "send"})
		}
	}
	for _, e := range h {
		switch e.Op {
		case "advtick":
			run.Step(Ev{Op: "adv", D: e.D})
			for w := 0; w < ds.Workers; w++ {
				run.Step(Ev{Op: "tick", W: w})
			}
		default:
			run.Step(e)
		}
		drain()
		state += snapshotState(run.F, ds.IDs) + "\n"
	}
	tx = dryMultiset(run.F)
	run.finishDry()
	findings = run.allFindings()
	run.F.Close()
	return
}

func (ds *DryScenario) runDryLoop(h []Ev) (state string, tx []string) {
	o := ds.options(true)
	o.Traces.SendTicker = config.Duration(ds.loopTick())
	f := fx.New(o)
	cfg := 0
	counter := &Run{nspan: map[string]int{}}
	for _, e := range h {
		switch e.Op {
		case "span":
			sp := ds.Scenario.spec(counter, e)
			sp.SampleRate = ds.clientRate(e.T, counter.nspan[sp.TraceID])
			f.AddSpan(f.MakeSpan(sp))
		case "advtick":
			if got := f.AdvanceLoop(e.D); len(got) != 1 {
				panic(fmt.Sprintf("cx: advtick produced %d ticks", len(got)))
			}
		case "reload":
			cfg = (cfg + 1) % len(ds.Samplers)
			next := ds.Samplers[cfg]()
			f.ReloadLoop(func(m *config.MockConfig) { m.GetSamplerTypeVal = next })
		case "eject":
			f.EjectLoop(e.W, 1<<40)
		}
		f.QuiesceAll()
		state += snapshotState(f, ds.IDs) + "\n"
	}
	f.QuiesceAll()
	f.SenderIdle()
	tx = dryMultiset(f)
	f.Close()
	return
}

// LoopConformanceDry: every loop-shaped history (span / one-SendTicker advance = one real tick per worker / reload /
// eject-everything) up to `depth` runs (H) on the handlers under both observers and (L) through the really started
// collector goroutines; after every event the buffers, remembered decisions and send-reason counters must agree, and at
// the end the multiset of (trace, span, sample rate, dry-run marker) handed to the transmission.
func (ds *DryScenario) LoopConformanceDry(r *ev.Run, depth int) int {
	alpha := ds.loopAlphabet()
	var hs [][]Ev
	var gen func(h []Ev)
	gen = func(h []Ev) {
		if len(h) > 0 {
			hs = append(hs, append([]Ev{}, h...))
		}
		if len(h) == depth {
			return
		}
		for _, e := range alpha {
			gen(append(h, e))
		}
	}
	gen(nil)
	res := make([]*loopResult, len(hs))
	var wg sync.WaitGroup
	ch := make(chan int, 64)
	for k := 0; k < 16; k++ {
		wg.Add(1)
		go func() {
			defer wg.Done()
			for i := range ch {
				h := hs[i]
				hState, hTx, finds := ds.runDryHandlerTwin(h)
				lState, lTx := ds.runDryLoop(h)
				var lr *loopResult
				switch {
				case hState != lState:
					lr = &loopResult{sig: "c05:loop-conformance:state", what: fmt.Sprintf("after %s the started collector went through states\n%s but the handlers through\n%s", HistString(h), lState, hState)}
				case strings.Join(hTx, ",") != strings.Join(lTx, ","):
					lr = &loopResult{sig: "c05:loop-conformance:transmitted", what: fmt.Sprintf("after %s the started collector transmitted %v, the handlers %v", HistString(h), lTx, hTx)}
				}
				if lr == nil && len(finds) > 0 {
					lr = &loopResult{sig: finds[0].Class, what: finds[0].What + "  [loop-shaped history: " + HistString(h) + "]"}
				}
				if lr != nil {
					lr.h, lr.hist = h, HistString(h)
					res[i] = lr
				}
			}
		}()
	}
	done := 0
	for i := range hs {
		if i%32 == 0 && r.Expired("loop conformance "+ds.Name) {
			break
		}
		ch <- i
		done++
	}
	close(ch)
	wg.Wait()
	for _, lr := range res {
		if lr != nil {
			r.Violation(lr.sig, ds.Name+": "+lr.what, map[string]any{"scenario": ds.Name, "loop_history": lr.h})
		}
	}
	r.Add("loop_histories", int64(done))
	r.Add("transitions", int64(done))
	return done
}

// ---------------------------------------------------------------- the C05 check

// DryScenarios builds the C05 scenario list of a tier.
func DryScenarios(r *ev.Run) []*DryScenario {
	q := func(a, b int) int { return ev.Pick(r, a, b) }
	k, d := Bool(true), Bool(false)
	w1 := PickIDs(1, det(2), []Want{{0, k}, {0, d}, {0, k}})
	w2 := PickIDs(2, det(2), []Want{{0, k}, {0, d}, {1, d}})
	rc := []fx.Kind{fx.Root, fx.Child}
	rates := []uint{7, 0, 1, 1<<31 - 1}
	limit := traces
	limit.SpanLimit = 2
	mk := func(s *Scenario) *DryScenario {
		s.DryRun = true
		return &DryScenario{Scenario: s, ClientRates: rates}
	}
	// NoMergeDepth: every history of length <= 4 is executed whatever the canonical key says; <= 5 in the scenarios with
	// the smaller alphabets (8-10 events), where 10^5 short executions are affordable
	out := []*DryScenario{
		mk(&Scenario{Name: "dry-det-w1", Workers: 1, IDs: w1[:2], Kinds: rc, Samplers: []func() any{det(2), det(1)}, KeptPerWorker: 4,
			Traces: traces, Advances: advances, EjectBytes: []int{-1, 0}, Depth: q(6, 8), MaxSpansPerTrace: 3, MaxAdv: 2, MaxReloads: 1, NoMergeDepth: 3}),
		mk(&Scenario{Name: "dry-det-w2", Workers: 2, IDs: w2, Kinds: rc, Samplers: []func() any{det(2), det(1)}, KeptPerWorker: 4,
			Traces: traces, Advances: advances[:1], EjectBytes: []int{-1}, Depth: q(5, 6), MaxSpansPerTrace: 2, MaxAdv: 1, MaxReloads: 1, NoMergeDepth: 3}),
		mk(&Scenario{Name: "dry-rules-root-w1", Workers: 1, IDs: w1[:2], Kinds: rc, Samplers: []func() any{rulesRoot}, KeptPerWorker: 4,
			Traces: traces, Advances: advances, EjectBytes: []int{-1}, Depth: q(6, 7), MaxSpansPerTrace: 3, MaxAdv: 2, MaxReloads: 0, NoMergeDepth: 3}),
		mk(&Scenario{Name: "dry-rules-marker-w1", Workers: 1, IDs: w1[:2], Kinds: []fx.Kind{fx.Child}, Marked: true, Samplers: []func() any{rulesMarker, det(1)}, KeptPerWorker: 4,
			Traces: traces, Advances: advances[:1], EjectBytes: []int{-1, 0}, Depth: q(6, 7), MaxSpansPerTrace: 3, MaxAdv: 2, MaxReloads: 1, NoMergeDepth: 3}),
		mk(&Scenario{Name: "dry-spanlimit-w1", Workers: 1, IDs: w1[:2], Kinds: rc, Samplers: []func() any{det(2)}, KeptPerWorker: 4,
			Traces: limit, Advances: advances[:1], EjectBytes: []int{-1}, Depth: q(6, 7), MaxSpansPerTrace: 4, MaxAdv: 1, MaxReloads: 0, NoMergeDepth: 4}),
		mk(&Scenario{Name: "dry-kept-capacity-2", Workers: 1, IDs: w1, Kinds: []fx.Kind{fx.Child}, Samplers: []func() any{det(1)}, KeptPerWorker: 2,
			Traces: traces, Advances: advances[:1], EjectBytes: []int{-1, 0}, Depth: q(6, 7), MaxSpansPerTrace: 2, MaxAdv: 1, MaxReloads: 0, NoMergeDepth: 4}),
	}
	st := mk(&Scenario{Name: "dry-stress-w1", Workers: 1, IDs: w1, Kinds: []fx.Kind{fx.Child}, Samplers: []func() any{det(2)}, KeptPerWorker: 4,
		Traces: traces, Advances: advances[:1], EjectBytes: []int{-1}, Depth: q(6, 7), MaxSpansPerTrace: 3, MaxAdv: 1, MaxReloads: 0, NoMergeDepth: 4})
	// ID0: sampler keeps / stress drops; ID1: sampler drops / stress keeps; ID2: both keep
	st.Stress, st.StressKeep, st.StressRate = true, []bool{false, true, true}, 5
	out = append(out, st)
	return out
}

// RunC05 is the whole check.
func RunC05(r *ev.Run) {
	scs := DryScenarios(r)
	bounds := map[string]any{}
	for _, s := range scs {
		t := time.Now()
		st := s.Explore(r)
		bounds[s.Name] = map[string]any{"workers": s.Workers, "ids": s.IDs, "kinds": fmt.Sprint(s.Kinds), "marked": s.Marked, "samplers": len(s.Samplers),
			"kept_per_worker": s.KeptPerWorker, "span_limit": s.Traces.SpanLimit, "stress_relief_events": s.Stress, "client_rates": s.ClientRates,
			"depth_bound": s.Depth, "depth_completed": st.DepthCompleted, "states": st.States, "transitions": st.Transitions,
			"max_spans_per_trace": s.MaxSpansPerTrace, "wall_s": time.Since(t).Seconds()}
		fmt.Printf("  %-20s depth %d/%d states %d transitions %d  %.1fs\n", s.Name, st.DepthCompleted, s.Depth, st.States, st.Transitions, time.Since(t).Seconds())
	}
	nloop := 0
	for _, s := range scs {
		if d, ok := map[string]int{"dry-det-w1": ev.Pick(r, 3, 4), "dry-det-w2": ev.Pick(r, 2, 3), "dry-spanlimit-w1": ev.Pick(r, 3, 4)}[s.Name]; ok {
			t := time.Now()
			n := s.LoopConformanceDry(r, d)
			nloop += n
			bounds["loop:"+s.Name] = map[string]any{"depth": d, "histories": n, "alphabet": fmt.Sprint(s.loopAlphabet()), "wall_s": time.Since(t).Seconds()}
			fmt.Printf("  loop:%-15s depth %d histories %d  %.1fs\n", s.Name, d, n, time.Since(t).Seconds())
		}
	}
	RunDryToggle(r) // DryRun toggled by a reload, on the real goroutines (c05_toggle.go)
	r.Set("traces_validated_against_impl", nloop)
	r.Set("bounds", bounds)
}
