package collector

import "github.com/honeycombio/refinery/config"

// ReloadLoopWhileBusy (loop mode, added for C03): every worker is parked on its own pause channel - it stands for a
// worker that is busy in a long send tick, a slow sampler or a blocked send - while one OR MORE reloads happen in a row:
// for each mut the configuration object is changed and the collector-level reload handler reloadConfigs (the body of
// the monitor goroutine's `case <-i.reload`) runs, here on the calling goroutine, so that "reloadConfigs has returned"
// needs no barrier. reloadConfigs notifies each worker with a non-blocking send on a 1-slot channel: from the second
// reload on the notification coalesces with the one still pending. Then the workers resume, their real collect() loops
// take the notification, and the call returns when they are quiescent again.
func (f *Fixture) ReloadLoopWhileBusy(muts ...func(*config.MockConfig)) {
	f.mustLoop()
	resumes := make([]func(), f.N)
	for w := 0; w < f.N; w++ {
		resumes[w] = f.Coll.VerifPauseWorker(w)
	}
	for _, mut := range muts {
		if mut != nil {
			f.SetConfig(mut)
		}
		f.Coll.VerifReloadConfigs()
		for w := 0; w < f.N; w++ {
			if !f.Coll.VerifReloadPending(w) {
				panic("fixture: reloadConfigs left no notification for a parked worker")
			}
		}
	}
	for _, r := range resumes {
		r()
	}
	f.QuiesceAll()
	for w := 0; w < f.N; w++ {
		f.refreshCtl(w)
	}
}
