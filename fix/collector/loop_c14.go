package collector

import "github.com/honeycombio/refinery/config"

// Loop-mode primitives added for C14 (rules reloads on a collector with several workers, SOME of which are busy).
// ReloadLoopWhileBusy (loop_c03.go) parks every worker for the whole run of reloads; here the caller chooses which
// workers are busy, so that the other workers' real collect() loops take each reload notification as it is sent and
// can be given traces between two reloads.

// Park parks worker w on its own pause channel (it stands for a worker that is busy in a long decision pass or
// blocked on a full transmission queue) and returns the function that lets it go on. While parked, the worker
// takes nothing from its channels; do not call Quiesce / AddSpan / EjectLoop for it.
func (f *Fixture) Park(w int) (resume func()) {
	f.mustLoop()
	return f.Coll.VerifPauseWorker(w)
}

// ReloadConfigsNow changes the configuration object and runs the collector-level reload handler reloadConfigs (the
// body of the monitor goroutine's `case <-i.reload`) on the calling goroutine, so "reloadConfigs has returned" needs
// no barrier. Returns, per worker, whether a notification is pending right after the call (workers that are not
// parked may already have taken theirs).
func (f *Fixture) ReloadConfigsNow(mut func(*config.MockConfig)) []bool {
	f.mustLoop()
	if mut != nil {
		f.SetConfig(mut)
	}
	f.Coll.VerifReloadConfigs()
	out := make([]bool, f.N)
	for w := 0; w < f.N; w++ {
		out[w] = f.Coll.VerifReloadPending(w)
	}
	return out
}

// Settle returns when each of the given (not parked) workers has taken everything that was sent to it - reload
// notification included - and is parked in its select again; the sent-cache control is re-attached if the reload
// case replaced the cache object.
func (f *Fixture) Settle(ws ...int) {
	f.mustLoop()
	for _, w := range ws {
		f.Quiesce(w)
		f.refreshCtl(w)
	}
}
