// Package collector is the shared fixture for the collector properties (C01–C07, C36): a REAL
// collect.InMemCollector with N workers, real trace buffer, real cuckoo sent cache, real samplers from
// the real sample.SamplerFactory, a fake clock, config.MockConfig and a capturing transmission — driven
// either in *handler mode* (no collector goroutine runs; the explorer calls the real case bodies one at
// a time) or in *loop mode* (the really started goroutines, driven through the real channels with
// deterministic barriers). See README.md.
package collector

import (
	"fmt"
	"runtime"
	"sort"
	"sync"
	"time"

	"github.com/jonboulle/clockwork"

	"github.com/honeycombio/refinery/collect"
	"github.com/honeycombio/refinery/collect/cache"
	"github.com/honeycombio/refinery/config"
	"github.com/honeycombio/refinery/logger"
	"github.com/honeycombio/refinery/metrics"
	"github.com/honeycombio/refinery/sample"
	"github.com/honeycombio/refinery/types"
)

// T0 is the default start instant of the fake clock.
var T0 = time.Date(2024, 1, 1, 0, 0, 0, 0, time.UTC)

// LegacyAPIKey makes DetermineSamplerKey use the dataset as the sampler key.
const LegacyAPIKey = "c9945edf5d245834089a1bd6cc9ad01e"

// SpanIDField is the payload field in which the fixture stores each span's harness identity.
const SpanIDField = "verif.sid"

// Conf wraps MockConfig. MockConfig.GetAddCountsToRoot returns the AddSpanCountToRoot field (a quirk
// of the mock); the wrapper answers from the field the name says.
type Conf struct{ *config.MockConfig }

func (c *Conf) GetAddCountsToRoot() bool {
	c.Mux.RLock()
	defer c.Mux.RUnlock()
	return c.AddCountsToRoot
}

// Options configure a fixture. Zero values give: 1 worker, deterministic sampler rate 1, SendTicker
// 100ms, real defaults for SendDelay/TraceTimeout (0 → 2s/60s inside the collector), kept LRU 100,
// dropped filter 2000 per worker, drop IDs reach the filter at the end of every handler call (AutoDrain).
type Options struct {
	Workers int
	Traces  config.TracesConfig // SendDelay, TraceTimeout, SpanLimit, MaxExpiredTraces, SendTicker ...
	// Sampler returns a FRESH sampler config (e.g. &config.DeterministicSamplerConfig{SampleRate: 2});
	// rule conditions carry state (sync.Once), so configs must not be shared between fixtures.
	Sampler func() any
	// Samplers, if set, gives per-dataset/environment sampler choices (key "__default__" = fallback).
	Samplers func() map[string]*config.V2SamplerChoice

	DryRun                 bool
	AddHostMetadataToTrace bool
	AddRuleReasonToTrace   bool
	AddSpanCountToRoot     bool
	AddCountsToRoot        bool
	AdditionalAttributes   map[string]string
	DatasetPrefix          string

	KeptSize    uint // total (the collector divides by the worker count, rounding up); default 100*Workers
	DroppedSize uint // total; default 2000*Workers

	Start        time.Time
	ManualDrain  bool                   // true: dropped IDs reach the cuckoo filter only on Drain()/Maintain()
	StressRelief collect.StressReliever // default &collect.MockStressReliever{}
	Loop         bool                   // true: keep the real goroutines running (loop mode)
	// RealStart (handler mode only): enter handler mode by running the real Start() and then terminating
	// its goroutines, instead of the cheap replica VerifStartHandlerMode. ~20 ms per fixture (Start()
	// allocates a 100 000-slot channel), so meant for spot checks, not for searches.
	RealStart bool

	noConformance bool
	// Mutate is applied to the MockConfig before the collector is started.
	Mutate func(*config.MockConfig)
}

// Fixture is one collector instance plus everything around it.
type Fixture struct {
	Opts    Options
	Clock   *clockwork.FakeClock
	Conf    *Conf
	Coll    *collect.InMemCollector
	Health  *collect.VerifHealth
	Tx      *Capture // upstream transmission
	PeerTx  *Capture
	Metrics *metrics.MockMetrics
	Factory *sample.SamplerFactory
	Sent    []*cache.VerifSentCacheCtl // per worker
	N       int
	Loop    bool

	closed bool
	nextID int
}

// New builds and starts a fixture. It never returns an error: a construction failure is a harness bug
// and panics (callers turn that into exit 2).
func New(o Options) *Fixture { return newFixture(o) }

func newFixture(o Options) *Fixture {
	if o.Workers <= 0 {
		o.Workers = 1
	}
	if o.Start.IsZero() {
		o.Start = T0
	}
	if o.Traces.SendTicker == 0 {
		o.Traces.SendTicker = config.Duration(100 * time.Millisecond)
	}
	if o.KeptSize == 0 {
		o.KeptSize = uint(100 * o.Workers)
	}
	if o.DroppedSize == 0 {
		o.DroppedSize = uint(2000 * o.Workers)
	}
	if o.Sampler == nil && o.Samplers == nil {
		o.Sampler = func() any { return &config.DeterministicSamplerConfig{SampleRate: 1} }
	}
	mc := &config.MockConfig{
		GetTracesConfigVal: o.Traces,
		SampleCache: config.SampleCacheConfig{
			KeptSize:    o.KeptSize,
			DroppedSize: o.DroppedSize,
			// the sent cache's monitor uses a REAL ticker of this period; it must never fire during a run:
			SizeCheckInterval: config.Duration(24 * time.Hour),
		},
		TraceIdFieldNames:  []string{"trace.trace_id", "traceId"},
		ParentIdFieldNames: []string{"trace.parent_id", "parentId"},
		GetCollectionConfigVal: config.CollectionConfig{
			WorkerCount:       o.Workers,
			ShutdownDelay:     config.Duration(time.Millisecond),
			IncomingQueueSize: 64 * o.Workers,
			PeerQueueSize:     64 * o.Workers,
			// MaxAlloc 0: checkAlloc never ejects by itself; ejection is an explicit event.
		},
		DryRun:                 o.DryRun,
		AddHostMetadataToTrace: o.AddHostMetadataToTrace,
		AddRuleReasonToTrace:   o.AddRuleReasonToTrace,
		AddSpanCountToRoot:     o.AddSpanCountToRoot,
		AddCountsToRoot:        o.AddCountsToRoot,
		AdditionalAttributes:   o.AdditionalAttributes,
		DatasetPrefix:          o.DatasetPrefix,
	}
	if o.Sampler != nil {
		mc.GetSamplerTypeVal = o.Sampler()
	}
	if o.Samplers != nil {
		mc.Samplers = o.Samplers()
	}
	if o.Mutate != nil {
		o.Mutate(mc)
	}
	conf := &Conf{mc}
	f := &Fixture{Opts: o, Conf: conf, N: o.Workers, Loop: o.Loop}
	f.Clock = clockwork.NewFakeClockAt(o.Start)
	f.Tx = &Capture{clock: f.Clock}
	f.PeerTx = &Capture{clock: f.Clock}
	f.Metrics = &metrics.MockMetrics{}
	f.Metrics.Start()
	f.Factory = &sample.SamplerFactory{Config: conf, Metrics: f.Metrics, Logger: &logger.NullLogger{}}
	if err := f.Factory.Start(); err != nil {
		panic(fmt.Sprintf("fixture: sampler factory: %v", err))
	}
	f.Coll, f.Health = collect.VerifNewCollector(collect.VerifParams{
		Config: conf, Clock: f.Clock, Transmission: f.Tx, PeerTransmission: f.PeerTx, Metrics: f.Metrics,
		SamplerFactory: f.Factory, StressRelief: o.StressRelief,
	})
	switch {
	case o.Loop:
		if err := f.Coll.Start(); err != nil {
			panic(fmt.Sprintf("fixture: collector start: %v", err))
		}
		// every worker's ticker and the monitor's ticker must be registered before time moves
		f.waitTickers(o.Workers + 1)
	case o.RealStart:
		if err := f.Coll.Start(); err != nil {
			panic(fmt.Sprintf("fixture: collector start: %v", err))
		}
		f.Coll.VerifEnterHandlerMode()
	default:
		if !o.noConformance {
			startConformanceOnce.Do(startConformance)
		}
		if err := f.Coll.VerifStartHandlerMode(64); err != nil {
			panic(fmt.Sprintf("fixture: collector start (handler mode): %v", err))
		}
	}
	if f.Coll.VerifNumWorkers() != o.Workers {
		panic("fixture: worker count mismatch")
	}
	for w := 0; w < o.Workers; w++ {
		ctl, ok := cache.VerifControl(f.Coll.VerifSampleCache(w))
		if !ok {
			panic("fixture: sent cache is not the cuckoo implementation")
		}
		// the recently-dropped TTL set runs on a real clock by default, the drainer on a real 100µs ticker:
		ctl.SetClock(f.Clock)
		ctl.StopDrainer()
		f.Sent = append(f.Sent, ctl)
	}
	return f
}

var startConformanceOnce sync.Once

// startConformance guards the one place where the fixture duplicates repository code: the cheap
// handler-mode start (hook VerifStartHandlerMode) must leave the same observable state behind as the
// real Start() followed by VerifEnterHandlerMode(), for two different configurations. A difference is a
// harness error (the hook has drifted from Start()), never a property violation.
func startConformance() {
	for _, o := range []Options{
		{Workers: 1},
		{Workers: 3, AddHostMetadataToTrace: true, KeptSize: 7, Traces: config.TracesConfig{SpanLimit: 2}},
	} {
		var st [2]string
		for k, real := range []bool{true, false} {
			oo := o
			oo.RealStart = real
			oo.noConformance = true
			f := newFixture(oo)
			f.Conf.Mux.RLock()
			ncb := len(f.Conf.Callbacks)
			f.Conf.Mux.RUnlock()
			var regs []string
			for n, t := range f.Metrics.Registrations {
				regs = append(regs, n+":"+t)
			}
			sort.Strings(regs)
			var consts []string
			for n, v := range f.Metrics.Constants {
				consts = append(consts, fmt.Sprintf("%s=%v", n, v))
			}
			sort.Strings(consts)
			var keys []string
			init := f.Coll.VerifInitState()
			for n, v := range init {
				keys = append(keys, fmt.Sprintf("%s=%v", n, v))
			}
			sort.Strings(keys)
			st[k] = fmt.Sprintf("init=%v callbacks=%d health=%v regs=%v consts=%v", keys, ncb, f.Health.Registered, regs, consts)
			f.Close()
		}
		if st[0] != st[1] {
			panic("fixture: VerifStartHandlerMode has drifted from InMemCollector.Start():\n real:    " + st[0] + "\n replica: " + st[1])
		}
	}
}

func (f *Fixture) waitTickers(n int) {
	// BlockUntilContext without a deadline: goroutines are already started, they only need to be scheduled.
	done := make(chan struct{})
	go func() { f.Clock.BlockUntil(n); close(done) }()
	for i := 0; ; i++ {
		select {
		case <-done:
			return
		default:
			runtime.Gosched()
			if i > 50_000_000 {
				panic("fixture: loops did not register their tickers")
			}
		}
	}
}

// Close stops the collector with the real Stop() and releases sampler goroutines.
func (f *Fixture) Close() {
	if f.closed {
		return
	}
	f.closed = true
	f.Coll.Stop()
	f.Factory.Stop()
}

// Now is the fake clock's reading.
func (f *Fixture) Now() time.Time { return f.Clock.Now() }

// WorkerFor returns the owner of a trace ID according to the real hash.
func (f *Fixture) WorkerFor(traceID string) int { return f.Coll.VerifWorkerFor(traceID) }

// ---------------------------------------------------------------- spans

type Kind int

const (
	Root Kind = iota
	Child
	SpanEvent
	Link
)

func (k Kind) String() string { return [...]string{"root", "child", "event", "link"}[k] }

// SpanSpec describes one span to deliver.
type SpanSpec struct {
	TraceID     string
	Kind        Kind
	ID          string // harness identity, stored in field SpanIDField; "" = auto (s1, s2, …)
	SampleRate  uint
	Dataset     string // default "ds"
	APIKey      string // default LegacyAPIKey
	Environment string
	Fields      map[string]any // extra payload fields (copied)
}

// MakeSpan builds a *types.Span the way the router would have (payload + extracted metadata + IsRoot).
func (f *Fixture) MakeSpan(s SpanSpec) *types.Span {
	if s.ID == "" {
		f.nextID++
		s.ID = fmt.Sprintf("s%d", f.nextID)
	}
	if s.Dataset == "" {
		s.Dataset = "ds"
	}
	if s.APIKey == "" {
		s.APIKey = LegacyAPIKey
	}
	data := map[string]any{SpanIDField: s.ID, "trace.trace_id": s.TraceID}
	for k, v := range s.Fields {
		data[k] = v
	}
	switch s.Kind {
	case Child:
		data["trace.parent_id"] = "p"
	case SpanEvent:
		data["trace.parent_id"] = "p"
		data["meta.annotation_type"] = "span_event"
	case Link:
		data["trace.parent_id"] = "p"
		data["meta.annotation_type"] = "link"
	}
	sp := &types.Span{
		TraceID: s.TraceID,
		IsRoot:  s.Kind == Root,
		Event: &types.Event{
			APIHost: "http://api.example", APIKey: s.APIKey, Dataset: s.Dataset, Environment: s.Environment,
			SampleRate: s.SampleRate, Timestamp: f.Clock.Now(),
			Data: types.NewPayload(f.Conf, data),
		},
	}
	sp.Data.ExtractMetadata()
	return sp
}

// ---------------------------------------------------------------- handler-mode events

func (f *Fixture) mustHandler() {
	if f.Loop {
		panic("fixture: handler-mode call on a loop-mode fixture")
	}
}

func (f *Fixture) after(w int) {
	if !f.Opts.ManualDrain {
		if w < 0 {
			for _, c := range f.Sent {
				c.Drain()
			}
		} else {
			f.Sent[w].Drain()
		}
	}
}

// Deliver runs the span case body (processSpan) on the owning worker. Returns that worker.
func (f *Fixture) Deliver(sp *types.Span) int {
	f.mustHandler()
	w := f.WorkerFor(sp.TraceID)
	f.Coll.VerifProcessSpan(w, sp)
	f.after(w)
	return w
}

// DeliverTo runs processSpan on a chosen worker (for mis-routing experiments).
func (f *Fixture) DeliverTo(w int, sp *types.Span) {
	f.mustHandler()
	f.Coll.VerifProcessSpan(w, sp)
	f.after(w)
}

// Span = MakeSpan + Deliver.
func (f *Fixture) Span(s SpanSpec) *types.Span {
	sp := f.MakeSpan(s)
	f.Deliver(sp)
	return sp
}

// Immediately calls the stress-relief entry point ProcessSpanImmediately (router goroutine in production).
func (f *Fixture) Immediately(sp *types.Span) (processed, keep bool) {
	processed, keep = f.Coll.ProcessSpanImmediately(sp)
	f.after(f.WorkerFor(sp.TraceID))
	return
}

// Tick runs worker w's send-tick handler with the current fake time.
func (f *Fixture) Tick(w int) {
	f.mustHandler()
	f.Coll.VerifTick(w, f.Clock.Now())
	f.after(w)
}

// TickAll ticks every worker in index order.
func (f *Fixture) TickAll() {
	for w := 0; w < f.N; w++ {
		f.Tick(w)
	}
}

// Advance moves the fake clock. In handler mode nothing else happens.
func (f *Fixture) Advance(d time.Duration) { f.Clock.Advance(d) }

// Eject runs worker w's memory-pressure handler sendTracesEarly(bytes).
func (f *Fixture) Eject(w int, bytes int) {
	f.mustHandler()
	f.Coll.VerifSendTracesEarly(w, bytes)
	f.after(w)
}

// EjectViaLoop posts a sendEarly request and lets worker w's real loop consume it (case body incl. wg.Done).
func (f *Fixture) EjectViaLoop(w int, bytes int) {
	f.mustHandler()
	wait := f.Coll.VerifPostSendEarly(w, bytes)
	f.Coll.VerifWorkerRunPending(w)
	wait()
	f.after(w)
}

// SetConfig mutates the MockConfig under its lock (no reload signalled).
func (f *Fixture) SetConfig(mut func(*config.MockConfig)) {
	f.Conf.Mux.Lock()
	mut(f.Conf.MockConfig)
	f.Conf.Mux.Unlock()
}

// ReloadSignal = config change + the collector-level reload handler (reloadConfigs): dynsamplers are
// cleared and one reload signal is left pending on every worker.
func (f *Fixture) ReloadSignal(mut func(*config.MockConfig)) {
	f.mustHandler()
	if mut != nil {
		f.SetConfig(mut)
	}
	f.Coll.VerifReloadConfigs()
}

// WorkerReload lets worker w's REAL loop consume its pending reload signal (clears its samplers,
// resizes its sent cache). No-op if none is pending.
func (f *Fixture) WorkerReload(w int) {
	f.mustHandler()
	f.Coll.VerifWorkerRunPending(w)
	// Resize starts a new sent-cache monitor but keeps the dropped checker: drainer stays stopped.
	f.refreshCtl(w)
}

// refreshCtl re-attaches the sent-cache control if the worker now owns a different cache object.
func (f *Fixture) refreshCtl(w int) {
	sc := f.Coll.VerifSampleCache(w)
	if f.Sent[w].Same(sc) {
		return
	}
	ctl, ok := cache.VerifControl(sc)
	if !ok {
		panic("fixture: sent cache is not the cuckoo implementation")
	}
	ctl.SetClock(f.Clock)
	ctl.StopDrainer()
	f.Sent[w] = ctl
}

// Reload = ReloadSignal + WorkerReload on every worker, in index order.
func (f *Fixture) Reload(mut func(*config.MockConfig)) {
	f.ReloadSignal(mut)
	for w := 0; w < f.N; w++ {
		f.WorkerReload(w)
	}
}

// SendStep runs the real sendTraces loop body for the head of the outgoing queue; false = queue empty.
func (f *Fixture) SendStep() bool {
	f.mustHandler()
	return f.Coll.VerifSendTracesStep()
}

// SendAll runs SendStep until the queue is empty; returns the number of traces transmitted.
func (f *Fixture) SendAll() int {
	n := 0
	for f.SendStep() {
		n++
	}
	return n
}

// Drain / Maintain drive the cuckoo filter's background bodies of worker w explicitly.
func (f *Fixture) Drain(w int)    { f.Sent[w].Drain() }
func (f *Fixture) Maintain(w int) { f.Sent[w].Maintain() }

// ---------------------------------------------------------------- observation

// TraceView is a copy of the interesting parts of a buffered trace.
type TraceView struct {
	TraceID  string
	Worker   int
	Spans    []string // harness span IDs in buffer order
	Kinds    []Kind
	HasRoot  bool
	SendBy   time.Time
	Arrival  time.Time
	Sent     bool
	Keep     bool
	DataSize int
	Ptr      *types.Trace
}

func kindOf(sp *types.Span) Kind {
	if sp.IsRoot {
		return Root
	}
	switch sp.Data.MetaAnnotationType {
	case "span_event":
		return SpanEvent
	case "link":
		return Link
	}
	return Child
}

// SpanID returns the harness identity of a span ("" if it has none).
func SpanID(sp *types.Span) string {
	if v, ok := sp.Data.Get(SpanIDField).(string); ok {
		return v
	}
	return ""
}

func (f *Fixture) view(w int, t *types.Trace) TraceView {
	v := TraceView{TraceID: t.TraceID, Worker: w, HasRoot: t.RootSpan != nil, SendBy: t.SendBy, Arrival: t.ArrivalTime,
		Sent: t.Sent, Keep: t.KeepSample, DataSize: t.DataSize, Ptr: t}
	for _, sp := range t.GetSpans() {
		v.Spans = append(v.Spans, SpanID(sp))
		v.Kinds = append(v.Kinds, kindOf(sp))
	}
	return v
}

// Buffered lists the undecided traces of worker w sorted by trace ID.
func (f *Fixture) Buffered(w int) []TraceView {
	var out []TraceView
	for _, t := range f.Coll.VerifBuffered(w) {
		out = append(out, f.view(w, t))
	}
	return out
}

// BufferedAll lists the undecided traces of all workers (worker order, then trace ID).
func (f *Fixture) BufferedAll() []TraceView {
	var out []TraceView
	for w := 0; w < f.N; w++ {
		out = append(out, f.Buffered(w)...)
	}
	return out
}

// OutView is one decided trace waiting for the sender loop.
type OutView struct {
	TraceView
	Reason, SendReason string
	ShouldSend         bool
	Rate               uint
}

// Outgoing lists tracesToSend in queue order (handler mode).
func (f *Fixture) Outgoing() []OutView {
	f.mustHandler()
	var out []OutView
	for _, o := range f.Coll.VerifOutgoingQueue() {
		out = append(out, OutView{TraceView: f.view(f.WorkerFor(o.TraceID), o.Trace), Reason: o.Reason, SendReason: o.SendReason,
			ShouldSend: o.ShouldSend, Rate: o.Rate})
	}
	return out
}

// Decision is what the sent cache of the owning worker currently remembers about a trace ID
// (read without side effects: no LRU touch, no TTL refresh, no count bump).
type Decision struct {
	Kept          bool // in the kept LRU
	KeptRec       cache.VerifKept
	RecentDropped bool // in the recently-dropped TTL set and not expired
	InFilter      bool // in the cuckoo filter
}

func (d Decision) Dropped() bool { return d.RecentDropped || d.InFilter }
func (d Decision) Known() bool   { return d.Kept || d.Dropped() }

func (f *Fixture) Remembered(traceID string) Decision {
	c := f.Sent[f.WorkerFor(traceID)]
	var d Decision
	d.KeptRec, d.Kept = c.KeptPeek(traceID)
	d.RecentDropped = c.InRecentDropped(traceID)
	d.InFilter = c.InDroppedFilter(traceID)
	return d
}

// Counter reads a MockMetrics counter (0 if never touched).
func (f *Fixture) Counter(name string) int64 {
	v, _ := f.Metrics.Get(name)
	return int64(v)
}

// SendReasonCounters returns the five send-reason counters.
func (f *Fixture) SendReasonCounters() map[string]int64 {
	out := map[string]int64{}
	for _, n := range []string{collect.TraceSendGotRoot, collect.TraceSendExpired, collect.TraceSendSpanLimit,
		collect.TraceSendEjectedMemsize, collect.TraceSendEjectedFull, collect.TraceSendLateSpan} {
		out[n] = f.Counter(n)
	}
	return out
}

// ---------------------------------------------------------------- capturing transmission

// Sent is one EnqueueSpan/EnqueueEvent call, deep-copied at enqueue time.
type Sent struct {
	Seq        int
	At         time.Time // fake time of the call
	TraceID    string
	SpanID     string // SpanIDField
	IsRoot     bool
	SampleRate uint
	APIKey     string
	APIHost    string
	Dataset    string
	Env        string
	Fields     map[string]any // every payload field incl. meta.* at enqueue time
	Span       *types.Span    // the live pointer (nil for EnqueueEvent)
	Event      *types.Event
}

// Capture implements transmit.Transmission.
type Capture struct {
	mu    sync.Mutex
	clock clockwork.Clock
	log   []Sent
}

func snapshot(ev *types.Event) map[string]any {
	m := map[string]any{}
	for k, v := range ev.Data.All() {
		m[k] = v
	}
	return m
}

func (c *Capture) EnqueueEvent(ev *types.Event) {
	c.mu.Lock()
	defer c.mu.Unlock()
	c.log = append(c.log, Sent{Seq: len(c.log), At: c.clock.Now(), SampleRate: ev.SampleRate, APIKey: ev.APIKey, APIHost: ev.APIHost,
		Dataset: ev.Dataset, Env: ev.Environment, Fields: snapshot(ev), Event: ev})
}

func (c *Capture) EnqueueSpan(sp *types.Span) {
	c.mu.Lock()
	defer c.mu.Unlock()
	c.log = append(c.log, Sent{Seq: len(c.log), At: c.clock.Now(), TraceID: sp.TraceID, SpanID: SpanID(sp), IsRoot: sp.IsRoot,
		SampleRate: sp.SampleRate, APIKey: sp.APIKey, APIHost: sp.APIHost, Dataset: sp.Dataset, Env: sp.Environment,
		Fields: snapshot(sp.Event), Span: sp, Event: sp.Event})
}

// Len is the number of enqueue calls so far.
func (c *Capture) Len() int { c.mu.Lock(); defer c.mu.Unlock(); return len(c.log) }

// Log returns the calls from index `from` on (shared backing array: do not modify).
func (c *Capture) Log(from int) []Sent {
	c.mu.Lock()
	defer c.mu.Unlock()
	return c.log[from:len(c.log):len(c.log)]
}

// Mutated lists the calls whose event changed after it was enqueued (field set or sample rate), as
// "seq:what" strings, sorted.
func (c *Capture) Mutated() []string {
	c.mu.Lock()
	defer c.mu.Unlock()
	var out []string
	for _, s := range c.log {
		if s.Event.SampleRate != s.SampleRate {
			out = append(out, fmt.Sprintf("%d:SampleRate %d->%d", s.Seq, s.SampleRate, s.Event.SampleRate))
		}
		now := snapshot(s.Event)
		var ks []string
		for k := range now {
			ks = append(ks, k)
		}
		for k := range s.Fields {
			if _, ok := now[k]; !ok {
				ks = append(ks, k)
			}
		}
		sort.Strings(ks)
		for _, k := range ks {
			a, aok := s.Fields[k]
			b, bok := now[k]
			if aok != bok || fmt.Sprint(a) != fmt.Sprint(b) {
				out = append(out, fmt.Sprintf("%d:%s %v->%v", s.Seq, k, a, b))
			}
		}
	}
	return out
}

// Multiset renders calls [from:] as a sorted list of "trace/span×rate" strings (order-insensitive view).
func (c *Capture) Multiset(from int) []string {
	var out []string
	for _, s := range c.Log(from) {
		out = append(out, fmt.Sprintf("%s/%s r%d", s.TraceID, s.SpanID, s.SampleRate))
	}
	sort.Strings(out)
	return out
}
