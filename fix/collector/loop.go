package collector

import (
	"runtime"
	"time"

	"github.com/honeycombio/refinery/config"
	"github.com/honeycombio/refinery/types"
)

// Loop mode: the collector's own goroutines (N × collect(), sendTraces(), monitor()) are running. Events
// are delivered through the real channels / the fake clock's tickers and every delivery is followed by a
// deterministic completion barrier built from the worker's own `pause` channel. No wall-clock value
// decides anything; a barrier that does not clear within `horizon` yields is a harness error (panic).

const horizon = 200_000_000

func (f *Fixture) mustLoop() {
	if !f.Loop {
		panic("fixture: loop-mode call on a handler-mode fixture")
	}
}

func spin(what string, cond func() bool) {
	for i := 0; !cond(); i++ {
		runtime.Gosched()
		if i > horizon {
			panic("fixture: barrier did not clear: " + what)
		}
	}
}

// Quiesce returns when worker w's loop is parked in its select with all its input channels empty, i.e.
// every event delivered so far has been fully processed by the real loop.
func (f *Fixture) Quiesce(w int) {
	f.mustLoop()
	for i := 0; ; i++ {
		resume := f.Coll.VerifPauseWorker(w)
		a, b, c, d := f.Coll.VerifQueueLens(w)
		resume()
		if a+b+c+d == 0 {
			break
		}
		if i > horizon {
			panic("fixture: worker does not drain its inputs")
		}
	}
	f.after(w)
}

// QuiesceAll quiesces every worker.
func (f *Fixture) QuiesceAll() {
	for w := 0; w < f.N; w++ {
		f.Quiesce(w)
	}
}

// AddSpan delivers through the real AddSpan (incoming channel) and waits for the worker to finish it.
func (f *Fixture) AddSpan(sp *types.Span) {
	f.mustLoop()
	if err := f.Coll.AddSpan(sp); err != nil {
		panic("fixture: AddSpan: " + err.Error())
	}
	f.Quiesce(f.WorkerFor(sp.TraceID))
}

// AddSpanFromPeer delivers through the peer channel.
func (f *Fixture) AddSpanFromPeer(sp *types.Span) {
	f.mustLoop()
	if err := f.Coll.AddSpanFromPeer(sp); err != nil {
		panic("fixture: AddSpanFromPeer: " + err.Error())
	}
	f.Quiesce(f.WorkerFor(sp.TraceID))
}

// TickInstants returns the instants in (from, from+d] at which the workers' SendTicker fires: the
// tickers are created at the fixture's start instant, so they fire at start + k·SendTicker.
func (f *Fixture) TickInstants(from time.Time, d time.Duration) []time.Time {
	st := time.Duration(f.Conf.GetTracesConfigVal.SendTicker)
	var out []time.Time
	k := from.Sub(f.Opts.Start)/st + 1
	for t := f.Opts.Start.Add(k * st); !t.After(from.Add(d)); t = t.Add(st) {
		out = append(out, t)
	}
	return out
}

// AdvanceLoop moves the fake clock by d. The clock is moved from ticker instant to ticker instant, and
// at each one the harness waits until every worker's real loop has run its tick case at that instant
// (exactly one tick per worker per instant). Returns the tick instants, so that a handler-mode twin can
// mirror the run as Advance-to-instant + TickAll.
func (f *Fixture) AdvanceLoop(d time.Duration) []time.Time {
	f.mustLoop()
	start := f.Clock.Now()
	ticks := f.TickInstants(start, d)
	for _, t := range ticks {
		f.Clock.Advance(t.Sub(f.Clock.Now()))
		for w := 0; w < f.N; w++ {
			want := t.UnixNano()
			ww := w
			spin("tick", func() bool { return f.Coll.VerifLastTickUnixNano(ww) == want })
			f.Quiesce(w)
		}
	}
	if rest := start.Add(d).Sub(f.Clock.Now()); rest > 0 {
		f.Clock.Advance(rest)
	}
	return ticks
}

// JumpLoop moves the fake clock by d IN ONE STEP (several ticker periods may pass: the fake ticker keeps one
// pending tick, stamped with the instant it was due) and returns when every worker's real loop has serviced a
// tick at the new instant and is quiescent again. If d is shorter than the time to the next tick instant,
// nothing is waited for.
func (f *Fixture) JumpLoop(d time.Duration) {
	f.mustLoop()
	start := f.Clock.Now()
	ticks := f.TickInstants(start, d)
	f.Clock.Advance(d)
	if len(ticks) == 0 {
		f.QuiesceAll()
		return
	}
	want := f.Clock.Now().UnixNano()
	for w := 0; w < f.N; w++ {
		ww := w
		spin("late tick", func() bool { return f.Coll.VerifLastTickUnixNano(ww) == want })
		f.Quiesce(w)
	}
}

// EjectLoop posts a sendEarly request to worker w's loop exactly as checkAlloc does and waits for the
// WaitGroup the loop signals after running sendTracesEarly.
func (f *Fixture) EjectLoop(w int, bytes int) {
	f.mustLoop()
	f.Coll.VerifPostSendEarly(w, bytes)()
	f.Quiesce(w)
}

// ReloadLoop changes the config and fires the registered reload callbacks (MockConfig.Reload): the real
// monitor goroutine picks the signal up, runs reloadConfigs, and every worker loop runs its reload case.
// Workers are held paused while the monitor distributes the signal so that completion is observable.
func (f *Fixture) ReloadLoop(mut func(*config.MockConfig)) {
	f.mustLoop()
	if mut != nil {
		f.SetConfig(mut)
	}
	resumes := make([]func(), f.N)
	for w := 0; w < f.N; w++ {
		resumes[w] = f.Coll.VerifPauseWorker(w)
	}
	f.Conf.Reload()
	spin("reload distribution", func() bool {
		for w := 0; w < f.N; w++ {
			if !f.Coll.VerifReloadPending(w) {
				return false
			}
		}
		return true
	})
	for _, r := range resumes {
		r()
	}
	f.QuiesceAll()
	for w := 0; w < f.N; w++ {
		f.refreshCtl(w)
	}
}

// SenderIdle returns when the real sendTraces goroutine has finished transmitting everything the workers
// have queued so far (sentinel barrier, see hook VerifSenderBarrier). Call after Quiesce/QuiesceAll.
func (f *Fixture) SenderIdle() {
	f.mustLoop()
	f.Coll.VerifSenderBarrier()
}
