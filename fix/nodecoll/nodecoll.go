// Package nodecoll plugs a REAL collect.InMemCollector, driven in handler mode (DESIGN §4.2), into a
// fix/pipeline Node: the node's real routers hand their spans to the real worker case body processSpan,
// the harness then fires the real send tick (sendExpiredTracesInCache → makeDecision → send) on the
// node's fake clock, reads the sampler's answer off the outgoing queue and lets the real sendTraces body
// put the kept spans on the node's real upstream DirectTransmission (whose bytes fix/pipeline decodes).
//
// Used by props/c09 and props/c20. Nothing here copies collector logic: every step is a hook in
// hooks/collect/zz_verif_handlers.go (+ zz_verif_c09.go for the sample key) that calls the real method.
// The cheap handler-mode start those hooks use is cross-checked against the real Start() once per process
// by fix/collector (startConformance); Conformance() below triggers that check.
package nodecoll

import (
	"fmt"
	"sort"
	"sync"
	"sync/atomic"
	"time"

	"github.com/jonboulle/clockwork"

	"github.com/honeycombio/refinery/collect"
	"github.com/honeycombio/refinery/config"
	"github.com/honeycombio/refinery/logger"
	"github.com/honeycombio/refinery/sample"
	"github.com/honeycombio/refinery/types"

	fixcollector "verif/fix/collector"
	"verif/fix/pipeline"
)

// Decision is what the real sampler answered for one trace (as makeDecision recorded it).
type Decision struct {
	TraceID    string
	Keep       bool
	Rate       uint
	Reason     string
	SampleKey  string
	Selector   string // sampler selector (dataset for classic keys)
	SendReason string
}

func (d Decision) String() string {
	return fmt.Sprintf("keep=%v rate=%d key=%q reason=%q", d.Keep, d.Rate, d.SampleKey, d.Reason)
}

// Real implements collect.Collector on top of a real InMemCollector in handler mode. One goroutine at a
// time (the one that drives the Node).
type Real struct {
	Node    *pipeline.Node
	Factory *sample.SamplerFactory
	Coll    *collect.InMemCollector
	// Clock is the collector's own fake clock (starts at pipeline.T0). It is separate from Node.Clock on
	// purpose: the node's clock carries the transmissions' stale-batch tickers, and moving it a minute
	// forward makes clockwork fire each of them hundreds of times. In handler mode no collector loop runs,
	// so nothing ever waits on this clock; it only answers Now().
	Clock *clockwork.FakeClock
	rec   *recTracer
	busy  atomic.Bool
	// OutgoingCap is the capacity of the outgoing queue of the NEXT collector built by Reset (default 64).
	// The real send() blocks when the queue is full (nobody drains it in handler mode): it must exceed
	// the number of traces kept between two Send() calls.
	OutgoingCap int
	// Arrivals lists the spans in the order processSpan saw them (live objects).
	Arrivals []*types.Span
}

var _ collect.Collector = (*Real)(nil)

var conformanceOnce sync.Once

// Conformance runs fix/collector's one-off check that the cheap handler-mode start equals the real Start().
func Conformance() {
	conformanceOnce.Do(func() { fixcollector.New(fixcollector.Options{}).Close() })
}

// Prepare fills the collector-side settings of a pipeline config that the real collector needs.
func Prepare(cfg *config.MockConfig) {
	if cfg.SampleCache.KeptSize == 0 {
		// SizeCheckInterval: the sent cache's monitor runs on a REAL ticker; it must never fire in a run.
		cfg.SampleCache = config.SampleCacheConfig{KeptSize: 16, DroppedSize: 64, SizeCheckInterval: config.Duration(24 * time.Hour)}
	}
	cc := cfg.GetCollectionConfigVal
	cc.WorkerCount = 1
	if cc.ShutdownDelay == 0 {
		cc.ShutdownDelay = config.Duration(time.Millisecond)
	}
	cfg.GetCollectionConfigVal = cc
}

// New is meant for pipeline.Options.Collector: func(n) { rc = nodecoll.New(n); return rc }.
// The node's config must have been through Prepare.
func New(n *pipeline.Node) *Real {
	Conformance()
	r := &Real{Node: n, Clock: clockwork.NewFakeClockAt(pipeline.T0)}
	r.Factory = &sample.SamplerFactory{Config: n.Cfg, Metrics: n.Metrics, Logger: &logger.NullLogger{}}
	if err := r.Factory.Start(); err != nil {
		panic(fmt.Sprintf("nodecoll: sampler factory: %v", err))
	}
	r.fresh()
	return r
}

func (r *Real) fresh() {
	c, _ := collect.VerifNewCollector(collect.VerifParams{
		Config: r.Node.Cfg, Clock: r.Clock, Transmission: r.Node.UpTx, PeerTransmission: r.Node.PeerTx,
		Metrics: r.Node.Metrics, SamplerFactory: r.Factory,
	})
	oc := r.OutgoingCap
	if oc <= 0 {
		oc = 64
	}
	if err := c.VerifStartHandlerMode(oc); err != nil {
		panic(fmt.Sprintf("nodecoll: collector start (handler mode): %v", err))
	}
	r.rec = &recTracer{}
	c.Tracer = r.rec
	r.Coll = c
	r.Arrivals = nil
}

// Reset throws the collector away (real Stop()) and builds a fresh one: empty trace buffer, empty
// decision cache. The sampler factory (and with it any dynsampler state) is kept.
func (r *Real) Reset() {
	r.Coll.Stop()
	r.fresh()
}

// Close stops collector and samplers.
func (r *Real) Close() {
	r.Coll.Stop()
	r.Factory.Stop()
}

func (r *Real) process(sp *types.Span) error {
	// handler mode is single-goroutine: two routers (or two asynchronously dispatched peer batches) handing
	// spans over at the same time would be a harness bug, not a collector behaviour.
	if !r.busy.CompareAndSwap(false, true) {
		panic("nodecoll: spans handed to the collector concurrently (raise pipeline.Options.MaxBatchSize so that no batch is dispatched asynchronously)")
	}
	defer r.busy.Store(false)
	r.Arrivals = append(r.Arrivals, sp)
	r.Coll.VerifProcessSpan(r.Coll.VerifWorkerFor(sp.TraceID), sp)
	return nil
}

// AddSpan / AddSpanFromPeer: in production the span goes onto the worker's channel and the worker loop's
// case body calls processSpan; here the case body runs at once (same body for both channels).
func (r *Real) AddSpan(sp *types.Span) error         { return r.process(sp) }
func (r *Real) AddSpanFromPeer(sp *types.Span) error { return r.process(sp) }
func (r *Real) Stressed() bool                       { return r.Coll.Stressed() }
func (r *Real) GetStressedSampleRate(id string) (uint, bool, string) {
	return r.Coll.GetStressedSampleRate(id)
}
func (r *Real) ProcessSpanImmediately(sp *types.Span) (bool, bool) {
	return r.Coll.ProcessSpanImmediately(sp)
}

// Decide advances the collector's fake clock past every send deadline, fires the real send tick of every
// worker and returns the decisions makeDecision took during those ticks, sorted by trace ID. Kept traces
// are now waiting on the outgoing queue; call Send to transmit them.
func (r *Real) Decide() []Decision {
	r.Clock.Advance(61 * time.Second) // > TraceTimeout default (60 s) > SendDelay
	r.rec.decisions = nil
	for w := 0; w < r.Coll.VerifNumWorkers(); w++ {
		r.Coll.VerifTick(w, r.Clock.Now())
	}
	out := append([]Decision(nil), r.rec.decisions...)
	sort.SliceStable(out, func(a, b int) bool { return out[a].TraceID < out[b].TraceID })
	// cross-check with the queue: every queued trace was decided just now, with the same answer
	q := r.Coll.VerifOutgoingQueue()
	keys := r.Coll.VerifOutgoingSampleKeys()
	if len(q) != len(keys) {
		panic("nodecoll: outgoing queue changed while being read")
	}
	byID := map[string]Decision{}
	for _, d := range out {
		byID[d.TraceID] = d
	}
	dry := r.Node.Cfg.GetIsDryRun()
	nq := 0
	for i, o := range q {
		d, ok := byID[o.TraceID]
		if !ok || keys[i].TraceID != o.TraceID || d.Keep != o.ShouldSend || d.Rate != o.Rate || d.Reason != o.Reason ||
			d.SampleKey != keys[i].SampleKey || d.Selector != keys[i].SamplerSelector {
			panic(fmt.Sprintf("nodecoll: telemetry and outgoing queue disagree for trace %s: %+v vs %+v / %+v", o.TraceID, d, o, keys[i]))
		}
		nq++
	}
	for _, d := range out {
		if d.Keep || dry {
			nq--
		}
	}
	if nq != 0 {
		panic("nodecoll: kept decisions and outgoing queue differ in number")
	}
	return out
}

// Send runs the real sendTraces body for everything queued (kept spans are enqueued on the node's
// upstream transmission; Node.Flush puts them on the wire). Returns the number of traces handled.
func (r *Real) Send() int {
	n := 0
	for r.Coll.VerifSendTracesStep() {
		n++
	}
	return n
}
