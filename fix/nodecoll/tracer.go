package nodecoll

import (
	"context"

	"go.opentelemetry.io/otel/attribute"
	"go.opentelemetry.io/otel/trace"
	"go.opentelemetry.io/otel/trace/noop"
)

// recTracer is a trace.Tracer that records the attributes the collector puts on its "makeDecision"
// spans: {trace_id, kept, reason, sampler (= sample key), selector, rate, send_reason, hasRoot}.
// Everything else is a no-op. Not safe for concurrent use (handler mode is single-goroutine).
type recTracer struct {
	noop.Tracer
	decisions []Decision
}

type recSpan struct {
	noop.Span
	t     *recTracer
	name  string
	attrs map[string]attribute.Value
}

func (t *recTracer) Start(ctx context.Context, name string, _ ...trace.SpanStartOption) (context.Context, trace.Span) {
	if name != "makeDecision" {
		return ctx, quiet
	}
	return ctx, &recSpan{t: t, name: name, attrs: map[string]attribute.Value{}}
}

// quietSpan reports IsRecording()==false, so the helpers in internal/otelutil skip it.
var quiet trace.Span = noop.Span{}

func (s *recSpan) IsRecording() bool { return true }
func (s *recSpan) SetAttributes(kv ...attribute.KeyValue) {
	for _, a := range kv {
		s.attrs[string(a.Key)] = a.Value
	}
}

func (s *recSpan) End(...trace.SpanEndOption) {
	if _, decided := s.attrs["kept"]; !decided {
		return // makeDecision returned early ("trace already sent")
	}
	s.t.decisions = append(s.t.decisions, Decision{
		TraceID:    s.attrs["trace_id"].AsString(),
		Keep:       s.attrs["kept"].AsBool(),
		Rate:       uint(rateOf(s.attrs["rate"])),
		Reason:     s.attrs["reason"].AsString(),
		SampleKey:  s.attrs["sampler"].AsString(),
		Selector:   s.attrs["selector"].AsString(),
		SendReason: s.attrs["send_reason"].AsString(),
	})
}

// rate is a uint in the collector; otelutil.Attributes renders types it has no arm for with %v.
func rateOf(v attribute.Value) int64 {
	switch v.Type() {
	case attribute.INT64:
		return v.AsInt64()
	case attribute.STRING:
		var n int64
		for _, c := range v.AsString() {
			if c < '0' || c > '9' {
				return -1
			}
			n = n*10 + int64(c-'0')
		}
		return n
	}
	return -1
}
