// Package hookreg is the neutral meeting point between in-package hook files (overlaid into /repo packages
// at build time, see AUTHORING.md) and the fixtures: a hook file's init() stores its accessor here, the
// fixture calls it. This keeps `go vet ./fix/...` / plain `go build ./fix/...` working without the overlay
// (the variables are then nil and the fixture panics with a clear message at run time).
package hookreg

import (
	"context"
	"net/http"
)

// RouteHandler returns the mux built by (*route.Router).LnS. Set by hooks/route/zz_verif_handler.go.
var RouteHandler func(router any) http.Handler

// RouteTraceExport drives route's registered OTLP/gRPC trace Export method handler. Same hook file.
var RouteTraceExport func(router any, ctx context.Context, dec func(any) error) (any, error)

// Must panics with an explanatory message when a hook is missing.
func Must(ok bool, name string) {
	if !ok {
		panic("verif: hook " + name + " is not registered — the binary was built without the /verif overlay (use ./vcheck)")
	}
}
