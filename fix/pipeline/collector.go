package pipeline

import (
	"sync"
	"time"

	"github.com/honeycombio/refinery/collect"
	"github.com/honeycombio/refinery/transmit"
	"github.com/honeycombio/refinery/types"
)

// SpanRecord is a snapshot of a span taken at the moment the router handed it to the collector
// (values are copied, so later mutation of the event by the code under test is visible as a difference
// between the snapshot and Span).
type SpanRecord struct {
	Via        string // "incoming" (AddSpan), "peer" (AddSpanFromPeer), "immediate" (ProcessSpanImmediately)
	Result     string // "queued", "full" (ErrWouldBlock answered), "kept", "dropped" (immediate decisions)
	TraceID    string
	IsRoot     bool
	APIHost    string
	APIKey     string
	Dataset    string
	Env        string
	SampleRate uint
	Timestamp  time.Time
	Data       map[string]any // Payload.All() at hand-over time (metadata fields included, meta.trace_id excluded by Refinery)
	Span       *types.Span    // the live object
}

// CaptureCollector implements collect.Collector, records every span it is given and can be told to
// answer "queue full" and to play stress relief.
type CaptureCollector struct {
	mu   sync.Mutex
	recs []SpanRecord

	// Full makes AddSpan / AddSpanFromPeer answer collect.ErrWouldBlock. FullFn (if set) decides per span.
	Full   bool
	FullFn func(sp *types.Span, fromPeer bool) bool

	// StressOn is the answer of Stressed(). StressDecide is the immediate decision for a trace
	// (default: rate 1, keep). StressUnhandled=true makes ProcessSpanImmediately answer "not processed".
	StressOn        bool
	StressDecide    func(traceID string) (rate uint, keep bool, reason string)
	StressUnhandled bool
	// ImmediateUpstream, when set, makes a kept immediate span go to that transmission the way the real
	// collector does it (meta.stressed=true, sample rate multiplied, EnqueueSpan) — an emulation written
	// from the documentation, use the real collector when that path itself is under test.
	ImmediateUpstream transmit.Transmission
}

var _ collect.Collector = (*CaptureCollector)(nil)

func (c *CaptureCollector) record(via, result string, sp *types.Span) {
	r := SpanRecord{Via: via, Result: result, TraceID: sp.TraceID, IsRoot: sp.IsRoot, Span: sp, Data: map[string]any{}}
	if sp.Event != nil {
		r.APIHost, r.APIKey, r.Dataset, r.Env = sp.APIHost, sp.APIKey, sp.Dataset, sp.Environment
		r.SampleRate, r.Timestamp = sp.SampleRate, sp.Timestamp
		for k, v := range sp.Data.All() {
			r.Data[k] = v
		}
	}
	c.mu.Lock()
	c.recs = append(c.recs, r)
	c.mu.Unlock()
}

func (c *CaptureCollector) add(via string, sp *types.Span, fromPeer bool) error {
	full := c.Full
	if c.FullFn != nil {
		full = c.FullFn(sp, fromPeer)
	}
	if full {
		c.record(via, "full", sp)
		return collect.ErrWouldBlock
	}
	c.record(via, "queued", sp)
	return nil
}

func (c *CaptureCollector) AddSpan(sp *types.Span) error         { return c.add("incoming", sp, false) }
func (c *CaptureCollector) AddSpanFromPeer(sp *types.Span) error { return c.add("peer", sp, true) }
func (c *CaptureCollector) Stressed() bool                       { return c.StressOn }

func (c *CaptureCollector) GetStressedSampleRate(traceID string) (uint, bool, string) {
	if c.StressDecide != nil {
		return c.StressDecide(traceID)
	}
	return 1, true, "verif-stress"
}

func (c *CaptureCollector) ProcessSpanImmediately(sp *types.Span) (processed bool, keep bool) {
	if c.StressUnhandled {
		return false, false
	}
	rate, keep, _ := c.GetStressedSampleRate(sp.TraceID)
	if !keep {
		c.record("immediate", "dropped", sp)
		return true, false
	}
	if c.ImmediateUpstream != nil {
		sp.Data.Set(types.MetaStressed, true)
		if sp.SampleRate < 1 {
			sp.SampleRate = 1
		}
		if rate > 1 {
			sp.SampleRate *= rate
		}
		c.record("immediate", "kept", sp)
		c.ImmediateUpstream.EnqueueSpan(sp)
		return true, true
	}
	c.record("immediate", "kept", sp)
	return true, true
}

// Records returns the snapshots in arrival order. Reset forgets them.
func (c *CaptureCollector) Records() []SpanRecord {
	c.mu.Lock()
	defer c.mu.Unlock()
	return append([]SpanRecord(nil), c.recs...)
}

func (c *CaptureCollector) Reset() {
	c.mu.Lock()
	c.recs = nil
	c.mu.Unlock()
}
