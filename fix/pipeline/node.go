// Package pipeline is the shared single-node fixture: one in-process Refinery node made of the real
// route.Router (incoming and peer flavour, reached through the real mux), a real DeterministicSharder over
// a static peer list, real transmit.DirectTransmission instances (upstream and peer) whose http.Transport
// answers from memory and records what finally goes on the wire, and a capturing collector.
// See README.md.
package pipeline

import (
	"bytes"
	"context"
	"crypto/tls"
	"encoding/json"
	"fmt"
	"net/http"
	"net/http/httptest"
	"sync"
	"sync/atomic"
	"time"

	"github.com/jonboulle/clockwork"
	"go.opentelemetry.io/otel/trace/noop"
	collectorlogs "go.opentelemetry.io/proto/otlp/collector/logs/v1"
	"google.golang.org/grpc/encoding"
	_ "google.golang.org/grpc/encoding/proto"
	"google.golang.org/grpc/mem"
	"google.golang.org/grpc/metadata"

	"github.com/honeycombio/refinery/collect"
	"github.com/honeycombio/refinery/config"
	"github.com/honeycombio/refinery/logger"
	"github.com/honeycombio/refinery/metrics"
	"github.com/honeycombio/refinery/route"
	"github.com/honeycombio/refinery/sharder"
	"github.com/honeycombio/refinery/transmit"
	"github.com/honeycombio/refinery/types"

	"verif/fix/codec"
	"verif/fix/hookreg"
)

// Default addresses.
const (
	DefaultUpstream = "http://api.hny.test"
	DefaultSelf     = "http://node-a.test:8081"
	DefaultPeer     = "http://node-b.test:8081"
	// deliberately unusable: LnS builds the mux and the http.Server, ListenAndServe fails at once, no socket.
	noListen = "127.0.0.1:-1"
)

// T0 is the fake clock's start.
var T0 = time.Date(2024, 3, 1, 12, 0, 0, 0, time.UTC)

// Listener selects the router flavour.
type Listener int

const (
	Incoming Listener = iota // client-facing router (types.RouterTypeIncoming)
	Peer                     // peer-facing router (types.RouterTypePeer)
)

func (l Listener) String() string {
	if l == Peer {
		return "peer"
	}
	return "incoming"
}

// Options configures New. The zero value is usable.
type Options struct {
	// Config supplies every setting; nil = DefaultConfig(). HoneycombAPI "" is set to DefaultUpstream, the
	// listen addresses are always overwritten with an unusable address (nothing listens).
	Config *config.MockConfig
	// Self is this node's peer address, Peers the other nodes (default: DefaultSelf, {DefaultPeer}).
	// Pass Peers = []string{} (non-nil, empty) for a single-node cluster.
	Self  string
	Peers []string
	// Collector replaces the CaptureCollector (then Node.Collector is nil and Node.Coll is yours).
	// It is called with the node so that it can be wired to the node's transmissions, clock and sharder.
	Collector func(n *Node) collect.Collector
	// MaxBatchSize of both transmissions (default 512). A batch key that reaches it is dispatched
	// asynchronously by the real code; Flush still waits for it.
	MaxBatchSize int
	// CompressUpstream (default true, as in cmd/refinery) / peer compression comes from
	// Config.GetCompressPeerCommunicationsVal.
	NoCompressUpstream bool
	Logger             logger.Logger // default NullLogger
}

// DefaultConfig is a MockConfig with two trace-ID and two parent-ID field names, accept-all keys,
// SendKeyMode none, deterministic sampler rate 1.
func DefaultConfig() *config.MockConfig {
	return &config.MockConfig{
		GetHoneycombAPIVal:  DefaultUpstream,
		TraceIdFieldNames:   []string{"trace.trace_id", "traceId"},
		ParentIdFieldNames:  []string{"trace.parent_id", "parentId"},
		EnvironmentCacheTTL: 24 * time.Hour,
		GetSamplerTypeVal:   &config.DeterministicSamplerConfig{SampleRate: 1},
		GetTracesConfigVal: config.TracesConfig{
			SendTicker: config.Duration(100 * time.Millisecond), SendDelay: config.Duration(2 * time.Second),
			TraceTimeout: config.Duration(60 * time.Second), MaxBatchSize: 512, BatchTimeout: config.Duration(100 * time.Millisecond),
		},
		GetCollectionConfigVal: config.CollectionConfig{PeerQueueSize: 100, IncomingQueueSize: 100, WorkerCount: 1},
	}
}

// Node is the running fixture.
type Node struct {
	Cfg       *config.MockConfig
	Self      string
	Peers     []string // the other nodes
	Upstream  string   // base URL of the fake Honeycomb API
	Clock     *AutoClock
	Net       *MemNet
	Metrics   *metrics.MockMetrics
	Sharder   *sharder.DeterministicSharder
	Collector *CaptureCollector // nil when Options.Collector was given
	Coll      collect.Collector // whatever the routers use
	Routers   [2]*route.Router  // indexed by Listener
	Handlers  [2]http.Handler   // the real muxes
	UpTx      *Tx               // upstream transmission (what the routers' UpstreamTransmission points to)
	PeerTx    *Tx               // peer transmission
	Transport *http.Transport   // the http.Transport given to routers and transmissions
	Health    *HealthStub       // what /alive and /ready report (default both true)
}

// StaticPeers implements Refinery's internal peer.Peers interface over a fixed list (the internal package
// cannot be imported from this module; the interface is satisfied structurally).
type StaticPeers struct {
	List []string // all peers including this node
	ID   string   // this node
}

func (p *StaticPeers) GetPeers() ([]string, error)            { return p.List, nil }
func (p *StaticPeers) GetInstanceID() (string, error)         { return p.ID, nil }
func (p *StaticPeers) RegisterUpdatedPeersCallback(cb func()) {}
func (p *StaticPeers) Ready() error                           { return nil }
func (p *StaticPeers) Start() error                           { return nil }

// HealthStub implements the internal health.Reporter interface.
type HealthStub struct{ Alive, Ready bool }

func (h *HealthStub) IsAlive() bool { return h.Alive }
func (h *HealthStub) IsReady() bool { return h.Ready }

// AutoClock is a clockwork fake clock whose Sleep advances the clock instead of blocking, so the
// retry back-off in sendBatch cannot hang a check. Time only moves when the harness (or Sleep) moves it.
type AutoClock struct{ *clockwork.FakeClock }

func (c *AutoClock) Sleep(d time.Duration) { c.Advance(d) }

// Tx wraps one real transmit.DirectTransmission and makes it flushable: Flush() calls the real Stop()
// (which dispatches every pending batch through the real sendBatch and waits for all sends) and then
// installs and starts a fresh DirectTransmission with the same parameters. No ticker, no sleep.
type Tx struct {
	mu    sync.RWMutex
	cur   *transmit.DirectTransmission
	mk    func() *transmit.DirectTransmission
	dirty atomic.Bool // something was enqueued through this Tx since the last Flush
}

var _ transmit.Transmission = (*Tx)(nil)

func (t *Tx) EnqueueEvent(ev *types.Event) {
	t.mu.RLock()
	d := t.cur
	t.mu.RUnlock()
	t.dirty.Store(true)
	d.EnqueueEvent(ev)
}

func (t *Tx) EnqueueSpan(sp *types.Span) {
	t.mu.RLock()
	d := t.cur
	t.mu.RUnlock()
	t.dirty.Store(true)
	d.EnqueueSpan(sp)
}

// Direct returns the current real transmission (it is replaced by every effective Flush). Enqueue through the
// Tx, not through Direct(): Flush is a no-op when nothing went through the Tx since the previous Flush.
func (t *Tx) Direct() *transmit.DirectTransmission { t.mu.RLock(); defer t.mu.RUnlock(); return t.cur }

// Flush sends everything that is pending and returns when every request has been answered.
func (t *Tx) Flush() {
	t.mu.Lock()
	defer t.mu.Unlock()
	if !t.dirty.Swap(false) {
		return
	}
	if err := t.cur.Stop(); err != nil {
		panic(fmt.Sprintf("pipeline: DirectTransmission.Stop: %v", err))
	}
	t.cur = t.mk()
}

func (t *Tx) stop() { t.mu.Lock(); t.cur.Stop(); t.mu.Unlock() }

// New builds and starts a node. It panics on set-up problems (callers are harnesses: use ev.Harness around it
// if you prefer exit 2 semantics — a panic also ends the check with a non-0/1 status).
func New(o Options) *Node {
	cfg := o.Config
	if cfg == nil {
		cfg = DefaultConfig()
	}
	if cfg.GetHoneycombAPIVal == "" {
		cfg.GetHoneycombAPIVal = DefaultUpstream
	}
	cfg.GetListenAddrVal, cfg.GetPeerListenAddrVal, cfg.GetGRPCEnabledVal = noListen, noListen, false
	n := &Node{Cfg: cfg, Self: o.Self, Peers: o.Peers, Upstream: cfg.GetHoneycombAPIVal}
	if n.Self == "" {
		n.Self = DefaultSelf
	}
	if n.Peers == nil {
		n.Peers = []string{DefaultPeer}
	}
	lg := o.Logger
	if lg == nil {
		lg = &logger.NullLogger{}
	}
	n.Clock = &AutoClock{clockwork.NewFakeClockAt(T0)}
	n.Health = &HealthStub{Alive: true, Ready: true}
	n.Metrics = &metrics.MockMetrics{}
	n.Metrics.Start()

	n.Net = &MemNet{upstream: n.Upstream, peers: map[string]bool{}}
	for _, p := range n.Peers {
		n.Net.peers[p] = true
	}
	// TLSNextProto non-nil: no automatic HTTP/2 set-up (which would claim the "https" scheme itself).
	n.Transport = &http.Transport{TLSNextProto: map[string]func(string, *tls.Conn) http.RoundTripper{}}
	n.Transport.RegisterProtocol("http", n.Net)
	n.Transport.RegisterProtocol("https", n.Net)

	all := append([]string{n.Self}, n.Peers...)
	n.Sharder = &sharder.DeterministicSharder{Config: cfg, Logger: lg, Peers: &StaticPeers{List: all, ID: n.Self}}
	if err := n.Sharder.Start(); err != nil {
		panic(fmt.Sprintf("pipeline: sharder: %v", err))
	}

	maxBatch := o.MaxBatchSize
	if maxBatch <= 0 {
		maxBatch = 512
	}
	mkTx := func(tt types.TransmitType, compress bool, hdr map[string]string) *Tx {
		t := &Tx{}
		t.mk = func() *transmit.DirectTransmission {
			// batchTimeout only drives the stale-batch ticker (on the fake clock: never fires unless the
			// harness advances it); batchSendTimeout 0 = no http.Client timeout (no wall clock involved).
			d := transmit.NewDirectTransmission(tt, n.Transport, maxBatch, time.Duration(cfg.GetTracesConfigVal.GetBatchTimeout()), 0, compress, hdr)
			d.Config, d.Logger, d.Metrics, d.Version, d.Clock = cfg, lg, n.Metrics, "verif", n.Clock
			if err := d.Start(); err != nil {
				panic(fmt.Sprintf("pipeline: transmission start: %v", err))
			}
			return d
		}
		t.cur = t.mk()
		return t
	}
	n.UpTx = mkTx(types.TransmitTypeUpstream, !o.NoCompressUpstream, cfg.GetAdditionalHeaders())
	n.PeerTx = mkTx(types.TransmitTypePeer, cfg.GetCompressPeerCommunicationsVal, nil)

	if o.Collector != nil {
		n.Coll = o.Collector(n)
	} else {
		n.Collector = &CaptureCollector{}
		n.Coll = n.Collector
	}

	for _, l := range []Listener{Incoming, Peer} {
		r := &route.Router{Config: cfg, Logger: lg, Health: n.Health, HTTPTransport: n.Transport,
			UpstreamTransmission: n.UpTx, PeerTransmission: n.PeerTx, Sharder: n.Sharder, Collector: n.Coll,
			Metrics: n.Metrics, Tracer: noop.Tracer{}}
		r.SetVersion("verif")
		if l == Incoming {
			r.SetType(types.RouterTypeIncoming)
		} else {
			r.SetType(types.RouterTypePeer)
		}
		r.LnS()
		hookreg.Must(hookreg.RouteHandler != nil, "hooks/route/zz_verif_handler.go")
		h := hookreg.RouteHandler(r)
		if h == nil {
			panic("pipeline: router has no handler after LnS")
		}
		n.Routers[l], n.Handlers[l] = r, h
	}
	return n
}

// Close stops transmissions (flushing them) and routers.
func (n *Node) Close() {
	n.UpTx.stop()
	n.PeerTx.stop()
	for _, r := range n.Routers {
		r.Stop()
	}
}

// ---------------------------------------------------------------------------------------------
// Serving requests

// Response is what the client got back.
type Response struct {
	Status int
	Header http.Header
	Body   []byte
}

// BatchStatuses parses a /1/batch response body into the per-event status list (nil if unparsable).
func (r *Response) BatchStatuses() []int {
	var rs []struct {
		Status int `json:"status"`
	}
	if json.Unmarshal(r.Body, &rs) != nil {
		return nil
	}
	out := make([]int, len(rs))
	for i, x := range rs {
		out[i] = x.Status
	}
	return out
}

// HTTPRequest turns a codec.Request into an *http.Request addressed to this node.
func HTTPRequest(cr codec.Request) *http.Request {
	req := httptest.NewRequest(cr.Method, "http://refinery.test"+cr.Path, bytes.NewReader(cr.Body))
	for k, v := range cr.Header {
		req.Header.Set(k, v)
	}
	return req
}

// Do serves one request through the real mux of the chosen listener.
func (n *Node) Do(l Listener, cr codec.Request) *Response {
	w := httptest.NewRecorder()
	n.Handlers[l].ServeHTTP(w, HTTPRequest(cr))
	return &Response{Status: w.Code, Header: w.Header(), Body: w.Body.Bytes()}
}

// ServeHTTP serves a caller-built request into a caller-supplied ResponseWriter (e.g. one that flags
// double WriteHeader).
func (n *Node) ServeHTTP(l Listener, w http.ResponseWriter, req *http.Request) {
	n.Handlers[l].ServeHTTP(w, req)
}

func grpcCtx(md map[string]string) context.Context {
	return metadata.NewIncomingContext(context.Background(), metadata.New(md))
}

func grpcDec(body []byte) func(any) error {
	return func(v any) error {
		return encoding.GetCodecV2("proto").Unmarshal(mem.BufferSlice{mem.SliceBuffer(body)}, v)
	}
}

// GRPCTraceExport calls the registered OTLP/gRPC TraceService Export method handler with the serialized
// request exactly as grpc.Server would (real proto codec; md = request metadata such as
// "x-honeycomb-team", "x-honeycomb-dataset").
func (n *Node) GRPCTraceExport(l Listener, md map[string]string, body []byte) (any, error) {
	hookreg.Must(hookreg.RouteTraceExport != nil, "hooks/route/zz_verif_handler.go")
	return hookreg.RouteTraceExport(n.Routers[l], grpcCtx(md), grpcDec(body))
}

// GRPCLogsExport does the same for the LogsService Export method (through the generated method handler).
func (n *Node) GRPCLogsExport(l Listener, md map[string]string, body []byte) (any, error) {
	desc := collectorlogs.LogsService_ServiceDesc
	for _, m := range desc.Methods {
		if m.MethodName == "Export" {
			return m.Handler(route.NewLogsServer(n.Routers[l]), grpcCtx(md), grpcDec(body), nil)
		}
	}
	panic("pipeline: LogsService has no Export method")
}

// LinkPeer makes every request this node sends to base URL addr (normally one of n.Peers) be served by the
// other node's peer listener, through its real mux; the request is still captured in n.Net first. This is
// how a multi-node cluster is wired from several Nodes (give each the others' Self as Peers).
func (n *Node) LinkPeer(addr string, other *Node) {
	n.Net.mu.Lock()
	defer n.Net.mu.Unlock()
	if n.Net.forward == nil {
		n.Net.forward = map[string]http.Handler{}
	}
	n.Net.forward[addr] = other.Handlers[Peer]
}

// ---------------------------------------------------------------------------------------------
// Observation

// Flush sends everything pending in both transmissions (upstream first) and waits for the answers.
func (n *Node) Flush() {
	n.UpTx.Flush()
	n.PeerTx.Flush()
}

// Sent is one event that left the node inside a /1/batch request.
type Sent struct {
	Dest    string // "upstream" | "peer" | "other"
	BaseURL string
	Dataset string
	APIKey  string
	Index   int // position inside its request
	Event   WireEvent
	Req     *Captured
}

// Sent lists every event transmitted so far (call Flush first), in the deterministic order of
// MemNet.Requests, batch order inside a request.
func (n *Node) Sent() []Sent {
	var out []Sent
	for _, c := range n.Net.Requests() {
		if !c.IsBatch {
			continue
		}
		for i, e := range c.Events {
			out = append(out, Sent{Dest: c.Dest, BaseURL: c.BaseURL, Dataset: c.Dataset, APIKey: c.APIKey, Index: i, Event: e, Req: c})
		}
	}
	return out
}

// DecodeProblems lists captured requests whose body could not be decoded (must be empty in a healthy run).
func (n *Node) DecodeProblems() []string {
	var out []string
	for _, c := range n.Net.Requests() {
		if c.BodyErr != "" {
			out = append(out, fmt.Sprintf("%s %s%s: %s", c.Method, c.BaseURL, c.Path, c.BodyErr))
		}
	}
	return out
}

// Reset flushes and then forgets all captured requests and collector records, so the node can be reused for
// the next case (router state that survives: the environment cache; sharder and config are immutable here).
func (n *Node) Reset() {
	n.Flush()
	n.Net.Reset()
	if n.Collector != nil {
		n.Collector.Reset()
	}
}

// ---------------------------------------------------------------------------------------------
// Ownership

// Owner returns the peer address owning the trace ID according to the real sharder.
func (n *Node) Owner(traceID string) string { return n.Sharder.WhichShard(traceID).GetAddress() }

// OwnedBySelf reports whether this node owns the trace ID.
func (n *Node) OwnedBySelf(traceID string) bool {
	return n.Sharder.WhichShard(traceID).Equals(n.Sharder.MyShard())
}

// TraceIDs returns the first `count` IDs of the sequence prefix0, prefix1, … that are owned by `owner`
// (an address: n.Self or one of n.Peers). Deterministic: the sharder is a pure hash of address list and ID.
func (n *Node) TraceIDs(owner string, count int, prefix string) []string {
	var out []string
	for i := 0; len(out) < count; i++ {
		if i > 100000 {
			panic("pipeline: no trace IDs owned by " + owner)
		}
		id := fmt.Sprintf("%s%d", prefix, i)
		if n.Owner(id) == owner {
			out = append(out, id)
		}
	}
	return out
}
