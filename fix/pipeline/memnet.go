package pipeline

import (
	"bytes"
	"encoding/json"
	"fmt"
	"io"
	"net/http"
	"net/http/httptest"
	"net/url"
	"sort"
	"strings"
	"sync"
	"time"

	"verif/fix/codec"
)

// WireEvent is one event as it finally went on the wire inside a /1/batch request (decoded from the
// request body with the fixture's own msgpack/JSON decoder — values, not pointers into Refinery).
type WireEvent struct {
	Raw           codec.Value // the whole batch member (a map with time / samplerate / data)
	HasTime       bool
	Time          time.Time   // UTC; from a timestamp extension, or parsed from a JSON / str RFC 3339 time
	TimeVal       codec.Value // the raw "time" member (Kind KTime for ext -1, KStr for text, KExt for a foreign extension)
	HasSampleRate bool
	SampleRate    int64
	SampleRateVal codec.Value
	Data          codec.Value // KMap, wire order kept
}

// Field returns payload field k.
func (w WireEvent) Field(k string) (codec.Value, bool) { return w.Data.Get(k) }

// DataCanon renders the payload order-insensitively with kind classes (see codec.Value.Canon).
func (w WireEvent) DataCanon() string { return w.Data.Canon() }

// Captured is one HTTP request that left the node (transmissions, environment lookups, proxied requests).
type Captured struct {
	Seq      int    // capture order (NOT deterministic across different batches flushed together)
	Dest     string // "upstream", "peer" (any configured peer address) or "other"
	Method   string
	BaseURL  string // scheme://host[:port]
	Path     string // escaped path
	RawQuery string
	Header   http.Header
	RawBody  []byte // as sent (possibly compressed)
	Body     []byte // after undoing Content-Encoding
	BodyErr  string // decompression / decode problem, "" if none
	// For POST …/1/batch/{dataset}:
	IsBatch bool
	Dataset string // unescaped
	APIKey  string // X-Honeycomb-Team
	Events  []WireEvent
}

// Reply is what the in-memory network answers. Zero Status = use the default answer.
type Reply struct {
	Status int
	Header map[string]string
	Body   []byte
	Err    error // non-nil: the round trip fails with this error
}

// MemNet is the in-memory network: an http.RoundTripper that records every request and answers it.
// It is installed with http.Transport.RegisterProtocol, so the real http.Client / http.Transport of the
// code under test are used unchanged and no socket is ever opened.
type MemNet struct {
	mu       sync.Mutex
	seq      int
	reqs     []*Captured
	upstream string
	peers    map[string]bool
	forward  map[string]http.Handler // base URL -> handler that really serves it (Node.LinkPeer)

	// Respond, if set, is consulted first for every request (called with the capture lock released;
	// may be called concurrently when several batches are flushed together).
	Respond func(c *Captured) Reply
	// Auth answers GET /1/auth: environment name, key ID, HTTP status. Default: ("test-env", "hcxik_"+key, 200).
	Auth func(apiKey string) (environment, keyID string, status int)
}

func (n *MemNet) classify(base string) string {
	if base == n.upstream {
		return "upstream"
	}
	if n.peers[base] {
		return "peer"
	}
	return "other"
}

// RoundTrip implements http.RoundTripper.
func (n *MemNet) RoundTrip(req *http.Request) (*http.Response, error) {
	c := &Captured{Method: req.Method, BaseURL: req.URL.Scheme + "://" + req.URL.Host, Path: req.URL.EscapedPath(),
		RawQuery: req.URL.RawQuery, Header: req.Header.Clone()}
	if req.Body != nil {
		b, err := io.ReadAll(req.Body)
		req.Body.Close()
		if err != nil {
			c.BodyErr = "read: " + err.Error()
		}
		c.RawBody = b
	}
	c.Dest = n.classify(c.BaseURL)
	c.APIKey = req.Header.Get("X-Honeycomb-Team")
	body, err := codec.Decompress(req.Header.Get("Content-Encoding"), c.RawBody)
	if err != nil {
		c.BodyErr = "content-encoding: " + err.Error()
	}
	c.Body = body
	if i := strings.Index(c.Path, "/1/batch/"); req.Method == "POST" && i >= 0 {
		c.IsBatch = true
		ds, err := url.PathUnescape(c.Path[i+len("/1/batch/"):])
		if err != nil {
			c.BodyErr = "dataset: " + err.Error()
		}
		c.Dataset = ds
		if c.BodyErr == "" {
			evs, err := DecodeBatch(req.Header.Get("Content-Type"), c.Body)
			if err != nil {
				c.BodyErr = "batch: " + err.Error()
			}
			c.Events = evs
		}
	}
	n.mu.Lock()
	n.seq++
	c.Seq = n.seq
	n.reqs = append(n.reqs, c)
	respond, auth, fwd := n.Respond, n.Auth, n.forward[c.BaseURL]
	n.mu.Unlock()

	var rep Reply
	if respond != nil {
		rep = respond(c)
	}
	if rep.Err != nil {
		return nil, rep.Err
	}
	if rep.Status == 0 && fwd != nil {
		w := httptest.NewRecorder()
		fr := httptest.NewRequest(c.Method, req.URL.String(), bytes.NewReader(c.RawBody))
		fr.Header = c.Header.Clone()
		fwd.ServeHTTP(w, fr)
		rep = Reply{Status: w.Code, Header: map[string]string{}, Body: w.Body.Bytes()}
		for k := range w.Header() {
			rep.Header[k] = w.Header().Get(k)
		}
	}
	if rep.Status == 0 {
		rep = defaultReply(c, auth)
	}
	h := http.Header{}
	for k, v := range rep.Header {
		h.Set(k, v)
	}
	return &http.Response{StatusCode: rep.Status, Status: fmt.Sprintf("%d %s", rep.Status, http.StatusText(rep.Status)),
		Proto: "HTTP/1.1", ProtoMajor: 1, ProtoMinor: 1, Header: h, Body: io.NopCloser(bytes.NewReader(rep.Body)),
		ContentLength: int64(len(rep.Body)), Request: req}, nil
}

func defaultReply(c *Captured, auth func(string) (string, string, int)) Reply {
	switch {
	case c.IsBatch:
		rs := make([]map[string]int, len(c.Events))
		for i := range rs {
			rs[i] = map[string]int{"status": 202}
		}
		b, _ := json.Marshal(rs)
		return Reply{Status: 200, Header: map[string]string{"Content-Type": "application/json"}, Body: b}
	case c.Method == "GET" && c.Path == "/1/auth":
		env, id, st := "test-env", "hcxik_"+c.APIKey, 200
		if auth != nil {
			env, id, st = auth(c.APIKey)
		}
		if st != 200 {
			return Reply{Status: st, Body: []byte(`{"error":"auth"}`)}
		}
		b, _ := json.Marshal(map[string]any{"id": id, "team": map[string]string{"slug": "test-team"},
			"environment": map[string]string{"slug": env, "name": env}, "api_key_access": map[string]bool{"events": true}})
		return Reply{Status: 200, Header: map[string]string{"Content-Type": "application/json"}, Body: b}
	}
	return Reply{Status: 200, Header: map[string]string{"Content-Type": "application/json"}, Body: []byte(`{}`)}
}

// DecodeBatch decodes a /1/batch body (msgpack or JSON array of {time, samplerate, data}).
func DecodeBatch(contentType string, body []byte) ([]WireEvent, error) {
	var arr codec.Value
	if strings.Contains(contentType, "msgpack") {
		v, err := codec.DecodeAll(body)
		if err != nil {
			return nil, err
		}
		arr = v
	} else {
		v, err := jsonToValue(body)
		if err != nil {
			return nil, err
		}
		arr = v
	}
	if arr.Kind != codec.KArr {
		return nil, fmt.Errorf("batch body is %s, not an array", arr.Kind)
	}
	out := make([]WireEvent, 0, len(arr.Arr))
	for i, m := range arr.Arr {
		if m.Kind != codec.KMap {
			return out, fmt.Errorf("batch member %d is %s, not a map", i, m.Kind)
		}
		w := WireEvent{Raw: m}
		seen := map[string]bool{}
		for _, kv := range m.Map {
			k := kv.K.S
			if seen[k] {
				return out, fmt.Errorf("batch member %d has duplicate key %q", i, k)
			}
			seen[k] = true
			switch k {
			case "time":
				w.TimeVal = kv.V
				switch kv.V.Kind {
				case codec.KTime:
					w.HasTime, w.Time = true, kv.V.T.UTC()
				case codec.KStr:
					if t, err := time.Parse(time.RFC3339Nano, kv.V.S); err == nil {
						w.HasTime, w.Time = true, t.UTC()
					}
				}
			case "samplerate":
				w.SampleRateVal = kv.V
				switch kv.V.Kind {
				case codec.KInt:
					w.HasSampleRate, w.SampleRate = true, kv.V.Int
				case codec.KUint:
					w.HasSampleRate, w.SampleRate = true, int64(kv.V.Uint)
				case codec.KF32, codec.KF64:
					if kv.V.F == float64(int64(kv.V.F)) {
						w.HasSampleRate, w.SampleRate = true, int64(kv.V.F)
					}
				}
			case "data":
				w.Data = kv.V
			}
		}
		if w.Data.Kind != codec.KMap {
			return out, fmt.Errorf("batch member %d has no data map", i)
		}
		out = append(out, w)
	}
	return out, nil
}

// jsonToValue decodes JSON keeping member order; numbers without fraction/exponent become KInt.
func jsonToValue(b []byte) (codec.Value, error) {
	dec := json.NewDecoder(bytes.NewReader(b))
	dec.UseNumber()
	v, err := jsonValue(dec)
	if err != nil {
		return v, err
	}
	if _, err := dec.Token(); err != io.EOF {
		return v, fmt.Errorf("trailing JSON")
	}
	return v, nil
}

func jsonValue(dec *json.Decoder) (codec.Value, error) {
	tok, err := dec.Token()
	if err != nil {
		return codec.Value{}, err
	}
	switch t := tok.(type) {
	case json.Delim:
		switch t {
		case '[':
			v := codec.Value{Kind: codec.KArr}
			for dec.More() {
				e, err := jsonValue(dec)
				if err != nil {
					return v, err
				}
				v.Arr = append(v.Arr, e)
			}
			_, err := dec.Token()
			return v, err
		case '{':
			v := codec.Value{Kind: codec.KMap}
			for dec.More() {
				kt, err := dec.Token()
				if err != nil {
					return v, err
				}
				e, err := jsonValue(dec)
				if err != nil {
					return v, err
				}
				v.Map = append(v.Map, codec.KV{K: codec.Str(kt.(string)), V: e})
			}
			_, err := dec.Token()
			return v, err
		}
		return codec.Value{}, fmt.Errorf("unexpected %v", t)
	case nil:
		return codec.Nil(), nil
	case bool:
		return codec.Bool(t), nil
	case string:
		return codec.Str(t), nil
	case json.Number:
		if i, err := t.Int64(); err == nil {
			return codec.Int(i), nil
		}
		f, err := t.Float64()
		return codec.F64(f), err
	}
	return codec.Value{}, fmt.Errorf("unexpected token %v", tok)
}

// Requests returns everything captured so far in a deterministic order: sorted by
// (Dest, BaseURL, Method, Path, APIKey, body bytes). Events inside one batch keep their wire order, which
// is the order in which they were enqueued.
func (n *MemNet) Requests() []*Captured {
	n.mu.Lock()
	out := append([]*Captured(nil), n.reqs...)
	n.mu.Unlock()
	sort.SliceStable(out, func(i, j int) bool {
		a, b := out[i], out[j]
		ka := []string{a.Dest, a.BaseURL, a.Method, a.Path, a.APIKey, string(a.Body)}
		kb := []string{b.Dest, b.BaseURL, b.Method, b.Path, b.APIKey, string(b.Body)}
		for x := range ka {
			if ka[x] != kb[x] {
				return ka[x] < kb[x]
			}
		}
		return false
	})
	return out
}

// Reset forgets everything captured so far.
func (n *MemNet) Reset() {
	n.mu.Lock()
	n.reqs = nil
	n.mu.Unlock()
}
