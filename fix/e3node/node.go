// Package e3node builds one REAL collector + REAL upstream DirectTransmission for engine E3 with
// channel-aware scheduling: nothing is started here; the scenario's main thread calls Start (which
// spawns the real loops as service threads) and Stop. The upstream is an in-memory RoundTripper that
// decodes what is finally serialised.
package e3node

import (
	"bytes"
	"context"
	"fmt"
	"io"
	"net/http"
	"sort"
	"strings"
	"sync"
	"time"

	"github.com/honeycombio/refinery/collect"
	"github.com/honeycombio/refinery/config"
	"github.com/honeycombio/refinery/logger"
	"github.com/honeycombio/refinery/metrics"
	"github.com/honeycombio/refinery/pubsub"
	"github.com/honeycombio/refinery/sample"
	"github.com/honeycombio/refinery/sharder"
	"github.com/honeycombio/refinery/transmit"
	"github.com/honeycombio/refinery/types"
	peer "github.com/honeycombio/refinery/verifexport/peerx"
	"github.com/jonboulle/clockwork"
	"github.com/klauspost/compress/zstd"
	"github.com/vmihailenco/msgpack/v5"
	"go.opentelemetry.io/otel/trace/noop"

	"verif/engine/vsched"
	"verif/shim/vtime"
)

type NopHealth struct{}

func (NopHealth) Register(string, time.Duration) {}
func (NopHealth) Unregister(string)              {}
func (NopHealth) Ready(string, bool)             {}

// Upstream is the in-memory Honeycomb.
type Upstream struct {
	mu  sync.Mutex
	got []string // "traceID/spanID" per delivered event
}

var zdec, _ = zstd.NewReader(nil)

func (u *Upstream) RoundTrip(r *http.Request) (*http.Response, error) {
	b, _ := io.ReadAll(r.Body)
	r.Body.Close()
	if r.Header.Get("Content-Encoding") == "zstd" {
		b, _ = zdec.DecodeAll(b, nil)
	}
	var evs []map[string]any
	if err := msgpack.Unmarshal(b, &evs); err != nil {
		return nil, err
	}
	var resp []string
	u.mu.Lock()
	for _, e := range evs {
		d, _ := e["data"].(map[string]any)
		u.got = append(u.got, fmt.Sprint(d["trace.trace_id"], "/", d["id"]))
		resp = append(resp, `{"status":202}`)
	}
	u.mu.Unlock()
	return &http.Response{StatusCode: 200, Header: http.Header{"Content-Type": []string{"application/json"}},
		Body: io.NopCloser(bytes.NewReader([]byte("[" + strings.Join(resp, ",") + "]")))}, nil
}

// Got returns the sorted multiset of delivered "trace/span" ids.
func (u *Upstream) Got() []string {
	u.mu.Lock()
	defer u.mu.Unlock()
	g := append([]string{}, u.got...)
	sort.Strings(g)
	return g
}

type Node struct {
	Clk  *clockwork.FakeClock
	Coll *collect.InMemCollector
	Tx   *transmit.DirectTransmission
	Up   *Upstream
	Cfg  *config.MockConfig
	SF   *sample.SamplerFactory
	MP   *peer.MockPeers
}

type Options struct {
	Workers int
	Sampler any // sampler config; default deterministic rate 1
	Stress  collect.StressReliever
}

// SpawnAsThreads makes the go statements of the collector, its decision caches and the transmission scheduled threads.
func SpawnAsThreads() {
	for _, p := range []string{"collect.go", "cuckooSentCache.go", "cuckoo.go", "direct_transmit.go"} {
		vsched.SpawnPolicy[p] = "thread"
	}
}

func Build(o Options) *Node {
	if o.Workers == 0 {
		o.Workers = 1
	}
	if o.Sampler == nil {
		o.Sampler = &config.DeterministicSamplerConfig{SampleRate: 1}
	}
	if o.Stress == nil {
		o.Stress = &collect.MockStressReliever{}
	}
	clk := clockwork.NewFakeClockAt(time.Unix(1700000000, 0))
	vtime.Clock = clk
	cfg := &config.MockConfig{
		GetTracesConfigVal:     config.TracesConfig{SendTicker: config.Duration(100 * time.Millisecond), SendDelay: config.Duration(200 * time.Millisecond), TraceTimeout: config.Duration(time.Second), MaxBatchSize: 50, BatchTimeout: config.Duration(400 * time.Millisecond)},
		GetCollectionConfigVal: config.CollectionConfig{IncomingQueueSize: 16, PeerQueueSize: 16, WorkerCount: o.Workers},
		GetSamplerTypeVal:      o.Sampler,
		TraceIdFieldNames:      []string{"trace.trace_id"},
		ParentIdFieldNames:     []string{"trace.parent_id"},
		SampleCache:            config.SampleCacheConfig{KeptSize: 100, DroppedSize: 1000, SizeCheckInterval: config.Duration(10 * time.Second)},
		AddRuleReasonToTrace:   true,
	}
	met := &metrics.NullMetrics{}
	up := &Upstream{}
	tx := transmit.NewDirectTransmission(types.TransmitTypeUpstream, nil, 50, 400*time.Millisecond, time.Second, true, nil)
	tx.Clock, tx.Logger, tx.Metrics, tx.Config = clk, &logger.NullLogger{}, met, cfg
	ptx := &transmit.MockTransmission{}
	ptx.Start()
	mp := peer.NewMockPeers([]string{"api1"}, "api1")
	sf := &sample.SamplerFactory{Config: cfg, Metrics: met, Logger: &logger.NullLogger{}, Peers: mp}
	sf.Start()
	c := &collect.InMemCollector{
		Config: cfg, Clock: clk, Logger: &logger.NullLogger{}, Tracer: noop.NewTracerProvider().Tracer("verif"),
		Health: NopHealth{}, Transmission: tx, PeerTransmission: ptx, PubSub: &pubsub.LocalPubSub{Config: cfg, Metrics: met},
		Metrics: met, StressRelief: o.Stress, SamplerFactory: sf,
		Peers:   mp,
		Sharder: &sharder.MockSharder{Self: &sharder.TestShard{Addr: "api1"}},
	}
	return &Node{clk, c, tx, up, cfg, sf, mp}
}

// Start starts transmission then collector (main.go order: dependencies first).
func (n *Node) Start() error {
	if err := n.Tx.Start(); err != nil {
		return err
	}
	transmit.VerifC35SetRoundTripper(n.Tx, n.Up)
	return n.Coll.Start()
}

// Stop stops collector then transmission (dependants first).
func (n *Node) Stop() error {
	if err := n.Coll.Stop(); err != nil {
		return err
	}
	return n.Tx.Stop()
}

var spanCfg = &config.MockConfig{TraceIdFieldNames: []string{"trace.trace_id"}, ParentIdFieldNames: []string{"trace.parent_id"}}

func Span(trace, id string, root bool) *types.Span {
	d := map[string]any{"trace.trace_id": trace, "id": id}
	if !root {
		d["trace.parent_id"] = "p"
	}
	return &types.Span{TraceID: trace, IsRoot: root, Event: &types.Event{Context: context.Background(), APIHost: "http://hny", APIKey: "key", Dataset: "ds",
		SampleRate: 1, Timestamp: time.Unix(1700000000, 0), Data: types.NewPayload(spanCfg, d)}}
}
