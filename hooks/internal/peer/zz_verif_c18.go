package peer

// Verification-only additions for check C18 (Redis peer membership). Adds code only; never changes
// behaviour. Unexported names touched: peerCommand{action,address,id}.marshal/unmarshal, peerAction,
// RedisPubsubPeers.peers, RedisPubsubPeers.hash, refreshCacheInterval.

import (
	"fmt"
	"sort"
	"strings"
	"time"

	"github.com/jonboulle/clockwork"
)

// VerifRefreshInterval is the base interval of the periodic re-registration (before jitter).
const VerifRefreshInterval = refreshCacheInterval

// VerifMarshal encodes one membership message with the real codec.
func VerifMarshal(action, address, id string) string {
	return (&peerCommand{action: peerAction(action), address: address, id: id}).marshal()
}

// VerifUnmarshal decodes one membership message with the real codec.
func VerifUnmarshal(msg string) (action, address, id string, ok bool) {
	c := &peerCommand{}
	ok = c.unmarshal(msg)
	return string(c.action), c.address, c.id, ok
}

// VerifAdoptClock makes the peer table of a freshly Start()ed instance run on the harness clock.
// Start() builds the table with generics.NewMapWithTTL, whose clock is the real wall clock (the injected
// Clock is only used for the tickers), and stamps the node's own entry with it; the entries present
// are re-stamped at the harness clock's current instant, which is the instant Start() ran at.
func VerifAdoptClock(p *RedisPubsubPeers, c clockwork.Clock) {
	p.peers.Clock = c
	for k, it := range p.peers.Items {
		it.Expiration = c.Now().Add(p.peers.TTL)
		p.peers.Items[k] = it
	}
}

// VerifNotifiedHash returns the membership hash the callbacks were last fired for.
func VerifNotifiedHash(p *RedisPubsubPeers) uint64 { return p.hash }

// VerifTable renders the physical content of the peer table relative to now (sorted; offsets below
// -2ns clipped): used only to canonicalise explored states.
func VerifTable(p *RedisPubsubPeers, now time.Time) string {
	var out []string
	for k, it := range p.peers.Items {
		d := it.Expiration.Sub(now)
		if d < -2 {
			d = -2
		}
		out = append(out, fmt.Sprintf("%s=%s@%d", k, it.Value, int64(d)))
	}
	sort.Strings(out)
	return strings.Join(out, ";")
}
