package peer

// VerifSetPeers changes the mock peer list WITHOUT running the callbacks (the caller delivers them on
// goroutines of its own, as RedisPubsubPeers does with `go cb()`).
func (p *MockPeers) VerifSetPeers(newPeers []string) {
	p.mut.Lock()
	p.peers = newPeers
	p.mut.Unlock()
}
