package peer

import "context"

// VerifC35Listen delivers one pubsub message to the peers service, as the subscription callback does.
func VerifC35Listen(p *RedisPubsubPeers, msg string) { p.listen(context.Background(), msg) }

// VerifC35Msg builds a membership message.
func VerifC35Msg(register bool, addr, id string) string {
	a := Register
	if !register {
		a = Unregister
	}
	return newPeerCommand(a, addr, id).marshal()
}

// VerifC35PeerReport evaluates what the periodic "peer report" log line of the Ready goroutine reads
// from the peer map (the hash it also logs is read through an accessor whose name is not relied on here).
func VerifC35PeerReport(p *RedisPubsubPeers) (any, any, int) {
	return p.peers.SortedKeys(), p.peers.SortedValues(), p.peers.Length()
}
