package health

// Verification hooks (overlay only). Topic C30: liveness / readiness.
// Adds code only; nothing here runs unless a harness calls it.

import (
	"fmt"
	"sort"
	"strings"
)

// VerifC30State renders the countdown table without changing it (subsystem, timeout, time left, ready
// flag; sorted). The `alives` map is left out: it only de-duplicates log lines.
func VerifC30State(h *Health) []string {
	h.mut.RLock()
	defer h.mut.RUnlock()
	names := map[string]bool{}
	for k := range h.timeouts {
		names[k] = true
	}
	for k := range h.timeLeft {
		names[k] = true
	}
	for k := range h.readies {
		names[k] = true
	}
	var out []string
	for k := range names {
		var f []string
		if v, ok := h.timeouts[k]; ok {
			f = append(f, fmt.Sprintf("to=%d", int64(v)))
		}
		if v, ok := h.timeLeft[k]; ok {
			f = append(f, fmt.Sprintf("left=%d", int64(v)))
		}
		if v, ok := h.readies[k]; ok {
			f = append(f, fmt.Sprintf("rdy=%v", v))
		}
		out = append(out, k+"{"+strings.Join(f, " ")+"}")
	}
	sort.Strings(out)
	return out
}
