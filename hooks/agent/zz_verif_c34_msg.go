package agent

// Verification-only additions for check C34 (usage ledger), part "server-to-agent messages in the middle of a
// usage-reporting history". Adds code only; never changes behaviour.
// Unexported names touched: Agent{ctx,instanceId}, Agent.onMessage.

import (
	"github.com/open-telemetry/opamp-go/client/types"
)

// VerifOnMessage delivers one ServerToAgent message exactly as the OpAMP client does: through the
// Callbacks.OnMessage function the agent registered (Agent.onMessage).
func (agent *Agent) VerifOnMessage(msg *types.MessageData) { agent.onMessage(agent.ctx, msg) }

// VerifInstanceID returns the agent's current instance uid (canonicalisation of explored states only).
func (agent *Agent) VerifInstanceID() string { return agent.instanceId.String() }
