package agent

// Verification-only additions for check C34 (usage ledger). Adds code only; never changes behaviour.
// Unexported names touched: Agent{ctx,cancel,logger,agentType,agentVersion,hostname,opampClient,usageTracker,clock},
// newUsageTracker, usageTracker.Add, Agent.sendUsageReport, errNoData, usageSignal, signal_traces, signal_logs.
// The tracker's internal maps are only read through reflection (by kind, not by name), so a fix that
// restructures them keeps this file compiling.

import (
	"context"
	"errors"
	"reflect"

	"github.com/honeycombio/refinery/logger"
	"github.com/jonboulle/clockwork"
	"github.com/open-telemetry/opamp-go/client"
)

// VerifNewUsageAgent builds an Agent around a caller-owned OpAMP client and clock, without connecting
// and without starting the healthCheck / reportUsagePeriodically goroutines (the check calls the
// loop body sendUsageReport itself).
func VerifNewUsageAgent(c client.OpAMPClient, clk clockwork.Clock) *Agent {
	ctx, cancel := context.WithCancel(context.Background())
	return &Agent{
		ctx:          ctx,
		cancel:       cancel,
		logger:       Logger{Logger: &logger.NullLogger{}},
		agentType:    serviceName,
		agentVersion: "verif",
		hostname:     "verif-host",
		opampClient:  c,
		usageTracker: newUsageTracker(),
		clock:        clk,
	}
}

// VerifUsageSignals returns the wire names of the two byte-usage signals (traces, logs).
func VerifUsageSignals() []string { return []string{string(signal_traces), string(signal_logs)} }

// VerifAddUsage feeds one cumulative counter reading, exactly as healthCheck does.
func (agent *Agent) VerifAddUsage(signal string, cumulative float64) {
	agent.usageTracker.Add(usageSignal(signal), cumulative)
}

// VerifSendUsageReport runs the body of the reportUsagePeriodically loop once.
func (agent *Agent) VerifSendUsageReport() (noData bool, err error) {
	err = agent.sendUsageReport()
	return errors.Is(err, errNoData), err
}

// VerifCancel releases the agent's context.
func (agent *Agent) VerifCancel() { agent.cancel() }

// VerifTrackerFields dumps every map[<string kind>]float64 field of the usage tracker, by field name,
// read-only via reflection (used only to canonicalise explored states). complete is false when the
// tracker has state of any other shape (then the check must not merge states).
func (agent *Agent) VerifTrackerFields() (out map[string]map[string]float64, complete bool) {
	out = map[string]map[string]float64{}
	complete = true
	v := reflect.ValueOf(agent.usageTracker).Elem()
	t := v.Type()
	for i := 0; i < v.NumField(); i++ {
		f := v.Field(i)
		if f.Kind() != reflect.Map || f.Type().Key().Kind() != reflect.String || f.Type().Elem().Kind() != reflect.Float64 {
			if f.Type().PkgPath() != "sync" {
				complete = false
			}
			continue
		}
		m := map[string]float64{}
		it := f.MapRange()
		for it.Next() {
			m[it.Key().String()] = it.Value().Float()
		}
		out[t.Field(i).Name] = m
	}
	return out, complete
}
