package collect

import "context"

// VerifC35OnStressLevelUpdate delivers one stress-level pubsub message, as the subscription callback does.
func VerifC35OnStressLevelUpdate(s *StressRelief, peerID string, level uint) {
	s.onStressLevelUpdate(context.Background(), newStressReliefMessage(level, peerID).String())
}

// VerifC35NoMonitorLoop makes Start() skip its own monitor goroutine (the repository's test switch
// disableStressLevelReport), so that the harness thread that calls Recalc is Recalc's ONLY caller - as the
// monitor goroutine is in Refinery. Call before Start().
func VerifC35NoMonitorLoop(s *StressRelief) { s.disableStressLevelReport = true }
