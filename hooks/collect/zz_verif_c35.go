package collect

import "context"

// VerifC35OnStressLevelUpdate delivers one stress-level pubsub message, as the subscription callback does.
func VerifC35OnStressLevelUpdate(s *StressRelief, peerID string, level uint) {
	s.onStressLevelUpdate(context.Background(), newStressReliefMessage(level, peerID).String())
}
