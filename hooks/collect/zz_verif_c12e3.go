package collect

import "github.com/honeycombio/refinery/sample"

// VerifC12WorkerSamplers returns the sampler objects worker w currently caches, by sampler key (read-only copy).
func (i *InMemCollector) VerifC12WorkerSamplers(w int) map[string]sample.Sampler {
	out := map[string]sample.Sampler{}
	for k, s := range i.workers[w].datasetSamplers {
		out[k] = s
	}
	return out
}
