package collect

// Verification hooks (added by the /verif overlay, never committed to the repository).
// Topic: C07 — driving the REAL InMemCollector.checkAlloc with a chosen "current heap" value.
//
// checkAlloc reads the heap size with runtime/metrics into i.memMetricSample, whose single sample NAME is data
// that Start() stores in the field. The harness points that name at another uint64 runtime metric whose value it
// owns ("/gc/gomemlimit:bytes", set with debug.SetMemoryLimit), and then calls the unmodified checkAlloc: the
// comparison with the limit, the overage, the split across workers, the dispatch to the worker loops and the
// wait for them are all the repository's code. Nothing is copied and no behaviour of existing code changes.
// Unexported names touched: memMetricSample, checkAlloc.

import "context"

// VerifC07UseMemMetric makes checkAlloc sample the runtime metric `name` (must be of kind uint64) instead of
// the heap size. Call after Start() and before any checkAlloc.
func (i *InMemCollector) VerifC07UseMemMetric(name string) { i.memMetricSample[0].Name = name }

// VerifC07CheckAlloc runs the monitor's memory check once, synchronously, on the calling goroutine. The worker
// loops must be running (loop mode): checkAlloc posts a request to each of them and waits for all.
func (i *InMemCollector) VerifC07CheckAlloc() { i.checkAlloc(context.Background()) }
