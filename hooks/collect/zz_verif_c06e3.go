package collect

// Verification hooks (C06, concurrent part): the two ends of the collector's reload signal.

// VerifTakeReloadSignal is the receive of the monitor loop's reload case, non-blocking: true if a signal was pending.
func (i *InMemCollector) VerifTakeReloadSignal() bool {
	select {
	case <-i.reload:
		return true
	default:
		return false
	}
}
