package collect

// Verification hooks (added by the /verif overlay, never committed to the repository).
// Topic: "handler mode" for InMemCollector — run the real case bodies of the worker / sender loops
// one at a time from a harness goroutine, plus the barriers needed to drive the really started loops.
//
// Rules followed: code is only ADDED; no behaviour of existing code changes; the unexported names
// touched are the ones Start()/Stop() themselves use (workers, done, tracesToSend, the three
// WaitGroups, worker channels) plus the handler functions that are the subject of the checks.

import (
	"context"
	"os"
	"runtime"
	rtmetrics "runtime/metrics"
	"sort"
	"strconv"
	"sync"
	"time"

	"go.opentelemetry.io/otel/trace/noop"

	"github.com/jonboulle/clockwork"

	"github.com/honeycombio/refinery/collect/cache"
	"github.com/honeycombio/refinery/config"
	"github.com/honeycombio/refinery/logger"
	"github.com/honeycombio/refinery/metrics"
	"github.com/honeycombio/refinery/sample"
	"github.com/honeycombio/refinery/transmit"
	"github.com/honeycombio/refinery/types"
)

// VerifHealth is a recording health.Recorder (the interface lives in an internal package, so the
// harness module cannot name it; the stub is therefore provided here).
type VerifHealth struct {
	mu         sync.Mutex
	Registered map[string]time.Duration
	ReadyCalls map[string][]bool
}

func (h *VerifHealth) Register(subsystem string, timeout time.Duration) {
	h.mu.Lock()
	defer h.mu.Unlock()
	if h.Registered == nil {
		h.Registered = map[string]time.Duration{}
	}
	h.Registered[subsystem] = timeout
}
func (h *VerifHealth) Unregister(subsystem string) {
	h.mu.Lock()
	defer h.mu.Unlock()
	delete(h.Registered, subsystem)
}
func (h *VerifHealth) Ready(subsystem string, ready bool) {
	h.mu.Lock()
	defer h.mu.Unlock()
	if h.ReadyCalls == nil {
		h.ReadyCalls = map[string][]bool{}
	}
	if n := len(h.ReadyCalls[subsystem]); n < 64 {
		h.ReadyCalls[subsystem] = append(h.ReadyCalls[subsystem], ready)
	}
}

// VerifParams are the injectable dependencies of a collector built by VerifNewCollector.
type VerifParams struct {
	Config           config.Config
	Clock            clockwork.Clock
	Transmission     transmit.Transmission
	PeerTransmission transmit.Transmission
	Metrics          metrics.Metrics
	SamplerFactory   *sample.SamplerFactory
	StressRelief     StressReliever // nil = &MockStressReliever{}
	Logger           logger.Logger  // nil = NullLogger
}

// VerifNewCollector wires an InMemCollector exactly like collect_test.go's newTestCollector does
// (exported fields only) but does not start it.
func VerifNewCollector(p VerifParams) (*InMemCollector, *VerifHealth) {
	h := &VerifHealth{}
	if p.StressRelief == nil {
		p.StressRelief = &MockStressReliever{}
	}
	if p.Logger == nil {
		p.Logger = &logger.NullLogger{}
	}
	c := &InMemCollector{
		TestMode:         true,
		BlockOnAddSpan:   true,
		Config:           p.Config,
		Clock:            p.Clock,
		Logger:           p.Logger,
		Tracer:           noop.NewTracerProvider().Tracer("verif"),
		Health:           h,
		Transmission:     p.Transmission,
		PeerTransmission: p.PeerTransmission,
		Metrics:          p.Metrics,
		StressRelief:     p.StressRelief,
		SamplerFactory:   p.SamplerFactory,
	}
	return c, h
}

// VerifEnterHandlerMode must be called right after the real Start(): it terminates the three kinds
// of goroutines Start launched (workers' collect(), sendTraces(), monitor()) using the same close
// protocol Stop() uses, before any event has been delivered, and re-creates the closed channels with
// their original capacities (the outgoing queue is capped at 4096 slots). Everything Start() initialised stays as Start() left it. Afterwards the
// collector is driven only through the Verif* handler entry points below, from one goroutine.
// The real Stop() still works afterwards.
func (i *InMemCollector) VerifEnterHandlerMode() {
	close(i.done)
	i.monitorWG.Wait()
	for _, w := range i.workers {
		close(w.incoming)
		close(w.fromPeer)
	}
	i.workersWG.Wait()
	close(i.tracesToSend)
	i.sendTracesWG.Wait()

	i.done = make(chan struct{})
	i.tracesToSend = make(chan sendableTrace, min(cap(i.tracesToSend), 4096))
	for _, w := range i.workers {
		w.incoming = make(chan *types.Span, cap(w.incoming))
		w.fromPeer = make(chan *types.Span, cap(w.fromPeer))
	}
}

// VerifStartHandlerMode is the cheap way into handler mode: it performs the same initialisation as
// Start(), statement by statement, but launches no goroutine and gives tracesToSend a small capacity
// (Start() allocates a 100 000-slot channel, ~10 MB to clear, which would dominate every execution of an
// explicit-state search). Because this duplicates Start()'s body, the fixture cross-checks it once per
// process against Start()+VerifEnterHandlerMode() (see fix/collector: startConformance) and refuses to
// run (harness error) if the two leave different observable state behind.
func (i *InMemCollector) VerifStartHandlerMode(outgoingCap int) error {
	imcConfig := i.Config.GetCollectionConfig()
	numWorkers := imcConfig.GetWorkerCount()

	i.StressRelief.UpdateFromConfig()
	i.Metrics.Store(DENOMINATOR_INCOMING_CAP, float64(imcConfig.IncomingQueueSize))
	i.Metrics.Store(DENOMINATOR_PEER_CAP, float64(imcConfig.PeerQueueSize))
	i.Config.RegisterReloadCallback(i.sendReloadSignal)
	i.Health.Register(collectorHealthKey, i.Config.GetHealthCheckTimeout())
	for _, metric := range inMemCollectorMetrics {
		i.Metrics.Register(metric)
	}
	i.tracesToSend = make(chan sendableTrace, outgoingCap)
	i.done = make(chan struct{})
	i.reload = make(chan struct{}, 1)
	if i.Config.GetAddHostMetadataToTrace() {
		if hostname, err := os.Hostname(); err == nil && hostname != "" {
			i.hostname = hostname
		}
	}
	i.memMetricSample = make([]rtmetrics.Sample, 1)
	i.memMetricSample[0].Name = metrics.RtMetricNameMemory
	i.workers = make([]*CollectorWorker, numWorkers)
	for workerID := range i.workers {
		worker, err := NewCollectorWorker(workerID, i, imcConfig.GetIncomingQueueSizePerWorker(), imcConfig.GetPeerQueueSizePerWorker())
		if err != nil {
			return err
		}
		i.workers[workerID] = worker
	}
	return nil
}

// VerifInitState summarises what Start()/VerifStartHandlerMode() left behind (for the cross-check).
func (i *InMemCollector) VerifInitState() map[string]any {
	m := map[string]any{
		"workers": len(i.workers), "hostname": i.hostname, "reload_cap": cap(i.reload),
		"done_set": i.done != nil, "out_set": i.tracesToSend != nil, "memsample": len(i.memMetricSample),
	}
	for k, w := range i.workers {
		m["w"+strconv.Itoa(k)] = []int{w.ID, cap(w.incoming), cap(w.fromPeer), cap(w.sendEarly), cap(w.pause), cap(w.reload),
			len(w.datasetSamplers), w.cache.GetCacheEntryCount()}
		m["w"+strconv.Itoa(k)+"_parent"] = w.parent == i
		m["w"+strconv.Itoa(k)+"_sc"] = w.sampleCache != nil
	}
	return m
}

func (i *InMemCollector) VerifNumWorkers() int { return len(i.workers) }

// VerifWorkerFor returns the index of the worker owning traceID (the real hash).
func (i *InMemCollector) VerifWorkerFor(traceID string) int { return i.getWorkerIDForTrace(traceID) }

func (i *InMemCollector) VerifHostname() string { return i.hostname }

// ---- handler entry points (handler mode: call from ONE goroutine, no loops running) ----

// VerifProcessSpan runs the worker's span case body (processSpan) for sp on worker w.
func (i *InMemCollector) VerifProcessSpan(w int, sp *types.Span) {
	// the loop's enqueue side increments this counter; keep processSpan's decrement balanced
	i.workers[w].localSpansWaiting.Add(1)
	i.workers[w].processSpan(context.Background(), sp)
}

// VerifTick runs the send-tick handler of worker w (sendExpiredTracesInCache) at time now.
func (i *InMemCollector) VerifTick(w int, now time.Time) {
	cl := i.workers[w]
	cl.sendExpiredTracesInCache(context.Background(), now)
	cl.lastCacheSize.Store(int64(cl.cache.GetCacheEntryCount()))
}

// VerifSendTracesEarly runs the memory-ejection handler of worker w.
func (i *InMemCollector) VerifSendTracesEarly(w int, bytes int) {
	i.workers[w].sendTracesEarly(context.Background(), bytes)
}

// VerifReloadConfigs runs the collector-level reload handler (monitor's `case <-i.reload` body): it
// leaves one reload signal pending on every worker.
func (i *InMemCollector) VerifReloadConfigs() { i.reloadConfigs() }

// VerifReloadPending reports whether worker w has an unconsumed reload signal.
func (i *InMemCollector) VerifReloadPending(w int) bool { return len(i.workers[w].reload) > 0 }

// VerifWorkerRunPending executes, through the REAL collect() loop of worker w, exactly the control
// events currently pending on the worker's reload / sendEarly / fromPeer channels (handler mode only).
// The loop is started on a private goroutine with an empty `incoming` channel, the harness waits (by
// yielding, no clock involved) until the pending items have been taken, then closes that private
// channel so the loop returns after finishing the case body, and joins it.
func (i *InMemCollector) VerifWorkerRunPending(w int) {
	cl := i.workers[w]
	if len(cl.reload)+len(cl.sendEarly)+len(cl.fromPeer) == 0 {
		return
	}
	orig := cl.incoming
	tmp := make(chan *types.Span)
	cl.incoming = tmp
	i.workersWG.Add(1)
	go cl.collect()
	for len(cl.reload)+len(cl.sendEarly)+len(cl.fromPeer) > 0 {
		runtime.Gosched()
	}
	close(tmp)
	i.workersWG.Wait()
	cl.incoming = orig
}

// VerifSendTracesStep runs the REAL sendTraces() loop body for exactly one queued trace: the head of
// tracesToSend is moved to a private closed one-element channel which sendTraces() ranges over
// synchronously on the calling goroutine. Returns false if nothing was queued.
func (i *InMemCollector) VerifSendTracesStep() bool {
	orig := i.tracesToSend
	select {
	case t := <-orig:
		one := make(chan sendableTrace, 1)
		one <- t
		close(one)
		i.tracesToSend = one
		i.sendTracesWG.Add(1)
		i.sendTraces()
		i.tracesToSend = orig
		return true
	default:
		return false
	}
}

// VerifOutgoing describes one decided trace waiting on tracesToSend.
type VerifOutgoing struct {
	Trace      *types.Trace
	TraceID    string
	NumSpans   int
	Reason     string
	SendReason string
	ShouldSend bool
	Rate       uint
}

// VerifOutgoingQueue lists the content of tracesToSend in order without changing it (handler mode).
func (i *InMemCollector) VerifOutgoingQueue() []VerifOutgoing {
	n := len(i.tracesToSend)
	out := make([]VerifOutgoing, 0, n)
	for k := 0; k < n; k++ {
		t := <-i.tracesToSend
		out = append(out, VerifOutgoing{Trace: t.Trace, TraceID: t.TraceID, NumSpans: len(t.GetSpans()),
			Reason: t.reason, SendReason: t.sendReason, ShouldSend: t.shouldSend, Rate: t.rate})
		i.tracesToSend <- t
	}
	return out
}

func (i *InMemCollector) VerifOutgoingLen() int { return len(i.tracesToSend) }

// VerifBuffered returns the undecided traces held by worker w, sorted by trace ID (live pointers).
func (i *InMemCollector) VerifBuffered(w int) []*types.Trace {
	all := i.workers[w].cache.GetAll()
	sort.Slice(all, func(a, b int) bool { return all[a].TraceID < all[b].TraceID })
	return all
}

// VerifBufferedTrace returns the buffered trace with this ID on its owning worker, or nil.
func (i *InMemCollector) VerifBufferedTrace(traceID string) *types.Trace {
	return i.workers[i.getWorkerIDForTrace(traceID)].cache.Get(traceID)
}

// VerifTraceCache / VerifSampleCache expose worker w's two caches (use with the hooks in collect/cache).
func (i *InMemCollector) VerifTraceCache(w int) cache.Cache { return i.workers[w].cache }
func (i *InMemCollector) VerifSampleCache(w int) cache.TraceSentCache {
	return i.workers[w].sampleCache
}

// VerifCachedSamplers lists the sampler keys worker w has instantiated (sorted).
func (i *InMemCollector) VerifCachedSamplers(w int) []string {
	var ks []string
	for k := range i.workers[w].datasetSamplers {
		ks = append(ks, k)
	}
	sort.Strings(ks)
	return ks
}

// ---- barriers for driving the really started loops (loop mode) ----

// VerifPauseWorker hands a pause token to worker w's loop through its own `pause` channel. It returns
// once the loop has accepted the token, i.e. the loop is parked between two case bodies; call resume()
// to let it continue.
func (i *InMemCollector) VerifPauseWorker(w int) (resume func()) {
	ch := make(chan struct{})
	i.workers[w].pause <- ch
	return func() { close(ch) }
}

// VerifQueueLens returns the number of unconsumed items on worker w's input channels.
func (i *InMemCollector) VerifQueueLens(w int) (incoming, fromPeer, reload, sendEarlyN int) {
	cl := i.workers[w]
	return len(cl.incoming), len(cl.fromPeer), len(cl.reload), len(cl.sendEarly)
}

// VerifLastTickUnixNano is the clock reading stored by worker w's most recent tick case (0 = none).
func (i *InMemCollector) VerifLastTickUnixNano(w int) int64 {
	return i.workers[w].healthCheckInAt.Load()
}

// VerifSignalSendEarly does what checkAlloc does for one worker: posts a sendEarly request. wg.Done is
// called by the worker loop when the ejection has run.
func (i *InMemCollector) VerifSignalSendEarly(w int, bytes int, wg *sync.WaitGroup) {
	i.workers[w].sendEarly <- sendEarly{wg: wg, bytesToSend: bytes}
}

// VerifSenderBarrier returns when the running sendTraces() goroutine has completely transmitted every
// trace that was on tracesToSend when the call was made (loop mode). Two empty sentinel traces are queued
// behind them: once the queue is empty the sender has taken the second sentinel, hence finished the
// body for the first one and for everything before it. A sentinel has no spans, so nothing is transmitted for it.
func (i *InMemCollector) VerifSenderBarrier() {
	for k := 0; k < 2; k++ {
		i.tracesToSend <- sendableTrace{Trace: &types.Trace{}}
	}
	for len(i.tracesToSend) > 0 {
		runtime.Gosched()
	}
}
