package cache

// Verification hooks (overlay only). Topic C31: the decision cache remembers what it promises.
// Adds code only; nothing here runs unless a harness calls it.

import (
	"fmt"
	"sort"
	"time"

	cuckoo "github.com/panmari/cuckoofilter"

	"github.com/jonboulle/clockwork"
)

// VerifC31 is a control handle on a cuckooSentCache built by the real NewCuckooSentCache.
type VerifC31 struct{ c *cuckooSentCache }

// VerifC31Wrap returns the handle (nil if t is another implementation).
func VerifC31Wrap(t TraceSentCache) *VerifC31 {
	c, ok := t.(*cuckooSentCache)
	if !ok {
		return nil
	}
	return &VerifC31{c}
}

// Quiesce terminates the goroutine that empties the add queue every 100µs of real time (through its
// own done/WaitGroup protocol; the queue stays open) and arms a fresh done channel so that the real
// Stop() still works. It also puts the recently-dropped TTL set on the harness clock. Afterwards queued
// IDs reach the filters only through Drain()/Maintain().
func (v *VerifC31) Quiesce(clk clockwork.Clock) {
	d := v.c.dropped
	close(d.done)
	d.shutdownWG.Wait()
	d.done = make(chan struct{})
	v.c.recentDroppedIDs.Clock = clk
}

// Drain is one execution of the drainer's body.
func (v *VerifC31) Drain() { v.c.dropped.drain() }

// Maintain is one execution of the monitor tick body.
func (v *VerifC31) Maintain() {
	v.c.dropped.Maintain()
	n := v.c.recentDroppedIDs.Length()
	v.c.met.Gauge("cache_recent_dropped_traces", float64(n))
}

// VerifC31Snap is a read-only view of the dropped side. Cur/Fut are opaque handles on the two filter
// generations (compare with ==, inspect with VerifC31FilterInfo even after the cache let go of them).
type VerifC31Snap struct {
	Cur, Fut any
	Queued   int
	NextCap  uint
}

func (v *VerifC31) Snapshot() VerifC31Snap {
	d := v.c.dropped
	d.mut.RLock()
	defer d.mut.RUnlock()
	s := VerifC31Snap{Queued: len(d.addch), NextCap: d.capacity}
	if d.current != nil {
		s.Cur = d.current
	}
	if d.future != nil {
		s.Fut = d.future
	}
	return s
}

// Kept lists the kept-decision LRU as "id rate reason" from oldest to newest (no recency update).
func (v *VerifC31) Kept() []string {
	var out []string
	for _, k := range v.c.kept.Keys() {
		if e, ok := v.c.kept.Peek(k); ok {
			reason, _ := v.c.keptReasons.Get(uint(e.reason))
			out = append(out, fmt.Sprintf("%s %d %s", k, e.rate, reason))
		}
	}
	return out
}

// Recent renders the raw entries of the recently-dropped TTL set as "id:offset" relative to now, sorted;
// entries already expired are rendered "id:x".
func (v *VerifC31) Recent(now time.Time) []string {
	var out []string
	for k, exp := range v.c.recentDroppedIDs.Items {
		if exp.Before(now) {
			out = append(out, k+":x")
		} else {
			out = append(out, fmt.Sprintf("%s:%d", k, int64(exp.Sub(now))))
		}
	}
	sort.Strings(out)
	return out
}

// VerifC31FilterInfo reads a filter generation: number of stored fingerprints and the raw bucket layout.
func VerifC31FilterInfo(h any) (count uint, layout []byte) {
	f, ok := h.(*cuckoo.Filter)
	if !ok || f == nil {
		return 0, nil
	}
	return f.Count(), f.Encode()
}

// VerifC31FilterHas asks one generation directly (no side effects).
func VerifC31FilterHas(h any, id string) bool {
	f, ok := h.(*cuckoo.Filter)
	if !ok || f == nil {
		return false
	}
	return f.Lookup([]byte(id))
}

// VerifC31Probe learns, from a throw-away filter of the same capacity, which bucket an ID goes to first
// (i1) and which bucket it overflows to (i2, equal to i1 when the ID has no second bucket). Used by the
// harness to predict - without running it - whether an insert would have to displace stored
// fingerprints (the library then picks victims with runtime.fastrand).
func VerifC31Probe(capacity uint, id string) (i1, i2 int) {
	f := cuckoo.NewFilter(capacity)
	b := []byte(id)
	const slots, width = 4, 2
	bucketOf := func(except int) int {
		enc := f.Encode()
		for i := 0; i+1 < len(enc); i += width {
			if (enc[i] != 0 || enc[i+1] != 0) && i/(slots*width) != except {
				return i / (slots * width)
			}
		}
		return -1
	}
	f.Insert(b)
	i1 = bucketOf(-1)
	for k := 1; k < slots; k++ {
		f.Insert(b)
	}
	f.Insert(b) // fifth copy: overflows into the alternate bucket if there is one
	i2 = bucketOf(i1)
	if i2 < 0 {
		i2 = i1
	}
	return i1, i2
}
