package cache

// Accessors for the C35 (race) harness: add-only.

// VerifC35Dropped returns the dropped-trace filter behind a TraceSentCache built by NewCuckooSentCache.
func VerifC35Dropped(c TraceSentCache) *CuckooTraceChecker {
	if cc, ok := c.(*cuckooSentCache); ok {
		return cc.dropped
	}
	return nil
}

// VerifC35Drain runs one drain step of the add queue (the body of the drainer goroutine's tick).
func VerifC35Drain(c *CuckooTraceChecker) { c.drain() }

// VerifC35MonitorTick runs the body of the cuckooSentCache monitor tick.
func VerifC35MonitorTick(c TraceSentCache) {
	cc := c.(*cuckooSentCache)
	cc.dropped.Maintain()
	n := cc.recentDroppedIDs.Length()
	cc.met.Gauge("cache_recent_dropped_traces", float64(n))
}
