package cache

// Verification hooks (overlay only). Topic: make the background activity of the cuckoo sent cache
// explorer-driven and its state observable without mutating it.

import (
	"sort"
	"time"

	"github.com/jonboulle/clockwork"
)

// VerifSentCacheCtl gives a harness control over a cuckooSentCache created by NewCuckooSentCache.
type VerifSentCacheCtl struct{ c *cuckooSentCache }

// VerifControl returns the control handle, or false if the TraceSentCache is of another type.
func VerifControl(t TraceSentCache) (*VerifSentCacheCtl, bool) {
	c, ok := t.(*cuckooSentCache)
	if !ok {
		return nil, false
	}
	return &VerifSentCacheCtl{c}, true
}

// Same reports whether t is the cache this handle controls.
func (v *VerifSentCacheCtl) Same(t TraceSentCache) bool {
	c, ok := t.(*cuckooSentCache)
	return ok && c == v.c
}

// StopDrainer terminates the goroutine that empties the dropped-ID add queue every 100µs of REAL
// time (its `done` protocol is used, the queue itself stays open) and arms a fresh `done` so the real
// Stop() keeps working. From then on IDs reach the filter only when Drain()/Maintain() is called.
func (v *VerifSentCacheCtl) StopDrainer() {
	d := v.c.dropped
	close(d.done)
	d.shutdownWG.Wait()
	d.done = make(chan struct{})
}

// SetClock replaces the clock of the recently-dropped TTL set (a real clock by default).
func (v *VerifSentCacheCtl) SetClock(clk clockwork.Clock) { v.c.recentDroppedIDs.Clock = clk }

// Drain runs the drainer's tick body: empty the add queue into the filter(s).
func (v *VerifSentCacheCtl) Drain() {
	for len(v.c.dropped.addch) > 0 {
		v.c.dropped.drain()
	}
}

// Maintain runs the body of the sent cache's monitor tick (filter rotation check + TTL set clean-up).
func (v *VerifSentCacheCtl) Maintain() {
	v.c.dropped.Maintain()
	n := v.c.recentDroppedIDs.Length()
	v.c.met.Gauge("cache_recent_dropped_traces", float64(n))
}

// PendingDropped is the number of dropped IDs queued but not yet in the filter.
func (v *VerifSentCacheCtl) PendingDropped() int { return len(v.c.dropped.addch) }

// InDroppedFilter asks the current cuckoo filter (no side effects).
func (v *VerifSentCacheCtl) InDroppedFilter(traceID string) bool { return v.c.dropped.Check(traceID) }

// FutureFilterActive reports whether the second-generation filter has been started (load > 0.5).
func (v *VerifSentCacheCtl) FutureFilterActive() bool {
	v.c.dropped.mut.RLock()
	defer v.c.dropped.mut.RUnlock()
	return v.c.dropped.future != nil
}

// RecentDropped returns a copy of the TTL set's raw entries (ID -> expiry), including stale ones.
func (v *VerifSentCacheCtl) RecentDropped() map[string]time.Time {
	out := map[string]time.Time{}
	for _, k := range v.recentKeys() {
		out[k] = v.c.recentDroppedIDs.Items[k]
	}
	return out
}

func (v *VerifSentCacheCtl) recentKeys() []string {
	var ks []string
	for k := range v.c.recentDroppedIDs.Items {
		ks = append(ks, k)
	}
	sort.Strings(ks)
	return ks
}

// InRecentDropped asks the TTL set exactly like CheckSpan does but without refreshing the entry.
func (v *VerifSentCacheCtl) InRecentDropped(traceID string) bool {
	return v.c.recentDroppedIDs.Contains(traceID)
}

// KeptKeys lists the kept-decision LRU from oldest to newest (no recency update).
func (v *VerifSentCacheCtl) KeptKeys() []string { return v.c.kept.Keys() }

// VerifKept is a copy of one kept record.
type VerifKept struct {
	Rate                                             uint
	Reason                                           string
	EventCount, SpanEventCount, SpanLinkCount, Spans uint
}

// KeptPeek reads a kept record without touching recency or counts.
func (v *VerifSentCacheCtl) KeptPeek(traceID string) (VerifKept, bool) {
	e, ok := v.c.kept.Peek(traceID)
	if !ok {
		return VerifKept{}, false
	}
	reason, _ := v.c.keptReasons.Get(uint(e.reason))
	return VerifKept{Rate: e.Rate(), Reason: reason, EventCount: e.DescendantCount(), SpanEventCount: e.SpanEventCount(),
		SpanLinkCount: e.SpanLinkCount(), Spans: e.SpanCount()}, true
}

// VerifPQLen returns the number of entries in a DefaultInMemCache's priority queue (-1 if c is of another type).
func VerifPQLen(c Cache) int {
	d, ok := c.(*DefaultInMemCache)
	if !ok {
		return -1
	}
	return d.pq.Len()
}
