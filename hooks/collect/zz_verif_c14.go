package collect

// Verification hook (C14): one collector worker in "handler mode" for the sampler-selection check — the real
// processSpan followed by the real makeDecision for one span, returning what makeDecision decided.
// Adds code only; unexported names touched: processSpan, makeDecision, cache, localSpansWaiting and the
// result fields of sendableTrace.

import (
	"context"
	"fmt"

	"github.com/jonboulle/clockwork"
	"go.opentelemetry.io/otel/trace/noop"

	"github.com/honeycombio/refinery/config"
	"github.com/honeycombio/refinery/logger"
	"github.com/honeycombio/refinery/metrics"
	"github.com/honeycombio/refinery/sample"
	"github.com/honeycombio/refinery/types"
)

// VerifC14NewWorker builds an un-started collector (exported fields only) with one worker created by the
// real NewCollectorWorker. No goroutine of the collector runs; call worker.Stop() when done.
func VerifC14NewWorker(cfg config.Config, sf *sample.SamplerFactory, clock clockwork.Clock) (*CollectorWorker, error) {
	parent := &InMemCollector{
		TestMode:       true,
		Config:         cfg,
		Clock:          clock,
		Logger:         &logger.NullLogger{},
		Tracer:         noop.NewTracerProvider().Tracer("verif"),
		Metrics:        &metrics.NullMetrics{},
		SamplerFactory: sf,
		StressRelief:   &MockStressReliever{},
	}
	return NewCollectorWorker(0, parent, 1, 1)
}

// VerifC14Decision is what makeDecision concluded for a trace.
type VerifC14Decision struct {
	Selector string
	Reason   string
	Key      string
	Rate     uint
	Keep     bool
}

// VerifC14Decide feeds sp to the worker's real span handler (which creates the trace from the span) and then
// runs the real makeDecision on that buffered trace.
func VerifC14Decide(cl *CollectorWorker, sp *types.Span) (VerifC14Decision, error) {
	ctx := context.Background()
	cl.localSpansWaiting.Add(1)
	cl.processSpan(ctx, sp)
	tr := cl.cache.Get(sp.TraceID)
	if tr == nil {
		return VerifC14Decision{}, fmt.Errorf("trace %s not buffered after processSpan", sp.TraceID)
	}
	s, err := cl.makeDecision(ctx, tr, "verif")
	if err != nil {
		return VerifC14Decision{}, err
	}
	return VerifC14Decision{Selector: s.samplerSelector, Reason: s.reason, Key: s.sampleKey, Rate: s.rate, Keep: s.shouldSend}, nil
}
