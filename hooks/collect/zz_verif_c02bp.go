package collect

import (
	"context"
	"runtime"
	"time"

	"github.com/honeycombio/refinery/types"
)

// VerifFillOutgoing queues n empty sentinel traces on tracesToSend (what a sender that has fallen behind leaves
// in front of the traces decided next). Returns the channel's capacity.
func (i *InMemCollector) VerifFillOutgoing(n int) int {
	for k := 0; k < n; k++ {
		i.tracesToSend <- sendableTrace{Trace: &types.Trace{TraceID: "verif-filler"}}
	}
	return cap(i.tracesToSend)
}

// VerifTickUnderBackpressure runs worker w's send-tick handler while the harness plays a sender that is as slow
// as a sender can be: it takes one entry off tracesToSend only when the queue is completely full (so a handler
// that blocks in send() on a full queue, as it should, always gets its slot eventually and a handler that is
// not blocked is never helped). Entries taken are returned to the caller. No clock or timing decides anything:
// the call returns when the handler has returned.
func (i *InMemCollector) VerifTickUnderBackpressure(w int, now time.Time) []*types.Trace {
	done := make(chan struct{})
	go func() {
		defer close(done)
		cl := i.workers[w]
		cl.sendExpiredTracesInCache(context.Background(), now)
		cl.lastCacheSize.Store(int64(cl.cache.GetCacheEntryCount()))
	}()
	var taken []*types.Trace
	for {
		select {
		case <-done:
			return taken
		default:
		}
		if len(i.tracesToSend) == cap(i.tracesToSend) {
			select {
			case t := <-i.tracesToSend:
				taken = append(taken, t.Trace)
			default:
			}
		}
		runtime.Gosched()
	}
}
