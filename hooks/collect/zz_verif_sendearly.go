package collect

import "sync"

// VerifPostSendEarly posts a sendEarly request to worker w exactly as checkAlloc does (with the WaitGroup the
// worker loop signals after running sendTracesEarly) and returns the wait on that WaitGroup. The WaitGroup is
// created here so that callers outside this package need not name its type (which is the scheduler shim's in
// builds that rewrite this package's sync import).
func (i *InMemCollector) VerifPostSendEarly(w int, bytes int) (wait func()) {
	wg := &sync.WaitGroup{}
	wg.Add(1)
	i.workers[w].sendEarly <- sendEarly{wg: wg, bytesToSend: bytes}
	return wg.Wait
}
