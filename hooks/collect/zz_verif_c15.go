package collect

// Verification hooks (overlay only). Topic C15: stress relief hysteresis.
// Adds code only; nothing here runs unless a harness calls it.

import (
	"time"

	"github.com/honeycombio/refinery/internal/peer"
)

// VerifC15NoBackground makes Start() skip the 100ms recalculation loop (it uses the switch the
// repository's own tests use), so that the harness drives Recalc() itself under a fake clock.
func VerifC15NoBackground(s *StressRelief) { s.disableStressLevelReport = true }

// VerifC15Report is a copy of one entry of the cluster stress-level table.
type VerifC15Report struct {
	Key   string
	Level uint
	At    time.Time
}

// VerifC15State copies the hidden hysteresis state (hold-on deadline, report table) without changing it.
func VerifC15State(s *StressRelief) (stayOnUntil time.Time, reports []VerifC15Report) {
	s.lock.RLock()
	defer s.lock.RUnlock()
	for _, r := range s.stressLevels {
		reports = append(reports, VerifC15Report{Key: r.key, Level: r.level, At: r.timestamp})
	}
	return s.stayOnUntil, reports
}

// VerifC15PeerEntryTimeout re-exports the report expiry (internal/peer cannot be imported by the harness).
const VerifC15PeerEntryTimeout = peer.PeerEntryTimeout

// VerifC15Peers returns the repository's mock peer list with the given instance ID.
func VerifC15Peers(id string) peer.Peers { return peer.NewMockPeers([]string{id}, id) }
