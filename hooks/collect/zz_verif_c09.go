package collect

// Verification accessor (C09/C20), added by the /verif overlay at check time; adds code only.
// Topic: the sampler's answer for the decided traces waiting on the outgoing queue. zz_verif_handlers.go
// already lists reason / rate / keep (VerifOutgoingQueue); the sample key and the sampler selector are the
// two fields of sendableTrace it does not show.

// VerifOutgoingKey is the sample key and sampler selector of one decided trace on tracesToSend.
type VerifOutgoingKey struct {
	TraceID         string
	SampleKey       string
	SamplerSelector string
}

// VerifOutgoingSampleKeys lists them in queue order without changing the queue (handler mode: no
// sendTraces goroutine is running, the calling goroutine is the only user of the channel).
func (i *InMemCollector) VerifOutgoingSampleKeys() []VerifOutgoingKey {
	n := len(i.tracesToSend)
	out := make([]VerifOutgoingKey, 0, n)
	for k := 0; k < n; k++ {
		t := <-i.tracesToSend
		out = append(out, VerifOutgoingKey{TraceID: t.TraceID, SampleKey: t.sampleKey, SamplerSelector: t.samplerSelector})
		i.tracesToSend <- t
	}
	return out
}
