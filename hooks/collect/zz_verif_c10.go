package collect

// Verification helpers (C10), added by overlay at check time; add code only.

import (
	"github.com/jonboulle/clockwork"

	"github.com/honeycombio/refinery/config"
	"github.com/honeycombio/refinery/internal/health"
	"github.com/honeycombio/refinery/internal/peer"
	"github.com/honeycombio/refinery/logger"
	"github.com/honeycombio/refinery/metrics"
	"github.com/honeycombio/refinery/pubsub"
)

// VerifC10NewStressRelief builds and starts a StressRelief the way the package's own tests do
// (fake clock that never advances, local pubsub, mock peers with the given instance id) and
// applies the configuration. stop() terminates its monitor goroutine.
func VerifC10NewStressRelief(cfg config.Config, hostID string) (*StressRelief, func(), error) {
	met := &metrics.NullMetrics{}
	clock := clockwork.NewFakeClock()
	ps := &pubsub.LocalPubSub{Metrics: met}
	if err := ps.Start(); err != nil {
		return nil, nil, err
	}
	lg := &logger.NullLogger{}
	h := &health.Health{Clock: clock, Metrics: met, Logger: lg}
	if err := h.Start(); err != nil {
		return nil, nil, err
	}
	p := peer.NewMockPeers([]string{hostID}, hostID)
	if err := p.Start(); err != nil {
		return nil, nil, err
	}
	sr := &StressRelief{
		Clock:           clock,
		Done:            make(chan struct{}),
		Logger:          lg,
		RefineryMetrics: met,
		Config:          cfg,
		Health:          h,
		PubSub:          ps,
		Peer:            p,
	}
	if err := sr.Start(); err != nil {
		return nil, nil, err
	}
	sr.UpdateFromConfig()
	stop := func() {
		close(sr.Done)
		h.Stop()
		ps.Stop()
	}
	return sr, stop, nil
}

// VerifC10UpperBound returns the 64-bit hash threshold currently in force.
func (s *StressRelief) VerifC10UpperBound() uint64 {
	s.lock.RLock()
	defer s.lock.RUnlock()
	return s.upperBound
}
