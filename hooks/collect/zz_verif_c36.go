package collect

import "github.com/honeycombio/refinery/types"

// VerifC36Leftovers reports, after Stop, what the collector still holds: span IDs (field "id") left in
// the (closed) worker input channels and trace IDs left undecided in the worker caches. Read-only
// apart from emptying the already closed channels.
func VerifC36Leftovers(i *InMemCollector) (queuedSpans []string, bufferedTraces []string) {
	for _, w := range i.workers {
		for _, ch := range []chan *types.Span{w.incoming, w.fromPeer} {
			for {
				sp, ok := <-ch
				if !ok {
					break
				}
				id, _ := sp.Data.Get("id").(string)
				queuedSpans = append(queuedSpans, sp.TraceID+"/"+id)
			}
		}
		for _, t := range w.cache.GetAll() {
			if !t.Sent {
				bufferedTraces = append(bufferedTraces, t.TraceID)
			}
		}
	}
	return
}
