package sharder

// VerifC35LoadPeerList runs the peer-list reload that the peers callback triggers.
func VerifC35LoadPeerList(d *DeterministicSharder) error { return d.loadPeerList() }
