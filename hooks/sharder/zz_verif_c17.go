package sharder

// Verification hook (C17): the peer sources live in an internal package that a harness outside the module
// cannot import; these constructors only re-export them. Adds code only, touches exported names only.

import (
	"github.com/honeycombio/refinery/config"
	"github.com/honeycombio/refinery/internal/peer"
	"github.com/honeycombio/refinery/logger"
	"github.com/honeycombio/refinery/metrics"
)

// VerifC17MockPeers returns the repository's MockPeers.
func VerifC17MockPeers(peers []string, id string) *peer.MockPeers {
	return peer.NewMockPeers(peers, id)
}

// VerifC17FilePeers returns a started real FilePeers over cfg.
func VerifC17FilePeers(cfg config.Config) (*peer.FilePeers, error) {
	fp := &peer.FilePeers{Cfg: cfg, Metrics: &metrics.NullMetrics{}, Logger: &logger.NullLogger{}}
	if err := fp.Start(); err != nil {
		return nil, err
	}
	return fp, nil
}
