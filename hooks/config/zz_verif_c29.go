package config

// VerifMainConfig returns a pointer to the effective main configuration struct (defaults, files, flags,
// environment and ${VAR} expansion applied) held by a Config built by NewConfig; nil for other
// implementations. Read-only use by the /verif checks (reflection walk over every setting).
func VerifMainConfig(c Config) any {
	f, ok := c.(*fileConfig)
	if !ok {
		return nil
	}
	f.mux.RLock()
	defer f.mux.RUnlock()
	return f.mainConfig
}
