package sample

// Verification hook (C28): lets the harness stop the dynsampler-go instances a factory created, so that their
// ticker goroutines do not outlive a case (a case may configure a 1ns interval). Adds code only.

// VerifC28StopDynsamplers calls Stop on every shared dynsampler-go instance of the factory, whatever the
// exact signature of its Stop method is, and returns how many were stopped.
func VerifC28StopDynsamplers(s *SamplerFactory) int {
	s.mutex.Lock()
	defer s.mutex.Unlock()
	n := 0
	for _, e := range s.sharedDynsamplers {
		func() {
			defer func() { recover() }() // already stopped (close of closed channel)
			switch d := e.dynsampler.(type) {
			case interface{ Stop() error }:
				d.Stop()
				n++
			case interface{ Stop() }:
				d.Stop()
				n++
			}
		}()
	}
	return n
}
