package sample

// VerifC13UpdatePeerCounts runs what the peers callback registered in Start() runs.
func VerifC13UpdatePeerCounts(s *SamplerFactory) { s.updatePeerCounts() }
