package sample

// Verification hook (C12/C13): read-only accessors for the identity of the rate-tracking state
// (dynsampler-go instance) behind a Sampler and for the downstream samplers of a rules-based sampler,
// plus a re-export of the internal MockPeers. Adds code only; never changes behaviour.

import (
	"github.com/honeycombio/refinery/internal/peer"
)

// VerifDynsamplerOf returns the dynsampler-go instance a sampler uses (a pointer, comparable with ==),
// or nil for samplers without rate-tracking state (deterministic, rules-based).
func VerifDynsamplerOf(s Sampler) any {
	switch d := s.(type) {
	case *DynamicSampler:
		return d.dynsampler
	case *EMADynamicSampler:
		return d.dynsampler
	case *TotalThroughputSampler:
		return d.dynsampler
	case *EMAThroughputSampler:
		return d.dynsampler
	case *WindowedThroughputSampler:
		return d.dynsampler
	}
	return nil
}

// VerifDownstreamOf returns the downstream sampler that a rules-based sampler uses for its i-th rule
// (nil if that rule has none or s is not rules-based).
func VerifDownstreamOf(s Sampler, i int) Sampler {
	r, ok := s.(*RulesBasedSampler)
	if !ok || i < 0 || i >= len(r.Config.Rules) {
		return nil
	}
	return r.samplers[r.Config.Rules[i].String()]
}

// VerifMockPeers re-exports the repository's mock peer source (internal package).
func VerifMockPeers(peers []string, id string) *peer.MockPeers {
	return peer.NewMockPeers(peers, id)
}
