package sample

// Verification accessor (C10), added by overlay at check time; adds code only.

// VerifC10UpperBound returns the hash threshold the started sampler compares against.
func (d *DeterministicSampler) VerifC10UpperBound() uint32 { return d.upperBound }
