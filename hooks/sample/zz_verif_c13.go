package sample

// Verification hook (C13): read-only view of the factory's shared dynsampler registry.

import (
	"fmt"
	"sort"
)

// VerifC13Live returns the dynsampler-go instances currently registered in the factory's shared map.
func VerifC13Live(s *SamplerFactory) []any {
	s.mutex.Lock()
	defer s.mutex.Unlock()
	out := make([]any, 0, len(s.sharedDynsamplers))
	for _, e := range s.sharedDynsamplers {
		out = append(out, e.dynsampler)
	}
	return out
}

// VerifC13Hidden renders the factory's goal bookkeeping (peer count as last seen and the recorded
// configured goals) canonically; used only as part of a state key for deduplication.
func VerifC13Hidden(s *SamplerFactory) string {
	s.mutex.Lock()
	defer s.mutex.Unlock()
	var kv []string
	for k, v := range s.goalThroughputConfigs {
		kv = append(kv, fmt.Sprintf("%s=%d", k, v))
	}
	sort.Strings(kv)
	var live []string
	for k := range s.sharedDynsamplers {
		live = append(live, k)
	}
	sort.Strings(live)
	return fmt.Sprintf("pc=%d goals=%v live=%v", s.peerCount, kv, live)
}
