package sample

import (
	dynsampler "github.com/honeycombio/dynsampler-go"

	"github.com/honeycombio/refinery/metrics"
)

// VerifC33Recorder builds the recorder the sampler factory attaches to a shared dynsampler (the one that turns
// the dynsampler's cumulative counters into increments of Refinery's metrics) and returns its RecordMetrics.
func VerifC33Recorder(prefix string, met metrics.Metrics, s dynsampler.Sampler) func(kept bool, rate uint, numTraceKey int) {
	r := &dynsamplerMetricsRecorder{prefix: prefix, met: met}
	r.RegisterMetrics(s)
	return func(kept bool, rate uint, numTraceKey int) { r.RecordMetrics(s, kept, rate, numTraceKey) }
}
