package sample

// Verification hook (C33, reload part): read-only view of the metrics recorder a factory-made sampler carries.
// Adds code only; never changes behaviour.

import "sort"

// VerifC33RecorderOf returns the recorder attached to a dynsampler-backed sampler (a pointer, comparable with ==,
// nil for samplers without one) and a copy of the baseline it keeps per dynsampler-go counter: the cumulative
// value it has already passed on to the metrics store. Used for the canonical state key only, never by the oracle.
func VerifC33RecorderOf(s Sampler) (any, map[string]int64) {
	var r *dynsamplerMetricsRecorder
	switch d := s.(type) {
	case *DynamicSampler:
		r = d.metricsRecorder
	case *EMADynamicSampler:
		r = d.metricsRecorder
	case *TotalThroughputSampler:
		r = d.metricsRecorder
	case *EMAThroughputSampler:
		r = d.metricsRecorder
	case *WindowedThroughputSampler:
		r = d.metricsRecorder
	}
	if r == nil {
		return nil, nil
	}
	r.mu.Lock()
	defer r.mu.Unlock()
	out := make(map[string]int64, len(r.lastMetrics))
	for k, v := range r.lastMetrics {
		out[k] = v.val
	}
	return r, out
}

// VerifC33Shared lists the factory's shared registry: the keys in sorted order with the dynsampler-go instance
// and the recorder registered under each (with a copy of the recorder's baseline, see above). Used for the canonical state key and to stop instances at the end of a history.
func VerifC33Shared(s *SamplerFactory) (keys []string, dyns []any, recs []any, bases []map[string]int64) {
	s.mutex.Lock()
	defer s.mutex.Unlock()
	for k := range s.sharedDynsamplers {
		keys = append(keys, k)
	}
	sort.Strings(keys)
	for _, k := range keys {
		e := s.sharedDynsamplers[k]
		dyns = append(dyns, e.dynsampler)
		recs = append(recs, e.recorder)
		base := map[string]int64{}
		if e.recorder != nil {
			e.recorder.mu.Lock()
			for n, v := range e.recorder.lastMetrics {
				base[n] = v.val
			}
			e.recorder.mu.Unlock()
		}
		bases = append(bases, base)
	}
	return keys, dyns, recs, bases
}
