// Package peerx re-exports refinery/internal/peer to the verif module (internal packages cannot be
// imported from outside the repository module; this virtual package is overlaid inside it).
package peerx

import "github.com/honeycombio/refinery/internal/peer"

type (
	RedisPubsubPeers = peer.RedisPubsubPeers
	MockPeers        = peer.MockPeers
	FilePeers        = peer.FilePeers
	Peers            = peer.Peers
)

const PeerEntryTimeout = peer.PeerEntryTimeout

var (
	NewMockPeers       = peer.NewMockPeers
	VerifC35Listen     = peer.VerifC35Listen
	VerifC35Msg        = peer.VerifC35Msg
	VerifC35PeerReport = peer.VerifC35PeerReport
)
