// Package c18peer exists only in the verification overlay: internal/peer cannot be imported from the
// verif module (Go's internal rule), so this package inside the refinery module tree re-exports what
// check C18 needs. Adds code only.
package c18peer

import (
	"time"

	"github.com/honeycombio/refinery/internal/peer"
	"github.com/jonboulle/clockwork"
)

type RedisPubsubPeers = peer.RedisPubsubPeers

const (
	PeerEntryTimeout = peer.PeerEntryTimeout
	RefreshInterval  = peer.VerifRefreshInterval
)

func Marshal(action, address, id string) string { return peer.VerifMarshal(action, address, id) }
func Unmarshal(msg string) (action, address, id string, ok bool) {
	return peer.VerifUnmarshal(msg)
}
func AdoptClock(p *RedisPubsubPeers, c clockwork.Clock) { peer.VerifAdoptClock(p, c) }
func NotifiedHash(p *RedisPubsubPeers) uint64           { return peer.VerifNotifiedHash(p) }
func Table(p *RedisPubsubPeers, now time.Time) string   { return peer.VerifTable(p, now) }
