// Package health (overlay-only, added by /verif) re-exports the internal health package so that a
// check living outside the refinery module tree can construct and drive the real Health object.
// It only adds a new package; nothing in the repository imports it.
package health

import (
	"time"

	real "github.com/honeycombio/refinery/internal/health"
	"github.com/jonboulle/clockwork"
)

// VerifC30New returns an un-started real Health on the given clock (null logger/metrics are filled in by Start).
func VerifC30New(clk clockwork.Clock) *real.Health { return &real.Health{Clock: clk} }

// VerifC30State renders the hidden countdown table (read-only).
func VerifC30State(h *real.Health) []string { return real.VerifC30State(h) }

// VerifC30TickerTime is the health survey period.
func VerifC30TickerTime() time.Duration { return real.TickerTime }
