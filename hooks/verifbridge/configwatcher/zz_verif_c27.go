// Package configwatcher (overlay-only, added by /verif) re-exports the internal ConfigWatcher so that
// checks living outside the refinery module tree can drive the real pubsub reload handler.
// It only adds a new package; nothing in the repository imports it.
package configwatcher

import (
	"context"

	"github.com/honeycombio/refinery/config"
	real "github.com/honeycombio/refinery/internal/configwatcher"
	"github.com/honeycombio/refinery/logger"
	"github.com/honeycombio/refinery/pubsub"
	"go.opentelemetry.io/otel/trace/noop"
)

// VerifPubsubTrigger returns the real ConfigWatcher.SubscriptionListener of a watcher wired to cfg
// (not Started: no goroutine, no ticker, no subscription).
func VerifPubsubTrigger(cfg config.Config, lg logger.Logger) func(ctx context.Context, msg string) {
	cw := &real.ConfigWatcher{Config: cfg, Logger: lg, Tracer: noop.NewTracerProvider().Tracer("verif")}
	return cw.SubscriptionListener
}

// VerifStartedWatcher builds and Start()s a real ConfigWatcher (real monitor goroutine on the periodic timer,
// real subscription) on a real in-process pubsub. Stop it with the returned function.
func VerifStartedWatcher(cfg config.Config, lg logger.Logger) (stop func(), err error) {
	ps := &pubsub.LocalPubSub{Config: cfg}
	if err := ps.Start(); err != nil {
		return nil, err
	}
	cw := &real.ConfigWatcher{Config: cfg, Logger: lg, PubSub: ps, Tracer: noop.NewTracerProvider().Tracer("verif")}
	if err := cw.Start(); err != nil {
		return nil, err
	}
	return func() { cw.Stop(); ps.Stop() }, nil
}
