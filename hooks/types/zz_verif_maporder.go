package types

import (
	"sort"
	"strings"
	"sync/atomic"
)

// Map-iteration ownership for C21 (DESIGN §2.4). This file only ADDS helpers; nothing in the package calls
// them unless a check rewrites `for k, v := range x.memoizedFields` into a loop over VerifMapKeys (done by
// props/c21/check.conf for types/payload.go, from the current tree, at build time).

// VerifOrderField is an ordinary payload field a harness may add to one event: its string value is a
// comma-separated list of keys; VerifMapKeys yields those keys first, in that order (Go's runtime can produce
// any such order: a small map iterates as a random rotation of insertion order, and clients choose insertion
// order). Without the field the order is sorted.
const VerifOrderField = "verif.order"

var verifMapKeysCalls atomic.Int64

// VerifMapKeysCalls reports how often VerifMapKeys ran (0 = the rewrite is not active in this build).
func VerifMapKeysCalls() int64 { return verifMapKeysCalls.Load() }

// VerifMapKeys returns the keys of m in the harness-owned order.
func VerifMapKeys(m map[string]any) []string {
	verifMapKeysCalls.Add(1)
	keys := make([]string, 0, len(m))
	for k := range m {
		keys = append(keys, k)
	}
	sort.Strings(keys)
	spec, ok := m[VerifOrderField].(string)
	if !ok || spec == "" {
		return keys
	}
	rank := map[string]int{}
	for i, k := range strings.Split(spec, ",") {
		if _, dup := rank[k]; !dup {
			rank[k] = i
		}
	}
	sort.SliceStable(keys, func(i, j int) bool {
		ri, iok := rank[keys[i]]
		rj, jok := rank[keys[j]]
		switch {
		case iok && jok:
			return ri < rj
		case iok:
			return true
		default:
			return false
		}
	})
	return keys
}
