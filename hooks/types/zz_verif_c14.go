package types

// Verification hook (C14): which ordinary fields a Payload holds in extracted (memoized) form right now.

import "sort"

// VerifC14MemoizedKeys returns the sorted names of the fields currently memoized in p.
func (p *Payload) VerifC14MemoizedKeys() []string {
	out := make([]string, 0, len(p.memoizedFields))
	for k := range p.memoizedFields {
		out = append(out, k)
	}
	sort.Strings(out)
	return out
}
