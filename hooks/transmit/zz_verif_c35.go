package transmit

import "net/http"

// VerifC35SetRoundTripper replaces the HTTP transport of a started DirectTransmission (in-memory upstream).
func VerifC35SetRoundTripper(d *DirectTransmission, rt http.RoundTripper) { d.httpClient.Transport = rt }
