package route

import (
	"context"
	"net/http"

	"verif/fix/hookreg"
)

// VerifHandler returns the real mux (with all middleware) that LnS built for this router, so a harness
// can serve requests in-process through httptest.ResponseRecorder. Adds code only.
func VerifHandler(r *Router) http.Handler {
	if r.server == nil {
		return nil
	}
	return r.server.Handler
}

// VerifTraceExport drives the registered OTLP/gRPC trace Export method handler exactly as the gRPC
// server would: dec is the server's "decode the request body into this message" callback.
func VerifTraceExport(r *Router, ctx context.Context, dec func(any) error) (any, error) {
	return customTraceExportHandler(NewTraceServer(r), ctx, dec, nil)
}

func init() {
	hookreg.RouteHandler = func(r any) http.Handler { return VerifHandler(r.(*Router)) }
	hookreg.RouteTraceExport = func(r any, ctx context.Context, dec func(any) error) (any, error) {
		return VerifTraceExport(r.(*Router), ctx, dec)
	}
}
