package route

// VerifC14EnvName is the environment-name resolution every ingestion handler performs for the request's API key
// (getEnvironmentName: "" for classic keys, otherwise the cached or freshly looked-up environment).
func (r *Router) VerifC14EnvName(key string) (string, error) { return r.getEnvironmentName(key) }
