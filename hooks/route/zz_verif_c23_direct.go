package route

import (
	"net/http"

	"github.com/gorilla/mux"
)

// VerifDirectHandler returns the bare handler function behind a /1/ route ("event" or "batch") without the mux;
// the returned function first installs `vars` as the request's mux variables. C23 needs it for exactly one fault:
// a dataset path variable that fails URL-decoding cannot be produced through gorilla/mux (UseEncodedPath takes the
// variable from URL.EscapedPath(), which never returns an invalid escape), so that failure is injected the way the
// repository's own TestGetDatasetFromRequest does it: mux.SetURLVars + a direct call of the handler. Adds code only.
func VerifDirectHandler(r *Router, name string, vars map[string]string) http.HandlerFunc {
	var h http.HandlerFunc
	switch name {
	case "event":
		h = r.event
	case "batch":
		h = r.batch
	default:
		return nil
	}
	return func(w http.ResponseWriter, req *http.Request) {
		h(w, mux.SetURLVars(req, vars))
	}
}
