package route

// VerifC35EnvGet is the lookup every ingestion handler makes for a non-classic API key
// (getEnvironmentName -> environmentCache.get).
func (r *Router) VerifC35EnvGet(key string) { r.environmentCache.get(key) }
