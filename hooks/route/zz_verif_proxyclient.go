package route

import "net/http"

// VerifProxyClient returns the http.Client that LnS created for proxied requests (route/proxy.go) and for
// environment look-ups, so a harness can (a) take the 10 s wall-clock Timeout out of an in-memory run and
// (b) put its own in-memory RoundTripper behind it (props/c25, props/c37). Adds code only; nil before LnS.
func VerifProxyClient(r *Router) *http.Client { return r.proxyClient }
