// Package vchan makes channel operations of rewritten packages scheduling points of engine E3.
// Native channels remain the storage (so foreign goroutines, fake-clock tickers and context
// cancellation interoperate, and the race detector sees the real channel synchronisation);
// blocking is emulated cooperatively: an operation that cannot proceed disables the thread until it
// can. Unbuffered rendezvous between two scheduled threads goes through a registry of offers.
// Which of several ready select cases fires is an explorer-owned choice (vsched.ChooseAlt).
package vchan

import (
	"reflect"
	"sync/atomic"

	"verif/engine/vsched"
)

const (
	dirRecv = 1
	dirSend = 2
)

// Case is one communication clause of a select (or a lone send/receive).
type Case struct {
	dir int
	ch  reflect.Value
	val reflect.Value // value to send
	dst reflect.Value // pointer to the receive destination (invalid = discard)
	okp *bool
	pre reflect.Value // value already taken from the native channel while probing readiness
}

type waiter struct {
	fired int32  // index of the case completed by a counterpart, -1 while waiting; plain accesses in //go:norace code only
	hb    *int32 // separately allocated, only ever touched with real atomics on both sides of a rendezvous: gives the race detector the channel's happens-before edges
}

//go:norace
func newWaiter() *waiter { return &waiter{fired: -1, hb: new(int32)} }

//go:norace
func (w *waiter) getFired() int32 { return w.fired }

//go:norace
func (w *waiter) setFired(i int) { w.fired = int32(i) }

// selState carries what a parked select needs for its enabledness test; can is evaluated by
// whichever thread is scheduling, so everything it touches is read in //go:norace code.
type selState struct {
	cases []Case
	w     *waiter
}

//go:norace
func (s *selState) can() bool { return canProceed(s.cases, s.w) }

type offer struct {
	ptr   uintptr
	c     *Case
	w     *waiter
	idx   int
	owner uintptr // identity token of the offering select (address of its waiter)
}

var (
	offers []*offer
	closed []uintptr
)

func init() {
	vsched.OnRunStart = append(vsched.OnRunStart, reset)
}

//go:norace
func reset() { offers = offers[:0]; closed = closed[:0] }

//go:norace
func isClosed(p uintptr) bool {
	for _, c := range closed {
		if c == p {
			return true
		}
	}
	return false
}

//go:norace
func markClosed(p uintptr) {
	if !isClosed(p) {
		closed = append(closed, p)
	}
}

//go:norace
func findOffer(p uintptr, dir int, notOwner *waiter) *offer {
	for _, o := range offers {
		if o.ptr == p && o.c.dir == dir && o.w != notOwner && o.w.fired < 0 {
			return o
		}
	}
	return nil
}

//go:norace
func addOffers(cases []Case, w *waiter) {
	for i := range cases {
		c := &cases[i]
		if !c.ch.IsValid() || c.ch.IsNil() || c.ch.Cap() != 0 {
			continue
		}
		offers = append(offers, &offer{ptr: c.ch.Pointer(), c: c, w: w, idx: i})
	}
}

//go:norace
func dropOffers(w *waiter) {
	k := 0
	for _, o := range offers {
		if o.w != w {
			offers[k] = o
			k++
		}
	}
	offers = offers[:k]
}

// ready reports whether case c could complete now. It may take a value off the native channel
// when that is the only way to learn the channel's state (unbuffered channel with a natively
// blocked foreign sender); the value is kept in c.pre and the case is then committed to.
//
//go:norace
func ready(c *Case, self *waiter) bool {
	if !c.ch.IsValid() || c.ch.IsNil() {
		return false
	}
	p := c.ch.Pointer()
	if c.dir == dirRecv {
		if c.pre.IsValid() || c.ch.Len() > 0 || isClosed(p) {
			return true
		}
		if c.ch.Cap() == 0 && findOffer(p, dirSend, self) != nil {
			return true
		}
		if x, ok := c.ch.TryRecv(); x.IsValid() {
			if !ok {
				markClosed(p) // closed natively (context cancellation, un-rewritten code)
				return true
			}
			c.pre = x
			return true
		}
		return false
	}
	// send
	if isClosed(p) {
		return true // proceeds to the (panicking) native send, as Go does
	}
	if c.ch.Cap() > 0 {
		return c.ch.Len() < c.ch.Cap()
	}
	return findOffer(p, dirRecv, self) != nil
}

func deliver(c *Case, x reflect.Value, ok bool) {
	if c.dst.IsValid() {
		if !x.IsValid() {
			x = reflect.Zero(c.dst.Elem().Type())
		}
		c.dst.Elem().Set(x)
	}
	if c.okp != nil {
		*c.okp = ok
	}
}

func sendValue(c *Case) reflect.Value {
	et := c.ch.Type().Elem()
	v := c.val
	if !v.IsValid() {
		return reflect.Zero(et)
	}
	if !v.Type().AssignableTo(et) && v.Type().ConvertibleTo(et) {
		return v.Convert(et) // untyped constant boxed with its default type
	}
	return v
}

// perform completes case c; false means the opportunity vanished (a foreign goroutine was faster).
func perform(c *Case, self *waiter) bool {
	p := c.ch.Pointer()
	if c.dir == dirRecv {
		if c.pre.IsValid() {
			deliver(c, c.pre, true)
			c.pre = reflect.Value{}
			return true
		}
		if c.ch.Cap() == 0 {
			if o := findOffer(p, dirSend, self); o != nil {
				atomic.AddInt32(o.w.hb, 1) // acquire the sender's writes …
				deliver(c, sendValue(o.c), true)
				atomic.AddInt32(o.w.hb, 1) // … and release ours to it
				o.w.setFired(o.idx)
				return true
			}
		}
		x, ok := c.ch.TryRecv()
		if !x.IsValid() {
			return false
		}
		deliver(c, x, ok)
		return true
	}
	if c.ch.Cap() == 0 && !isClosed(p) {
		if o := findOffer(p, dirRecv, self); o != nil {
			atomic.AddInt32(o.w.hb, 1)
			deliver(o.c, sendValue(c), true)
			atomic.AddInt32(o.w.hb, 1)
			o.w.setFired(o.idx)
			return true
		}
	}
	return c.ch.TrySend(sendValue(c))
}

// Select runs one select statement. Returns the index of the case that fired, -1 for default.
func Select(hasDefault bool, cases ...Case) int {
	if !vsched.Active() {
		return nativeSelect(hasDefault, cases)
	}
	vsched.Point("chan")
	w := newWaiter()
	for {
		var rd []int
		for i := range cases {
			if ready(&cases[i], w) {
				if cases[i].pre.IsValid() {
					rd = []int{i} // a value is already in hand: committed
					break
				}
				rd = append(rd, i)
			}
		}
		if len(rd) > 0 {
			k := 0
			if len(rd) > 1 {
				k = vsched.ChooseAlt(len(rd), "select")
			}
			if perform(&cases[rd[k]], w) {
				return rd[k]
			}
			continue
		}
		if hasDefault {
			return -1
		}
		addOffers(cases, w)
		atomic.AddInt32(w.hb, 1) // release: what we wrote before blocking is visible to whoever completes the rendezvous
		st := &selState{cases, w}
		vsched.BlockUntil("chan", st.can)
		dropOffers(w)
		if f := w.getFired(); f >= 0 {
			atomic.AddInt32(w.hb, 1) // acquire the counterpart's writes
			return int(f)
		}
		if !vsched.Active() { // the execution was aborted while we were parked
			return nativeSelect(hasDefault, cases)
		}
	}
}

//go:norace
func canProceed(cases []Case, w *waiter) bool {
	if w.fired >= 0 {
		return true
	}
	for i := range cases {
		if ready(&cases[i], w) {
			return true
		}
	}
	return false
}

func nativeSelect(hasDefault bool, cases []Case) int {
	sc := make([]reflect.SelectCase, 0, len(cases)+1)
	for i := range cases {
		c := &cases[i]
		if c.pre.IsValid() {
			deliver(c, c.pre, true)
			c.pre = reflect.Value{}
			return i
		}
		if c.dir == dirRecv {
			sc = append(sc, reflect.SelectCase{Dir: reflect.SelectRecv, Chan: c.ch})
		} else {
			s := reflect.SelectCase{Dir: reflect.SelectSend, Chan: c.ch}
			if c.ch.IsValid() && !c.ch.IsNil() {
				s.Send = sendValue(c)
			}
			sc = append(sc, s)
		}
	}
	if hasDefault {
		sc = append(sc, reflect.SelectCase{Dir: reflect.SelectDefault})
	}
	i, x, ok := reflect.Select(sc)
	if hasDefault && i == len(cases) {
		return -1
	}
	if cases[i].dir == dirRecv {
		deliver(&cases[i], x, ok)
	}
	return i
}

// RecvCase builds a receive clause; dst is a pointer to the destination or nil, okp may be nil.
func RecvCase(ch any, dst any, okp *bool) Case {
	c := Case{dir: dirRecv, ch: reflect.ValueOf(ch), okp: okp}
	if dst != nil {
		c.dst = reflect.ValueOf(dst)
	}
	return c
}

// SendCase builds a send clause.
func SendCase(ch any, v any) Case {
	return Case{dir: dirSend, ch: reflect.ValueOf(ch), val: reflect.ValueOf(v)}
}

// Send is `ch <- v`.
func Send(ch any, v any) { Select(false, SendCase(ch, v)) }

// Recv is `<-ch`.
func Recv[T any](ch <-chan T) T {
	if !vsched.Active() {
		return <-ch
	}
	var v T
	Select(false, Case{dir: dirRecv, ch: reflect.ValueOf(ch), dst: reflect.ValueOf(&v)})
	return v
}

// Recv2 is `v, ok := <-ch`.
func Recv2[T any](ch <-chan T) (T, bool) {
	if !vsched.Active() {
		v, ok := <-ch
		return v, ok
	}
	var v T
	var ok bool
	Select(false, Case{dir: dirRecv, ch: reflect.ValueOf(ch), dst: reflect.ValueOf(&v), okp: &ok})
	return v, ok
}

// Zero returns the zero value of a channel's element type (used to declare receive variables).
func Zero[T any](ch <-chan T) T { var z T; return z }

// ZeroS is Zero for send-only-typed expressions that cannot convert to <-chan.
func ZeroS[T any](ch chan T) T { var z T; return z }

// Close is close(ch).
func Close[T any](ch chan<- T) {
	if vsched.Active() {
		vsched.Point("chan.close")
	}
	close(ch)
	markClosedAny(ch)
}

func markClosedAny(ch any) {
	if vsched.Exploring() {
		markClosed(reflect.ValueOf(ch).Pointer())
	}
}
