package vchan_test

import (
	"fmt"
	"sort"
	"strings"
	"testing"

	"verif/engine/vsched"
	"verif/shim/vchan"
)

func explore(t *testing.T, bound int, setup func(), obs func() string) (map[string]int, vsched.Stats) {
	out := map[string]int{}
	e := &vsched.Explorer{Bound: bound, Setup: setup, Check: func(x *vsched.Exec) string { out[obs()]++; return "" }}
	if !e.Explore() {
		t.Fatalf("failure: %s", e.Failure)
	}
	return out, e.Stats
}

func keys(m map[string]int) string {
	var k []string
	for s := range m {
		k = append(k, s)
	}
	sort.Strings(k)
	return strings.Join(k, " ")
}

func TestBufferedAndUnbuffered(t *testing.T) {
	for _, capa := range []int{0, 1, 2} {
		var got []int
		out, st := explore(t, 2, func() {
			ch := make(chan int, capa)
			got = nil
			vsched.Go("prod", func() {
				for i := 1; i <= 3; i++ {
					vchan.Send(ch, i)
				}
				vchan.Close(ch)
			})
			vsched.Go("cons", func() {
				for {
					v, ok := vchan.Recv2(ch)
					if !ok {
						return
					}
					got = append(got, v)
				}
			})
		}, func() string { return fmt.Sprint(got) })
		if keys(out) != "[1 2 3]" {
			t.Fatalf("cap %d: outcomes %v", capa, out)
		}
		t.Logf("cap %d: %+v", capa, st)
	}
}

func TestSelectAlternatives(t *testing.T) {
	var got string
	out, st := explore(t, 2, func() {
		a, b := make(chan string, 1), make(chan string, 1)
		a <- "a"
		b <- "b"
		got = ""
		vsched.Go("sel", func() {
			for i := 0; i < 2; i++ {
				var v string
				switch vchan.Select(false, vchan.RecvCase(a, &v, nil), vchan.RecvCase(b, &v, nil)) {
				case 0, 1:
					got += v
				}
			}
		})
	}, func() string { return got })
	if keys(out) != "ab ba" {
		t.Fatalf("outcomes %v", out)
	}
	t.Logf("%v %+v", out, st)
}

func TestServiceLoopQuiescence(t *testing.T) {
	var sum int
	out, st := explore(t, 1, func() {
		work := make(chan int, 4)
		done := make(chan struct{})
		sum = 0
		vsched.SpawnPolicy["loop"] = "thread"
		vsched.Go("driver", func() {
			// the code under test starts its own loop goroutine
			vsched.GoStmt("loop:1", func() {
				for {
					var v int
					switch vchan.Select(false, vchan.RecvCase(work, &v, nil), vchan.RecvCase(done, nil, nil)) {
					case 0:
						sum += v
					case 1:
						return
					}
				}
			})
			vchan.Send(work, 1)
			vchan.Send(work, 2)
		})
	}, func() string { return fmt.Sprint(sum) })
	if keys(out) != "3" {
		t.Fatalf("outcomes %v", out)
	}
	t.Logf("%v %+v", out, st)
}

func TestDeadlockDetected(t *testing.T) {
	e := &vsched.Explorer{Bound: 1, Setup: func() {
		ch := make(chan int)
		vsched.Go("recv", func() { vchan.Recv(ch) })
	}}
	if e.Explore() {
		t.Fatalf("expected deadlock")
	}
	t.Log(e.Failure)
}
