// Package vsync is a drop-in for "sync" whose operations are scheduling points of engine E3.
// Every primitive wraps the real one (so the happens-before edges the code creates are real and the
// race detector sees them) plus a model of its state, consulted only inside //go:norace code.
package vsync

import (
	"sync"

	"verif/engine/vsched"
)

type Locker = sync.Locker
type Pool = sync.Pool

func OnceFunc(f func()) func()             { return sync.OnceFunc(f) }
func OnceValue[T any](f func() T) func() T { return sync.OnceValue(f) }

type Mutex struct {
	mu   sync.Mutex
	held bool
}

//go:norace
func (m *Mutex) free() bool { return !m.held }

//go:norace
func (m *Mutex) set(v bool) { m.held = v }

func (m *Mutex) Lock() {
	if vsched.Active() {
		vsched.Point("Mutex.Lock")
		vsched.BlockUntil("Mutex.Lock", m.free)
	}
	m.mu.Lock()
	m.set(true)
}

func (m *Mutex) TryLock() bool {
	if vsched.Active() {
		vsched.Point("Mutex.TryLock")
	}
	if m.mu.TryLock() {
		m.set(true)
		return true
	}
	return false
}

func (m *Mutex) Unlock() {
	if vsched.Active() {
		vsched.Point("Mutex.Unlock")
	}
	m.set(false)
	m.mu.Unlock()
}

type RWMutex struct {
	mu      sync.RWMutex
	writer  bool
	readers int
}

//go:norace
func (m *RWMutex) canW() bool { return !m.writer && m.readers == 0 }

//go:norace
func (m *RWMutex) canR() bool { return !m.writer }

//go:norace
func (m *RWMutex) setW(v bool) { m.writer = v }

//go:norace
func (m *RWMutex) addR(n int) { m.readers += n }

func (m *RWMutex) Lock() {
	if vsched.Active() {
		vsched.Point("RWMutex.Lock")
		vsched.BlockUntil("RWMutex.Lock", m.canW)
	}
	m.mu.Lock()
	m.setW(true)
}
func (m *RWMutex) Unlock() {
	if vsched.Active() {
		vsched.Point("RWMutex.Unlock")
	}
	m.setW(false)
	m.mu.Unlock()
}
func (m *RWMutex) RLock() {
	if vsched.Active() {
		vsched.Point("RWMutex.RLock")
		vsched.BlockUntil("RWMutex.RLock", m.canR)
	}
	m.mu.RLock()
	m.addRLocked(1)
}

var rcount sync.Mutex // guards readers in pass-through mode (real concurrency)

//go:norace
func (m *RWMutex) addRLocked(n int) {
	rcount.Lock()
	m.readers += n
	rcount.Unlock()
}
func (m *RWMutex) RUnlock() {
	if vsched.Active() {
		vsched.Point("RWMutex.RUnlock")
	}
	m.addRLocked(-1)
	m.mu.RUnlock()
}
func (m *RWMutex) TryLock() bool {
	if vsched.Active() {
		vsched.Point("RWMutex.TryLock")
	}
	if m.mu.TryLock() {
		m.setW(true)
		return true
	}
	return false
}
func (m *RWMutex) TryRLock() bool {
	if vsched.Active() {
		vsched.Point("RWMutex.TryRLock")
	}
	if m.mu.TryRLock() {
		m.addRLocked(1)
		return true
	}
	return false
}
func (m *RWMutex) RLocker() Locker { return (*rlocker)(m) }

type rlocker RWMutex

func (r *rlocker) Lock()   { (*RWMutex)(r).RLock() }
func (r *rlocker) Unlock() { (*RWMutex)(r).RUnlock() }

type WaitGroup struct {
	wg sync.WaitGroup
	n  int
	mu sync.Mutex
}

//go:norace
func (w *WaitGroup) zero() bool { return w.n <= 0 }

//go:norace
func (w *WaitGroup) add(d int) {
	w.mu.Lock()
	w.n += d
	w.mu.Unlock()
}

func (w *WaitGroup) Add(d int) {
	if vsched.Active() {
		vsched.Point("WaitGroup.Add")
	}
	w.add(d)
	w.wg.Add(d)
}
func (w *WaitGroup) Done() { w.Add(-1) }
func (w *WaitGroup) Wait() {
	if vsched.Active() {
		vsched.Point("WaitGroup.Wait")
		vsched.Settle(w.zero)
		vsched.BlockUntil("WaitGroup.Wait", w.zero)
	}
	w.wg.Wait()
}
func (w *WaitGroup) Go(f func()) {
	w.Add(1)
	vsched.Go("WaitGroup.Go", func() {
		defer w.Done()
		f()
	})
}

type Once struct {
	mu   Mutex
	done bool
}

//go:norace
func (o *Once) isDone() bool { return o.done }

//go:norace
func (o *Once) setDone() { o.done = true }

func (o *Once) Do(f func()) {
	// same structure as sync.Once's slow path: serialised by a mutex, so a concurrent caller waits
	// for the first to finish. The mutex is a shim mutex, hence a scheduling point.
	o.mu.Lock()
	defer o.mu.Unlock()
	if !o.isDoneSync() {
		defer o.setDoneSync()
		f()
	}
}

// isDoneSync/setDoneSync are ordinary (raced-checked) accesses, ordered by o.mu.
func (o *Once) isDoneSync() bool { return o.done }
func (o *Once) setDoneSync()     { o.done = true }

type Map struct{ m sync.Map }

func (m *Map) pt(op string) {
	if vsched.Active() {
		vsched.Point("Map." + op)
	}
}
func (m *Map) Load(k any) (any, bool)           { m.pt("Load"); return m.m.Load(k) }
func (m *Map) Store(k, v any)                   { m.pt("Store"); m.m.Store(k, v) }
func (m *Map) LoadOrStore(k, v any) (any, bool) { m.pt("LoadOrStore"); return m.m.LoadOrStore(k, v) }
func (m *Map) LoadAndDelete(k any) (any, bool)  { m.pt("LoadAndDelete"); return m.m.LoadAndDelete(k) }
func (m *Map) Delete(k any)                     { m.pt("Delete"); m.m.Delete(k) }
func (m *Map) Swap(k, v any) (any, bool)        { m.pt("Swap"); return m.m.Swap(k, v) }
func (m *Map) CompareAndSwap(k, o, n any) bool {
	m.pt("CompareAndSwap")
	return m.m.CompareAndSwap(k, o, n)
}
func (m *Map) CompareAndDelete(k, o any) bool {
	m.pt("CompareAndDelete")
	return m.m.CompareAndDelete(k, o)
}
func (m *Map) Range(f func(k, v any) bool) { m.pt("Range"); m.m.Range(f) }
func (m *Map) Clear()                      { m.pt("Clear"); m.m.Clear() }

type Cond struct {
	L Locker
	c *sync.Cond
}

func NewCond(l Locker) *Cond { return &Cond{L: l, c: sync.NewCond(l)} }
func (c *Cond) Wait()        { c.c.Wait() }
func (c *Cond) Signal()      { c.c.Signal() }
func (c *Cond) Broadcast()   { c.c.Broadcast() }
