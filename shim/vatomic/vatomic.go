// Package vatomic is a drop-in for "sync/atomic" whose operations are scheduling points.
package vatomic

import (
	"sync/atomic"

	"verif/engine/vsched"
)

func pt(op string) {
	if vsched.Active() {
		vsched.Point("atomic." + op)
	}
}

type Int32 struct{ v atomic.Int32 }

func (x *Int32) Load() int32                    { pt("Load"); return x.v.Load() }
func (x *Int32) Store(n int32)                  { pt("Store"); x.v.Store(n) }
func (x *Int32) Add(n int32) int32              { pt("Add"); return x.v.Add(n) }
func (x *Int32) Swap(n int32) int32             { pt("Swap"); return x.v.Swap(n) }
func (x *Int32) CompareAndSwap(o, n int32) bool { pt("CAS"); return x.v.CompareAndSwap(o, n) }

type Int64 struct{ v atomic.Int64 }

func (x *Int64) Load() int64                    { pt("Load"); return x.v.Load() }
func (x *Int64) Store(n int64)                  { pt("Store"); x.v.Store(n) }
func (x *Int64) Add(n int64) int64              { pt("Add"); return x.v.Add(n) }
func (x *Int64) Swap(n int64) int64             { pt("Swap"); return x.v.Swap(n) }
func (x *Int64) CompareAndSwap(o, n int64) bool { pt("CAS"); return x.v.CompareAndSwap(o, n) }

type Uint32 struct{ v atomic.Uint32 }

func (x *Uint32) Load() uint32                    { pt("Load"); return x.v.Load() }
func (x *Uint32) Store(n uint32)                  { pt("Store"); x.v.Store(n) }
func (x *Uint32) Add(n uint32) uint32             { pt("Add"); return x.v.Add(n) }
func (x *Uint32) Swap(n uint32) uint32            { pt("Swap"); return x.v.Swap(n) }
func (x *Uint32) CompareAndSwap(o, n uint32) bool { pt("CAS"); return x.v.CompareAndSwap(o, n) }

type Uint64 struct{ v atomic.Uint64 }

func (x *Uint64) Load() uint64                    { pt("Load"); return x.v.Load() }
func (x *Uint64) Store(n uint64)                  { pt("Store"); x.v.Store(n) }
func (x *Uint64) Add(n uint64) uint64             { pt("Add"); return x.v.Add(n) }
func (x *Uint64) Swap(n uint64) uint64            { pt("Swap"); return x.v.Swap(n) }
func (x *Uint64) CompareAndSwap(o, n uint64) bool { pt("CAS"); return x.v.CompareAndSwap(o, n) }

type Bool struct{ v atomic.Bool }

func (x *Bool) Load() bool                    { pt("Load"); return x.v.Load() }
func (x *Bool) Store(n bool)                  { pt("Store"); x.v.Store(n) }
func (x *Bool) Swap(n bool) bool              { pt("Swap"); return x.v.Swap(n) }
func (x *Bool) CompareAndSwap(o, n bool) bool { pt("CAS"); return x.v.CompareAndSwap(o, n) }

type Pointer[T any] struct{ v atomic.Pointer[T] }

func (x *Pointer[T]) Load() *T                    { pt("Load"); return x.v.Load() }
func (x *Pointer[T]) Store(n *T)                  { pt("Store"); x.v.Store(n) }
func (x *Pointer[T]) Swap(n *T) *T                { pt("Swap"); return x.v.Swap(n) }
func (x *Pointer[T]) CompareAndSwap(o, n *T) bool { pt("CAS"); return x.v.CompareAndSwap(o, n) }

type Value struct{ v atomic.Value }

func (x *Value) Load() any                    { pt("Load"); return x.v.Load() }
func (x *Value) Store(n any)                  { pt("Store"); x.v.Store(n) }
func (x *Value) Swap(n any) any               { pt("Swap"); return x.v.Swap(n) }
func (x *Value) CompareAndSwap(o, n any) bool { pt("CAS"); return x.v.CompareAndSwap(o, n) }

func AddInt32(p *int32, d int32) int32 { pt("AddInt32"); return atomic.AddInt32(p, d) }
func LoadInt32(p *int32) int32         { pt("LoadInt32"); return atomic.LoadInt32(p) }
func StoreInt32(p *int32, v int32)     { pt("StoreInt32"); atomic.StoreInt32(p, v) }
func CompareAndSwapInt32(p *int32, o, n int32) bool {
	pt("CASInt32")
	return atomic.CompareAndSwapInt32(p, o, n)
}
func AddInt64(p *int64, d int64) int64 { pt("AddInt64"); return atomic.AddInt64(p, d) }
func LoadInt64(p *int64) int64         { pt("LoadInt64"); return atomic.LoadInt64(p) }
func StoreInt64(p *int64, v int64)     { pt("StoreInt64"); atomic.StoreInt64(p, v) }
func CompareAndSwapInt64(p *int64, o, n int64) bool {
	pt("CASInt64")
	return atomic.CompareAndSwapInt64(p, o, n)
}
func AddUint32(p *uint32, d uint32) uint32 { pt("AddUint32"); return atomic.AddUint32(p, d) }
func LoadUint32(p *uint32) uint32          { pt("LoadUint32"); return atomic.LoadUint32(p) }
func StoreUint32(p *uint32, v uint32)      { pt("StoreUint32"); atomic.StoreUint32(p, v) }
func AddUint64(p *uint64, d uint64) uint64 { pt("AddUint64"); return atomic.AddUint64(p, d) }
func LoadUint64(p *uint64) uint64          { pt("LoadUint64"); return atomic.LoadUint64(p) }
func StoreUint64(p *uint64, v uint64)      { pt("StoreUint64"); atomic.StoreUint64(p, v) }
