// Package vtime is a drop-in for "time" in rewritten packages: everything is re-exported, and
// Now/Since/Until/Sleep/After/NewTicker/NewTimer go through a harness-owned clock when one is set
// (vtime.Clock != nil). With a clockwork fake clock, tickers and timers only fire when the explorer
// advances the clock, so background loops of the code under test stay parked.
package vtime

import (
	"sync"
	"time"

	"github.com/jonboulle/clockwork"
)

type (
	Time       = time.Time
	Duration   = time.Duration
	Month      = time.Month
	Weekday    = time.Weekday
	Location   = time.Location
	ParseError = time.ParseError
)

const (
	Nanosecond  = time.Nanosecond
	Microsecond = time.Microsecond
	Millisecond = time.Millisecond
	Second      = time.Second
	Minute      = time.Minute
	Hour        = time.Hour

	Layout      = time.Layout
	ANSIC       = time.ANSIC
	UnixDate    = time.UnixDate
	RFC822      = time.RFC822
	RFC1123     = time.RFC1123
	RFC3339     = time.RFC3339
	RFC3339Nano = time.RFC3339Nano
	Kitchen     = time.Kitchen
	DateTime    = time.DateTime
	DateOnly    = time.DateOnly
	TimeOnly    = time.TimeOnly
	StampMilli  = time.StampMilli
)

var (
	UTC   = time.UTC
	Local = time.Local
)

func Unix(sec, nsec int64) Time { return time.Unix(sec, nsec) }
func UnixMilli(ms int64) Time   { return time.UnixMilli(ms) }
func UnixMicro(us int64) Time   { return time.UnixMicro(us) }
func Date(y int, m Month, d, h, mi, s, ns int, l *Location) Time {
	return time.Date(y, m, d, h, mi, s, ns, l)
}
func Parse(layout, value string) (Time, error) { return time.Parse(layout, value) }
func ParseDuration(s string) (Duration, error) { return time.ParseDuration(s) }
func ParseInLocation(l, v string, loc *Location) (Time, error) {
	return time.ParseInLocation(l, v, loc)
}
func LoadLocation(n string) (*Location, error) { return time.LoadLocation(n) }
func FixedZone(n string, off int) *Location    { return time.FixedZone(n, off) }

// Clock, when non-nil, replaces the wall clock for rewritten packages.
var Clock clockwork.Clock

func Now() Time {
	if c := Clock; c != nil {
		return c.Now()
	}
	return time.Now()
}
func Since(t Time) Duration { return Now().Sub(t) }
func Until(t Time) Duration { return t.Sub(Now()) }
func Sleep(d Duration) {
	if c := Clock; c != nil {
		c.Sleep(d)
		return
	}
	time.Sleep(d)
}
func After(d Duration) <-chan Time {
	if c := Clock; c != nil {
		return c.After(d)
	}
	return time.After(d)
}
func Tick(d Duration) <-chan Time { return NewTicker(d).C }

type Ticker struct {
	C  <-chan Time
	ck clockwork.Ticker
	rt *time.Ticker
}

// chans of the fake tickers/timers created so far (harness barrier: Unread() == 0 means every delivered tick
// has been taken by its receiver)
var (
	regMu sync.Mutex
	reg   []<-chan Time
)

func register(c <-chan Time) {
	regMu.Lock()
	reg = append(reg, c)
	regMu.Unlock()
}

// Unread returns the number of ticks/timer firings of the fake clock that nobody has received yet.
func Unread() int {
	regMu.Lock()
	defer regMu.Unlock()
	n := 0
	for _, c := range reg {
		n += len(c)
	}
	return n
}

func NewTicker(d Duration) *Ticker {
	if c := Clock; c != nil {
		t := c.NewTicker(d)
		register(t.Chan())
		return &Ticker{C: t.Chan(), ck: t}
	}
	t := time.NewTicker(d)
	return &Ticker{C: t.C, rt: t}
}
func (t *Ticker) Stop() {
	if t.ck != nil {
		t.ck.Stop()
	} else if t.rt != nil {
		t.rt.Stop()
	}
}
func (t *Ticker) Reset(d Duration) {
	if t.ck != nil {
		t.ck.Reset(d)
	} else if t.rt != nil {
		t.rt.Reset(d)
	}
}

type Timer struct {
	C  <-chan Time
	ck clockwork.Timer
	rt *time.Timer
}

func NewTimer(d Duration) *Timer {
	if c := Clock; c != nil {
		t := c.NewTimer(d)
		register(t.Chan())
		return &Timer{C: t.Chan(), ck: t}
	}
	t := time.NewTimer(d)
	return &Timer{C: t.C, rt: t}
}
func (t *Timer) Stop() bool {
	if t.ck != nil {
		return t.ck.Stop()
	}
	return t.rt.Stop()
}
func (t *Timer) Reset(d Duration) bool {
	if t.ck != nil {
		return t.ck.Reset(d)
	}
	return t.rt.Reset(d)
}
func AfterFunc(d Duration, f func()) *Timer {
	if c := Clock; c != nil {
		t := c.AfterFunc(d, f)
		return &Timer{ck: t}
	}
	return &Timer{rt: time.AfterFunc(d, f)}
}
