#!/usr/bin/env python3
"""Regenerates the generated tables of DESIGN.md (between <!-- GEN:x --> and <!-- /GEN:x --> markers) from the
files on disk: status per property, findings, seeded changes."""
import json, glob, os, re, subprocess
root = '/verif'
def status():
    return subprocess.run(['python3', f'{root}/tools/status.py'], capture_output=True, text=True).stdout.strip()
def findings():
    kf = json.load(open(f'{root}/known_findings.json'))
    out = ['| property | status | commit in /repo | signature key (a trailing `*` = family) | what fails |', '|---|---|---|---|---|']
    for f in sorted(kf, key=lambda f: (f['property'], f['status'])):
        what = f['what']
        what = re.sub(r'^fixed: property=\S+ \S+ ', '', what)
        what = what[:420].replace('|', '/')
        key = f['key'][:110].replace('|', '/')
        out.append(f"| {f['property']} | {f['status']} | {f.get('commit','') or '—'} | `{key}` | {what} |")
    return '\n'.join(out)
def seeds():
    out = ['| seeded change | file changed | what it is (author\'s title) | first run of our checks | now |', '|---|---|---|---|---|']
    for d in sorted(glob.glob(f'{root}/seeded/*/')):
        name = os.path.basename(d.rstrip('/'))
        mp = d + 'meta.json'
        if not os.path.exists(mp): continue
        m = json.load(open(mp))
        title = ''
        if os.path.exists(d + 'NOTES.md'):
            for l in open(d + 'NOTES.md'):
                if l.startswith('# '): title = l[2:].strip(); break
        f = ''
        for l in open(d + 'patch.diff'):
            if l.startswith('+++ '): f = l[4:].split()[0].removeprefix('b/'); break
        def verdict(ran):
            det = [k for k, v in ran.items() if v['check_exit'] == 1]
            oth = [f"{k}: exit {v['check_exit']}" for k, v in ran.items() if v['check_exit'] != 1]
            s = ('caught by ' + ', '.join(det)) if det else 'MISSED'
            sig = next((v['signatures'][0] for v in ran.values() if v['check_exit'] == 1 and v['signatures']), '')
            if sig: s += ' (`' + sig[:70].replace('|', '/') + '`)'
            if det and oth: s += '; not by ' + ', '.join(o.split(':')[0] for o in oth)
            return s
        fr = m.get('first_run')
        first = verdict(fr['ran']) if fr else verdict(m['ran'])
        now = verdict(m['ran']) if fr else 'same'
        out.append(f"| {name} | `{f}` | {title[:150].replace('|','/')} | {first} | {now} |")
    return '\n'.join(out)
gen = {'status': status, 'findings': findings, 'seeds': seeds}
p = f'{root}/DESIGN.md'
s = open(p).read()
for k, fn in gen.items():
    a, b = f'<!-- GEN:{k} -->', f'<!-- /GEN:{k} -->'
    if a in s:
        i, j = s.index(a) + len(a), s.index(b)
        s = s[:i] + '\n' + fn() + '\n' + s[j:]
open(p, 'w').write(s)
print('DESIGN.md tables regenerated')
