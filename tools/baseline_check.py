#!/usr/bin/env python3
"""Runs the repository's own test suite (the command of /root/.vp/BASELINE.json, main module) on /repo as it is and
reports which of the baseline's stable_pass tests do not pass. Usage: baseline_check.py [-parallel N] [pkg ...]"""
import json, subprocess, sys, os, collections
b = json.load(open('/root/.vp/BASELINE.json'))
stable = set(x for x in b['stable_pass'] if x.startswith('github.com/honeycombio/refinery'))
args = sys.argv[1:]
extra = []
if args and args[0] == '-parallel':
    extra = ['-parallel', args[1]]; args = args[2:]
pk = args or ['./...']
env = dict(os.environ, GOFLAGS='-mod=mod', GOPROXY='off', GOTOOLCHAIN='auto')
p = subprocess.run(['go', 'test', '-json', '-vet=off', '-count=1', '-timeout', '25m'] + extra + pk, cwd='/repo', env=env, capture_output=True, text=True)
res = {}
for line in p.stdout.splitlines():
    try: e = json.loads(line)
    except Exception: continue
    if e.get('Test') and e.get('Action') in ('pass', 'fail', 'skip'):
        res[e['Package'] + '::' + e['Test']] = e['Action']
pkgs = set(k.split('::')[0] for k in res)
bad = sorted(t for t in stable if t.split('::')[0] in pkgs and res.get(t) != 'pass')
print(f'ran {len(res)} tests in {len(pkgs)} packages; stable_pass tests of those packages: {sum(1 for t in stable if t.split("::")[0] in pkgs)}; not passing: {len(bad)}')
for t in bad: print('  NOT-PASS', t, res.get(t, 'missing'))
missing_pk = sorted(set(t.split('::')[0] for t in stable) - pkgs)
if pk == ['./...'] and missing_pk: print('packages without results:', missing_pk)
