#!/usr/bin/env python3
"""seedrecheck.py <ID> [--check A,B]: re-run the named checks (default: those recorded in meta.json) against
/verif/seeded/<ID>/patch.diff with ./vmutate --skip-tests (the suite verdict of the first run is kept) and
rewrite meta.json: the first recorded result stays under "first_run", the new one goes under "ran"."""
import json, subprocess, sys, time, os
ID = sys.argv[1]
dst = f'/verif/seeded/{ID}'
meta = json.load(open(f'{dst}/meta.json'))
checks = list(meta['ran'].keys())
if '--check' in sys.argv:
    checks = sys.argv[sys.argv.index('--check') + 1].split(',')
env = dict(os.environ, GOFLAGS='-mod=mod', GOPROXY='off', GOTOOLCHAIN='auto')
if 'first_run' not in meta:
    meta['first_run'] = {'at': meta.get('confirmed_at'), 'ran': meta['ran']}
res = {}
for c in checks:
    p = subprocess.run(f'./vmutate {c} {dst}/patch.diff --skip-tests', shell=True, cwd='/verif', env=env, capture_output=True, text=True, timeout=6000)
    o = p.stdout + p.stderr
    det = 'CHECK exit=1' in o
    sigs = [l.strip()[8:].split(' :: ')[0] for l in o.splitlines() if l.strip().startswith('detail:')]
    prev = meta['first_run']['ran'].get(c, {})
    res[c] = {'suite': prev.get('suite', 'not re-run (see first_run of the property\'s own check)'), 'check_exit': 1 if det else (0 if 'CHECK exit=0' in o else 2),
              'signatures': sigs[:6], 'tail': [l[:600] for l in o.strip().splitlines()[-4:]]}
# checks that were not re-run keep their last recorded result
merged = dict(meta['ran'])
merged.update(res)
meta['ran'] = merged
meta['rechecked_at'] = time.strftime('%Y-%m-%dT%H:%M:%SZ', time.gmtime())
json.dump(meta, open(f'{dst}/meta.json', 'w'), indent=1)
print(ID, {k: (v['check_exit'], v['signatures'][:2]) for k, v in res.items()})
