#!/usr/bin/env python3
"""Print markdown status tables for DESIGN.md §11.3–§11.5 from the files on disk."""
import json, glob, os, re
root='/verif'
props=[json.loads(l) for l in open(f'{root}/properties.jsonl')]
kf=json.load(open(f'{root}/known_findings.json'))
print('| id | engine / level | quick evidence (last committed run) | mutants kept | independent seeded changes | findings |')
print('|---|---|---|---|---|---|')
for p in props:
    i=p['id']; d=f'{root}/props/{i.lower()}'
    if not os.path.exists(f'{d}/READY'):
        print(f'| {i} | — | not claimed | | | |'); continue
    m=json.load(open(f'{d}/manifest.json'))
    ev=''
    ef=f'{root}/evidence/{i}.json'
    if os.path.exists(ef):
        e=json.load(open(ef)); c=e['coverage']
        if 'states' in c: ev=f"{c.get('states')} states / {c.get('transitions')} transitions"
        else: ev=f"{c.get('evaluations')} evaluations / {c.get('distinct_nontrivial')} distinct non-trivial"
        if 'executions' in c: ev+=f", {c['executions']} schedules (bound {c.get('preemption_bound_completed','?')})"
        ev+=f", {e['wall_s']:.0f}s" + ('' if c.get('exhaustive') else ' (capped)')
    mu=len(glob.glob(f'{root}/mutants/{i.lower()}/*.diff'))
    seeds=[]
    for s in sorted(glob.glob(f'{root}/seeded/{i}*/meta.json')):
        mj=json.load(open(s))
        det=[k for k,v in mj['ran'].items() if v['check_exit']==1]
        fr=mj.get('first_run')
        late = bool(fr) and not any(v['check_exit']==1 for v in fr['ran'].values())
        seeds.append((os.path.basename(os.path.dirname(s)), ('caught by '+','.join(det)+(' (after strengthening)' if late else '')) if det else 'MISSED'))
    fs=[f"{f['status']}: {f['key'][:60]}" for f in kf if f['property']==i]
    print(f"| {i} | {m['engine']} / {m['level']} | {ev} | {mu} | {'; '.join(a+': '+b for a,b in seeds)} | {'<br>'.join(fs)} |")
