#!/usr/bin/env python3
"""seedproc.py <ID> <demo file under SEED/demo> <package dir> <go test -run pattern> [--check ID2,...] [--tests "..."]
Confirms an independently written property-breaking change (in its scratch worktree /tmp/seed/<ID>):
demo FAILS with the change and PASSES without it; then runs ./vmutate (the repository's tests of the touched
packages + the property's check with the change overlaid) and stores everything under /verif/seeded/<ID>/."""
import json, os, shutil, subprocess, sys, time
ID, demo, pkg, pat = sys.argv[1:5]
extra = sys.argv[5:]
checks = [ID]
tests = None
variant = ''
goflags = ''
patch_override = ''
root = '/tmp/seed'
dstvar = None
i = 0
while i < len(extra):
    if extra[i] == '--check': checks = extra[i+1].split(','); i += 2
    elif extra[i] == '--tests': tests = extra[i+1]; i += 2
    elif extra[i] == '--variant': variant = extra[i+1]; i += 2
    elif extra[i] == '--goflags': goflags = extra[i+1]; i += 2
    elif extra[i] == '--patch': patch_override = extra[i+1]; i += 2
    elif extra[i] == '--root': root = extra[i+1]; i += 2
    elif extra[i] == '--as': dstvar = extra[i+1]; i += 2
    else: i += 1
wt = f'{root}/{ID}{variant}'
env = dict(os.environ, GOFLAGS='-mod=mod', GOPROXY='off', GOTOOLCHAIN='auto')
def sh(cmd, cwd=wt, timeout=3000):
    p = subprocess.run(cmd, shell=True, cwd=cwd, env=env, capture_output=True, text=True, timeout=timeout)
    return p.returncode, (p.stdout + p.stderr)
out = {}
rc, d = sh('git diff --stat')
assert d.strip(), 'worktree has no change applied'
shutil.copy(f'{wt}/SEED/demo/{demo}', f'{wt}/{pkg}/{demo}')
try:
    rc1, o1 = sh(f'go test {goflags} ./{pkg} -run "{pat}" -count=1 2>&1 | tail -30')
    rcA, _ = sh('git apply -R SEED/patch.diff')
    rc2, o2 = sh(f'go test {goflags} ./{pkg} -run "{pat}" -count=1 2>&1 | tail -30')
    rcB, _ = sh('git apply SEED/patch.diff')
finally:
    os.remove(f'{wt}/{pkg}/{demo}')
with_change_fails = ('FAIL' in o1) and ('ok  ' not in o1.splitlines()[-1] if o1.strip() else True)
without_passes = o2.strip().splitlines()[-1].startswith('ok') if o2.strip() else False
out['demo_with_change'] = 'FAIL' if with_change_fails else 'PASS(!)'
out['demo_without_change'] = 'PASS' if without_passes else 'FAIL(!)'
dst = f'/verif/seeded/{ID}{dstvar if dstvar is not None else variant}'
shutil.rmtree(dst, ignore_errors=True)
os.makedirs(dst)
shutil.copy(f'{wt}/SEED/patch.diff', dst)
if patch_override:
    shutil.copy(f'{wt}/SEED/patch.diff', f'{dst}/patch_as_written.diff')
    shutil.copy(patch_override, f'{dst}/patch.diff')
shutil.copytree(f'{wt}/SEED/demo', f'{dst}/demo')
if os.path.exists(f'{wt}/SEED/NOTES.md'): shutil.copy(f'{wt}/SEED/NOTES.md', dst)
res = {}
for c in checks:
    cmd = f'./vmutate {c} {dst}/patch.diff' + (f' --tests "{tests}"' if tests else '')
    rc, o = sh(cmd, cwd='/verif', timeout=6000)
    suite = 'pass' if 'SUITE: pass' in o else ('FAIL' if 'SUITE: FAIL' in o else 'skipped')
    det = 'CHECK exit=1' in o
    sigs = [l.strip()[8:].split(' :: ')[0] for l in o.splitlines() if l.strip().startswith('detail:')]
    res[c] = {'suite': suite, 'check_exit': 1 if det else (0 if 'CHECK exit=0' in o else 2), 'signatures': sigs[:6], 'tail': o.strip().splitlines()[-4:]}
meta = {'property': ID, 'variant': variant, 'demo': {'file': f'demo/{demo}', 'package': pkg, 'run': f'go test {goflags} ./{pkg} -run "{pat}" -count=1', **out},
        'needs_to_manifest': 'see NOTES.md', 'ran': res, 'confirmed_at': time.strftime('%Y-%m-%dT%H:%M:%SZ', time.gmtime())}
json.dump(meta, open(f'{dst}/meta.json', 'w'), indent=1)
print(json.dumps({'demo': out, 'checks': {k: (v['suite'], v['check_exit'], v['signatures'][:2]) for k, v in res.items()}}, indent=1))
