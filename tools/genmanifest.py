#!/usr/bin/env python3
"""Assemble /verif/MANIFEST.json from props/*/manifest.json fragments; every property without a
fragment is listed under not_applicable with the reason in tools/not_applicable.json (or 'check not built yet')."""
import json, os, glob, subprocess
root = '/verif'
props = [json.loads(l) for l in open(f'{root}/properties.jsonl')]
na_reasons = {}
p = f'{root}/tools/not_applicable.json'
if os.path.exists(p):
    na_reasons = json.load(open(p))
checks, na = [], []
engines = {}
for pr in props:
    pid = pr['id']
    frag = f'{root}/props/{pid.lower()}/manifest.json'
    if not os.path.exists(frag) or not os.path.exists(f"{root}/props/{pid.lower()}/READY"):
        na.append({"property_id": pid, "reason": na_reasons.get(pid, "no check built yet in this session (planned in DESIGN.md §6); not claimed")})
        continue
    f = json.load(open(frag))
    checks.append({
        "property_id": pid,
        "quick_cmd": f"./vcheck {pid} quick",
        "thorough_cmd": f"./vcheck {pid} thorough",
        "evidence_file": f"/verif/evidence/{pid}.json",
        "replay_cmd_template": f"./vcheck {pid} quick --replay {{path}}",
        "engine": f["engine"],
        "level_claimed": {"category": f["level"], "text": f["text"], "design_ref": f.get("design_ref", "")},
        "level_note": f["note"],
        "technique": f["technique"],
    })
    engines.setdefault(f["engine"], []).append(pid)
fixes = subprocess.run(['git', '-C', '/repo', 'log', '--format=%h %s', '--grep=^fix:'], capture_output=True, text=True).stdout.strip().splitlines()
kinds = {
 "seqx": "E1 explicit-state BFS over event histories executed on the real object (fresh object + replay per successor), canonical-state dedup, reference-model oracle",
 "enumx": "E2 bounded-exhaustive enumeration of the full product of small typed input/config domains against an independent reference model",
 "vsched": "E3 cooperative scheduler (scheduling point at every sync/atomic op via import-rewriting overlay) + preemption-bounded DFS over schedules; optional Go race detector as oracle inside each controlled schedule",
 "faultx": "E4 exhaustive fault-script enumeration (every environment answer at every injection point up to a deviation bound)",
}
m = {
 "version": 1,
 "setup_cmd": "./setup.sh",
 "hooks": {
  "guard": "overlay (go build -overlay generated at check time by engine/overlay from /verif/hooks and import rewriting; no hook code is committed to /repo)",
  "enable": "./vcheck builds each check with `go build -overlay .work/<id>/ov/overlay.json`: adds /verif/hooks/<pkg>/zz_verif_*.go to the package and, for scheduler checks, redirects sync / sync/atomic imports to verif/shim",
  "baseline_off_cmd": "cd /repo && GOFLAGS=-mod=mod go test -vet=off -count=1 ./...",
  "source_commits": [l.split()[0] for l in fixes],
  "add_only": True,
 },
 "engines": [{"name": k, "path": f"/verif/engine/{k}", "serves_properties": v, "kind_free_text": kinds.get(k, k)} for k, v in sorted(engines.items())],
 "checks": checks,
 "not_applicable": na,
 "notes": "source_commits lists only `fix:` repairs of genuine defects (see known_findings.json); there are no hook commits because instrumentation is an overlay.",
}
json.dump(m, open(f'{root}/MANIFEST.json', 'w'), indent=1)
print(f"MANIFEST: {len(checks)} checks, {len(na)} not claimed")
