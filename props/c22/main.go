// C22: event timestamps are preserved exactly.
// Engine E2 (enumx) on fix/pipeline: every instant of a bounded grid, in every textual / binary form the
// statement lists, is sent through the real handlers (event-time header of /1/events, "time" member of JSON
// batches, timestamp extension of msgpack batches); the event has no trace ID, so it goes straight to the
// upstream DirectTransmission, and the timestamp decoded from the bytes that reach the fake Honeycomb API
// must equal the instant to the nanosecond.
package main

import (
	"fmt"
	"sort"
	"sync"
	"time"

	"verif/engine/enumx"
	"verif/engine/ev"
	"verif/fix/codec"
	"verif/fix/pipeline"
)

const apiKey = "0123456789abcdef0123456789abcdef"

// a form renders an instant for a path; ok=false when the instant is not representable in that form
type form struct {
	Name   string
	Path   string // "header-json", "header-msgpack", "json-batch", "msgpack-batch"
	render func(t time.Time) (text string, val *codec.Value, ok bool)
	set    string // which instant set: "sec", "ms", "us", "ns" (cumulative: ns ⊇ us ⊇ ms ⊇ sec) or "rfc"
}

const (
	minSec = 1_000_000_000 // 2001-09-09: first ten-digit second
	maxSec = 9_999_999_999 // 2286-11-20: last ten-digit second
)

func secondsGrid(n int) []int64 {
	out := make([]int64, 0, n)
	for i := 0; i < n; i++ {
		// evenly spread, both ends included; odd offsets so that seconds are not all round
		out = append(out, minSec+int64(float64(maxSec-minSec)*float64(i)/float64(n-1)))
	}
	out[n-1] = maxSec
	return out
}

type instSets struct{ sec, ms, us, ns, rfc []time.Time }

func buildSets(r *ev.Run) instSets {
	var s instSets
	grid := secondsGrid(ev.Pick(r, 64, 1024))
	usSeconds := ev.Pick(r, 8, 64)
	for _, sec := range grid {
		s.sec = append(s.sec, time.Unix(sec, 0).UTC())
	}
	for _, sec := range grid {
		for ms := int64(0); ms < 1000; ms++ {
			s.ms = append(s.ms, time.Unix(sec, ms*1_000_000).UTC())
		}
	}
	step := len(grid) / usSeconds
	for i := 0; i < usSeconds; i++ {
		sec := grid[i*step]
		for _, ms := range []int64{0, 1, 500, 999} {
			for us := int64(1); us < 1000; us++ { // us=0 is already in the ms set
				s.us = append(s.us, time.Unix(sec, ms*1_000_000+us*1000).UTC())
			}
		}
	}
	for _, sec := range grid {
		for _, ns := range []int64{1, 999, 1001, 999_999, 1_000_001, 123_456_789, 999_999_999} {
			s.ns = append(s.ns, time.Unix(sec, ns).UTC())
		}
	}
	// RFC 3339 is not predicted to be fragile: a thinner set (all ms of 4 seconds, the µs of one, all ns points)
	for i, sec := range []int64{grid[0], grid[len(grid)/3], grid[2*len(grid)/3], grid[len(grid)-1]} {
		for ms := int64(0); ms < 1000; ms++ {
			s.rfc = append(s.rfc, time.Unix(sec, ms*1_000_000).UTC())
		}
		if i == 1 {
			for us := int64(1); us < 1000; us++ {
				s.rfc = append(s.rfc, time.Unix(sec, 500_000_000+us*1000).UTC())
			}
		}
	}
	s.rfc = append(s.rfc, s.ns...)
	return s
}

func (s instSets) get(name string) []time.Time {
	switch name {
	case "sec":
		return s.sec
	case "ms":
		return append(append([]time.Time{}, s.sec...), s.ms...)
	case "us":
		return append(append([]time.Time{}, s.ms...), s.us...)
	case "ns":
		return append(append(append([]time.Time{}, s.ms...), s.us...), s.ns...)
	case "rfc":
		return s.rfc
	}
	panic(name)
}

func epochForm(digits int, path, set string) form {
	return form{Name: fmt.Sprintf("epoch%d", digits), Path: path, set: set, render: func(t time.Time) (string, *codec.Value, bool) {
		s, ok := codec.EpochText(t, digits)
		return s, nil, ok
	}}
}

func rfcForm(fracDigits int, zone string, loc *time.Location, path string) form {
	return form{Name: fmt.Sprintf("rfc3339/%s/frac%d", zone, fracDigits), Path: path, set: "rfc", render: func(t time.Time) (string, *codec.Value, bool) {
		s, ok := codec.RFC3339Text(t, fracDigits, loc)
		return s, nil, ok
	}}
}

func extForm(name string, lead byte, set string) form {
	return form{Name: name, Path: "msgpack-batch", set: set, render: func(t time.Time) (string, *codec.Value, bool) {
		switch lead {
		case codec.TS32:
			if t.Nanosecond() != 0 || t.Unix() > 1<<32-1 {
				return "", nil, false
			}
		case codec.TS64:
			if t.Unix() >= 1<<34 {
				return "", nil, false
			}
		}
		v := codec.Time(t, lead)
		return "", &v, true
	}}
}

type job struct {
	f     form
	insts []time.Time
}

type failure struct {
	Form, Path, Sent string
	Instant          time.Time
	Got              string
	DeltaNs          int64
}

func main() {
	r := ev.New("C22", "exploration")
	sets := buildSets(r)

	var forms []form
	for _, path := range []string{"header-json", "json-batch"} {
		forms = append(forms, epochForm(10, path, "sec"), epochForm(13, path, "ms"), epochForm(16, path, "us"), epochForm(19, path, "ns"))
	}
	forms = append(forms, epochForm(13, "header-msgpack", "sec")) // same header code, msgpack body: thin
	zones := []struct {
		n string
		l *time.Location
	}{{"Z", time.UTC}, {"+05:30", time.FixedZone("", 5*3600+1800)}, {"-08:00", time.FixedZone("", -8*3600)}}
	for _, path := range []string{"header-json", "json-batch"} {
		for _, z := range zones {
			for fd := 0; fd <= 9; fd++ {
				forms = append(forms, rfcForm(fd, z.n, z.l, path))
			}
		}
	}
	forms = append(forms, extForm("msgpack-ts32", codec.TS32, "sec"), extForm("msgpack-ts64", codec.TS64, "ns"), extForm("msgpack-ts96", codec.TS96, "ns"))

	// jobs: chunks of instants per form
	const chunk = 250
	var jobs []job
	perForm := map[string]int{}
	for _, f := range forms {
		var reps []time.Time
		for _, t := range sets.get(f.set) {
			if _, _, ok := f.render(t); ok {
				reps = append(reps, t)
			}
		}
		perForm[f.Name+"@"+f.Path] = len(reps)
		for i := 0; i < len(reps); i += chunk {
			j := i + chunk
			if j > len(reps) {
				j = len(reps)
			}
			jobs = append(jobs, job{f, reps[i:j]})
		}
	}

	workers := 16
	pool := make(chan *pipeline.Node, workers)
	for i := 0; i < workers; i++ {
		pool <- pipeline.New(pipeline.Options{MaxBatchSize: 1024})
	}
	var mu sync.Mutex
	fails := map[string][]failure{} // sig -> failures
	failCount := map[string]int{}
	harness := ""
	var total int64

	enumx.Each(r, "instants", []int{len(jobs)}, workers, func(idx []int) {
		n := <-pool
		defer func() { pool <- n }()
		jb := jobs[idx[0]]
		f := jb.f
		sent := make([]string, len(jb.insts))
		mkEvent := func(i int, t time.Time) codec.Event {
			text, val, _ := f.render(t)
			sent[i] = text
			if val != nil {
				sent[i] = val.Wire()
			}
			return codec.Event{TimeText: text, TimeVal: val, SampleRate: 1, Data: []codec.Field{codec.F("i", codec.Int(int64(i))), codec.F("k", codec.Str("v"))}}
		}
		switch f.Path {
		case "header-json", "header-msgpack":
			ct := codec.CTJSON
			if f.Path == "header-msgpack" {
				ct = codec.CTMsgpack
			}
			for i, t := range jb.insts {
				resp := n.Do(pipeline.Incoming, codec.SingleEvent("c22", apiKey, ct, mkEvent(i, t)))
				if resp.Status != 200 {
					mu.Lock()
					harness = fmt.Sprintf("single event with time %q rejected: %d %s", sent[i], resp.Status, resp.Body)
					mu.Unlock()
				}
			}
		default:
			evs := make([]codec.Event, len(jb.insts))
			for i, t := range jb.insts {
				evs[i] = mkEvent(i, t)
			}
			ct := codec.CTJSON
			if f.Path == "msgpack-batch" {
				ct = codec.CTMsgpack
			}
			resp := n.Do(pipeline.Incoming, codec.Batch("c22", apiKey, ct, evs...))
			if resp.Status != 200 {
				mu.Lock()
				harness = fmt.Sprintf("batch (%s, first time %q) rejected: %d %s", f.Name, sent[0], resp.Status, resp.Body)
				mu.Unlock()
			}
		}
		n.Flush()
		out := n.Sent()
		probs := n.DecodeProblems()
		n.Net.Reset()
		n.Collector.Reset()
		if len(probs) > 0 {
			r.Violation("undecodable-output:"+f.Name+"@"+f.Path, probs[0], map[string]any{"form": f.Name, "path": f.Path, "first": sent[0]})
			return
		}
		seen := make([]int, len(jb.insts))
		for _, s := range out {
			iv, ok := s.Event.Field("i")
			if !ok || s.Dest != "upstream" {
				continue
			}
			var i int
			switch iv.Kind {
			case codec.KInt:
				i = int(iv.Int)
			case codec.KUint:
				i = int(iv.Uint)
			case codec.KF32, codec.KF64:
				i = int(iv.F)
			}
			if i < 0 || i >= len(seen) {
				continue
			}
			seen[i]++
			want := jb.insts[i]
			if s.Event.HasTime && s.Event.TimeVal.Kind == codec.KTime && s.Event.Time.Equal(want) {
				continue
			}
			fl := failure{Form: f.Name, Path: f.Path, Sent: sent[i], Instant: want, Got: s.Event.TimeVal.Canon()}
			if s.Event.HasTime {
				fl.DeltaNs = s.Event.Time.Sub(want).Nanoseconds()
			}
			// two different ways of being wrong: sub-microsecond rounding vs. a grossly different instant
			mag := "rounding(<1us)"
			if !s.Event.HasTime || fl.DeltaNs >= 1000 || fl.DeltaNs <= -1000 {
				mag = "gross"
			}
			sig := fmt.Sprintf("time-altered:%s@%s:%s", formClass(f.Name), f.Path, mag)
			mu.Lock()
			failCount[sig]++
			fails[sig] = append(fails[sig], fl)
			if len(fails[sig]) > 64 { // keep the earliest instants only
				sort.Slice(fails[sig], func(a, b int) bool { return less(fails[sig][a], fails[sig][b]) })
				fails[sig] = fails[sig][:8]
			}
			mu.Unlock()
		}
		for i, c := range seen {
			if c != 1 {
				r.Violation("event-lost-or-duplicated:"+f.Name+"@"+f.Path, fmt.Sprintf("event with time %s reached upstream %d times", sent[i], c), map[string]any{"form": f.Name, "path": f.Path, "time": sent[i]})
				break
			}
		}
		mu.Lock()
		total += int64(len(jb.insts))
		mu.Unlock()
		r.Distinct("distinct_nontrivial", f.Name+"@"+f.Path)
	})
	for i := 0; i < workers; i++ {
		(<-pool).Close()
	}
	if harness != "" {
		ev.Harness("%s", harness)
	}
	// evaluations = instants, not chunks
	r.Add("evaluations", total-r.Count("evaluations"))

	sigs := make([]string, 0, len(fails))
	for s := range fails {
		sigs = append(sigs, s)
	}
	sort.Strings(sigs)
	failing := map[string]int{}
	for _, sig := range sigs {
		fs := fails[sig]
		sort.Slice(fs, func(a, b int) bool { return less(fs[a], fs[b]) })
		m := fs[0]
		failing[sig] = failCount[sig]
		r.Violation(sig, fmt.Sprintf("client sent time %s (= %s) via %s; upstream received %s (off by %d ns); %d instants of this form are altered",
			m.Sent, m.Instant.Format(time.RFC3339Nano), m.Path, m.Got, m.DeltaNs, failCount[sig]),
			map[string]any{"path": m.Path, "form": m.Form, "time_sent": m.Sent, "expected": m.Instant.Format(time.RFC3339Nano), "received": m.Got})
	}
	r.Set("instants_per_form", perForm)
	r.Set("altered_per_class", failing)
	r.Set("rule", "timestamp decoded from the msgpack body received by the fake Honeycomb API == instant supplied by the client, to the nanosecond, for every instant of the grid in every listed form")
	r.Set("bounds", map[string]any{"seconds_grid": len(sets.sec), "ms_instants": len(sets.ms), "us_instants": len(sets.us), "ns_instants": len(sets.ns), "rfc_instants": len(sets.rfc),
		"range": "1000000000..9999999999 s (2001-09-09 .. 2286-11-20)"})
	r.Sample(map[string]any{"forms": len(forms), "chunks": len(jobs)})
	r.Assume("integer epochs are sent as decimal text (event-time header; JSON string in a batch's time member) exactly as the statement describes: ten digits of seconds followed by 0/3/6/9 digits of fraction")
	r.Assume("msgpack batches carry time only as a timestamp extension (a str time in a msgpack batch is rejected with 400 by Refinery and is therefore outside 'the timestamp Refinery forwards')")
	r.Assume("observed at the upstream transmission (event without trace ID); the peer transmission uses the same serialiser (C19 checks one instant there)")
	r.Finish()
}

func formClass(name string) string {
	if len(name) >= 7 && name[:7] == "rfc3339" {
		return "rfc3339"
	}
	return name
}

func less(a, b failure) bool {
	if !a.Instant.Equal(b.Instant) {
		return a.Instant.Before(b.Instant)
	}
	return a.Sent < b.Sent
}
