// C19: every received event takes exactly one route.
// Engine E2 (enumx) on fix/pipeline: the full product of event class × probe flag × ID field × listener ×
// stress state × collector queue state × wire encoding × content encoding × dataset is pushed through the
// real mux of a real Router; afterwards everything that left the node (decoded from the bytes the real
// DirectTransmissions put on the in-memory wire) and everything handed to the collector is compared with
// the route the statement prescribes. For the forwarded-to-peer route the decoded bytes must carry the
// client's API key, dataset, sample rate, timestamp and fields.
package main

import (
	"fmt"
	"sort"
	"strconv"
	"strings"
	"time"

	"verif/engine/enumx"
	"verif/engine/ev"
	"verif/fix/codec"
	"verif/fix/pipeline"
)

const apiKey = "0123456789abcdef0123456789abcdef" // 32 hex chars: a classic key, no environment lookup

var (
	traceKinds = []string{"none", "self", "peer"}
	probeVals  = []string{"absent", "true", "false"}
	// for trace kinds self/peer: which field carries the ID; for kind none: what (if anything) the ID fields hold
	idVariants  = []string{"trace.trace_id", "traceId", "meta.trace_id"}
	noneVariant = []string{"no-id-field", "empty-string-id", "non-string-id"}
	listeners   = []pipeline.Listener{pipeline.Incoming, pipeline.Peer}
	stressVals  = []string{"off", "unhandled", "keep", "drop"}
	queueVals   = []string{"ok", "full"}
	encodings   = []string{"json-batch", "json-batch+companions", "msgpack-batch", "msgpack-batch+companions", "json-single", "msgpack-single",
		// the subject leaves out "samplerate" (libhoney does so at rate 1) between companions that carry one
		"json-batch+companions/subject-omits-rate", "msgpack-batch+companions/subject-omits-rate"}
	contentEnc = []string{"", "gzip", "zstd"}
	datasets   = []string{"ds", "my ds/ü%41+x"}
)

const reloadedIDField = "tid2" // joins IDFields.TraceNames by the live reload of pass 1

var instant = time.Date(2031, 7, 9, 23, 59, 58, 123456789, time.UTC)

type caseDesc struct {
	Trace, Probe, ID, Listener, Stress, Queue, Enc, CE, Dataset string
}

// the client's fields (besides ID / probe fields); values chosen so that JSON and msgpack agree as numbers
func clientFields(marker string) []codec.Field {
	return []codec.Field{
		codec.F("marker", codec.Str(marker)),
		codec.F("name", codec.Str("GET /x")),
		codec.F("count", codec.Int(41)),
		codec.F("duration_ms", codec.F64(12.5)),
		codec.F("error", codec.Bool(true)),
		codec.F("app.nested.key", codec.Str("")),
	}
}

// loose rendering of a value: numbers as float text (JSON turns ints into floats), everything else by Canon
func loose(v codec.Value) string {
	switch v.Kind {
	case codec.KInt:
		return "n:" + strconv.FormatFloat(float64(v.Int), 'g', -1, 64)
	case codec.KUint:
		return "n:" + strconv.FormatFloat(float64(v.Uint), 'g', -1, 64)
	case codec.KF32, codec.KF64:
		return "n:" + strconv.FormatFloat(v.F, 'g', -1, 64)
	}
	return v.Canon()
}

type obs struct {
	upstream, peer, other []pipeline.Sent
	coll                  []pipeline.SpanRecord
}

func marked(s pipeline.Sent, marker string) bool {
	v, ok := s.Event.Field("marker")
	return ok && v.Kind == codec.KStr && v.S == marker
}

func main() {
	r := ev.New("C19", "exploration")
	workers := 16
	pool := make(chan *pipeline.Node, workers)
	var selfID, peerID string
	for i := 0; i < workers; i++ {
		n := pipeline.New(pipeline.Options{})
		if i == 0 {
			selfID = n.TraceIDs(n.Self, 1, "c19-trace-")[0]
			peerID = n.TraceIDs(n.Peers[0], 1, "c19-trace-")[0]
		}
		pool <- n
	}

	// pass 0: the configuration the nodes started with. pass 1: IDFields.TraceNames was extended by a live reload
	// (reload callbacks fired) with a name the nodes did not know at start-up, and the events carry their ID there.
	for pass := 0; pass < 2; pass++ {
		pass := pass
		idNames, passName, nCE, nDS := idVariants, "routes", len(contentEnc), len(datasets)
		if pass == 1 {
			idNames, passName, nCE, nDS = []string{reloadedIDField, reloadedIDField, reloadedIDField}, "routes-after-id-field-reload", 1, 1
			var ns []*pipeline.Node
			for i := 0; i < workers; i++ {
				ns = append(ns, <-pool)
			}
			for _, n := range ns {
				n.Cfg.Mux.Lock()
				n.Cfg.TraceIdFieldNames = append([]string{reloadedIDField}, n.Cfg.TraceIdFieldNames...)
				n.Cfg.Mux.Unlock()
				n.Cfg.Reload()
				pool <- n
			}
		}
		dims := []int{len(traceKinds), len(probeVals), len(idNames), len(listeners), len(stressVals), len(queueVals), len(encodings), nCE, nDS}
		enumx.Each(r, passName, dims, workers, func(idx []int) {
			n := <-pool
			defer func() { pool <- n }()
			c := caseDesc{Trace: traceKinds[idx[0]], Probe: probeVals[idx[1]], ID: idNames[idx[2]], Listener: listeners[idx[3]].String(),
				Stress: stressVals[idx[4]], Queue: queueVals[idx[5]], Enc: encodings[idx[6]], CE: contentEnc[idx[7]], Dataset: datasets[idx[8]]}
			if c.Trace == "none" {
				c.ID = noneVariant[idx[2]]
			}
			l := listeners[idx[3]]

			// ---- build the subject event
			fields := clientFields("subject")
			var traceID string
			switch c.Trace {
			case "self":
				traceID = selfID
			case "peer":
				traceID = peerID
			}
			var idField codec.Field
			hasIDField := true
			switch {
			case traceID != "":
				idField = codec.F(c.ID, codec.Str(traceID))
			case c.ID == "empty-string-id":
				idField = codec.F("trace.trace_id", codec.Str(""))
			case c.ID == "non-string-id":
				idField = codec.F("traceId", codec.Int(12345))
			default:
				hasIDField = false
			}
			if hasIDField {
				// ID field in the middle of the payload
				fields = append(fields[:2:2], append([]codec.Field{idField}, fields[2:]...)...)
			}
			switch c.Probe {
			case "true":
				fields = append(fields, codec.F("meta.refinery.probe", codec.Bool(true)))
			case "false":
				fields = append(fields, codec.F("meta.refinery.probe", codec.Bool(false)))
			}
			tv := codec.Time(instant, 0)
			subject := codec.Event{TimeText: instant.Format(time.RFC3339Nano), SampleRate: 7, Data: fields}
			isMsgpack := strings.HasPrefix(c.Enc, "msgpack")
			if isMsgpack {
				subject.TimeVal = &tv
			}
			mk := func(marker string, extra ...codec.Field) codec.Event {
				e := codec.Event{TimeText: instant.Add(time.Hour).Format(time.RFC3339Nano), SampleRate: 3, Data: append(clientFields(marker), extra...)}
				if isMsgpack {
					t2 := codec.Time(instant.Add(time.Hour), 0)
					e.TimeVal = &t2
				}
				return e
			}
			ct := codec.CTJSON
			if isMsgpack {
				ct = codec.CTMsgpack
			}
			var req codec.Request
			omitsRate := strings.HasSuffix(c.Enc, "/subject-omits-rate")
			if omitsRate {
				subject.SampleRate = 0
			}
			companions := strings.Contains(c.Enc, "+companions")
			switch {
			case strings.HasSuffix(c.Enc, "-single"):
				req = codec.SingleEvent(c.Dataset, apiKey, ct, subject)
			case companions:
				req = codec.Batch(c.Dataset, apiKey, ct,
					mk("before-none"), mk("before-self", codec.F("trace.trace_id", codec.Str(selfID))),
					subject,
					mk("after-peer", codec.F("traceId", codec.Str(peerID))), mk("after-none"))
			default:
				req = codec.Batch(c.Dataset, apiKey, ct, subject)
			}
			req = req.Compressed(c.CE)

			// ---- environment
			n.Collector.Full = c.Queue == "full"
			n.Collector.StressOn = c.Stress != "off"
			n.Collector.StressUnhandled = c.Stress == "unhandled"
			n.Collector.StressDecide = func(string) (uint, bool, string) { return 1, c.Stress != "drop", "c19" }

			resp := n.Do(l, req)
			n.Flush()
			var o obs
			for _, s := range n.Sent() {
				switch s.Dest {
				case "upstream":
					o.upstream = append(o.upstream, s)
				case "peer":
					o.peer = append(o.peer, s)
				default:
					o.other = append(o.other, s)
				}
			}
			o.coll = n.Collector.Records()
			problems := n.DecodeProblems()
			n.Net.Reset()
			n.Collector.Reset()

			fail := func(class, what string) {
				if pass == 1 {
					class += ":after-id-field-reload"
				}
				r.Violation(fmt.Sprintf("route:%s", class), fmt.Sprintf("%s; case=%s; http=%d %s", what, ev.J(c), resp.Status, trunc(string(resp.Body), 200)), c)
			}
			if len(problems) > 0 {
				fail("undecodable-output", strings.Join(problems, "; "))
				return
			}
			if len(o.other) > 0 {
				fail("unknown-destination", fmt.Sprintf("%d event(s) sent to an address that is neither upstream nor a peer: %s", len(o.other), o.other[0].BaseURL))
				return
			}

			// ---- where did the subject go?
			var got []string
			var upS, peerS []pipeline.Sent
			for _, s := range o.upstream {
				if marked(s, "subject") {
					got = append(got, "upstream")
					upS = append(upS, s)
				}
			}
			for _, s := range o.peer {
				if marked(s, "subject") {
					pv, ok := s.Event.Field("meta.refinery.probe")
					if ok && pv.Kind == codec.KBool && pv.Bool {
						got = append(got, "peer-probe")
					} else {
						got = append(got, "peer")
					}
					peerS = append(peerS, s)
				}
			}
			for _, rec := range o.coll {
				if rec.Data["marker"] == "subject" {
					got = append(got, "collector-"+rec.Via+"-"+rec.Result)
				}
			}
			sort.Strings(got)

			// ---- the route the statement prescribes
			var want []string
			class := c.Trace
			switch {
			case c.Probe == "true":
				class = "probe"
				want = nil // discarded
			case c.Trace == "none":
				want = []string{"upstream"}
			case c.Stress == "keep":
				// stress relief decided the trace immediately and kept it: the collector has handled the span; only a
				// probe marker may additionally be forwarded to the owner (never a second real copy).
				want = []string{"collector-immediate-kept"}
				if c.Trace == "peer" {
					want = append(want, "peer-probe")
				}
			case c.Stress == "drop":
				want = []string{"collector-immediate-dropped"}
			case c.Trace == "self":
				res := "queued"
				if c.Queue == "full" {
					res = "full"
				}
				want = []string{"collector-" + c.Listener + "-" + res}
			case c.Trace == "peer":
				want = []string{"peer"}
			}
			sort.Strings(want)
			r.Distinct("distinct_nontrivial", class+"|"+c.Stress+"|"+c.Listener+"|"+strings.Join(want, "+"))
			r.Distinct("observed_routes", strings.Join(got, "+"))
			if strings.Join(got, "+") != strings.Join(want, "+") {
				fail(fmt.Sprintf("%s/stress-%s:want[%s]got[%s]", class, c.Stress, strings.Join(want, "+"), strings.Join(got, "+")),
					fmt.Sprintf("subject event (%s) took route(s) [%s], the statement prescribes [%s]", class, strings.Join(got, ", "), strings.Join(want, ", ")))
				return
			}

			// ---- companions must each take exactly their own route too (no cross-talk inside a batch)
			if companions {
				cnt := map[string]int{}
				for _, s := range o.upstream {
					if m, ok := s.Event.Field("marker"); ok && m.S != "subject" {
						cnt["upstream:"+m.S]++
					}
				}
				for _, s := range o.peer {
					if m, ok := s.Event.Field("marker"); ok && m.S != "subject" {
						cnt["peer:"+m.S]++
					}
				}
				for _, rec := range o.coll {
					if m, _ := rec.Data["marker"].(string); m != "subject" {
						cnt["collector:"+m]++
					}
				}
				wantC := map[string]int{"upstream:before-none": 1, "upstream:after-none": 1, "collector:before-self": 1, "peer:after-peer": 1}
				if c.Stress == "keep" {
					// after-peer: immediate + probe to peer; before-self: immediate only
					wantC = map[string]int{"upstream:before-none": 1, "upstream:after-none": 1, "collector:before-self": 1, "collector:after-peer": 1, "peer:after-peer": 1}
				} else if c.Stress == "drop" {
					wantC = map[string]int{"upstream:before-none": 1, "upstream:after-none": 1, "collector:before-self": 1, "collector:after-peer": 1}
				}
				if ev.J(cnt) != ev.J(wantC) {
					fail("companions", fmt.Sprintf("other events of the same batch were routed %s, expected %s", ev.J(cnt), ev.J(wantC)))
					return
				}
			}

			// ---- attribute preservation
			checkAttrs := func(s pipeline.Sent, where string, wantHost string) bool {
				if s.BaseURL != wantHost {
					fail(where+":destination", fmt.Sprintf("sent to %s, owner/destination is %s", s.BaseURL, wantHost))
					return false
				}
				if s.APIKey != apiKey {
					fail(where+":apikey", fmt.Sprintf("forwarded with API key %q, client sent %q", s.APIKey, apiKey))
					return false
				}
				if s.Dataset != c.Dataset {
					fail(where+":dataset", fmt.Sprintf("forwarded to dataset %q, client sent %q", s.Dataset, c.Dataset))
					return false
				}
				if omitsRate {
					// nothing supplied = rate 1: forwarded without a rate or with 1, never with a neighbour's
					if s.Event.HasSampleRate && s.Event.SampleRate != 1 {
						fail(where+":samplerate-invented", fmt.Sprintf("forwarded sample rate %s, the client supplied none (the batch members before and after it carry 3)", s.Event.SampleRateVal.Canon()))
						return false
					}
				} else if !s.Event.HasSampleRate || s.Event.SampleRate != 7 {
					fail(where+":samplerate", fmt.Sprintf("forwarded sample rate %s, client sent 7", s.Event.SampleRateVal.Canon()))
					return false
				}
				if !s.Event.HasTime || !s.Event.Time.Equal(instant) {
					fail(where+":timestamp", fmt.Sprintf("forwarded time %s, client sent %s", s.Event.TimeVal.Canon(), instant.Format(time.RFC3339Nano)))
					return false
				}
				// fields: every client field with the same value; additions only under the reserved meta. prefix
				wantF := map[string]string{}
				for _, f := range fields {
					wantF[f.Key] = loose(f.Val)
				}
				gotF := map[string]string{}
				for _, kv := range s.Event.Data.Map {
					if _, dup := gotF[kv.K.S]; dup {
						fail(where+":duplicate-field", "field "+kv.K.S+" appears twice in the forwarded payload")
						return false
					}
					gotF[kv.K.S] = loose(kv.V)
				}
				for k, w := range wantF {
					g, ok := gotF[k]
					if !ok {
						if strings.HasPrefix(k, "meta.") {
							continue // reserved metadata is Refinery's to manage (checked by the probe/route logic above)
						}
						fail(where+":field-lost", fmt.Sprintf("client field %q missing from the forwarded payload %s", k, s.Event.Data.Canon()))
						return false
					}
					if g != w && !strings.HasPrefix(k, "meta.") {
						fail(where+":field-changed", fmt.Sprintf("client field %q = %s forwarded as %s", k, w, g))
						return false
					}
				}
				for k := range gotF {
					if _, ok := wantF[k]; !ok && !strings.HasPrefix(k, "meta.") {
						fail(where+":field-added", fmt.Sprintf("forwarded payload has extra field %q", k))
						return false
					}
				}
				return true
			}
			if len(want) == 1 && want[0] == "peer" {
				if !checkAttrs(peerS[0], "peer-forward", n.Peers[0]) {
					return
				}
				if v, ok := peerS[0].Event.Field("meta.trace_id"); ok && v.S != traceID {
					fail("peer-forward:trace-id", fmt.Sprintf("forwarded meta.trace_id %q, client's trace ID %q", v.S, traceID))
					return
				}
				r.Add("peer_forwards_compared", 1)
			}
			if len(want) == 1 && want[0] == "upstream" {
				// "straight to Honeycomb unsampled": destination, and nothing about the event re-sampled
				if !checkAttrs(upS[0], "upstream", n.Upstream) {
					return
				}
				r.Add("upstream_compared", 1)
			}
			if len(want) == 2 { // peer-probe
				if peerS[0].BaseURL != n.Peers[0] {
					fail("probe:destination", "probe sent to "+peerS[0].BaseURL)
					return
				}
			}
			if r.Count("sampled") < 6 && idx[7] == 0 && idx[8] == 1 && idx[5] == 0 {
				r.Add("sampled", 1)
				r.Sample(map[string]any{"case": c, "routes": got})
			}
		})
	}
	for i := 0; i < workers; i++ {
		(<-pool).Close()
	}
	r.Set("rule", "for every case: multiset of routes taken by the subject event (decoded upstream bytes, decoded peer bytes, collector hand-overs) == the single route prescribed by the statement; peer-forwarded and upstream bytes decode to the client's key, dataset, sample rate, timestamp (ns) and fields")
	r.Set("bounds", map[string]any{"traceKinds": traceKinds, "probe": probeVals, "idVariants": idVariants, "noneVariants": noneVariant,
		"listeners": []string{"incoming", "peer"}, "stress": stressVals, "queue": queueVals, "encodings": encodings, "contentEncodings": contentEnc, "datasets": datasets})
	r.Set("pass_after_reload", "IDFields.TraceNames = [tid2, trace.trace_id, traceId] by live reload; subject ID in tid2; content encoding identity, dataset ds; all other dimensions full")
	r.Assume("stress relief: when the collector answers Stressed() and decides a span immediately, 'the collector handled it' is the one route; for a kept span owned by a peer one additional event marked meta.refinery.probe=true may go to the owner (documented probe mechanism) — never a second unmarked copy")
	r.Assume("a collector that answers 'queue full' has still been the one route tried (the client is told 429); the event must not be sent anywhere else")
	r.Assume("'without a trace ID' includes ID fields holding an empty string or a non-string value (C21 covers identity itself)")
	r.Assume("forwarded fields are compared as: same key set except reserved meta.* names, numbers by numeric value (JSON ingestion turns integers into floats), other kinds exactly")
	r.Assume("capturing collector stub instead of the real InMemCollector: what the real collector does with a span after accepting it is C01/C02/C16's subject")
	r.Finish()
}

func trunc(s string, n int) string {
	if len(s) > n {
		return s[:n] + "…"
	}
	return s
}
