// C18: Redis peer membership converges to the live, publishing nodes; membership messages round-trip.
//
// Part 1, engine E1 (seqx): BFS over histories of start / refresh / deliver(any pending message, any
// subscriber = arbitrary delay and reordering) / clock advance (1ns, one refresh interval, timeout-1ns:
// entry expiry is hit at -1ns / exactly / +1ns) / graceful stop / crash / restart on 2-3 REAL
// RedisPubsubPeers instances wired to a harness pubsub (per-subscriber pending multisets) and one harness
// clock. The periodic refresh and the stop path run in the real Ready() goroutine: the harness owns the
// ticker channel (unbuffered rendezvous) and waits for the resulting Publish, so nothing races.
// After every history the stabilisation suffix is appended (no membership events; everything pending is
// delivered; live nodes refresh at their interval, jitter owned by enumerating both ends of its range;
// clock runs for PeerEntryTimeout + one refresh interval) and the oracle of the statement is evaluated:
// every running node's GetPeers() is exactly the addresses of the running nodes at the deadline, and
// stays so for one more refresh interval; the update callback has been fired for that final list.
//
// Part 2, engine E2 (enumx): marshal/unmarshal round trip of the real codec over action x address x id.
package main

import (
	"context"
	"errors"
	"fmt"
	"os"
	"runtime"
	"sort"
	"strconv"
	"strings"
	"sync"
	"sync/atomic"
	"time"

	"github.com/honeycombio/refinery/config"
	"github.com/honeycombio/refinery/pubsub"
	"github.com/honeycombio/refinery/verifbridge/c18peer"
	"github.com/jonboulle/clockwork"

	"verif/engine/enumx"
	"verif/engine/ev"
	"verif/engine/seqx"
)

const (
	timeout = c18peer.PeerEntryTimeout
	baseInt = c18peer.RefreshInterval
	horizon = 60 * time.Second // real-time bound on a rendezvous; exceeding it is a harness error
)

var t0 = time.Date(2024, 1, 1, 0, 0, 0, 0, time.UTC)

// ---------------------------------------------------------------------------------------------
// events

type event struct {
	Op string        // start refresh deliver adv stop crash
	N  int           // node slot
	M  string        // deliver: message label (R<tag> register / U<tag> unregister of incarnation <tag>)
	D  time.Duration // adv
}

func (e event) String() string {
	switch e.Op {
	case "adv":
		return "adv(" + e.D.String() + ")"
	case "deliver":
		return fmt.Sprintf("deliver(%s->%d)", e.M, e.N)
	}
	return fmt.Sprintf("%s(%d)", e.Op, e.N)
}

// ---------------------------------------------------------------------------------------------
// harness world: clock, pubsub, nodes

type message struct{ label, raw string }

type hTicker struct {
	c  chan time.Time
	d  time.Duration // the period the code asked for (NewTicker, later Reset): the harness fires the ticker at this period
	mu *sync.Mutex
}

func (t *hTicker) Chan() <-chan time.Time { return t.c }
func (t *hTicker) Reset(d time.Duration) {
	t.mu.Lock()
	t.d = d
	t.mu.Unlock()
}
func (t *hTicker) Stop() {}

type node struct {
	w        *world
	slot, k  int
	tag      string // "<slot><incarnation letter>"
	id, addr string
	p        *c18peer.RedisPubsubPeers
	cb       pubsub.SubscriptionCallback
	tickers  []*hTicker
	tickerUp chan struct{}
	pubSig   chan struct{}
	alive    bool // running: subscribed and publishing
	netUp    bool // publishes reach the bus
	pending  []message
	cbCount  atomic.Int64
	notified []string // GetPeers() as of the last fired callback (initially the node alone)
}

type world struct {
	mu       sync.Mutex
	now      time.Time
	nslots   int
	incs     []int   // incarnations started per slot
	cur      []*node // current incarnation per slot (nil = never started)
	all      []*node
	trigger  string // label for the publish the harness is about to provoke
	topic    string
	failNext bool // the next Publish is refused by the broker (event "refail")
}

// clock handle of one node
type nodeClock struct{ n *node }

func (c nodeClock) Now() time.Time {
	c.n.w.mu.Lock()
	defer c.n.w.mu.Unlock()
	return c.n.w.now
}
func (c nodeClock) Since(t time.Time) time.Duration { return c.Now().Sub(t) }
func (c nodeClock) Until(t time.Time) time.Duration { return t.Sub(c.Now()) }
func (c nodeClock) NewTicker(d time.Duration) clockwork.Ticker {
	t := &hTicker{c: make(chan time.Time), d: d, mu: &c.n.w.mu}
	c.n.w.mu.Lock()
	c.n.tickers = append(c.n.tickers, t)
	c.n.w.mu.Unlock()
	c.n.tickerUp <- struct{}{}
	return t
}
func (c nodeClock) After(time.Duration) <-chan time.Time { panic("verif C18: unexpected Clock.After") }
func (c nodeClock) Sleep(time.Duration)                  { panic("verif C18: unexpected Clock.Sleep") }
func (c nodeClock) NewTimer(time.Duration) clockwork.Timer {
	panic("verif C18: unexpected Clock.NewTimer")
}
func (c nodeClock) AfterFunc(time.Duration, func()) clockwork.Timer {
	panic("verif C18: unexpected Clock.AfterFunc")
}

// pubsub handle of one node
type nodeBus struct{ n *node }
type subStub struct{}

func (subStub) Close() {}

func (b nodeBus) FormatTopic(t string) string { return "verif/" + t }
func (b nodeBus) Start() error                { return nil }
func (b nodeBus) Stop() error                 { return nil }
func (b nodeBus) Close()                      {}
func (b nodeBus) Subscribe(ctx context.Context, topic string, cb pubsub.SubscriptionCallback) pubsub.Subscription {
	b.n.w.mu.Lock()
	b.n.cb = cb
	b.n.w.topic = topic
	b.n.w.mu.Unlock()
	return subStub{}
}
func (b nodeBus) Publish(ctx context.Context, topic, msg string) error {
	w := b.n.w
	w.mu.Lock()
	if w.failNext {
		// the broker refuses this publish: nothing is delivered and the caller gets the error
		w.failNext = false
		w.mu.Unlock()
		b.n.pubSig <- struct{}{}
		return errors.New("verif: publish refused")
	}
	if b.n.netUp {
		for _, s := range w.cur {
			if s != nil && s.alive && w.topic == topic {
				s.pending = append(s.pending, message{label: w.trigger, raw: msg})
			}
		}
	}
	w.mu.Unlock()
	b.n.pubSig <- struct{}{}
	return nil
}

func await(ch <-chan struct{}, what string) {
	select {
	case <-ch:
		return
	default:
	}
	t := time.NewTimer(horizon)
	defer t.Stop()
	select {
	case <-ch:
	case <-t.C:
		ev.Harness("C18: rendezvous %q did not complete within %v", what, horizon)
	}
}

func newWorld(n int) *world {
	return &world{now: t0, nslots: n, incs: make([]int, n), cur: make([]*node, n)}
}

func (w *world) running() []*node {
	var out []*node
	for _, n := range w.cur {
		if n != nil && n.alive {
			out = append(out, n)
		}
	}
	return out
}

func (w *world) start(slot int) {
	k := w.incs[slot]
	w.incs[slot]++
	n := &node{w: w, slot: slot, k: k, tag: fmt.Sprintf("%d%c", slot, 'a'+k),
		id:   fmt.Sprintf("%04x%04x", 0xa0+slot, k),
		addr: fmt.Sprintf("http://host%d:8081", slot), tickerUp: make(chan struct{}, 4), pubSig: make(chan struct{}, 4), netUp: true}
	cfg := &config.MockConfig{GetPeerListenAddrVal: "0.0.0.0:8081", RedisIdentifier: fmt.Sprintf("host%d", slot), PeerTimeout: time.Second}
	n.p = &c18peer.RedisPubsubPeers{Config: cfg, PubSub: nodeBus{n}, Clock: nodeClock{n}, InstanceID: n.id, Done: make(chan struct{})}
	n.notified = []string{n.addr}
	if err := n.p.Start(); err != nil {
		ev.Harness("C18: Start: %v", err)
	}
	c18peer.AdoptClock(n.p, nodeClock{n})
	n.p.RegisterUpdatedPeersCallback(func() { n.cbCount.Add(1) })
	w.mu.Lock()
	w.cur[slot] = n
	w.all = append(w.all, n)
	n.alive = true
	w.mu.Unlock()
	if err := n.p.Ready(); err != nil {
		ev.Harness("C18: Ready: %v", err)
	}
	await(n.tickerUp, "refresh ticker creation")
	await(n.tickerUp, "log ticker creation")
}

// refresh fires the node's refresh ticker once: the real Ready loop publishes the register message.
func (w *world) refresh(n *node) {
	w.mu.Lock()
	w.trigger = "R" + n.tag
	now := w.now
	tk := n.tickers[0]
	w.mu.Unlock()
	select {
	case tk.c <- now: // the loop is parked in its select: taken at once
	default:
		t := time.NewTimer(horizon)
		select {
		case tk.c <- now:
		case <-t.C:
			ev.Harness("C18: the Ready loop of %s did not take the refresh tick", n.tag)
		}
		t.Stop()
	}
	await(n.pubSig, "publish after refresh tick")
}

// halt ends an incarnation: graceful (Done closed, the loop publishes unregister) or crash (its
// publishes no longer reach the bus; Done is closed only to let the goroutine exit).
func (w *world) halt(n *node, graceful bool) {
	w.mu.Lock()
	w.trigger = "U" + n.tag
	if !graceful {
		n.netUp = false
	}
	w.mu.Unlock()
	close(n.p.Done)
	await(n.pubSig, "publish after Done")
	w.mu.Lock()
	n.alive = false
	n.netUp = false
	n.pending = nil
	w.mu.Unlock()
}

func (w *world) cleanup() {
	for _, n := range w.all {
		if n.alive {
			w.halt(n, false)
		}
	}
}

func peersOf(n *node) []string {
	p, err := n.p.GetPeers()
	if err != nil {
		ev.Harness("C18: GetPeers: %v", err)
	}
	out := append([]string{}, p...)
	sort.Strings(out)
	return out
}

func eq(a, b []string) bool {
	if len(a) != len(b) {
		return false
	}
	for i := range a {
		if a[i] != b[i] {
			return false
		}
	}
	return true
}

// deliver hands pending message idx of node n to the real listen callback and checks the notification.
func (w *world) deliver(n *node, idx int, where string) *seqx.Failure {
	w.mu.Lock()
	m := n.pending[idx]
	n.pending = append(append([]message{}, n.pending[:idx]...), n.pending[idx+1:]...)
	w.mu.Unlock()
	h0 := c18peer.NotifiedHash(n.p)
	c0 := n.cbCount.Load()
	n.cb(context.Background(), m.raw)
	cur := peersOf(n)
	if c18peer.NotifiedHash(n.p) != h0 {
		// the code decided to notify: the callback goroutine must run
		dl := time.Now().Add(horizon)
		for n.cbCount.Load() < c0+1 {
			runtime.Gosched()
			if time.Now().After(dl) {
				return &seqx.Failure{Sig: "notify:callback-not-invoked", What: fmt.Sprintf("%s: node %s recorded a membership change on %s but the registered callback never ran", where, n.tag, m.label)}
			}
		}
		n.notified = cur
	} else if !eq(cur, n.notified) {
		return &seqx.Failure{Sig: "notify:change-not-notified", What: fmt.Sprintf("%s: after processing %s node %s lists %v, but the last callback was fired for %v", where, m.label, n.tag, cur, n.notified)}
	}
	return nil
}

func (w *world) knownAddr(a string) bool {
	for s := 0; s < w.nslots; s++ {
		if a == fmt.Sprintf("http://host%d:8081", s) {
			return true
		}
	}
	return false
}

// apply executes one event of a history on the real objects.
func (w *world) apply(step int, e event) *seqx.Failure {
	switch e.Op {
	case "start":
		if n := w.cur[e.N]; n != nil && n.alive {
			ev.Harness("C18: start of running slot %d", e.N)
		}
		w.start(e.N)
	case "refresh", "refail", "stop", "crash", "deliver":
		n := w.cur[e.N]
		if n == nil || !n.alive {
			ev.Harness("C18: %v on a slot that is not running", e)
		}
		switch e.Op {
		case "refresh":
			w.refresh(n)
		case "refail":
			w.mu.Lock()
			w.failNext = true
			w.mu.Unlock()
			w.refresh(n)
			// what the loop does with the error comes after the Publish the harness has just seen: a rendezvous on
			// the loop's other (report) ticker returns only when the loop is back in its select, i.e. when the
			// error has been handled completely (the report itself only reads the table)
			w.mu.Lock()
			lt := n.tickers[1]
			now := w.now
			w.mu.Unlock()
			t := time.NewTimer(horizon)
			select {
			case lt.c <- now:
			case <-t.C:
				ev.Harness("C18: the Ready loop of %s did not come back to its select after a refused publish", n.tag)
			}
			t.Stop()
		case "stop":
			w.halt(n, true)
		case "crash":
			w.halt(n, false)
		case "deliver":
			idx := -1
			for i, m := range n.pending {
				if m.label == e.M {
					idx = i
					break
				}
			}
			if idx < 0 {
				ev.Harness("C18: %v but no such message pending (pending %v)", e, n.pending)
			}
			if f := w.deliver(n, idx, fmt.Sprintf("step %d %v", step, e)); f != nil {
				return f
			}
		}
	case "adv":
		w.mu.Lock()
		w.now = w.now.Add(e.D)
		w.mu.Unlock()
	}
	// an address that no node ever had must never show up in anybody's list
	for _, n := range w.running() {
		for _, a := range peersOf(n) {
			if !w.knownAddr(a) {
				return &seqx.Failure{Sig: "list:unknown-address", What: fmt.Sprintf("step %d %v: node %s lists %q, which is no node's address", step, e, n.tag, a)}
			}
		}
	}
	return nil
}

func (w *world) want() []string {
	var out []string
	for _, n := range w.running() {
		out = append(out, n.addr)
	}
	sort.Strings(out)
	return out
}

// classify compares a node's list with the expected one.
func classify(got, want []string) string {
	cnt := map[string]int{}
	for _, a := range got {
		cnt[a]++
	}
	missing, extra := false, false
	for _, a := range want {
		if cnt[a] == 0 {
			missing = true
		}
		cnt[a]--
	}
	for _, c := range cnt {
		if c > 0 {
			extra = true
		}
	}
	switch {
	case missing && extra:
		return "live-missing+stale-entry"
	case missing:
		return "live-missing"
	case extra:
		return "stale-entry"
	}
	return "ok"
}

func (w *world) checkAll(phase, detail string) *seqx.Failure {
	want := w.want()
	for _, n := range w.running() {
		got := peersOf(n)
		if c := classify(got, want); c != "ok" {
			return &seqx.Failure{Sig: "converge:" + phase + ":" + c,
				What: fmt.Sprintf("%s: node %s lists %v, running and publishing nodes are %v", detail, n.tag, got, want)}
		}
	}
	return nil
}

func (w *world) canon() string {
	var sb strings.Builder
	w.mu.Lock()
	now := w.now
	w.mu.Unlock()
	for s := 0; s < w.nslots; s++ {
		n := w.cur[s]
		fmt.Fprintf(&sb, "[%d:%d", s, w.incs[s])
		if n != nil && n.alive {
			var pl []string
			for _, m := range n.pending {
				pl = append(pl, m.label)
			}
			sort.Strings(pl)
			fmt.Fprintf(&sb, " up %s h=%x n=%v p=%v i=%s", c18peer.Table(n.p, now), c18peer.NotifiedHash(n.p), n.notified, pl, intervalClass(n))
		}
		sb.WriteString("]")
	}
	return sb.String()
}

// jitterRange: the period the node's refresh ticker currently has, as a range. The documented period is
// baseInt plus a random jitter of up to 20% (the jitter is math/rand's, not the harness's: only its range is
// known, and both ends are explored). A period that is k times a documented one (k > 1: not documented; only a
// changed implementation asks for it) is treated the same way, so that runs stay comparable.
func jitterRange(n *node) (lo, hi time.Duration, documented bool) {
	n.w.mu.Lock()
	d := n.tickers[0].d
	n.w.mu.Unlock()
	for k := time.Duration(1); k <= 8; k++ {
		if d >= k*baseInt && d < k*(baseInt+baseInt/5) {
			return k * baseInt, k*(baseInt+baseInt/5) - 1, k == 1
		}
	}
	return d, d, false
}
func intervalClass(n *node) string {
	lo, hi, ok := jitterRange(n)
	if ok {
		return "jittered"
	}
	if lo != hi {
		return fmt.Sprintf("%dx-jittered", lo/baseInt)
	}
	return lo.String()
}

// ---------------------------------------------------------------------------------------------
// abstract bookkeeping of a history (who runs, what is pending where): decides the enabled events

type abs struct {
	incs    []int
	alive   []bool
	pending [][]string
	starts  int
}

func simulate(nslots int, h []event) *abs {
	a := &abs{incs: make([]int, nslots), alive: make([]bool, nslots), pending: make([][]string, nslots)}
	tag := func(s int) string { return fmt.Sprintf("%d%c", s, 'a'+a.incs[s]-1) }
	pub := func(l string) {
		for j := range a.alive {
			if a.alive[j] {
				a.pending[j] = append(a.pending[j], l)
			}
		}
	}
	for _, e := range h {
		switch e.Op {
		case "start":
			a.incs[e.N]++
			a.alive[e.N] = true
			a.starts++
		case "refresh":
			pub("R" + tag(e.N))
		case "stop":
			pub("U" + tag(e.N))
			a.alive[e.N] = false
			a.pending[e.N] = nil
		case "crash":
			a.alive[e.N] = false
			a.pending[e.N] = nil
		case "deliver":
			for i, l := range a.pending[e.N] {
				if l == e.M {
					a.pending[e.N] = append(append([]string{}, a.pending[e.N][:i]...), a.pending[e.N][i+1:]...)
					break
				}
			}
		}
	}
	return a
}

var advances = []time.Duration{1, baseInt, timeout - 1}

func enabled(nslots, maxStarts int, h []event) []event {
	a := simulate(nslots, h)
	var out []event
	for s := 0; s < nslots; s++ {
		// slots are started in index order the first time (symmetry: which host comes first is immaterial)
		if !a.alive[s] && a.starts < maxStarts && a.incs[s] < 2 && (s == 0 || a.incs[s-1] > 0) {
			out = append(out, event{Op: "start", N: s})
		}
	}
	for s := 0; s < nslots; s++ {
		if a.alive[s] {
			out = append(out, event{Op: "refresh", N: s})
		}
	}
	// a refresh whose publish the broker refuses (a fault; at most two per history)
	nfail := 0
	for _, e := range h {
		if e.Op == "refail" {
			nfail++
		}
	}
	if nfail < 2 {
		for s := 0; s < nslots; s++ {
			if a.alive[s] {
				out = append(out, event{Op: "refail", N: s})
			}
		}
	}
	for s := 0; s < nslots; s++ {
		seen := map[string]bool{}
		for _, l := range a.pending[s] {
			if !seen[l] {
				seen[l] = true
				out = append(out, event{Op: "deliver", N: s, M: l})
			}
		}
	}
	if a.starts > 0 {
		for _, d := range advances {
			out = append(out, event{Op: "adv", D: d})
		}
	}
	for s := 0; s < nslots; s++ {
		if a.alive[s] {
			out = append(out, event{Op: "stop", N: s}, event{Op: "crash", N: s})
		}
	}
	return out
}

// ---------------------------------------------------------------------------------------------
// stabilisation suffix

type variant struct {
	lifo bool
	jit  uint // bit s set: slot s refreshes at the top of its jitter range, else at the bottom
}

func (v variant) String() string {
	o := "fifo"
	if v.lifo {
		o = "lifo"
	}
	return fmt.Sprintf("drain=%s,jitter-bits=%b", o, v.jit)
}

func (w *world) suffix(v variant, hist string) *seqx.Failure {
	tag := fmt.Sprintf("history %s + stabilisation(%v)", hist, v)
	// 1. everything still in flight arrives
	for _, n := range w.running() {
		for len(n.pending) > 0 {
			idx := 0
			if v.lifo {
				idx = len(n.pending) - 1
			}
			if f := w.deliver(n, idx, tag+" drain"); f != nil {
				return f
			}
		}
	}
	// 2. time passes; live nodes keep refreshing, every refresh reaches every running node at once
	w.mu.Lock()
	start := w.now
	w.mu.Unlock()
	type tick struct {
		at time.Time
		n  *node
	}
	maxI := baseInt + baseInt/5
	ivs := map[*node]time.Duration{}
	for _, n := range w.running() {
		lo, hi, _ := jitterRange(n)
		ivs[n] = lo
		if v.jit&(1<<uint(n.slot)) != 0 {
			ivs[n] = hi
		}
		if ivs[n] > maxI {
			maxI = ivs[n]
		}
	}
	deadline := start.Add(timeout + maxI)
	end := deadline.Add(maxI)
	var ticks []tick
	for _, n := range w.running() {
		for t := start.Add(ivs[n]); !t.After(end); t = t.Add(ivs[n]) {
			ticks = append(ticks, tick{t, n})
		}
	}
	sort.SliceStable(ticks, func(i, j int) bool {
		if !ticks[i].at.Equal(ticks[j].at) {
			return ticks[i].at.Before(ticks[j].at)
		}
		return ticks[i].n.slot < ticks[j].n.slot
	})
	setNow := func(t time.Time) { w.mu.Lock(); w.now = t; w.mu.Unlock() }
	past := false
	for _, tk := range ticks {
		if !past && tk.at.After(deadline) {
			setNow(deadline)
			if f := w.checkAll("at-deadline", tag+fmt.Sprintf(" at +%v", deadline.Sub(start))); f != nil {
				return f
			}
			past = true
		}
		setNow(tk.at)
		if past {
			if f := w.checkAll("after-deadline", tag+fmt.Sprintf(" at +%v just before the refresh of %s", tk.at.Sub(start), tk.n.tag)); f != nil {
				return f
			}
		}
		w.refresh(tk.n)
		for _, n := range w.running() {
			for len(n.pending) > 0 {
				if f := w.deliver(n, 0, tag+fmt.Sprintf(" refresh at +%v", tk.at.Sub(start))); f != nil {
					return f
				}
			}
		}
		if past {
			if f := w.checkAll("after-deadline", tag+fmt.Sprintf(" at +%v just after the refresh of %s", tk.at.Sub(start), tk.n.tag)); f != nil {
				return f
			}
		}
	}
	if !past {
		setNow(deadline)
		if f := w.checkAll("at-deadline", tag+fmt.Sprintf(" at +%v", deadline.Sub(start))); f != nil {
			return f
		}
	}
	setNow(end)
	if f := w.checkAll("after-deadline", tag+fmt.Sprintf(" at +%v", end.Sub(start))); f != nil {
		return f
	}
	// 3. the consumers of the callback have been told about the final list
	for _, n := range w.running() {
		if cur := peersOf(n); !eq(cur, n.notified) {
			return &seqx.Failure{Sig: "notify:final-list-not-notified", What: fmt.Sprintf("%s: node %s ends with %v but its last callback was fired for %v", tag, n.tag, cur, n.notified)}
		}
	}
	return nil
}

// ---------------------------------------------------------------------------------------------

var outcomes sync.Map   // distinct pre-suffix situations (vacuity evidence)
var suffixDone sync.Map // canonical state -> struct{}: suffix already evaluated from an identical state

func replay(nslots int, h []event) (*world, *seqx.Failure) {
	w := newWorld(nslots)
	for i, e := range h {
		if f := w.apply(i, e); f != nil {
			return w, f
		}
	}
	return w, nil
}

func exec(r *ev.Run, nslots int, h []event) (string, string, *seqx.Failure) {
	w, f := replay(nslots, h)
	if f != nil {
		w.cleanup()
		return "", "", f
	}
	canon := w.canon()
	run := w.running()
	// outcome label: how far from converged the state is before the suffix (vacuity evidence)
	pre := "ok"
	inflight := 0
	want := w.want()
	for _, n := range run {
		if c := classify(peersOf(n), want); c != "ok" {
			pre = c
		}
		inflight += len(n.pending)
	}
	outcome := fmt.Sprintf("running=%d,pre=%s,inflight=%v", len(run), pre, inflight > 0)
	outcomes.Store(outcome, struct{}{})
	if _, dup := suffixDone.LoadOrStore(canon, struct{}{}); dup || len(run) == 0 {
		w.cleanup()
		return canon, outcome, nil
	}
	if pre != "ok" || inflight > 0 {
		r.Distinct("suffix_from_unconverged_states", canon)
	}
	hist := fmt.Sprint(h)
	var bits []uint
	nb := uint(0)
	for _, n := range run {
		nb |= 1 << uint(n.slot)
	}
	for b := uint(0); b < 1<<uint(nslots); b++ {
		if b&^nb == 0 {
			bits = append(bits, b)
		}
	}
	first := true
	for _, lifo := range []bool{false, true} {
		for _, b := range bits {
			if !first {
				w, f = replay(nslots, h)
				if f != nil {
					ev.Harness("C18: replay of %v diverged: %s", h, f.What)
				}
				if c := w.canon(); c != canon {
					w.cleanup()
					ev.Harness("C18: replay of %v is not deterministic:\n %s\n %s", h, canon, c)
				}
			}
			first = false
			f = w.suffix(variant{lifo: lifo, jit: b}, hist)
			w.cleanup()
			r.Add("suffix_runs", 1)
			if f != nil {
				return canon, outcome, f
			}
		}
	}
	return canon, outcome, nil
}

// ---------------------------------------------------------------------------------------------
// codec

func codecStrings(maxLen int) []string {
	alpha := []string{"a", ",", ":", "[", "]", "/"}
	out := []string{""}
	level := []string{""}
	for l := 1; l <= maxLen; l++ {
		var next []string
		for _, p := range level {
			for _, c := range alpha {
				next = append(next, p+c)
			}
		}
		out = append(out, next...)
		level = next
	}
	return append(out,
		"http://host:8081", "http://10.1.2.3:8081", "http://refinery-0.refinery.svc.cluster.local:8081",
		"http://[::1]:8081", "http://[fe80::1%eth0]:8081", "http://[2001:db8::8a2e:370:7334]:8081",
		"http://rack1,slot2:8081", "12345678", "deadbeef", "00a10000",
		`\`, `a\`, `\,`, `a\,b`, `\\,`, `http://dc\rack,1:8081`)
}

func codec(r *ev.Run) {
	strs := codecStrings(4)
	actions := []string{"R", "U"}
	type cex struct {
		lin    int
		what   string
		replay map[string]any
	}
	var mu sync.Mutex
	worst := map[string]*cex{} // failure class -> first failing case in enumeration order (simplest first)
	var fails atomic.Int64
	enumx.Each(r, "codec", []int{len(strs), len(strs), len(actions)}, 16, func(idx []int) {
		addr, id, act := strs[idx[0]], strs[idx[1]], actions[idx[2]]
		wire := c18peer.Marshal(act, addr, id)
		a2, addr2, id2, ok := c18peer.Unmarshal(wire)
		if ok && a2 == act && addr2 == addr && id2 == id {
			return
		}
		fails.Add(1)
		class := "other"
		switch {
		case strings.Contains(addr, ","):
			class = "address-contains-comma"
		case strings.Contains(id, ","):
			class = "id-contains-comma"
		case addr == "":
			class = "empty-address"
		case id == "":
			class = "empty-id"
		}
		lin := (idx[0]*len(strs)+idx[1])*len(actions) + idx[2]
		mu.Lock()
		if c := worst[class]; c == nil || lin < c.lin {
			worst[class] = &cex{lin: lin,
				what:   fmt.Sprintf("marshal(%s, address=%q, id=%q) = %q; unmarshal gives ok=%v action=%q address=%q id=%q", act, addr, id, wire, ok, a2, addr2, id2),
				replay: map[string]any{"action": act, "address": addr, "id": id, "wire": wire, "decoded": map[string]any{"ok": ok, "action": a2, "address": addr2, "id": id2}}}
		}
		mu.Unlock()
	})
	r.Add("codec_roundtrip_failures", fails.Load())
	var classes []string
	for c := range worst {
		classes = append(classes, c)
	}
	sort.Strings(classes)
	for _, c := range classes {
		r.Violation("codec:roundtrip:"+c, worst[c].what, worst[c].replay)
	}
	nComma := 0
	for _, s := range strs {
		if strings.Contains(s, ",") {
			nComma++
		}
	}
	r.Set("codec_strings", len(strs))
	r.Set("codec_strings_with_comma", nComma)
}

func main() {
	r := ev.New("C18", "model_checking")
	type sc struct {
		nodes, starts, depth int
	}
	scs := ev.Pick(r, []sc{{2, 3, 9}}, []sc{{2, 3, 11}, {3, 4, 8}})
	if d, err := strconv.Atoi(os.Getenv("C18_DEPTH")); err == nil { // experimentation only
		for i := range scs {
			scs[i].depth = d
		}
	}
	for _, s := range scs {
		s := s
		suffixDone = sync.Map{}
		seqx.Explore(r, seqx.Scenario[event]{
			Name:     fmt.Sprintf("%dnodes", s.nodes),
			Enabled:  func(h []event) []event { return enabled(s.nodes, s.starts, h) },
			Exec:     func(h []event) (string, string, *seqx.Failure) { return exec(r, s.nodes, h) },
			MaxDepth: s.depth, Workers: 16,
			// every history of length <= 5 is executed whatever the canonical key says
			NoMergeDepth: 4,
		})
	}
	var oc []string
	outcomes.Range(func(k, _ any) bool { oc = append(oc, k.(string)); return true })
	sort.Strings(oc)
	r.Set("pre_suffix_situations", oc)
	r.Set("traces_validated_against_impl", r.Count("transitions")+r.Count("suffix_runs"))
	codec(r)
	r.Set("bounds", map[string]any{"scenarios(nodes,max starts incl. one restart,depth)": fmt.Sprint(scs), "advances": fmt.Sprint(advances),
		"suffix": "drain order {fifo,lifo} x refresh interval of each running node in {3s, 3.6s-1ns}; deadline = +PeerEntryTimeout+3.6s; stability window = one more 3.6s",
		"codec":  "action {R,U} x address x id over all strings of length<=4 over {a , : [ ] /} plus 16 realistic / escape-prone forms"})
	r.Assume("'alive and publishing' = started (Start+Ready) and neither stopped nor crashed; a stopped/crashed process no longer receives; a restart is a new instance ID on the same address")
	r.Assume("'within the peer entry timeout plus one refresh interval' is measured from the moment the last in-flight message has arrived, with the longest (fully jittered, 3.6s) interval: the weakest reading; 'converges' includes staying converged for one more interval")
	r.Assume("the random refresh jitter is owned by enumerating both ends of its documented range per node; during the explored prefix refreshes may fire at any instant (superset of the real timing), the oracle is only evaluated after the suffix")
	r.Assume("the peer table inside RedisPubsubPeers runs on the wall clock (not the injected Clock); the hook swaps it for the harness clock right after Start() and re-stamps the self entry")
	r.Assume("callback oracle (weak): whenever a processed message leaves a list different from the one of the last fired callback a callback must fire, and the final list must have been notified; expiry without any message is not required to notify")
	r.Assume("states merged on: per running node the physical peer table relative to now (expired offsets clipped at -2ns: only the sign is observable), notified hash/list, pending multiset, interval class; per slot incarnation count. Suffix evaluated once per canonical state (identical futures)")
	r.Finish()
}
