package main

import (
	"context"
	"fmt"
	"path/filepath"

	"verif/engine/ev"
	"verif/engine/vsched"
)

// E3 part of C27: overlapping reload triggers neither apply a change twice nor lose one.
// Threads are the real triggers: the timer path (cw.Config.Reload()), the pubsub path
// (ConfigWatcher.SubscriptionListener → Reload) and a reader; scheduling points at every mutex
// operation of package config. Oracle: each listener is notified exactly once per applied change,
// and when all triggers have returned the running configuration is the one on disk.
type conc struct {
	Name        string
	Cfg0, R0    string
	Cfg1, R1    string // content written before the triggers run ("" = unchanged)
	Writer      bool   // the change is written by a third thread while the triggers run (then ≥0 and ≤1 notification, final = disk only if a trigger started after the write)
	WantApplied int    // notifications per listener when the change is on disk before any trigger
}

func concurrentPart(r *ev.Run, version string) {
	bound := ev.Pick(r, 2, 3)
	scen := []conc{
		{Name: "config-changed", Cfg0: "V0", R0: "R0", Cfg1: "V1", WantApplied: 1},
		{Name: "rules-changed", Cfg0: "V0", R0: "R0", R1: "R1", WantApplied: 1},
		{Name: "both-changed", Cfg0: "V0", R0: "R0", Cfg1: "V2", R1: "R2", WantApplied: 1},
		{Name: "nothing-changed", Cfg0: "V1", R0: "R1", WantApplied: 0},
		{Name: "invalid-change", Cfg0: "V0", R0: "R0", Cfg1: "I", WantApplied: 0},
		{Name: "warning-only-change", Cfg0: "V0", R0: "R0", Cfg1: "W", WantApplied: 1},
	}
	r.Sharded(len(scen), func(si, sn int) {
		sc := scen[si]
		var s *subject
		n := 0
		e := &vsched.Explorer{Bound: bound, Stop: func() bool { return r.Expired("concurrent " + sc.Name) }, Setup: func() {
			n++
			if s != nil {
				s.close()
			}
			var err error
			s, err = newSubject(filepath.Join(workRoot, fmt.Sprintf("conc_%s", sc.Name)), byID(cfgContents, sc.Cfg0), byID(rulesContents, sc.R0), version)
			if err != nil {
				ev.Harness("concurrent scenario %s: %v", sc.Name, err)
			}
			if sc.Cfg1 != "" {
				put(s.cfgPath, byID(cfgContents, sc.Cfg1))
			}
			if sc.R1 != "" {
				put(s.rulesPath, byID(rulesContents, sc.R1))
			}
			vsched.Go("timer-reload", func() { s.cfg.Reload() })
			vsched.Go("pubsub-reload", func() { s.pubsubIn(context.Background(), "2024-01-01T00:00:00Z") })
			vsched.Go("reader", func() {
				s.cfg.GetIsDryRun()
				s.cfg.GetHashes()
				s.cfg.GetSamplerConfigForDestName("dataset5")
			})
		}, Check: func(x *vsched.Exec) string {
			for i := 0; i < 2; i++ {
				if s.calls[i] != sc.WantApplied {
					return fmt.Sprintf("listener-notified-%d-times-for-one-change: listener %d was notified %d times, want %d (scenario %s)", s.calls[i], i, s.calls[i], sc.WantApplied, sc.Name)
				}
			}
			oc, _, _ := startupOracle(s.cfgPath, s.rulesPath, version)
			if sc.WantApplied == 1 {
				if oc == nil {
					ev.Harness("startup oracle rejects scenario %s", sc.Name)
				}
				if got, want := snapshot(s.cfg, s.dir), snapshot(oc, s.dir); got != want {
					return fmt.Sprintf("change-lost: after both triggers returned the running config differs from the files on disk: %s", firstDiff(got, want))
				}
			}
			r.Distinct("distinct_outcomes", fmt.Sprintf("conc:%s:%d", sc.Name, s.calls[0]))
			return ""
		}}
		ok := e.Explore()
		e.Report(r)
		r.Sample(map[string]any{"concurrent_scenario": sc, "executions": e.Stats.Executions, "bound": bound})
		if !ok {
			sig := "concurrent:" + firstWord(e.Failure)
			r.Violation(sig, e.Failure, map[string]any{"scenario": sc, "schedule": e.FailExec.Choices})
		}
		if s != nil {
			s.close()
		}
	})
	r.Set("preemption_bound_completed", bound)
}

func firstWord(s string) string {
	for i, c := range s {
		if c == ':' || c == ' ' {
			return s[:i]
		}
	}
	return s
}
