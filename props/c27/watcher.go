package main

// The TIMER trigger through the real ConfigWatcher.monitor goroutine.
//
// The BFS above represents the timer trigger by its body (cw.Config.Reload()). Whether the trigger keeps
// coming is a property of the loop around it: this part Start()s a real ConfigWatcher on a real fileConfig
// (ConfigReloadInterval 10 s) with package internal/configwatcher's `time` redirected to the harness clock, and
// runs every history over
//
//	w1, w2  = the rules file gets valid content R1 / R2 (different from each other and from the start)
//	wb      = the rules file gets content startup rejects
//	t       = the clock moves by 11 s (the period is 10 s +/- 10%: at least one timer tick)
//
// up to a length bound. After every `t` the harness waits at a barrier that involves no timing (no tick of the
// harness clock is unread AND the monitor goroutine is parked in its select) and compares the running
// configuration with what startup makes of the files: changed and acceptable -> applied; rejected -> unchanged.

import (
	"fmt"
	"os"
	"path/filepath"
	"runtime"
	"strings"
	"time"

	"github.com/honeycombio/refinery/logger"
	cwbridge "github.com/honeycombio/refinery/verifbridge/configwatcher"
	"github.com/jonboulle/clockwork"

	"verif/engine/ev"
	"verif/shim/vtime"
)

const watcherCfg = `General:
  ConfigurationVersion: 2
  ConfigReloadInterval: 10s
`

func watcherRules(rate int) string {
	return fmt.Sprintf("RulesVersion: 2\nSamplers:\n  __default__:\n    DeterministicSampler:\n      SampleRate: %d\n", rate)
}

const watcherBadRules = "RulesVersion: 2\nSamplers:\n  __default__:\n    NoSuchSampler:\n      SampleRate: 1\n"

// monitorParked: the ConfigWatcher.monitor goroutine exists and is blocked in its select.
func monitorParked() (exists, parked bool) {
	buf := make([]byte, 32<<20)
	buf = buf[:runtime.Stack(buf, true)]
	for _, g := range strings.Split(string(buf), "\n\n") {
		if strings.Contains(g, "configwatcher.(*ConfigWatcher).monitor") {
			head := g[:strings.Index(g+"\n", "\n")]
			return true, strings.Contains(head, "[select")
		}
	}
	return false, false
}

func watcherBarrier(what string) {
	deadline := time.Now().Add(60 * time.Second) // harness horizon (exceeding it is a harness error, never a verdict)
	for {
		if vtime.Unread() == 0 {
			if ex, parked := monitorParked(); ex && parked {
				if vtime.Unread() == 0 {
					return
				}
			}
		}
		if time.Now().After(deadline) {
			ex, parked := monitorParked()
			ev.Harness("C27 watcher part: the monitor goroutine did not come to rest (%s): exists=%v parked=%v unread=%d", what, ex, parked, vtime.Unread())
		}
		runtime.Gosched()
	}
}

func watcherPart(r *ev.Run, version string) {
	depth := ev.Pick(r, 5, 6)
	var hs []string
	var gen func(h string)
	gen = func(h string) {
		if h != "" && h[len(h)-1] == 't' {
			hs = append(hs, h)
		}
		if len(h) == depth {
			return
		}
		for _, c := range "12bt" {
			if c != 't' && h != "" && h[len(h)-1] != 't' {
				continue // two writes in a row: only the last one is seen by anybody
			}
			gen(h + string(c))
		}
	}
	gen("")
	base, err := os.MkdirTemp(workRoot, "watcher")
	if err != nil {
		ev.Harness("%v", err)
	}
	defer os.RemoveAll(base)
	n := 0
	// how new content reaches the live file: written in place (fresh modification time), or staged in a side file
	// earlier and renamed over it (rename keeps the staged file's old modification time; cp -p, rsync -t and restored
	// backups look the same). What is reloaded is decided by content, so both must behave alike.
	for _, staged := range []bool{false, true} {
		mode := ""
		if staged {
			mode = ":staged-file-renamed-into-place"
		}
		for hi, h := range hs {
			if r.Expired("watcher histories") {
				break
			}
			n++
			clk := clockwork.NewFakeClockAt(time.Date(2024, 1, 1, 0, 0, 0, 0, time.UTC))
			vtime.Clock = clk
			dir := filepath.Join(base, fmt.Sprintf("h%d%v", hi, staged))
			s, err := newSubject(dir, content{ID: "WC", Class: "valid", Body: watcherCfg}, content{ID: "WR0", Class: "valid", Body: watcherRules(3)}, version)
			if err != nil {
				ev.Harness("watcher part: %v", err)
			}
			if staged {
				// the files Refinery started on were deployed long ago (what decides a reload is content, never a time stamp)
				long := time.Date(2020, 1, 1, 0, 0, 0, 0, time.UTC)
				for _, p := range []string{s.cfgPath, s.rulesPath} {
					if err := os.Chtimes(p, long, long); err != nil {
						ev.Harness("%v", err)
					}
				}
			}
			stop, err := cwbridge.VerifStartedWatcher(s.cfg, &logger.NullLogger{})
			if err != nil {
				ev.Harness("watcher part: ConfigWatcher.Start: %v", err)
			}
			watcherBarrier("after Start")
			applied, disk := watcherRules(3), watcherRules(3)
			for step, c := range h {
				switch c {
				case '1':
					disk = watcherRules(5)
				case '2':
					disk = watcherRules(7)
				case 'b':
					disk = watcherBadRules
				}
				if c != 't' {
					if staged {
						side := s.rulesPath + ".staged"
						if err := os.WriteFile(side, []byte(disk), 0o644); err != nil {
							ev.Harness("%v", err)
						}
						old := time.Date(2020, 1, 1, 0, 0, 0, 0, time.UTC)
						if err := os.Chtimes(side, old, old); err != nil {
							ev.Harness("%v", err)
						}
						if err := os.Rename(side, s.rulesPath); err != nil {
							ev.Harness("%v", err)
						}
					} else if err := os.WriteFile(s.rulesPath, []byte(disk), 0o644); err != nil {
						ev.Harness("%v", err)
					}
					continue
				}
				clk.Advance(11 * time.Second)
				watcherBarrier(fmt.Sprintf("history %s step %d", h, step))
				oc, _, _ := startupOracle(s.cfgPath, s.rulesPath, version)
				got := js(s.cfg.GetAllSamplerRules())
				if oc != nil {
					if want := js(oc.GetAllSamplerRules()); got != want {
						what := "changed, acceptable rules"
						if disk == applied {
							what = "unchanged rules"
						}
						r.Violation("timer-trigger:changed+startup-accepts:not-applied"+mode,
							fmt.Sprintf("history [%s] (w1/w2 = valid rules, wb = rejected rules, t = 11 s of a 10 s reload interval), at step %d: %s on disk, the periodic trigger has had its period, the running rules are still %s; startup gives %s", h, step, what, got, want),
							map[string]any{"scenario": "watcher" + mode, "history": h})
						break
					}
					applied = disk
					r.Add("watcher_reloads_applied_or_same", 1)
				} else {
					r.Add("watcher_reloads_rejected", 1)
					// rejected content: the running configuration must be what it was
					tmp := filepath.Join(dir, "prev_rules.yaml")
					os.WriteFile(tmp, []byte(applied), 0o644)
					pc, _, _ := startupOracle(s.cfgPath, tmp, version)
					if pc != nil && js(pc.GetAllSamplerRules()) != got {
						r.Violation("timer-trigger:startup-rejects:applied-anyway"+mode, fmt.Sprintf("history [%s] step %d: rejected rules on disk, yet the running rules changed to %s", h, step, got),
							map[string]any{"scenario": "watcher" + mode, "history": h})
						break
					}
				}
			}
			stop()
			s.close()
		}
	}
	vtime.Clock = nil
	r.Add("watcher_histories", int64(n))
	r.Add("transitions", int64(n))
}
