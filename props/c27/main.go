// C27: config reloads apply exactly the acceptable changes (sequential part, engine E1 / seqx).
//
// BFS over histories of {write(config file, content), write(rules file, content), reload(), pubsubReload()}
// executed on the REAL config.NewConfig / (*fileConfig).Reload with real files under $VERIF_WORK.
// After every reload the *startup oracle* (config.NewConfig on the very same files, with the same version
// string the fixture was started with) is run side by side and the statement is evaluated:
//
//	applied  <=>  content changed (w.r.t. the running configuration)  AND  startup accepts it (warnings allowed)
//	applied      -> every sampled getter equals the getter of the startup oracle's config, and each of the
//	                two registered listeners was notified exactly once, seeing the new config when notified
//	not applied  -> every sampled getter is unchanged; unchanged content -> no listener notified
//
// The reference model is only: (content currently applied, content on disk); acceptability is never
// modelled, it is asked from the real startup path.
//
// Seam for the concurrent (E3) part of C27, to be added later: newSubject() builds a fresh real
// fileConfig on given file contents with two counting listeners registered.
package main

import (
	"context"
	"crypto/sha1"
	"encoding/hex"
	"encoding/json"
	"fmt"
	"os"
	"path/filepath"
	"reflect"
	"sort"
	"strings"
	"sync/atomic"
	"time"

	"github.com/honeycombio/refinery/config"
	"github.com/honeycombio/refinery/logger"
	cwbridge "github.com/honeycombio/refinery/verifbridge/configwatcher"

	"verif/engine/ev"
	"verif/engine/seqx"
)

// ---------------------------------------------------------------------------------------------
// contents

type content struct {
	ID    string // short id used in events / canon
	Class string // construction class (used in signatures only; acceptability is decided by the startup oracle)
	Body  string
	Gone  bool // file removed
	IsDir bool // path is a directory -> unreadable
}

func cfgBody(tag string, dry bool, delay string, extra string) string {
	return fmt.Sprintf("General:\n  ConfigurationVersion: 2\n  DatasetPrefix: %s\nNetwork:\n  ListenAddr: 0.0.0.0:8080\nDebugging:\n  DryRun: %v\nTraces:\n  SendDelay: %s\n%s", tag, dry, delay, extra)
}

// wide: one differing value in every group of reloadable settings (V0 leaves them all at their defaults), so that a
// reload which carries over part of the running configuration shows in some getter
func wide(i int) string {
	return fmt.Sprintf("Collection:\n  AvailableMemory: %dGb\n  MaxMemoryPercentage: %d\n  ShutdownDelay: %ds\n  DisableRedistribution: %v\n"+
		"AccessKeys:\n  ReceiveKeys:\n    - key%d\n  AcceptOnlyListedKeys: %v\n"+
		"RefineryTelemetry:\n  AddRuleReasonToTrace: %v\n  AddSpanCountToRoot: %v\n  AddHostMetadataToTrace: %v\n"+
		"Logger:\n  Level: %s\n"+
		"SampleCache:\n  KeptSize: %d\n  DroppedSize: %d\n"+
		"Specialized:\n  AdditionalAttributes:\n    env: e%d\n"+
		"BufferSizes:\n  UpstreamBufferSize: %d\n"+
		"IDFields:\n  TraceNames:\n    - traceId%d\n    - trace.trace_id\n    - a.trace\n  ParentNames:\n    - parentId\n    - trace.parent_id\n",
		i+1, 50+10*i, 10+i, i%2 == 1,
		i, i%2 == 1,
		i%2 == 1, i%2 == 0, i%2 == 1,
		[]string{"warn", "info", "debug"}[i%3],
		20000+i, 2000000+i,
		i,
		20000+i,
		i)
}

func rulesBody(rate int, extra string) string {
	return fmt.Sprintf("RulesVersion: 2\nSamplers:\n  __default__:\n    DeterministicSampler:\n      SampleRate: %d\n%s", rate, extra)
}

var cfgContents = []content{
	{ID: "V0", Class: "valid", Body: cfgBody("v0", false, "2s", "")},
	{ID: "V1", Class: "valid", Body: cfgBody("v1", true, "3s", wide(1))},
	{ID: "V2", Class: "valid", Body: cfgBody("v2", false, "4s", "StressRelief:\n  Mode: always\n"+wide(2))},
	// deprecated key that carries a deprecation text (a warning whenever the running version <= lastversion v2.6)
	{ID: "W", Class: "deprecated-key-with-text", Body: cfgBody("w", true, "5s", "RedisPeerManagement:\n  Prefix: custom\n")},
	// deprecated key without deprecation text, lastversion v2.6 (warning or rejection depending on running version)
	{ID: "D", Class: "deprecated-key-no-text", Body: cfgBody("d", true, "6s", "RedisPeerManagement:\n  Database: 1\n")},
	{ID: "I", Class: "invalid", Body: cfgBody("i", true, "7s", "Collection:\n  NoSuchSetting: 1\n")},
	{ID: "U", Class: "unparsable", Body: "General: [unclosed\n  DatasetPrefix: {"},
	{ID: "M", Class: "missing", Gone: true},
	// thorough only
	{ID: "I2", Class: "invalid", Body: cfgBody("i2", true, "notaduration", "")},
	{ID: "X", Class: "unreadable", IsDir: true},
}

var rulesContents = []content{
	{ID: "R0", Class: "valid", Body: rulesBody(5, "")},
	// R1 and R2 give dataset5 samplers with different key fields (R0: none, it falls back to __default__), so that the
	// keyed lookups (sampler, sampling key fields) have something to follow across a rules-only reload
	{ID: "R1", Class: "valid", Body: rulesBody(7, "  dataset5:\n    DynamicSampler:\n      SampleRate: 3\n      FieldList:\n        - f1\n")},
	{ID: "R2", Class: "valid", Body: rulesBody(9, "  dataset5:\n    DynamicSampler:\n      SampleRate: 11\n      FieldList:\n        - f2\n        - f3\n")},
	{ID: "RI", Class: "invalid", Body: "RulesVersion: 2\nSamplers:\n  __default__:\n    InvalidSampler:\n      SampleRate: 50\n"},
	{ID: "RU", Class: "unparsable", Body: "RulesVersion: 2\nSamplers: [unclosed\n"},
	{ID: "RM", Class: "missing", Gone: true},
	// thorough only
	{ID: "RX", Class: "unreadable", IsDir: true},
}

func byID(cs []content, id string) content {
	for _, c := range cs {
		if c.ID == id {
			return c
		}
	}
	ev.Harness("unknown content %q", id)
	return content{}
}

// ---------------------------------------------------------------------------------------------
// events

type event struct {
	Op   string `json:"op"`             // write | reload | pubsubReload
	File string `json:"file,omitempty"` // config | rules
	C    string `json:"content,omitempty"`
}

func (e event) String() string {
	if e.Op == "write" {
		return "write(" + e.File + "," + e.C + ")"
	}
	return e.Op + "()"
}

// ---------------------------------------------------------------------------------------------
// the real object under test

// lightListeners is set in the worker processes of the E3 part.
var lightListeners bool

type subject struct {
	dir       string
	cfgPath   string
	rulesPath string
	version   string
	cfg       config.Config
	calls     [2]int
	seen      [2][]string // getter snapshot taken by each listener at the moment it is notified
	pubsubIn  func(ctx context.Context, msg string)
	log       *logger.MockLogger
}

func put(path string, c content) {
	os.RemoveAll(path)
	switch {
	case c.Gone:
	case c.IsDir:
		if err := os.Mkdir(path, 0o755); err != nil {
			ev.Harness("mkdir %s: %v", path, err)
		}
	default:
		if err := os.WriteFile(path, []byte(c.Body), 0o644); err != nil {
			ev.Harness("write %s: %v", path, err)
		}
	}
}

func optsFor(cfgPath, rulesPath string) *config.CmdEnv {
	return &config.CmdEnv{ConfigLocations: []string{cfgPath}, RulesLocations: []string{rulesPath}}
}

// newSubject builds a FRESH real fileConfig (through the real startup path config.NewConfig) on files
// dir/config.yaml and dir/rules.yaml holding the given contents, started as version `version`, with two
// counting listeners registered. This is the seam the concurrent-reload (E3) scenario of C27 plugs into.
func newSubject(dir string, cfg, rules content, version string) (*subject, error) {
	if err := os.MkdirAll(dir, 0o755); err != nil {
		return nil, err
	}
	s := &subject{dir: dir, cfgPath: filepath.Join(dir, "config.yaml"), rulesPath: filepath.Join(dir, "rules.yaml"), version: version}
	put(s.cfgPath, cfg)
	put(s.rulesPath, rules)
	c, err := config.NewConfig(optsFor(s.cfgPath, s.rulesPath), version)
	if c == nil {
		return nil, fmt.Errorf("startup rejected the initial configuration: %v", err)
	}
	s.cfg = c
	for i := 0; i < 2; i++ {
		i := i
		c.RegisterReloadCallback(func(cfgHash, rulesHash string) {
			s.calls[i]++
			if lightListeners {
				// E3 part: every getter is two scheduling points; the listener only reads what a real one does
				s.cfg.GetIsDryRun()
				return
			}
			s.seen[i] = append(s.seen[i], snapshot(s.cfg, s.dir))
		})
	}
	// the pubsub trigger: the real ConfigWatcher.SubscriptionListener (not Started: no goroutines, no ticker)
	s.log = &logger.MockLogger{}
	s.pubsubIn = cwbridge.VerifPubsubTrigger(c, s.log)
	return s, nil
}

func (s *subject) close() { os.RemoveAll(s.dir) }

// startup oracle: what would a Refinery started now, on these files, as this version, do?
func startupOracle(cfgPath, rulesPath, version string) (c config.Config, warned bool, err error) {
	c, err = config.NewConfig(optsFor(cfgPath, rulesPath), version)
	if c == nil {
		return nil, false, err
	}
	return c, err != nil, err
}

// ---------------------------------------------------------------------------------------------
// getter sampling: every zero-argument Get* method of the Config interface + the keyed sampler lookups.

var cfgIface = reflect.TypeOf((*config.Config)(nil)).Elem()

func js(v any) string {
	b, err := json.Marshal(v)
	if err != nil {
		return fmt.Sprintf("%+v", v)
	}
	return string(b)
}

// snapshot returns "name=value" lines, sorted by name. `dir` is scrubbed so two configs loaded from
// different directories are comparable.
func snapshot(c config.Config, dir string) string {
	v := reflect.ValueOf(c)
	var out []string
	for i := 0; i < cfgIface.NumMethod(); i++ {
		m := cfgIface.Method(i)
		if !strings.HasPrefix(m.Name, "Get") || m.Type.NumIn() != 0 || m.Name == "GetConfigMetadata" {
			continue // GetConfigMetadata carries file locations and a load time stamp
		}
		res := v.MethodByName(m.Name).Call(nil)
		var parts []string
		for _, r := range res {
			parts = append(parts, js(r.Interface()))
		}
		out = append(out, m.Name+"="+strings.Join(parts, ","))
	}
	for _, ds := range []string{"dataset5", "other"} {
		sc, name := c.GetSamplerConfigForDestName(ds)
		out = append(out, "GetSamplerConfigForDestName("+ds+")="+name+":"+js(sc))
		out = append(out, "GetSamplingKeyFieldsForDestName("+ds+")="+js(c.GetSamplingKeyFieldsForDestName(ds)))
	}
	sort.Strings(out)
	return strings.ReplaceAll(strings.Join(out, "\n"), dir, "$DIR")
}

func diffNames(a, b string) string {
	la, lb := strings.Split(a, "\n"), strings.Split(b, "\n")
	var names []string
	for i := 0; i < len(la) && i < len(lb); i++ {
		if la[i] != lb[i] {
			names = append(names, strings.SplitN(la[i], "=", 2)[0])
		}
	}
	if len(la) != len(lb) {
		names = append(names, "#getters")
	}
	return strings.Join(names, ",")
}

func firstDiff(a, b string) string {
	la, lb := strings.Split(a, "\n"), strings.Split(b, "\n")
	for i := 0; i < len(la) && i < len(lb); i++ {
		if la[i] != lb[i] {
			return fmt.Sprintf("%s  vs  %s", trunc(la[i]), trunc(lb[i]))
		}
	}
	return ""
}

func trunc(s string) string {
	if len(s) > 240 {
		return s[:240] + "…"
	}
	return s
}

func digest(s string) string {
	h := sha1.Sum([]byte(s))
	return hex.EncodeToString(h[:5])
}

// ---------------------------------------------------------------------------------------------
// one execution

var execSeq atomic.Int64
var workRoot string

type execStats struct {
	applied, same, rejected, warnedApplied int64
}

var stAppliedWarn, stApplied, stSame, stRejected atomic.Int64

func exec(version string, h []event, verifyAll bool) (string, string, *seqx.Failure) {
	dir := filepath.Join(workRoot, fmt.Sprintf("x%d", execSeq.Add(1)))
	s, err := newSubject(dir, byID(cfgContents, "V0"), byID(rulesContents, "R0"), version)
	if err != nil {
		ev.Harness("fixture: %v", err)
	}
	defer s.close()
	// reference model: what is applied, what is on disk
	applied := [2]string{"V0", "R0"}
	disk := [2]string{"V0", "R0"}
	outcome := "start"
	pubsubs := 0
	for step, e := range h {
		switch e.Op {
		case "write":
			if e.File == "config" {
				put(s.cfgPath, byID(cfgContents, e.C))
				disk[0] = e.C
			} else {
				put(s.rulesPath, byID(rulesContents, e.C))
				disk[1] = e.C
			}
			outcome = "write"
			continue
		case "report":
			// an observer: the effective configuration is serialised for a report (what the OpAMP agent does after
			// every load). Reading the configuration must leave every getter as it was.
			before := snapshot(s.cfg, s.dir)
			if _, _, err := config.SerializeToYAML(s.cfg); err != nil {
				ev.Harness("SerializeToYAML: %v", err)
			}
			if after := snapshot(s.cfg, s.dir); after != before {
				return "", "", &seqx.Failure{Sig: "observer:effective-config-report-changes-getters:" + diffNames(before, after),
					What: fmt.Sprintf("step %d %v (running config=%s rules=%s): serialising the effective configuration changed what the getters return, without any reload: %s", step, e, applied[0], applied[1], firstDiff(before, after))}
			}
			outcome = "report"
			continue
		}
		// ---- a reload trigger
		before := snapshot(s.cfg, s.dir)
		calls0 := s.calls
		seen0 := [2]int{len(s.seen[0]), len(s.seen[1])}
		var rerr error
		switch e.Op {
		case "reload": // body of the ConfigWatcher timer case
			rerr = s.cfg.Reload()
		case "pubsubReload": // the real pubsub subscription handler
			pubsubs++
			nlog := len(s.log.Events)
			s.pubsubIn(context.Background(), time.Date(2024, 1, 1, 0, 0, 0, 0, time.UTC).Format(time.RFC3339))
			if len(s.log.Events) > nlog {
				rerr = fmt.Errorf("%v", s.log.Events[len(s.log.Events)-1].Fields["error"])
			}
		}
		after := snapshot(s.cfg, s.dir)
		n := [2]int{s.calls[0] - calls0[0], s.calls[1] - calls0[1]}
		if step < len(h)-1 && !verifyAll {
			// a proper prefix: BFS has already executed exactly this prefix as a history of its own and the
			// oracle passed at each of its steps (a failing history is never expanded), so only the model is
			// advanced here. All contents differ in at least one sampled getter, so "getters changed" is
			// exactly "applied".
			if after != before {
				applied = disk
			}
			continue
		}

		oc, warned, oerr := startupOracle(s.cfgPath, s.rulesPath, version)
		accept := oc != nil
		changed := disk != applied
		cc, rc := byID(cfgContents, disk[0]), byID(rulesContents, disk[1])
		which := ""
		if disk[0] != applied[0] {
			which = "config"
		}
		if disk[1] != applied[1] {
			which += "+rules"
		}
		which = strings.TrimPrefix(which, "+")
		where := fmt.Sprintf("step %d %v (version %s; on disk config=%s[%s] rules=%s[%s]; running config=%s rules=%s; Reload returned %v)",
			step, e, version, cc.ID, cc.Class, rc.ID, rc.Class, applied[0], applied[1], errStr(rerr))

		switch {
		case changed && accept:
			want := snapshot(oc, s.dir)
			startup := "clean"
			if warned {
				startup = "with-warning"
			}
			if after != want {
				if after == before {
					return "", "", &seqx.Failure{Sig: fmt.Sprintf("changed+startup-accepts(%s):not-applied:%s", startup, blame(which, cc, rc)),
						What: where + ": startup (config.NewConfig on the same files) accepts this changed content" + warnNote(warned, oerr) + " but the reload did not apply it; e.g. " + firstDiff(after, want)}
				}
				return "", "", &seqx.Failure{Sig: fmt.Sprintf("applied:getters-differ-from-startup:%s:%s", which, diffNames(after, want)),
					What: where + ": after the reload the getters differ from what startup produces on the same files: " + firstDiff(after, want)}
			}
			if n != [2]int{1, 1} {
				return "", "", &seqx.Failure{Sig: fmt.Sprintf("applied:listeners-notified-%dx,%dx:%s", n[0], n[1], which),
					What: fmt.Sprintf("%s: change applied but the two listeners were notified %d and %d times (want exactly once each)", where, n[0], n[1])}
			}
			for i := 0; i < 2; i++ {
				if got := s.seen[i][seen0[i]]; got != want {
					return "", "", &seqx.Failure{Sig: "applied:listener-notified-before-change-visible:" + which,
						What: fmt.Sprintf("%s: listener %d was notified while the getters still returned the old configuration: %s", where, i, firstDiff(got, want))}
				}
			}
			applied = disk
			outcome = "applied:" + which + ":startup-" + startup
			if warned {
				stAppliedWarn.Add(1)
			}
			stApplied.Add(1)
		case !changed:
			if after != before {
				return "", "", &seqx.Failure{Sig: "unchanged-content:getters-changed:" + diffNames(before, after),
					What: where + ": content identical to the running configuration but getters changed: " + firstDiff(before, after)}
			}
			if n != [2]int{0, 0} {
				return "", "", &seqx.Failure{Sig: fmt.Sprintf("unchanged-content:listeners-notified-%dx,%dx", n[0], n[1]),
					What: fmt.Sprintf("%s: content identical to the running configuration but listeners were notified %d and %d times", where, n[0], n[1])}
			}
			outcome = "same"
			stSame.Add(1)
		default: // changed, startup rejects
			if after != before {
				return "", "", &seqx.Failure{Sig: "startup-rejects:applied-anyway:" + blame(which, cc, rc),
					What: where + ": startup rejects these files (" + trunc(errStr(oerr)) + ") but the reload changed the running configuration: " + firstDiff(before, after)}
			}
			outcome = "rejected:" + cc.Class + "/" + rc.Class
			stRejected.Add(1)
		}
	}
	hc, hr := s.cfg.GetHashes()
	// "an announcement was handled before" is part of the state: the watcher remembers the last announcement (for
	// the real code only as a trace attribute; an implementation that lets it influence the next one would differ
	// between histories this abstraction would otherwise merge). Every announcement carries the same time stamp:
	// peers announce with their own wall clocks, so equal and older stamps are ordinary.
	seenPubsub := "first-announcement-pending"
	if pubsubs > 0 {
		seenPubsub = "announcement-handled-before"
	}
	canon := strings.Join([]string{version, disk[0], disk[1], applied[0], applied[1], hc, hr, digest(snapshot(s.cfg, s.dir)), seenPubsub}, "|")
	return canon, outcome, nil
}

// blame names the failing input class: the non-valid content classes among the files that differ from the
// running configuration, or - when those are all plain valid content - which file(s) differ.
func blame(which string, cc, rc content) string {
	var p []string
	if cc.Class != "valid" && strings.Contains(which, "config") {
		p = append(p, "config["+cc.Class+"]")
	}
	if rc.Class != "valid" && strings.Contains(which, "rules") {
		p = append(p, "rules["+rc.Class+"]")
	}
	if len(p) == 0 {
		return which + "[valid]"
	}
	return strings.Join(p, "+")
}

func warnNote(w bool, err error) string {
	if !w {
		return ""
	}
	return " (with warning only: " + trunc(strings.TrimSpace(errStr(err))) + ")"
}

func errStr(err error) string {
	if err == nil {
		return "nil"
	}
	return strings.Join(strings.Fields(err.Error()), " ")
}

func replayArg() string {
	for i, a := range os.Args {
		if a == "--replay" && i+1 < len(os.Args) {
			return os.Args[i+1]
		}
	}
	return ""
}

// replay re-executes one recorded history (oracle checked at every step) and exits 1 if it still fails.
func replay(path string) {
	b, err := os.ReadFile(path)
	if err != nil {
		ev.Harness("replay: %v", err)
	}
	var rec struct {
		Signature string `json:"signature"`
		Replay    struct {
			Scenario string  `json:"scenario"`
			History  []event `json:"history"`
		} `json:"replay"`
	}
	if err := json.Unmarshal(b, &rec); err != nil {
		ev.Harness("replay: %v", err)
	}
	version := strings.TrimPrefix(rec.Replay.Scenario, "reload@")
	_, outcome, f := exec(version, rec.Replay.History, true)
	os.RemoveAll(workRoot)
	if f != nil {
		fmt.Printf("VIOLATION property=C27 replay=%s\n  detail: %s :: %s\n", path, f.Sig, f.What)
		os.Exit(1)
	}
	fmt.Printf("replay of %v as version %s: no violation (last outcome %s)\n", rec.Replay.History, version, outcome)
	os.Exit(0)
}

func main() {
	r := ev.New("C27", "model_checking")
	workRoot = os.Getenv("VERIF_WORK")
	if workRoot == "" {
		ev.Harness("VERIF_WORK not set (run through ./vcheck)")
	}
	workRoot = filepath.Join(workRoot, fmt.Sprintf("files_%d", os.Getpid()))
	os.RemoveAll(workRoot)
	if err := os.MkdirAll(workRoot, 0o755); err != nil {
		ev.Harness("%v", err)
	}
	defer os.RemoveAll(workRoot)

	if path := replayArg(); path != "" {
		replay(path)
	}
	if _, _, isShard := ev.ShardInfo(); isShard {
		lightListeners = true
		concurrentPart(r, "v2.5.0") // worker process of the E3 part: runs its scenario and exits
	}
	nCfg, nRules := ev.Pick(r, 8, len(cfgContents)), ev.Pick(r, 6, len(rulesContents))
	var alphabet []event
	alphabet = append(alphabet, event{Op: "reload"})
	for _, c := range cfgContents[:nCfg] {
		alphabet = append(alphabet, event{Op: "write", File: "config", C: c.ID})
	}
	for _, c := range rulesContents[:nRules] {
		alphabet = append(alphabet, event{Op: "write", File: "rules", C: c.ID})
	}
	alphabet = append(alphabet, event{Op: "pubsubReload"})
	alphabet = append(alphabet, event{Op: "report"})

	// running versions: one at/before the `lastversion` of the deprecated keys used (deprecations are warnings),
	// one after it (startup rejects them), and an unversioned development build ("dev": not a semver).
	versions := ev.Pick(r, []string{"v2.5.0", "v3.2.2"}, []string{"v2.5.0", "v3.2.2", "dev"})
	depth := ev.Pick(r, 12, 14)
	if d := os.Getenv("C27_BFS_DEPTH"); d != "" { // development aid: a shallower BFS (the run is then reported as capped)
		fmt.Sscan(d, &depth)
		r.Cap("C27_BFS_DEPTH override")
	}

	// determinism self-check: one fixed history executed twice must give the same canonical state
	probe := []event{{Op: "write", File: "config", C: "V1"}, {Op: "reload"}, {Op: "write", File: "rules", C: "R2"}, {Op: "pubsubReload"}, {Op: "reload"}}
	c1, o1, f1 := exec(versions[0], probe, true)
	c2, o2, f2 := exec(versions[0], probe, true)
	if c1 != c2 || o1 != o2 || (f1 == nil) != (f2 == nil) {
		ev.Harness("replaying one history twice diverged: %q/%q vs %q/%q", c1, o1, c2, o2)
	}

	// the (cheap) E3 part first, so that an internal deadline under load cuts the deep end of the BFS and not this
	concurrentPart(r, "v2.5.0")
	watcherPart(r, "v2.5.0") // the timer trigger through the real ConfigWatcher.monitor goroutine (watcher.go)
	for _, ver := range versions {
		v := ver
		seqx.Explore(r, seqx.Scenario[event]{
			Name:     "reload@" + v,
			Enabled:  func(h []event) []event { return alphabet },
			Exec:     func(h []event) (string, string, *seqx.Failure) { return exec(v, h, false) },
			MaxDepth: depth, Workers: 16,
			// every history of length <= 2 (thorough: 3; alphabet 16 / 19) is executed whatever the canonical key says; one
			// execution costs ~20 ms of CPU (files, NewConfig) and the quick tier has to stay inside its 8-minute budget
			NoMergeDepth: ev.Pick(r, 1, 2),
		})
	}
	r.Set("traces_validated_against_impl", r.Count("transitions"))
	r.Set("reloads_applied", stApplied.Load())
	r.Set("reloads_applied_with_startup_warning", stAppliedWarn.Load())
	r.Set("reloads_same_content", stSame.Load())
	r.Set("reloads_rejected", stRejected.Load())
	var ids []string
	for _, e := range alphabet {
		ids = append(ids, e.String())
	}
	r.Set("bounds", map[string]any{"alphabet": ids, "versions": versions, "depth": depth, "listeners": 2, "config_files": 1, "rules_files": 1})
	r.Assume("'content changed' = the bytes of the config/rules files differ from the bytes of the configuration currently running (the last one applied), not from the previous attempt")
	r.Assume("'applied' = every sampled getter (all zero-arg Get* of config.Config except GetConfigMetadata, plus sampler lookups for 2 datasets) equals the getter of a config freshly started on the same files with the same version string")
	r.Assume("a reload that startup would reject: only 'getters unchanged' is demanded (whether listeners are notified is not checked - the statement only speaks about applied and unchanged content); Reload's return value is not checked")
	r.Assume("a listener must see the new configuration through the getters at the moment it is notified (an 'applied change notifies')")
	r.Assume("canonical state = (version, bytes on disk, bytes running, real hashes, digest of all sampled getters): fileConfig has no other mutable state (callbacks are fixed), so equal states have equal futures")
	r.Assume("every explored history is an execution of the real fileConfig (NewConfig, Reload, ConfigWatcher.SubscriptionListener); the timer trigger is represented by its body cw.Config.Reload(); OpAMP-supplied config data and multi-file locations are outside the alphabet; concurrent triggers are covered by the E3 part (concurrent.go): timer ∥ pubsub ∥ reader over 6 change scenarios, all schedules up to the preemption bound")
	r.Finish()
}
