// C17: all nodes agree on which peer owns each trace (sharder level).
// Engine E2 (enumx): every subset (size 1..4) of 5 peer addresses x every order of the list x every node of the
// subset x {MockPeers, real FilePeers ("others..., self")} x {fresh start, started on an earlier list and then
// updated through the peers callback} x an enumerated trace-ID set. A real sharder.DeterministicSharder is built
// and Start()ed for every element. Oracle (differential + membership, no expected owner is hand-computed):
//   - the owner of an ID is the same for every order of the same list, on every node, whatever list was seen before;
//   - the owner is one of the listed addresses;
//   - WhichShard(id).Equals(MyShard()) (route.go) and MyShard().Equals(WhichShard(id)) (collect.go) are both true
//     exactly on the node whose own address is the owner -> exactly one node keeps the span, nobody forwards to itself.
package main

import (
	"fmt"
	"sort"
	"strings"

	"github.com/honeycombio/refinery/config"
	"github.com/honeycombio/refinery/logger"
	"github.com/honeycombio/refinery/sharder"

	"verif/engine/enumx"
	"verif/engine/ev"
)

// identifiers chosen so that string order != numeric order and upper/lower case both occur
var idents = []string{"10.0.0.1", "10.0.0.2", "10.0.0.10", "refinery-0", "Refinery-1"}

const port = "8081"

func addr(i int) string { return "http://" + idents[i] + ":" + port }

// enumerated trace-ID set: four shapes x a counter (no randomness).
func traceIDs(n int) []string {
	out := make([]string, 0, n+4)
	out = append(out, "", "0", "RCIVNUNA", strings.Repeat("f", 32))
	for i := 0; len(out) < n; i++ {
		x := uint64(i) * 0x9E3779B97F4A7C15
		switch i % 4 {
		case 0:
			out = append(out, fmt.Sprintf("%016x%016x", x, ^x)) // 128-bit W3C style
		case 1:
			out = append(out, fmt.Sprintf("%016x", x)) // 64-bit
		case 2:
			out = append(out, fmt.Sprintf("%d", i)) // short decimal
		case 3:
			out = append(out, fmt.Sprintf("trace-%d-%x", i, x&0xffff)) // free-form string id
		}
	}
	return out
}

type kase struct {
	subset []int  // indices into idents (sorted)
	list   []int  // the order in which this node sees the addresses (may contain a duplicate)
	self   int    // node identity
	kind   string // mock | file
	prior  []int  // list seen before the current one (nil = fresh start); mock only
	dupe   bool
}

func (k kase) String() string {
	return fmt.Sprintf("kind=%s self=%s list=%v prior=%v", k.kind, addr(k.self), addrs(k.list), addrs(k.prior))
}

func addrs(ix []int) []string {
	var o []string
	for _, i := range ix {
		o = append(o, addr(i))
	}
	return o
}

// build a real, started sharder for the node `self` seeing `list`.
func build(k kase) (*sharder.DeterministicSharder, error) {
	cfg := &config.MockConfig{GetPeerListenAddrVal: "0.0.0.0:" + port, PeerManagementType: "file", RedisIdentifier: idents[k.self]}
	s := &sharder.DeterministicSharder{Config: cfg, Logger: &logger.NullLogger{}}
	mock := sharder.VerifC17MockPeers(nil, "")
	switch k.kind {
	case "mock":
		first := k.list
		if k.prior != nil {
			first = k.prior
		}
		mock = sharder.VerifC17MockPeers(addrs(first), addr(k.self))
		if err := mock.Start(); err != nil {
			return nil, err
		}
		s.Peers = mock
	case "file":
		// documented form: Peers lists the other nodes; FilePeers appends this node's public address.
		var others []string
		for _, i := range k.list {
			if i != k.self {
				others = append(others, addr(i))
			}
		}
		cfg.GetPeersVal = others
		fp, err := sharder.VerifC17FilePeers(cfg)
		if err != nil {
			return nil, err
		}
		s.Peers = fp
	}
	if err := s.Start(); err != nil {
		return nil, err
	}
	if k.prior != nil {
		// the node has been answering lookups under the earlier list (every ID, the first one asked last, so that
		// the first lookup after the update repeats the last one before it): nothing of those answers may survive
		for _, id := range warmIDs {
			s.WhichShard(id)
		}
		if len(warmIDs) > 0 {
			s.WhichShard(warmIDs[0])
		}
		mock.UpdatePeers(addrs(k.list)) // fires the registered callback -> loadPeerList
	}
	return s, nil
}

// warmIDs: the IDs looked up under the earlier peer list of an "after-peer-update" case (set in main).
var warmIDs []string

func contains(s []int, x int) bool {
	for _, v := range s {
		if v == x {
			return true
		}
	}
	return false
}

func main() {
	r := ev.New("C17", "exploration")
	ids := traceIDs(ev.Pick(r, 4096, 65536))
	allPriors := r.Thorough()
	warmIDs = ids

	// ---- enumerate the cases ----
	var cases []kase
	subsets := enumx.Subsets(len(idents))
	for _, sub := range subsets {
		if len(sub) < 1 || len(sub) > 4 {
			continue
		}
		for _, p := range enumx.Perms(len(sub)) {
			list := make([]int, len(sub))
			for i, pi := range p {
				list[i] = sub[pi]
			}
			for _, self := range sub {
				cases = append(cases, kase{subset: sub, list: list, self: self, kind: "mock"})
				cases = append(cases, kase{subset: sub, list: list, self: self, kind: "file"})
				// histories: started on another list containing self, then updated to `list`
				for _, pr := range subsets {
					if len(pr) < 1 || !contains(pr, self) || fmt.Sprint(pr) == fmt.Sprint(sub) {
						continue
					}
					if !allPriors {
						// quick: same size, exactly one address replaced
						if len(pr) != len(sub) {
							continue
						}
						common := 0
						for _, v := range pr {
							if contains(sub, v) {
								common++
							}
						}
						if common != len(sub)-1 {
							continue
						}
					}
					cases = append(cases, kase{subset: sub, list: list, self: self, kind: "mock", prior: pr})
				}
			}
		}
	}
	// one duplicate-address list (same multiset in every order): {a, b, a}
	dup := []int{0, 1, 0}
	seenDup := map[string]bool{}
	for _, p := range enumx.Perms(3) {
		list := []int{dup[p[0]], dup[p[1]], dup[p[2]]}
		if seenDup[fmt.Sprint(list)] {
			continue
		}
		seenDup[fmt.Sprint(list)] = true
		for _, self := range []int{0, 1} {
			cases = append(cases, kase{subset: []int{0, 1}, list: list, self: self, kind: "mock", dupe: true})
		}
	}

	// ---- evaluate ----
	// per (list-as-multiset) group: owners[id] as first observed (by the lowest case index -> deterministic),
	// then every other case of the group is compared with it.
	type group struct {
		owners []string
		from   kase
	}
	groups := map[string]*group{}
	gkey := func(k kase) string {
		l := append([]int{}, k.list...)
		sort.Ints(l)
		return fmt.Sprint(l)
	}
	for _, k := range cases {
		if groups[gkey(k)] == nil {
			groups[gkey(k)] = &group{}
		}
	}
	// baseline per group = first case of that group in enumeration order (computed up front, sequentially cheap)
	for _, k := range cases {
		g := groups[gkey(k)]
		if g.owners != nil {
			continue
		}
		s, err := build(k)
		if err != nil {
			ev.Harness("cannot start sharder for %v: %v", k, err)
		}
		g.owners = make([]string, len(ids))
		for i, id := range ids {
			g.owners[i] = s.WhichShard(id).GetAddress()
		}
		g.from = k
	}

	enumx.Each(r, "lists", []int{len(cases)}, 16, func(idx []int) {
		k := cases[idx[0]]
		g := groups[gkey(k)]
		s, err := build(k)
		if err != nil {
			ev.Harness("cannot start sharder for %v: %v", k, err)
		}
		my := s.MyShard()
		if my == nil || my.GetAddress() != addr(k.self) {
			r.Violation("myshard-is-not-own-address", fmt.Sprintf("%v: MyShard()=%v", k, my), map[string]any{"case": k.String()})
			return
		}
		inList := map[string]bool{}
		for _, a := range addrs(k.list) {
			inList[a] = true
		}
		tag := k.kind
		if k.prior != nil {
			tag = "after-peer-update"
		}
		if k.dupe {
			tag = "duplicate-address"
		}
		claimed := 0
		for i, id := range ids {
			sh := s.WhichShard(id)
			owner := sh.GetAddress()
			if !inList[owner] {
				r.Violation("owner-not-in-peer-list:"+tag, fmt.Sprintf("%v: trace %q owned by %q which is not in the list", k, id, owner),
					map[string]any{"case": k.String(), "trace_id": id})
				return
			}
			if owner != g.owners[i] {
				what := "owner-depends-on-list-order-or-node"
				if k.prior != nil && g.from.prior == nil {
					what = "owner-depends-on-earlier-peer-list"
				}
				r.Violation(what+":"+tag, fmt.Sprintf("trace %q: owner %q for [%v] but %q for [%v] (same addresses)", id, owner, k, g.owners[i], g.from),
					map[string]any{"case": k.String(), "other": g.from.String(), "trace_id": id})
				return
			}
			a, b := sh.Equals(my), my.Equals(sh)
			want := owner == addr(k.self)
			if a != want || b != want {
				sig := "forwards-to-self"
				if !want {
					sig = "claims-foreign-trace"
				}
				r.Violation(sig+":"+tag, fmt.Sprintf("%v: trace %q owner=%q target.Equals(mine)=%v mine.Equals(target)=%v, expected %v", k, id, owner, a, b, want),
					map[string]any{"case": k.String(), "trace_id": id})
				return
			}
			if want {
				claimed++
			}
		}
		r.Add("owner_computations", int64(len(ids)))
		if claimed > 0 && claimed < len(ids) {
			r.Add("nodes_with_both_mine_and_foreign", 1)
		}
	})

	// exactly-one-owner per cluster and ID follows from: one agreed owner per group (checked above on every node),
	// owner ∈ list, and Equals(MyShard) ⇔ owner == own address on every node. Count it explicitly, and measure vacuity:
	// every address of every list must own at least one ID.
	fullCover := 0
	var gk []string
	for key := range groups {
		gk = append(gk, key)
	}
	sort.Strings(gk)
	for _, key := range gk {
		g := groups[key]
		owners := map[string]int{}
		for _, o := range g.owners {
			owners[o]++
		}
		distinctAddrs := map[string]bool{}
		for _, a := range addrs(g.from.list) {
			distinctAddrs[a] = true
		}
		if len(owners) == len(distinctAddrs) {
			fullCover++
		}
		if len(distinctAddrs) >= 2 {
			for o := range owners {
				r.Distinct("distinct_nontrivial", key+"|"+o)
			}
		}
	}
	r.Set("peer_lists_as_sets", len(groups))
	r.Set("peer_lists_where_every_peer_owns_some_id", fullCover)
	if fullCover != len(groups) {
		ev.Harness("vacuity: only %d of %d peer sets have every peer owning at least one of the %d ids", fullCover, len(groups), len(ids))
	}
	r.Set("cases", len(cases))
	r.Set("trace_ids", len(ids))
	r.Set("rule", "for one multiset of peer addresses: WhichShard(id) identical for every list order, every node, every earlier list; owner ∈ list; Equals(MyShard) both ways ⇔ owner == node's own address (so exactly one node keeps each id)")
	r.Set("bounds", map[string]any{"addresses": addrs([]int{0, 1, 2, 3, 4}), "subset_sizes": "1..4", "orders": "all permutations",
		"peer_sources": "MockPeers, FilePeers(others+self)", "earlier_lists": ev.Pick(r, "same size, one address replaced", "every other subset containing the node"), "duplicate_list": "{a,b,a} in all 3 orders"})
	r.Sample(map[string]any{"case": cases[0].String(), "owner_of_first_id": groups[gkey(cases[0])].owners[0]})
	r.Sample(map[string]any{"case": cases[len(cases)/2].String(), "owners_of_first_4_ids": groups[gkey(cases[len(cases)/2])].owners[:4]})
	r.Assume("sharder level only: the cluster clause (a span entering any node reaches the owner's collector after at most one forwarding hop through real routers) is NOT covered here; it belongs to the router/cluster fixture check. What is covered is its sharder-level core: on exactly one node of the cluster WhichShard(id).Equals(MyShard()) holds, and that node is the agreed owner")
	r.Assume("'same list in any order' is read as the same multiset of addresses; lists that differ in multiplicity of an address (e.g. file peers whose Peers setting also names the node itself, giving a different duplicate on every node) are not required to agree and are not enumerated")
	r.Assume("every node's own address is in the list it sees (a node absent from its own list cannot Start: it retries 5x5s and fails)")
	clusterPart(r)
	concurrentPart(r)
	r.Finish()
}
