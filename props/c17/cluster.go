package main

import (
	"fmt"
	"sort"

	"verif/engine/ev"
	"verif/fix/codec"
	"verif/fix/pipeline"
)

// Cluster-level clause of C17: every span of a trace entering ANY node of a stably configured cluster
// reaches the collector of that one owner after at most one forwarding hop, and no node forwards a span
// to itself. Three real nodes (real routers, sharders, peer transmissions over the in-memory network,
// capturing collectors) wired pairwise; for every entry node x every listener x every trace ID of an
// enumerated set that covers all three owners, the span is sent in and the whole cluster is flushed.
func clusterPart(r *ev.Run) {
	addrs := []string{"http://10.0.0.1:8081", "http://10.0.0.2:8081", "http://refinery-0:8081"}
	// each node sees the others in a different order
	orders := [][]int{{1, 2}, {2, 0}, {1, 0}}
	nodes := make([]*pipeline.Node, 3)
	for i := range nodes {
		nodes[i] = pipeline.New(pipeline.Options{Self: addrs[i], Peers: []string{addrs[orders[i][0]], addrs[orders[i][1]]}})
	}
	defer func() {
		for _, n := range nodes {
			n.Close()
		}
	}()
	for i, n := range nodes {
		for j, m := range nodes {
			if i != j {
				n.LinkPeer(addrs[j], m)
			}
		}
	}
	ids := traceIDs(ev.Pick(r, 96, 512))
	owners := map[string]int{}
	for _, entry := range []int{0, 1, 2} {
		for _, id := range ids {
			if id == "" {
				continue // no trace ID: not a span (C19's subject)
			}
			for _, n := range nodes {
				n.Reset()
			}
			e := codec.Event{Data: []codec.Field{codec.F("trace.trace_id", codec.Str(id)), codec.F("trace.parent_id", codec.Str("p")), codec.F("name", codec.Str("x"))}}
			resp := nodes[entry].Do(pipeline.Incoming, codec.Batch("ds", "key", codec.CTJSON, e))
			for round := 0; round < 3; round++ { // flush until nothing moves (a second hop would show up here)
				for _, n := range nodes {
					n.Flush()
				}
			}
			r.Add("evaluations", 1)
			owner := nodes[entry].Owner(id)
			ownerIdx := -1
			for i, a := range addrs {
				if a == owner {
					ownerIdx = i
				}
			}
			owners[owner]++
			sig, what := "", ""
			switch {
			case resp.Status != 200:
				sig, what = "cluster:request-rejected", fmt.Sprintf("status %d", resp.Status)
			case ownerIdx < 0:
				sig, what = "cluster:owner-not-a-peer", fmt.Sprintf("owner %q", owner)
			}
			var got []string
			hops := 0
			for i, n := range nodes {
				for _, rec := range n.Collector.Records() {
					if rec.TraceID == id {
						got = append(got, fmt.Sprintf("node%d/%s", i, rec.Via))
					}
				}
				for _, s := range n.Sent() {
					if s.Dest == "upstream" {
						continue
					}
					hops++
					if s.BaseURL == addrs[i] && sig == "" {
						sig, what = "cluster:forwarded-to-self", fmt.Sprintf("node %d sent the span to its own address %s", i, s.BaseURL)
					}
					if s.BaseURL != owner && sig == "" {
						sig, what = "cluster:forwarded-to-non-owner", fmt.Sprintf("node %d forwarded to %s, owner is %s", i, s.BaseURL, owner)
					}
				}
			}
			sort.Strings(got)
			wantVia := "incoming"
			wantHops := 0
			if ownerIdx != entry {
				wantVia, wantHops = "peer", 1
			}
			want := fmt.Sprintf("[node%d/%s]", ownerIdx, wantVia)
			if sig == "" && fmt.Sprint(got) != want {
				sig, what = "cluster:span-not-at-exactly-the-owner", fmt.Sprintf("collectors that received the span: %v, want %s", got, want)
			}
			if sig == "" && hops != wantHops {
				sig, what = "cluster:wrong-number-of-forwarding-hops", fmt.Sprintf("%d peer transmissions, want %d", hops, wantHops)
			}
			r.Distinct("distinct_nontrivial", fmt.Sprintf("cluster:entry%d->owner%d", entry, ownerIdx))
			if sig != "" {
				r.Violation(sig, fmt.Sprintf("trace %q entering node %d (owner %s): %s", id, entry, owner, what), map[string]any{"trace_id": id, "entry_node": entry, "peers": addrs})
			}
		}
	}
	r.Set("cluster_owner_distribution", owners)
	r.Set("cluster_nodes", 3)
}
