// C17, concurrent part (engine E3): a routing lookup (WhichShard, called by every request handler and collector
// goroutine) concurrent with a membership update (the peers callback -> loadPeerList). The sharder's mutex operations
// are scheduling points; all schedules up to the preemption bound. Oracle: the lookup returns (no panic: the caller is
// a request handler or a collector goroutine) and its answer is the owner under the peer list before the update or
// under the one after it — every node computes ownership from one consistent list, never from a mixture of two.
package main

import (
	"fmt"

	"github.com/honeycombio/refinery/config"
	"github.com/honeycombio/refinery/logger"
	"github.com/honeycombio/refinery/sharder"

	"verif/engine/ev"
	"verif/engine/vsched"
)

func concurrentPart(r *ev.Run) {
	bound := ev.Pick(r, 2, 3)
	// peer lists over three nodes that contain this node (index 0), before -> after
	lists := [][]int{{0}, {0, 1}, {0, 2}, {0, 1, 2}, {1, 0}, {2, 1, 0}}
	ids := traceIDs(ev.Pick(r, 6, 12))
	type pair struct{ before, after []int }
	var pairs []pair
	for _, b := range lists {
		for _, a := range lists {
			if fmt.Sprint(a) != fmt.Sprint(b) {
				pairs = append(pairs, pair{b, a})
			}
		}
	}
	owner := func(list []int, id string) string {
		s, err := build(kase{subset: list, list: list, self: 0, kind: "mock"})
		if err != nil {
			ev.Harness("C17 concurrent part: %v", err)
		}
		return s.WhichShard(id).GetAddress()
	}
	execs := 0
	for _, p := range pairs {
		if r.Expired("c17 concurrent") {
			break
		}
		for _, id := range ids {
			wantB, wantA := owner(p.before, id), owner(p.after, id)
			var s *sharder.DeterministicSharder
			var update func()
			var got string
			e := &vsched.Explorer{Bound: bound, Stop: func() bool { return r.Expired("c17 concurrent") }, Setup: func() {
				mock := sharder.VerifC17MockPeers(addrs(p.before), addr(0))
				if err := mock.Start(); err != nil {
					ev.Harness("%v", err)
				}
				s = &sharder.DeterministicSharder{Config: &config.MockConfig{GetPeerListenAddrVal: "0.0.0.0:" + port, PeerManagementType: "file", RedisIdentifier: idents[0]}, Logger: &logger.NullLogger{}}
				s.Peers = mock
				if err := s.Start(); err != nil {
					ev.Harness("C17 concurrent part: %v", err)
				}
				update = func() { mock.UpdatePeers(addrs(p.after)) }
				got = "(no answer)"
				vsched.Go("handler.WhichShard", func() { got = s.WhichShard(id).GetAddress() })
				vsched.Go("peers.callback", func() { update() })
			}, Check: func(x *vsched.Exec) string {
				if got != wantB && got != wantA {
					return fmt.Sprintf("owner-from-a-mixture-of-two-peer-lists: lookup of %s answered %s; owner under the list before the update %v is %s, under the list after it %v is %s", id, got, addrs(p.before), wantB, addrs(p.after), wantA)
				}
				// afterwards (sequential) the node answers from the new list
				if after := s.WhichShard(id).GetAddress(); after != wantA {
					return fmt.Sprintf("stale-owner-after-update: after the update completed the lookup of %s answers %s, the new list %v gives %s", id, after, addrs(p.after), wantA)
				}
				r.Distinct("distinct_outcomes", fmt.Sprintf("conc:%v->%v:%v", len(p.before), len(p.after), got == wantB))
				return ""
			}}
			ok := e.Explore()
			execs += e.Stats.Executions
			if !ok {
				r.Violation("concurrent:"+firstWord(e.Failure), fmt.Sprintf("lookup concurrent with the membership update %v -> %v (this node %s): %s", addrs(p.before), addrs(p.after), addr(0), e.Failure),
					map[string]any{"before": addrs(p.before), "after": addrs(p.after), "trace_id": id, "schedule": e.FailExec.Choices})
				r.Set("concurrent_executions", execs)
				return
			}
		}
	}
	r.Set("concurrent_executions", execs)
	r.Set("concurrent_preemption_bound_completed", bound)
	r.Set("concurrent_bounds", map[string]any{"peer_list_pairs": len(pairs), "trace_ids": len(ids), "threads": "WhichShard || peers callback (loadPeerList)"})
}

func firstWord(s string) string {
	for i, ch := range s {
		if ch == ':' || ch == ' ' {
			return s[:i]
		}
	}
	return s
}
