// C16: stress-relief decisions are deterministic, remembered and delivered intact.
//
// Engine E1 (seqx): breadth-first search over event histories on a REAL two-node cluster
//
//	node A, node B = fix/pipeline nodes (real routers behind the real mux, real DeterministicSharder, real
//	DirectTransmission x2 each over the in-memory network that decodes what is FINALLY serialised and where it is
//	sent), wired with LinkPeer in both directions, each with the REAL InMemCollector (fix/nodecoll, handler mode)
//	and the REAL collect.StressRelief (Mode always/never reloaded + Recalc(), SamplingRate per scenario).
//
// Alphabet: stress(node,on|off) · span(trace owned by A | by B, via node A | B, incoming listener[, root]) ·
// flush(upstream | peer transmission of node i) (the fixture's deterministic Flush = real Stop(): every pending
// batch goes through the real sendBatch) · tick (61 s on both collectors' fake clocks + the real send tick + the
// real sendTraces body: buffered traces get decided; the 3 s "recently dropped" set expires, so dropped decisions
// are then served from the cuckoo filter alone). A "late span" is simply a span event after stress(off).
//
// Oracle (written from the property statement, see model below), evaluated after every event on what the
// in-memory Honeycomb (Dest=="upstream") and the peer node finally received, and once more after a SETTLE phase
// (flush everything / tick until quiescent — one legal continuation of every history):
//
//	W1 every request sent by an upstream transmission goes to the Honeycomb API host;
//	W2 no event that reaches Honeycomb carries meta.refinery.probe=true;
//	W3 every event at Honeycomb is a span the clients sent, with exactly the client's fields, API key, dataset;
//	W4 no span reaches Honeycomb twice; a span whose trace was dropped never reaches it;
//	W5 a span kept by the stress rule while relief is active carries meta.stressed=true;
//	S1 while relief is active a span is decided at once (ProcessSpanImmediately) and its trace is not buffered;
//	S2 the immediate verdict equals the deterministic rule (same table for both nodes);
//	P1 a probe that reaches the owning peer is not handed to its collector;
//	F1 after settling, every span the model says is kept is at Honeycomb exactly once (decisions are remembered:
//	   late spans after relief ended follow the stress decision on the node that handles them).
//
// A second, exhaustive part evaluates the real rule on both nodes for 512 trace IDs x 14 sampling rates:
// same verdict on both nodes / on repetition / after relief was toggled, rate <= 1 keeps all, nested in the rate.
package main

import (
	"context"
	"crypto/sha256"
	"encoding/hex"
	"encoding/json"
	"fmt"
	"net/http"
	"os"
	"runtime/pprof"
	"sort"
	"strconv"
	"strings"
	"sync"
	"time"

	"github.com/honeycombio/refinery/collect"
	"github.com/honeycombio/refinery/collect/cache"
	"github.com/honeycombio/refinery/config"
	"github.com/honeycombio/refinery/logger"
	"github.com/honeycombio/refinery/pubsub"
	"github.com/honeycombio/refinery/types"

	"verif/engine/ev"
	"verif/engine/seqx"
	"verif/fix/codec"
	"verif/fix/nodecoll"
	"verif/fix/pipeline"
)

const (
	addrA    = "http://node-a.test:8081"
	addrB    = "http://node-b.test:8081"
	upstream = pipeline.DefaultUpstream
	bigRate  = 1 << 40
	dropRate = 1 << 30 // SampleRate of the "normal" sampler that drops (verified per trace ID at start-up)
)

var addrs = [2]string{addrA, addrB}
var nodeName = [2]string{"A", "B"}

// ---------------------------------------------------------------------------------------------
// scenario definition

type traceDef struct {
	ID       string
	Owner    int    // 0 = A, 1 = B
	Key      string // API key the client uses (classic key: no environment lookup)
	Dataset  string // selects the normal sampler: ds-keep-* rate 1, ds-drop-* rate 2^30
	RuleKeep bool   // verdict of the stress rule for (ID, scenario rate), learnt from a third real instance
	NormKeep bool   // verdict of the normal sampler of that dataset for ID, learnt at start-up
}

type scenarioDef struct {
	Name   string
	Rate   uint64
	Traces []traceDef
	Roots  bool // alphabet also contains root spans
}

type event struct {
	Op   string `json:"op"` // stress | span | flush | tick
	Node int    `json:"node"`
	On   bool   `json:"on,omitempty"`
	T    int    `json:"t,omitempty"`
	Root bool   `json:"root,omitempty"`
	Tx   string `json:"tx,omitempty"` // up | peer
}

func (e event) String() string {
	switch e.Op {
	case "stress":
		if e.On {
			return "stress(" + nodeName[e.Node] + ",on)"
		}
		return "stress(" + nodeName[e.Node] + ",off)"
	case "span":
		k := "child"
		if e.Root {
			k = "root"
		}
		return fmt.Sprintf("span(t%d,%s,via %s)", e.T, k, nodeName[e.Node])
	case "flush":
		return "flush(" + nodeName[e.Node] + "." + e.Tx + ")"
	}
	return "tick"
}

func histString(h []event) string {
	var s []string
	for _, e := range h {
		s = append(s, e.String())
	}
	return "[" + strings.Join(s, " ") + "]"
}

// ---------------------------------------------------------------------------------------------
// reference model (statement + README "Stress Relief"; nothing copied from the code)

type verdict int

const (
	vNone verdict = iota
	vKeep
	vDrop
	vUnknown // statement silent (trace was buffered before relief started): everything about it is unconstrained
)

const (
	ePending = iota // buffered, undecided
	eKeep
	eDrop
	eFree
	eInFlight // forwarded to the owner, not yet arrived
)

type mdec struct {
	v        verdict
	byStress bool
}

type mspan struct {
	id        string
	t         int
	via       int
	root      bool
	exp       int
	class     string // stress-first | stress-repeat | follow-late | normal | free
	wantMark  bool   // must carry meta.stressed
	hny       int    // times seen at Honeycomb (observation)
	decidedAt int    // node whose collector decides it (-1: none yet)
}

type mnode struct {
	stressed  bool
	dec       []mdec
	buf       [][]*mspan
	peerQ     []*mspan
	upDirty   bool
	peerDirty bool
}

type handled struct {
	sp        *mspan
	node      int
	immediate bool // model: relief active at that node -> decided at once, not buffered
}

type model struct {
	sc      *scenarioDef
	n       [2]mnode
	spans   []*mspan
	handled []handled // filled by the current step
}

func newModel(sc *scenarioDef) *model {
	m := &model{sc: sc}
	for i := range m.n {
		m.n[i].dec = make([]mdec, len(sc.Traces))
		m.n[i].buf = make([][]*mspan, len(sc.Traces))
	}
	return m
}

// handle: span sp arrives at node x (incoming listener, or peer listener when forwarded).
func (m *model) handle(x int, sp *mspan) {
	n := &m.n[x]
	t := sp.t
	owner := m.sc.Traces[t].Owner
	if n.stressed {
		m.handled = append(m.handled, handled{sp, x, true})
		d := n.dec[t]
		if d.v == vNone {
			if len(n.buf[t]) > 0 {
				// first seen BEFORE relief, still undecided: the statement does not cover it
				n.dec[t] = mdec{v: vUnknown}
			} else {
				v := vDrop
				if m.sc.Traces[t].RuleKeep {
					v = vKeep
				}
				n.dec[t] = mdec{v, true}
				sp.class = "stress-first"
			}
			d = n.dec[t]
		} else if d.byStress {
			sp.class = "stress-repeat"
		} else {
			sp.class = "follow-under-relief"
		}
		sp.decidedAt = x
		switch d.v {
		case vKeep:
			sp.exp, sp.wantMark = eKeep, d.byStress
			n.upDirty = true
			if owner != x {
				n.peerDirty = true // a probe may be queued for the owner
			}
		case vDrop:
			sp.exp = eDrop
		default:
			sp.exp, sp.class = eFree, "free"
			n.upDirty = true
			if owner != x {
				n.peerDirty = true
			}
		}
		return
	}
	if owner != x {
		// not ours, no relief: forwarded to the owner when the peer transmission is flushed
		sp.exp = eInFlight
		n.peerQ = append(n.peerQ, sp)
		n.peerDirty = true
		return
	}
	m.handled = append(m.handled, handled{sp, x, false})
	sp.decidedAt = x
	if len(n.buf[t]) > 0 {
		n.buf[t] = append(n.buf[t], sp)
		sp.exp = ePending
		return
	}
	switch n.dec[t].v {
	case vNone:
		n.buf[t] = []*mspan{sp}
		sp.exp = ePending
	case vKeep:
		sp.exp, sp.class = eKeep, "follow-late"
		n.upDirty = true
	case vDrop:
		sp.exp, sp.class = eDrop, "follow-late"
	default:
		sp.exp, sp.class = eFree, "free"
		n.upDirty = true
	}
}

func (m *model) apply(e event, idx int) *mspan {
	m.handled = m.handled[:0]
	switch e.Op {
	case "stress":
		m.n[e.Node].stressed = e.On
	case "span":
		sp := &mspan{id: fmt.Sprintf("s%d", idx), t: e.T, via: e.Node, root: e.Root, decidedAt: -1}
		m.spans = append(m.spans, sp)
		m.handle(e.Node, sp)
		return sp
	case "flush":
		n := &m.n[e.Node]
		if e.Tx == "up" {
			n.upDirty = false
		} else {
			q := n.peerQ
			n.peerQ, n.peerDirty = nil, false
			for _, sp := range q {
				m.handle(1-e.Node, sp)
			}
		}
	case "tick":
		for x := range m.n {
			n := &m.n[x]
			for t, b := range n.buf {
				if len(b) == 0 {
					continue
				}
				keep := m.sc.Traces[t].NormKeep
				for _, sp := range b {
					switch {
					case n.dec[t].v == vUnknown:
						sp.exp, sp.class = eFree, "free"
					case keep:
						sp.exp, sp.class = eKeep, "normal"
					default:
						sp.exp, sp.class = eDrop, "normal"
					}
				}
				if keep || n.dec[t].v == vUnknown {
					n.upDirty = true
				}
				if n.dec[t].v == vNone {
					if keep {
						n.dec[t] = mdec{vKeep, false}
					} else {
						n.dec[t] = mdec{vDrop, false}
					}
				}
				n.buf[t] = nil
			}
		}
	}
	return nil
}

func (m *model) anyBuffered() bool {
	for x := range m.n {
		for _, b := range m.n[x].buf {
			if len(b) > 0 {
				return true
			}
		}
	}
	return false
}

func (m *model) quiescent() bool {
	for x := range m.n {
		if m.n[x].upDirty || m.n[x].peerDirty {
			return false
		}
	}
	return !m.anyBuffered()
}

func (m *model) state() string {
	var sb strings.Builder
	for x := range m.n {
		n := &m.n[x]
		fmt.Fprintf(&sb, "N%d s=%v u=%v p=%v|", x, n.stressed, n.upDirty, n.peerDirty)
		for t := range n.dec {
			fmt.Fprintf(&sb, "t%d:%d/%v b[", t, n.dec[t].v, n.dec[t].byStress)
			for _, sp := range n.buf[t] {
				sb.WriteString(spanDesc(sp))
			}
			sb.WriteString("]")
		}
		sb.WriteString(" q[")
		for _, sp := range n.peerQ {
			sb.WriteString(spanDesc(sp))
		}
		sb.WriteString("]\n")
	}
	return sb.String()
}

func spanDesc(sp *mspan) string {
	if sp == nil {
		return "(?)"
	}
	return fmt.Sprintf("(t%d r%v e%d h%d m%v)", sp.t, sp.root, sp.exp, sp.hny, sp.wantMark)
}

// enabled: the menu after history h, from the model alone (a function of the canonical state).
func (sc *scenarioDef) enabled(h []event) []event {
	m := newModel(sc)
	for i, e := range h {
		m.apply(e, i)
	}
	var out []event
	for x := 0; x < 2; x++ {
		out = append(out, event{Op: "stress", Node: x, On: !m.n[x].stressed})
	}
	for t := range sc.Traces {
		for x := 0; x < 2; x++ {
			out = append(out, event{Op: "span", Node: x, T: t})
		}
	}
	if sc.Roots {
		for t := range sc.Traces {
			for x := 0; x < 2; x++ {
				out = append(out, event{Op: "span", Node: x, T: t, Root: true})
			}
		}
	}
	for x := 0; x < 2; x++ {
		if m.n[x].upDirty {
			out = append(out, event{Op: "flush", Node: x, Tx: "up"})
		}
		if m.n[x].peerDirty {
			out = append(out, event{Op: "flush", Node: x, Tx: "peer"})
		}
	}
	if m.anyBuffered() {
		out = append(out, event{Op: "tick"})
	}
	return out
}

// ---------------------------------------------------------------------------------------------
// the real cluster

type handover struct {
	Via       string // incoming | peer | immediate
	TraceID   string
	Probe     bool
	Processed bool
	Kept      bool
	Ev        *types.Event
}

// collWrap is what the routers talk to: it records every hand-over (under the cluster's handler lock or on
// the driving goroutine) and delegates to the real collector.
type collWrap struct {
	real *nodecoll.Real
	log  []handover
}

var _ collect.Collector = (*collWrap)(nil)

func (c *collWrap) AddSpan(sp *types.Span) error {
	c.log = append(c.log, handover{Via: "incoming", TraceID: sp.TraceID, Probe: sp.Data.MetaRefineryProbe.Value, Ev: sp.Event})
	return c.real.AddSpan(sp)
}
func (c *collWrap) AddSpanFromPeer(sp *types.Span) error {
	c.log = append(c.log, handover{Via: "peer", TraceID: sp.TraceID, Probe: sp.Data.MetaRefineryProbe.Value, Ev: sp.Event})
	return c.real.AddSpanFromPeer(sp)
}
func (c *collWrap) Stressed() bool { return c.real.Stressed() }
func (c *collWrap) GetStressedSampleRate(id string) (uint, bool, string) {
	return c.real.GetStressedSampleRate(id)
}
func (c *collWrap) ProcessSpanImmediately(sp *types.Span) (bool, bool) {
	probe := sp.Data.MetaRefineryProbe.Value
	p, k := c.real.ProcessSpanImmediately(sp)
	c.log = append(c.log, handover{Via: "immediate", TraceID: sp.TraceID, Probe: probe, Processed: p, Kept: k, Ev: sp.Event})
	return p, k
}

type pend struct {
	ev        *types.Event
	hostAtEnq string
}

// txWrap sits between routers/collector and the fixture's Tx: pure pass-through that remembers which event
// objects are pending (= enqueued since the last Flush; Flush sends everything).
type txWrap struct {
	inner   *pipeline.Tx
	mu      sync.Mutex
	pending []pend
}

func (t *txWrap) EnqueueEvent(e *types.Event) {
	t.mu.Lock()
	t.pending = append(t.pending, pend{e, e.APIHost})
	t.mu.Unlock()
	t.inner.EnqueueEvent(e)
}
func (t *txWrap) EnqueueSpan(sp *types.Span) {
	t.mu.Lock()
	t.pending = append(t.pending, pend{sp.Event, sp.APIHost})
	t.mu.Unlock()
	t.inner.EnqueueSpan(sp)
}
func (t *txWrap) Flush() {
	t.mu.Lock()
	t.pending = nil
	t.mu.Unlock()
	t.inner.Flush()
}
func (t *txWrap) snapshot() []pend {
	t.mu.Lock()
	defer t.mu.Unlock()
	return append([]pend(nil), t.pending...)
}

type stubPubSub struct{}
type stubSub struct{}

func (stubSub) Close()                                                      {}
func (stubPubSub) Publish(ctx context.Context, topic, message string) error { return nil }
func (stubPubSub) Subscribe(ctx context.Context, topic string, cb pubsub.SubscriptionCallback) pubsub.Subscription {
	return stubSub{}
}
func (stubPubSub) FormatTopic(topic string) string { return topic }
func (stubPubSub) Close()                          {}
func (stubPubSub) Start() error                    { return nil }
func (stubPubSub) Stop() error                     { return nil }

type cluster struct {
	n       [2]*pipeline.Node
	rc      [2]*nodecoll.Real
	cw      [2]*collWrap
	tx      [2][2]*txWrap // [node][0 up, 1 peer]
	sr      [2]*collect.StressRelief
	ctl     [2]*cache.VerifSentCacheCtl
	lastSeq [2]int
	cbIdx   [2]int     // index of the current collector's reload callback in the node's MockConfig
	hmu     sync.Mutex // serialises the peer handlers (a flush may send several batches concurrently)
}

// serialHandler serialises requests to one node's peer mux: the real collector in handler mode is driven by
// one goroutine at a time, and one Flush may send several batches (different key/dataset) concurrently.
type serialHandler struct {
	mu *sync.Mutex
	h  http.Handler
}

func (s serialHandler) ServeHTTP(w http.ResponseWriter, r *http.Request) {
	s.mu.Lock()
	defer s.mu.Unlock()
	s.h.ServeHTTP(w, r)
}

func newConfig() *config.MockConfig {
	cfg := pipeline.DefaultConfig()
	det := func(rate int) *config.V2SamplerChoice {
		return &config.V2SamplerChoice{DeterministicSampler: &config.DeterministicSamplerConfig{SampleRate: rate}}
	}
	cfg.Samplers = map[string]*config.V2SamplerChoice{
		"ds-keep-a": det(1), "ds-keep-b": det(1), "ds-drop-a": det(dropRate), "ds-drop-b": det(dropRate),
	}
	cfg.StressRelief = config.StressReliefConfig{Mode: "never", ActivationLevel: 90, DeactivationLevel: 70,
		SamplingRate: 2, MinimumActivationDuration: config.Duration(10 * time.Second)}
	nodecoll.Prepare(cfg)
	return cfg
}

func newCluster() *cluster {
	c := &cluster{}
	for i := 0; i < 2; i++ {
		i := i
		c.n[i] = pipeline.New(pipeline.Options{Config: newConfig(), Self: addrs[i], Peers: []string{addrs[1-i]}, MaxBatchSize: 128,
			Collector: func(n *pipeline.Node) collect.Collector {
				c.rc[i] = nodecoll.New(n)
				c.cbIdx[i] = len(n.Cfg.Callbacks) - 1 // registered last, by the collector's start
				c.rc[i].OutgoingCap = 16              // >= traces decided per tick (<= 2 per scenario)
				c.cw[i] = &collWrap{real: c.rc[i]}
				return c.cw[i]
			}})
		c.tx[i][0] = &txWrap{inner: c.n[i].UpTx}
		c.tx[i][1] = &txWrap{inner: c.n[i].PeerTx}
		for _, r := range c.n[i].Routers {
			r.UpstreamTransmission, r.PeerTransmission = c.tx[i][0], c.tx[i][1]
		}
	}
	for i := 0; i < 2; i++ {
		shim := *c.n[1-i]
		shim.Handlers[pipeline.Peer] = serialHandler{&c.hmu, c.n[1-i].Handlers[pipeline.Peer]}
		c.n[i].LinkPeer(addrs[1-i], &shim)
	}
	return c
}

// reset brings the cluster to the initial state of an execution: nothing pending, nothing captured, fresh
// real collectors (empty trace buffer and decision caches) and fresh real StressRelief objects.
func (c *cluster) reset(rate uint64) {
	for round := 0; round < 3; round++ {
		for i := 0; i < 2; i++ {
			c.tx[i][0].Flush()
			c.tx[i][1].Flush()
		}
	}
	for i := 0; i < 2; i++ {
		n := c.n[i]
		n.Net.Reset()
		c.lastSeq[i] = 0
		n.Cfg.Mux.Lock()
		n.Cfg.StressRelief.Mode = "never"
		n.Cfg.StressRelief.SamplingRate = rate
		n.Cfg.Mux.Unlock()
		nCb := len(n.Cfg.Callbacks)
		c.rc[i].Reset()
		// every collector registers a reload callback that keeps it reachable for ever: drop the one of the
		// collector that has just been stopped (nothing in this check reloads a configuration)
		n.Cfg.Mux.Lock()
		if len(n.Cfg.Callbacks) != nCb+1 {
			ev.Harness("a fresh collector registered %d reload callbacks, expected 1", len(n.Cfg.Callbacks)-nCb)
		}
		n.Cfg.Callbacks[c.cbIdx[i]] = n.Cfg.Callbacks[nCb]
		n.Cfg.Callbacks[nCb] = nil
		n.Cfg.Callbacks = n.Cfg.Callbacks[:nCb]
		n.Cfg.Mux.Unlock()
		coll := c.rc[i].Coll
		coll.Transmission, coll.PeerTransmission = c.tx[i][0], c.tx[i][1]
		sr := &collect.StressRelief{RefineryMetrics: n.Metrics, Config: n.Cfg, Logger: &logger.NullLogger{},
			Health: &collect.VerifHealth{}, PubSub: stubPubSub{}, Peer: collect.VerifC15Peers(addrs[i]),
			Clock: c.rc[i].Clock, Done: make(chan struct{})}
		collect.VerifC15NoBackground(sr)
		if err := sr.Start(); err != nil {
			ev.Harness("StressRelief.Start: %v", err)
		}
		coll.StressRelief = sr
		sr.UpdateFromConfig() // what InMemCollector.Start() does with the injected reliever
		sr.Recalc()
		c.sr[i] = sr
		ctl, ok := cache.VerifControl(coll.VerifSampleCache(0))
		if !ok {
			ev.Harness("sample cache is not the cuckoo sent cache")
		}
		ctl.StopDrainer()           // the 100 µs REAL-time drainer: its body is run after every event instead
		ctl.SetClock(c.rc[i].Clock) // "recently dropped" TTL set on the collector's fake clock
		c.ctl[i] = ctl
		c.cw[i].log = nil
		if c.sr[i].Stressed() {
			ev.Harness("fresh StressRelief in mode never reports Stressed()")
		}
	}
}

func (c *cluster) setStress(i int, on bool) {
	cfg := c.n[i].Cfg
	cfg.Mux.Lock()
	if on {
		cfg.StressRelief.Mode = "always"
	} else {
		cfg.StressRelief.Mode = "never"
	}
	cfg.Mux.Unlock()
	c.sr[i].UpdateFromConfig() // reload callback
	c.sr[i].Recalc()           // the 100 ms monitor tick body
	if c.cw[i].Stressed() != on {
		ev.Harness("stress(%s,%v): Stressed() = %v after reload+Recalc", nodeName[i], on, !on)
	}
}

func (c *cluster) close() {
	for i := 0; i < 2; i++ {
		c.rc[i].Close()
		c.n[i].Close()
	}
}

// newRequests returns node i's batch requests captured since the previous call, deterministic order.
func (c *cluster) newRequests(i int) []*pipeline.Captured {
	var out []*pipeline.Captured
	max := c.lastSeq[i]
	for _, r := range c.n[i].Net.Requests() {
		if r.Seq > c.lastSeq[i] {
			if r.Seq > max {
				max = r.Seq
			}
			if r.IsBatch {
				out = append(out, r)
			}
		}
	}
	c.lastSeq[i] = max
	return out
}

var (
	poolMu sync.Mutex
	pool   []*cluster
	allCl  []*cluster
)

func getCluster() *cluster {
	poolMu.Lock()
	if n := len(pool); n > 0 {
		c := pool[n-1]
		pool = pool[:n-1]
		poolMu.Unlock()
		return c
	}
	poolMu.Unlock()
	c := newCluster()
	poolMu.Lock()
	allCl = append(allCl, c)
	poolMu.Unlock()
	return c
}

func putCluster(c *cluster) {
	poolMu.Lock()
	pool = append(pool, c)
	poolMu.Unlock()
}

// ---------------------------------------------------------------------------------------------
// one execution

type run struct {
	sc      *scenarioDef
	cl      *cluster
	m       *model
	byID    map[string]*mspan
	byEv    map[*types.Event]*mspan
	idLoss  bool // identity of some live event object unknown -> never merge this state
	verbose bool
	facts   map[string]bool // outcome label material
	nSteps  int
}

func (x *run) fail(sig, format string, a ...any) *seqx.Failure {
	return &seqx.Failure{Sig: sig, What: fmt.Sprintf("[SamplingRate %d] ", x.sc.Rate) + fmt.Sprintf(format, a...)}
}

func (sc *scenarioDef) ruleClass() string {
	if sc.Rate <= 1 {
		return "rate<=1"
	}
	return "rate>1"
}

func clientFields(td traceDef, sp *mspan) []codec.Field {
	fs := []codec.Field{codec.F("trace.trace_id", codec.Str(td.ID))}
	if !sp.root {
		fs = append(fs, codec.F("trace.parent_id", codec.Str("p-"+td.ID)))
	}
	return append(fs, codec.F("sid", codec.Str(sp.id)), codec.F("name", codec.Str("op "+sp.id)), codec.F("n", codec.Int(int64(40+len(sp.id)))))
}

func describeReq(r *pipeline.Captured) string {
	var evs []string
	for _, e := range r.Events {
		sid, _ := e.Data.Get("sid")
		d := "sid=" + sid.S
		for _, k := range []string{"meta.stressed", "meta.refinery.probe"} {
			if v, ok := e.Data.Get(k); ok {
				d += fmt.Sprintf(" %s=%v", k, v.Native())
			}
		}
		evs = append(evs, "{"+d+"}")
	}
	return fmt.Sprintf("POST %s%s X-Honeycomb-Team=%s Content-Encoding=%q events=%s", r.BaseURL, r.Path, r.APIKey, r.Header.Get("Content-Encoding"), strings.Join(evs, ","))
}

// wire checks everything node i sent during the current step; src is the transmission that was flushed.
func (x *run) wire(i int, src string) *seqx.Failure {
	for _, r := range x.cl.newRequests(i) {
		if x.verbose {
			fmt.Printf("      wire %s.%s -> [%s] %s\n", nodeName[i], src, r.Dest, describeReq(r))
		}
		if src == "" {
			ev.Harness("node %s sent a batch outside a flush event: %s", nodeName[i], describeReq(r))
		}
		if r.BodyErr != "" {
			return x.fail("wire:undecodable-request", "%s: %s", describeReq(r), r.BodyErr)
		}
		if src == "up" && (r.Dest != "upstream" || r.BaseURL != upstream) {
			// W1
			first := "other"
			if len(r.Events) > 0 {
				if v, ok := r.Events[0].Data.Get("meta.refinery.probe"); ok && v.Kind == codec.KBool && v.Bool {
					first = "probe-flagged"
				}
			}
			return x.fail("wire:upstream-transmission-sent-batch-to-"+r.Dest+"-host:first-event-"+first,
				"node %s's UPSTREAM transmission sent a batch to %s (a %s address) instead of the Honeycomb API %s: %s",
				nodeName[i], r.BaseURL, r.Dest, upstream, describeReq(r))
		}
		if src == "peer" && r.Dest != "peer" {
			return x.fail("wire:peer-transmission-sent-batch-to-"+r.Dest+"-host", "node %s's peer transmission sent: %s", nodeName[i], describeReq(r))
		}
		if r.Dest == "peer" {
			for _, e := range r.Events {
				if v, ok := e.Data.Get("meta.refinery.probe"); ok && v.Kind == codec.KBool && v.Bool {
					x.facts["probe-to-peer"] = true
				} else {
					x.facts["span-forwarded"] = true
				}
			}
		}
		if r.Dest != "upstream" {
			continue
		}
		for _, e := range r.Events {
			if f := x.atHoneycomb(i, r, e); f != nil {
				return f
			}
		}
	}
	return nil
}

func (x *run) atHoneycomb(i int, r *pipeline.Captured, e pipeline.WireEvent) *seqx.Failure {
	// W2
	if v, ok := e.Data.Get("meta.refinery.probe"); ok && v.Kind == codec.KBool && v.Bool {
		return x.fail("wire:probe-flag-reached-honeycomb", "node %s sent an event carrying meta.refinery.probe=true to Honeycomb: %s", nodeName[i], describeReq(r))
	}
	sidv, ok := e.Data.Get("sid")
	sp := x.byID[sidv.S]
	if !ok || sp == nil {
		return x.fail("wire:unknown-event-at-honeycomb", "event %s is not a span any client sent: %s", e.Data.Canon(), describeReq(r))
	}
	td := x.sc.Traces[sp.t]
	cls := sp.class
	if cls == "" {
		cls = "undecided"
	}
	sp.hny++
	// W4
	if sp.hny > 1 {
		return x.fail("wire:span-delivered-twice:"+cls, "span %s (trace %s) reached Honeycomb %d times; last: %s", sp.id, td.ID, sp.hny, describeReq(r))
	}
	if sp.exp == eDrop {
		return x.fail("wire:dropped-span-at-honeycomb:"+cls, "span %s of trace %s (decision: drop, class %s) reached Honeycomb: %s", sp.id, td.ID, cls, describeReq(r))
	}
	// W3
	if r.APIKey != td.Key {
		return x.fail("wire:apikey-changed", "span %s sent with API key %q, client used %q", sp.id, r.APIKey, td.Key)
	}
	if r.Dataset != td.Dataset {
		return x.fail("wire:dataset-changed", "span %s sent to dataset %q, client used %q", sp.id, r.Dataset, td.Dataset)
	}
	want := map[string]codec.Value{}
	for _, f := range clientFields(td, sp) {
		want[f.Key] = f.Val
	}
	for k, w := range want {
		g, ok := e.Data.Get(k)
		if !ok || g.Canon() != w.Canon() {
			return x.fail("wire:client-field-changed:"+k, "span %s field %q: sent %s, Honeycomb got %s (present=%v)", sp.id, k, w.Canon(), g.Canon(), ok)
		}
	}
	for _, k := range e.Data.Keys() {
		if _, ok := want[k]; !ok && !strings.HasPrefix(k, "meta.") {
			return x.fail("wire:unexpected-field", "span %s arrived with an extra field %q", sp.id, k)
		}
	}
	// W5
	if sp.exp == eKeep && sp.wantMark {
		if v, ok := e.Data.Get("meta.stressed"); !ok || v.Kind != codec.KBool || !v.Bool {
			return x.fail("wire:stress-kept-span-not-marked:"+cls, "span %s kept by the stress rule reached Honeycomb without meta.stressed=true: %s", sp.id, describeReq(r))
		}
	}
	x.facts["hny:"+cls] = true
	return nil
}

// handovers compares what the collectors were given during this step with the model (S1, S2, P1) and learns
// which event object is which span.
func (x *run) handovers(spanEv *mspan, spanNode int) *seqx.Failure {
	var real []struct {
		node int
		h    handover
	}
	for i := 0; i < 2; i++ {
		for _, h := range x.cl.cw[i].log {
			real = append(real, struct {
				node int
				h    handover
			}{i, h})
		}
		x.cl.cw[i].log = nil
	}
	for _, r := range real {
		if x.verbose {
			fmt.Printf("      collector %s: %s trace=%s probe=%v processed=%v kept=%v\n", nodeName[r.node], r.h.Via, r.h.TraceID, r.h.Probe, r.h.Processed, r.h.Kept)
		}
		if r.h.Probe {
			return x.fail("peer:probe-handed-to-collector", "node %s's router handed an event with meta.refinery.probe=true to its collector (%s, trace %s)", nodeName[r.node], r.h.Via, r.h.TraceID)
		}
	}
	// (in a step all hand-overs happen on one node: the span's entry node or the flushed node's peer)
	if len(real) > len(x.m.handled) {
		// P1 (second half): something the clients never sent to this collector was collected as a span — e.g. a
		// probe that lost its flag, i.e. a copy of a span that was already decided and sent by the other node
		extra := real[len(real)-1]
		for k, rh := range real {
			if k >= len(x.m.handled) || x.m.handled[k].node != rh.node || x.sc.Traces[x.m.handled[k].sp.t].ID != rh.h.TraceID {
				extra = rh
				break
			}
		}
		return x.fail("peer:collector-given-a-span-nobody-sent-it", "node %s's collector was handed (%s) an event of trace %s although every span sent so far is accounted for elsewhere (%d hand-overs, %d expected)", nodeName[extra.node], extra.h.Via, extra.h.TraceID, len(real), len(x.m.handled))
	}
	if len(real) < len(x.m.handled) {
		x.idLoss = true
		return nil // a lost hand-over shows up on the wire (F1); nothing to compare pairwise
	}
	for k, mh := range x.m.handled {
		rh := real[k]
		td := x.sc.Traces[mh.sp.t]
		if rh.node != mh.node || rh.h.TraceID != td.ID {
			x.idLoss = true
			return nil
		}
		x.byEv[rh.h.Ev] = mh.sp
		if mh.immediate {
			// S1
			if rh.h.Via != "immediate" || !rh.h.Processed {
				return x.fail("state:span-not-decided-at-once-while-relief-active", "node %s (relief active) handed span %s of trace %s to %s (processed=%v)", nodeName[mh.node], mh.sp.id, td.ID, rh.h.Via, rh.h.Processed)
			}
			// S2
			if mh.sp.exp == eKeep || mh.sp.exp == eDrop {
				if rh.h.Kept != (mh.sp.exp == eKeep) {
					return x.fail("decision:immediate-verdict-differs:"+mh.sp.class, "node %s decided kept=%v for span %s of trace %s at rate %d; expected kept=%v (%s)", nodeName[mh.node], rh.h.Kept, mh.sp.id, td.ID, x.sc.Rate, mh.sp.exp == eKeep, mh.sp.class)
				}
			}
		}
	}
	// S1, state side: a trace the model does not buffer must not sit in a stressed node's trace buffer
	for i := 0; i < 2; i++ {
		if !x.m.n[i].stressed {
			continue
		}
		for t, td := range x.sc.Traces {
			if len(x.m.n[i].buf[t]) == 0 && x.cl.rc[i].Coll.VerifBufferedTrace(td.ID) != nil {
				return x.fail("state:trace-buffered-while-relief-active", "node %s (relief active) holds trace %s in its trace buffer", nodeName[i], td.ID)
			}
		}
	}
	// a span that was forwarded without touching a collector: learn its event object from the peer queue
	if spanEv != nil && len(x.m.handled) == 0 {
		ps := x.cl.tx[spanNode][1].snapshot()
		if len(ps) > 0 {
			last := ps[len(ps)-1].ev
			if _, known := x.byEv[last]; !known && last.Data.MetaTraceID == x.sc.Traces[spanEv.t].ID {
				x.byEv[last] = spanEv
			}
		}
	}
	return nil
}

func (x *run) step(e event, idx int) *seqx.Failure {
	x.nSteps++
	if x.verbose {
		fmt.Printf("  %2d %s\n", idx, e)
	}
	sp := x.m.apply(e, idx)
	src := [2]string{}
	switch e.Op {
	case "stress":
		x.cl.setStress(e.Node, e.On)
	case "span":
		x.byID[sp.id] = sp
		td := x.sc.Traces[sp.t]
		resp := x.cl.n[e.Node].Do(pipeline.Incoming, codec.Batch(td.Dataset, td.Key, codec.CTMsgpack, codec.Event{Data: clientFields(td, sp)}))
		if st := resp.BatchStatuses(); resp.Status != 200 || len(st) != 1 || st[0] != 202 {
			return x.fail("ingest:span-not-accepted", "node %s answered %d %s to span %s", nodeName[e.Node], resp.Status, string(resp.Body), sp.id)
		}
	case "flush":
		k := 0
		if e.Tx == "peer" {
			k = 1
		}
		x.cl.tx[e.Node][k].Flush()
		src[e.Node] = e.Tx
	case "tick":
		for i := 0; i < 2; i++ {
			ds := x.cl.rc[i].Decide()
			x.cl.rc[i].Send()
			if x.verbose {
				for _, d := range ds {
					fmt.Printf("      collector %s tick: trace %s %s\n", nodeName[i], d.TraceID, d)
				}
			}
		}
	}
	for i := 0; i < 2; i++ {
		x.cl.ctl[i].Drain() // the sent cache's drainer tick (every 100 µs in production)
	}
	for i := 0; i < 2; i++ {
		if f := x.wire(i, src[i]); f != nil {
			return f
		}
	}
	return x.handovers(sp, e.Node)
}

// canon: see the argument in main(). "" = do not merge.
func (x *run) canon() string {
	if x.idLoss || os.Getenv("C16_NOMERGE") != "" {
		return ""
	}
	var sb strings.Builder
	sb.WriteString(x.m.state())
	hostClass := func(h string) string {
		switch h {
		case upstream:
			return "H"
		case addrA:
			return "A"
		case addrB:
			return "B"
		}
		return h
	}
	for i := 0; i < 2; i++ {
		fmt.Fprintf(&sb, "R%d s=%v|", i, x.cl.cw[i].Stressed())
		for _, td := range x.sc.Traces {
			_, kept := x.cl.ctl[i].KeptPeek(td.ID)
			kp, _ := x.cl.ctl[i].KeptPeek(td.ID)
			fmt.Fprintf(&sb, "%v/%d/%v/%v b[", kept, kp.Rate, x.cl.ctl[i].InRecentDropped(td.ID), x.cl.ctl[i].InDroppedFilter(td.ID))
			if tr := x.cl.rc[i].Coll.VerifBufferedTrace(td.ID); tr != nil {
				fmt.Fprintf(&sb, "sent=%v ", tr.Sent)
				for _, s := range tr.GetSpans() {
					sp, ok := x.byEv[s.Event]
					if !ok {
						return ""
					}
					sb.WriteString(spanDesc(sp))
				}
			}
			sb.WriteString("]")
		}
		fmt.Fprintf(&sb, " pd=%d", x.cl.ctl[i].PendingDropped())
		for k := 0; k < 2; k++ {
			fmt.Fprintf(&sb, " q%d[", k)
			for _, p := range x.cl.tx[i][k].snapshot() {
				sp, ok := x.byEv[p.ev]
				probe := p.ev.Data.MetaRefineryProbe.Value
				if !ok && !probe {
					return ""
				}
				fmt.Fprintf(&sb, "%s%s>%s p%v s%v %s;", spanDesc(sp), hostClass(p.hostAtEnq), hostClass(p.ev.APIHost), probe, p.ev.Data.MetaStressed.Value, p.ev.Data.MetaTraceID)
			}
			sb.WriteString("]")
		}
		sb.WriteString("\n")
	}
	return sb.String()
}

// settle: one legal continuation of every history — every transmission is flushed and buffered traces are
// decided until nothing is pending anywhere. The relief switches stay as the history left them.
func (x *run) settle(base int) *seqx.Failure {
	realDirty := func() bool {
		for i := 0; i < 2; i++ {
			for k := 0; k < 2; k++ {
				if len(x.cl.tx[i][k].snapshot()) > 0 {
					return true
				}
			}
			for _, td := range x.sc.Traces {
				if x.cl.rc[i].Coll.VerifBufferedTrace(td.ID) != nil {
					return true
				}
			}
		}
		return false
	}
	for round := 0; round < 8; round++ {
		if x.m.quiescent() && !realDirty() {
			return nil
		}
		if x.verbose {
			fmt.Printf("  settle round %d\n", round)
		}
		seq := []event{{Op: "flush", Node: 0, Tx: "up"}, {Op: "flush", Node: 0, Tx: "peer"}, {Op: "flush", Node: 1, Tx: "up"}, {Op: "flush", Node: 1, Tx: "peer"}, {Op: "tick"}}
		for _, e := range seq {
			if f := x.step(e, base); f != nil {
				return f // (no separate signature: every history is settled, so a latent fault always shows here first)
			}
		}
	}
	return x.fail("final:cluster-never-quiescent", "after 8 rounds of flushing every transmission and ticking, events are still pending")
}

func (x *run) final() *seqx.Failure {
	for _, sp := range x.m.spans {
		td := x.sc.Traces[sp.t]
		owned := "owned-by-deciding-node"
		if sp.decidedAt >= 0 && td.Owner != sp.decidedAt {
			owned = "not-owned-by-deciding-node"
		}
		switch sp.exp {
		case eKeep:
			if sp.hny != 1 {
				// F1
				return x.fail("final:kept-span-not-at-honeycomb:"+sp.class+":"+owned, "span %s of trace %s (%s, decided on node %s, %s) reached Honeycomb %d times after everything was flushed; expected exactly once", sp.id, td.ID, sp.class, nodeName[max(sp.decidedAt, 0)], owned, sp.hny)
			}
		case eDrop:
			if sp.hny != 0 {
				return x.fail("final:dropped-span-at-honeycomb:"+sp.class, "span %s of trace %s reached Honeycomb", sp.id, td.ID)
			}
		case ePending, eInFlight:
			ev.Harness("model not settled: span %s still %d", sp.id, sp.exp)
		}
	}
	return nil
}

func (sc *scenarioDef) exec(h []event, verbose bool) (string, string, *seqx.Failure) {
	cl := getCluster()
	defer putCluster(cl)
	cl.reset(sc.Rate)
	x := &run{sc: sc, cl: cl, m: newModel(sc), byID: map[string]*mspan{}, byEv: map[*types.Event]*mspan{}, verbose: verbose, facts: map[string]bool{}}
	for i, e := range h {
		if f := x.step(e, i); f != nil {
			return "", "", f
		}
	}
	canon := x.canon()
	if canon != "" && !verbose {
		sum := sha256.Sum256([]byte(canon)) // the key is ~1.5 kB of text; a million states are kept
		canon = hex.EncodeToString(sum[:20])
	}
	if f := x.settle(len(h)); f != nil {
		return "", "", f
	}
	if f := x.final(); f != nil {
		return "", "", f
	}
	// outcome label: what happened on the wire + how the spans ended
	var fs []string
	for k := range x.facts {
		fs = append(fs, k)
	}
	cnt := map[string]int{}
	for _, sp := range x.m.spans {
		cnt[fmt.Sprintf("%s/e%d/h%d", sp.class, sp.exp, sp.hny)]++
	}
	for k, v := range cnt {
		fs = append(fs, fmt.Sprintf("%s x%d", k, v))
		note("span_fates(class/expectation/deliveries)", sc.ruleClass()+" "+k)
	}
	for k := range x.facts {
		note("wire_facts", sc.ruleClass()+" "+k)
	}
	R.Add("events_executed_on_the_cluster", int64(x.nSteps))
	sort.Strings(fs)
	return canon, strings.Join(fs, ","), nil
}

// ---------------------------------------------------------------------------------------------
// start-up: the rule table (exhaustive part) and the choice of trace IDs

var rates = []uint64{0, 1, 2, 3, 4, 5, 8, 10, 16, 100, 1000, 1_000_000, bigRate, ^uint64(0)}

type ruleTable struct {
	ids  []string
	keep map[uint64]map[string]bool
}

func ruleEnumeration(r *ev.Run) *ruleTable {
	cl := getCluster()
	defer putCluster(cl)
	cl.reset(2)
	var ids []string
	ids = append(ids, cl.n[0].TraceIDs(addrA, 256, "tr-")...)
	ids = append(ids, cl.n[0].TraceIDs(addrB, 256, "tr-")...)
	sort.Strings(ids)
	tab := &ruleTable{ids: ids, keep: map[uint64]map[string]bool{}}
	setRate := func(rate uint64) {
		for i := 0; i < 2; i++ {
			cfg := cl.n[i].Cfg
			cfg.Mux.Lock()
			cfg.StressRelief.SamplingRate = rate
			cfg.Mux.Unlock()
			cl.sr[i].UpdateFromConfig()
			cl.sr[i].Recalc()
		}
	}
	var prev map[string]bool
	var prevRate uint64
	for ri, rate := range rates {
		if ri%2 == 1 {
			// every other rate arrives by a reload WHILE relief is active (the previous rate's passes end with
			// relief off): a SamplingRate reloaded during an activation is in force at once, like one reloaded before
			cl.setStress(0, true)
			cl.setStress(1, true)
			r.Add("rule_rates_reloaded_while_relief_active", 1)
		}
		setRate(rate)
		keep := map[string]bool{}
		nKept := 0
		for pass := 0; pass < 3; pass++ {
			if pass == 1 { // relief toggled in between
				cl.setStress(0, true)
				cl.setStress(1, true)
			}
			if pass == 2 {
				cl.setStress(0, false)
				cl.setStress(1, false)
			}
			for _, id := range ids {
				var got [2]bool
				for i := 0; i < 2; i++ {
					rt, k, _ := cl.cw[i].GetStressedSampleRate(id)
					got[i] = k
					r.Add("rule_evaluations", 1)
					wantRate := rate
					if rate <= 1 {
						wantRate = 1
					}
					if uint64(rt) != wantRate {
						r.Violation("rule:reported-rate-differs-from-SamplingRate", fmt.Sprintf("node %s reports rate %d for SamplingRate %d", nodeName[i], rt, rate), map[string]any{"id": id, "rate": rate})
					}
				}
				if got[0] != got[1] {
					r.Violation("rule:nodes-disagree", fmt.Sprintf("trace %s at rate %d: node A keep=%v, node B keep=%v", id, rate, got[0], got[1]), map[string]any{"id": id, "rate": rate})
				}
				if pass == 0 {
					keep[id] = got[0]
					if got[0] {
						nKept++
					}
				} else if keep[id] != got[0] {
					r.Violation("rule:verdict-changes-over-time", fmt.Sprintf("trace %s at rate %d: keep=%v then keep=%v", id, rate, keep[id], got[0]), map[string]any{"id": id, "rate": rate})
				}
				if rate <= 1 && !got[0] {
					r.Violation("rule:rate<=1-drops", fmt.Sprintf("trace %s dropped at SamplingRate %d", id, rate), map[string]any{"id": id, "rate": rate})
				}
			}
		}
		if prev != nil && rate > 1 {
			for _, id := range ids {
				if keep[id] && !prev[id] {
					r.Violation("rule:not-nested", fmt.Sprintf("trace %s kept at rate %d but dropped at the lower rate %d", id, rate, prevRate), map[string]any{"id": id, "rate": rate})
				}
			}
		}
		// the same rate on reliever objects that were never configured otherwise (fresh cluster): the verdict
		// must not depend on the configuration history of the object
		fresh := getCluster()
		fresh.reset(rate)
		for _, id := range ids {
			for i := 0; i < 2; i++ {
				_, k, _ := fresh.cw[i].GetStressedSampleRate(id)
				r.Add("rule_evaluations", 1)
				if k != keep[id] {
					r.Violation("rule:verdict-depends-on-configuration-history", fmt.Sprintf("trace %s at rate %d: keep=%v on a reliever reloaded from other rates, keep=%v on node %s's fresh one", id, rate, keep[id], k, nodeName[i]), map[string]any{"id": id, "rate": rate})
				}
			}
		}
		putCluster(fresh)
		r.Set(fmt.Sprintf("rule_kept_of_%d_at_rate_%d", len(ids), rate), nKept)
		if nKept > 0 && nKept < len(ids) {
			r.Distinct("rule_rates_with_both_verdicts", fmt.Sprint(rate))
		}
		tab.keep[rate] = keep
		prev, prevRate = keep, rate
	}
	if got := len(tab.keep[^uint64(0)]); got == 0 {
		ev.Harness("empty rule table")
	}
	nAll := 0
	for _, k := range tab.keep[^uint64(0)] {
		if k {
			nAll++
		}
	}
	if nAll > len(ids)/8 {
		r.Violation("rule:huge-rate-keeps-many", fmt.Sprintf("SamplingRate 2^64-1 keeps %d of %d traces", nAll, len(ids)), nil)
	}
	return tab
}

// normalVerdicts: keep verdict of dataset ds's normal sampler for every id, on its owner (real collector, no relief)
func normalVerdicts(ids []string, owner int, ds string) map[string]bool {
	cl := getCluster()
	defer putCluster(cl)
	cl.reset(2)
	cl.rc[owner].OutgoingCap = 1024
	cl.reset(2)
	var evs []codec.Event
	for _, id := range ids {
		evs = append(evs, codec.Event{Data: []codec.Field{codec.F("trace.trace_id", codec.Str(id)), codec.F("sid", codec.Str("cal"))}})
	}
	resp := cl.n[owner].Do(pipeline.Incoming, codec.Batch(ds, strings.Repeat("c", 32), codec.CTMsgpack, evs...))
	if resp.Status != 200 {
		ev.Harness("calibration batch answered %d", resp.Status)
	}
	out := map[string]bool{}
	for _, d := range cl.rc[owner].Decide() {
		out[d.TraceID] = d.Keep
	}
	cl.rc[owner].Send()
	if len(out) != len(ids) {
		ev.Harness("calibration: %d decisions for %d traces", len(out), len(ids))
	}
	cl.rc[owner].OutgoingCap = 16
	return out
}

func buildScenarios(r *ev.Run, tab *ruleTable) []*scenarioDef {
	cl := getCluster()
	owner := map[string]int{}
	for _, id := range tab.ids {
		if cl.n[0].Owner(id) == addrA {
			owner[id] = 0
		} else {
			owner[id] = 1
		}
		if (cl.n[1].Owner(id) == addrA) != (owner[id] == 0) {
			ev.Harness("nodes disagree on the owner of %s", id)
		}
	}
	putCluster(cl)
	var byOwner [2][]string
	for _, id := range tab.ids {
		byOwner[owner[id]] = append(byOwner[owner[id]], id)
	}
	suffix := [2]string{"a", "b"}
	normKeepOnDropDS := [2]map[string]bool{}
	for o := 0; o < 2; o++ {
		normKeepOnDropDS[o] = normalVerdicts(byOwner[o][:64], o, "ds-drop-"+suffix[o])
	}
	for id, k := range normalVerdicts(byOwner[1][:64], 1, "ds-drop-a") { // used by the shared-dataset scenario
		if k != normKeepOnDropDS[1][id] {
			ev.Harness("the drop samplers of ds-drop-a and ds-drop-b disagree on trace %s", id)
		}
	}
	for o := 0; o < 2; o++ {
		for id, k := range normalVerdicts(byOwner[o][:64], o, "ds-keep-"+suffix[o]) {
			if !k {
				ev.Harness("the rate-1 sampler of ds-keep-%s dropped trace %s", suffix[o], id)
			}
		}
	}
	// pick(owner, keptAt2) -> first ID of that class that the drop sampler really drops and rate 2^40 drops
	pick := func(o int, keepAt2 bool) string {
		for _, id := range byOwner[o][:64] {
			if tab.keep[2][id] == keepAt2 && !normKeepOnDropDS[o][id] && !tab.keep[bigRate][id] {
				return id
			}
		}
		ev.Harness("no trace ID owned by %s with keep@2=%v", nodeName[o], keepAt2)
		return ""
	}
	keys := [2]string{strings.Repeat("a", 31) + "1", strings.Repeat("b", 31) + "2"}
	mk := func(name string, rate uint64, kA, kB, shared bool) *scenarioDef {
		sc := &scenarioDef{Name: name, Rate: rate}
		for o, k2 := range []bool{kA, kB} {
			id := pick(o, k2)
			rk := tab.keep[rate][id]
			// the normal sampler is the OPPOSITE of the stress verdict, so that a forgotten stress decision
			// changes what Honeycomb receives
			ko := o
			if shared {
				ko = 0 // both traces use one API key and one dataset: their spans share transmission batches
			}
			ds := "ds-drop-" + suffix[ko]
			if !rk {
				ds = "ds-keep-" + suffix[ko]
			}
			sc.Traces = append(sc.Traces, traceDef{ID: id, Owner: o, Key: keys[ko], Dataset: ds, RuleKeep: rk, NormKeep: !rk})
		}
		return sc
	}
	scs := []*scenarioDef{
		mk("rate2-aKeep-bDrop", 2, true, false, false),
		mk("rate2-aDrop-bKeep", 2, false, true, false),
		mk("rate1-keeps-all", 1, false, false, false), // IDs that rate 2 would drop
		mk("rate2^40-drops-all", bigRate, true, true, false),
		mk("rate1-shared-key-and-dataset", 1, false, false, true),
	}
	for _, sc := range scs {
		r.Sample(map[string]any{"scenario": sc.Name, "rate": sc.Rate, "traces": sc.Traces})
	}
	return scs
}

// ---------------------------------------------------------------------------------------------

// R is the run (coverage counters are added from the executions).
var R *ev.Run

var (
	noteMu sync.Mutex
	notes  = map[string]map[string]bool{}
)

// note records a distinct coverage value; the sorted lists go into the evidence (vacuity guard).
func note(class, val string) {
	noteMu.Lock()
	if notes[class] == nil {
		notes[class] = map[string]bool{}
	}
	notes[class][val] = true
	noteMu.Unlock()
}

func main() {
	r := ev.New("C16", "model_checking")
	R = r
	if p := os.Getenv("C16_CPUPROF"); p != "" {
		if f, err := os.Create(p); err == nil {
			pprof.StartCPUProfile(f)
			defer pprof.StopCPUProfile()
		}
	}
	nodecoll.Conformance()

	tab := ruleEnumeration(r)
	if r.NViolations() > 0 {
		// the rule itself is not a pure nested function of (trace ID, rate): the table the histories would be
		// judged against is meaningless, report and stop
		r.Add("states", 0)
		r.Add("transitions", 0)
		r.Set("traces_validated_against_impl", 0)
		r.Cap("rule table inconsistent: histories not explored")
		r.Finish()
	}
	scs := buildScenarios(r, tab)

	// --replay <file>: print one history step by step
	for i, a := range os.Args {
		if a == "--replay" && i+1 < len(os.Args) {
			replay(scs, os.Args[i+1])
			return
		}
	}

	// start-up determinism self-check: one history, two executions, identical canon and outcome
	probe := []event{{Op: "stress", Node: 0, On: true}, {Op: "span", Node: 0, T: 0}, {Op: "span", Node: 1, T: 0}, {Op: "flush", Node: 1, Tx: "peer"}, {Op: "stress", Node: 0, On: false}, {Op: "span", Node: 0, T: 0}, {Op: "tick"}}
	c1, o1, f1 := scs[0].exec(probe, false)
	c2, o2, f2 := scs[0].exec(probe, false)
	if c1 != c2 || o1 != o2 || (f1 == nil) != (f2 == nil) || (f1 != nil && f1.Sig != f2.Sig) {
		ev.Harness("the same history gave two different observations:\n%s\n%s\n%v\n---\n%s\n%s\n%v", c1, o1, f1, c2, o2, f2)
	}

	depth := ev.Pick(r, 5, 7)
	if d, err := strconv.Atoi(os.Getenv("C16_DEPTH")); err == nil && d > 0 {
		depth = d // experiments only
	}
	workers := 16
	for si, sc := range scs {
		sc := sc
		d := depth
		if si >= 2 {
			d = depth - 1 // the uniform-verdict scenarios are explored one level less deep
		}
		sc.Roots = r.Thorough() && si == 0 // root spans double the span alphabet: first scenario only
		seqx.Explore(r, seqx.Scenario[event]{
			Name:     sc.Name,
			Enabled:  sc.enabled,
			Exec:     func(h []event) (string, string, *seqx.Failure) { return sc.exec(h, false) },
			MaxDepth: d, Workers: workers,
			// every history of length <= 4 is executed whatever the canonical key says
			NoMergeDepth: 3,
		})
	}
	for class, vals := range notes {
		var l []string
		for v := range vals {
			l = append(l, v)
		}
		sort.Strings(l)
		r.Set(class, l)
		r.Set("n_"+class, len(l))
	}
	r.Set("traces_validated_against_impl", r.Count("transitions"))
	r.Set("bounds", map[string]any{"depth": depth, "scenarios": len(scs), "rates": rates, "rule_ids": len(tab.ids),
		"depth_of_uniform_and_shared_scenarios": depth - 1,
		"alphabet":                              "stress(A|B,toggle) span(t0|t1, via A|B; thorough: also root spans in the first scenario) flush(A|B . up|peer, when possibly non-empty) tick(when something is buffered); every execution ends with a settle phase"})
	r.Assume("the stress rule is treated as an uninterpreted pure function of (trace ID, SamplingRate): the check demands equality across nodes / time, rate<=1 keeps all, nestedness in the rate, and obedience to that table — not a particular hash")
	r.Assume("weakest reading of 'remembered': a stress decision binds later spans on the node that took it and handles them (relief still active there, or the node owns the trace); a late span of a non-owned trace is forwarded to the owner after relief ended and is decided there")
	r.Assume("a trace that was already buffered (first seen before relief) when a span of it arrives during relief is outside the statement: its spans are unconstrained (class free) apart from W1-W4")
	r.Assume("meta.stressed is demanded only on spans kept by the stress rule while relief is active; other kept spans may or may not carry it")
	r.Assume("exactly-once is judged after a settle phase (flush all transmissions, tick, until quiescent) appended to every history; at-most-once and all content clauses are judged after every event")
	r.Assume("canonical state = model state + per node (Stressed(), per trace: kept-cache record and rate / recent-dropped / dropped-filter membership, trace-buffer content) + per transmission the ordered pending event objects (span class, host at enqueue, CURRENT host, CURRENT probe and stressed flags); spans are anonymous up to (trace, root, expectation, deliveries so far). Not in the key: LRU recency (capacity 16 >= traces), span counters of kept records (only feed meta.*count fields the oracle ignores), absolute clock values (every tick decides everything buffered and expires the whole 3 s set), metrics")
	poolMu.Lock()
	for _, c := range allCl {
		c.close()
	}
	poolMu.Unlock()
	pprof.StopCPUProfile()
	r.Finish()
}

func replay(scs []*scenarioDef, path string) {
	b, err := os.ReadFile(path)
	if err != nil {
		ev.Harness("replay: %v", err)
	}
	var doc struct {
		Replay struct {
			Scenario string  `json:"scenario"`
			History  []event `json:"history"`
		} `json:"replay"`
	}
	if err := json.Unmarshal(b, &doc); err != nil {
		ev.Harness("replay: %v", err)
	}
	for _, sc := range scs {
		if sc.Name == doc.Replay.Scenario {
			fmt.Printf("scenario %s rate=%d\n", sc.Name, sc.Rate)
			for t, td := range sc.Traces {
				fmt.Printf("  t%d = %s owned by %s, key %s, dataset %s, stress rule keep=%v, normal sampler keep=%v\n", t, td.ID, nodeName[td.Owner], td.Key, td.Dataset, td.RuleKeep, td.NormKeep)
			}
			fmt.Printf("history %s\n", histString(doc.Replay.History))
			_, o, f := sc.exec(doc.Replay.History, true)
			if f != nil {
				fmt.Printf("VIOLATION %s\n  %s\n", f.Sig, f.What)
				os.Exit(1)
			}
			fmt.Printf("ok: %s\n", o)
			os.Exit(0)
		}
	}
	ev.Harness("replay: unknown scenario %q", doc.Replay.Scenario)
}
