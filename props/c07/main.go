// C07: memory-pressure ejection decides traces rather than discarding them (DESIGN §6 C07).
//
// Four exhaustive parts, all on the real code (part R — consecutive overage rounds on one worker, every request consumed
// by the worker's real collect() loop — is described in rounds.go):
//
//	(B) buffer product — every buffer of 1..4 traces × data size class {small, medium, large} × age class
//	    {fresh, ½ TraceTimeout, > TraceTimeout} (× shape of the first trace: one child / one root / two spans of different
//	    ages) × every `bytes` ∈ {0, P−1, P, P+1 for every prefix sum P of the heaviest-first order}, executed with the real
//	    sendTracesEarly(bytes) (handler mode), followed by the real sendTraces body, a later send tick and a second tick.
//	(H) histories — seqx BFS over span / clock advance / eject(bytes) / tick / send histories, so that ejection happens at
//	    any point of a trace's life (growing traces, repeated ejections, already decided neighbours).
//	(A) overage split — the REAL InMemCollector.checkAlloc, running against really started worker loops and the real
//	    sendTraces goroutine, with a heap reading owned by the harness (hook zz_verif_c07.go: checkAlloc samples
//	    /gc/gomemlimit:bytes, which debug.SetMemoryLimit sets) for 1..3 workers × overages on both sides of every
//	    boundary of the per-worker share, plus below / at the limit and "no limit configured".
//
// Time: package `types` is built with its `time` import redirected to verif/shim/vtime (check.conf), whose clock is
// frozen at G. Span.ArrivalTime (written by Trace.AddSpan from that clock) is re-stamped by the harness to G − age, where
// age is the span's age on the fixture's fake clock, before every ejection: CacheImpact's time.Since is then exactly
// the age on the fake clock, with no wall-clock reading anywhere.
//
// Reference model (from the statement; the impact estimate from the doc comments of types/event.go): a span's estimated
// impact is its data size × (⌊4·age/TraceTimeout⌋ + 1), a trace's the sum over its spans. An ejection with share `bytes`
// walks the buffered traces heaviest estimate first and stops as soon as the data size released so far EXCEEDS `bytes`
// (or the buffer is empty). Ties in the estimate: any order is accepted. Every ejected trace is decided by the configured
// sampler, forwarded (kept) or not (dropped), counted under trace_send_ejected_memsize when forwarded — the same way a
// timed-out trace is counted under trace_send_expired (checked against a twin run in which the same buffer times out) —
// and leaves the buffer and its deadline queue; nothing else changes.
package main

import (
	"encoding/json"
	"fmt"
	"os"
	"runtime/debug"
	"sort"
	"strings"
	"sync"
	"time"

	"github.com/jonboulle/clockwork"

	"github.com/honeycombio/refinery/collect"
	"github.com/honeycombio/refinery/config"

	"verif/engine/enumx"
	"verif/engine/ev"
	"verif/engine/seqx"
	fx "verif/fix/collector"
	"verif/fix/collector/cx"
	"verif/shim/vtime"
)

const timeout = 40 * time.Second

var (
	// G is the frozen reading of the (shimmed) wall clock used by package types.
	G     = fx.T0.Add(1000 * time.Hour)
	ages  = []time.Duration{0, timeout / 2, timeout + timeout/4}
	pads  = []int{16, 160, 1600, hugePad} // class 3 (huge) is only used by part R (rounds.go)
	tconf = config.TracesConfig{SendDelay: config.Duration(time.Second), TraceTimeout: config.Duration(timeout), SendTicker: config.Duration(100 * time.Millisecond)}
)

const (
	fReason     = "meta.refinery.reason"
	fSendReason = "meta.refinery.send_reason"
)

func det2() any { return &config.DeterministicSamplerConfig{SampleRate: 2} }

// ---------------------------------------------------------------- model

type mspan struct {
	id      string
	size    int
	arrived time.Time // fixture clock
}

type mtrace struct {
	id      string
	keep    bool // verdict of the deterministic sampler for this ID (fixed at ID selection)
	spans   []*mspan
	sendBy  time.Time
	memo    int64 // estimate computed by an earlier ejection and not invalidated by a new span (0 = none)
	hasRoot bool
}

func (t *mtrace) size() int {
	n := 0
	for _, s := range t.spans {
		n += s.size
	}
	return n
}

func (t *mtrace) impact(now time.Time) int64 {
	var n int64
	for _, s := range t.spans {
		age := now.Sub(s.arrived)
		n += int64(s.size) * (int64(4*age/timeout) + 1)
	}
	return n
}

// validSets: every set (bitmask over ts) that "heaviest first until the released size exceeds bytes" can produce,
// over all orders that are non-increasing in the estimate.
func validSets(imp []int64, size []int, bytes int) map[uint]bool {
	out := map[uint]bool{}
	n := len(imp)
	for _, p := range enumx.Perms(n) {
		ok := true
		for k := 1; k < n; k++ {
			if imp[p[k-1]] < imp[p[k]] {
				ok = false
				break
			}
		}
		if !ok {
			continue
		}
		var e uint
		sum := 0
		for _, i := range p {
			e |= 1 << uint(i)
			sum += size[i]
			if sum > bytes {
				break
			}
		}
		out[e] = true
	}
	return out
}

func maskStr(ts []*mtrace, m uint) string {
	var p []string
	for i, t := range ts {
		if m&(1<<uint(i)) != 0 {
			p = append(p, t.id)
		}
	}
	return "{" + strings.Join(p, ",") + "}"
}

func setsStr(ts []*mtrace, v map[uint]bool) string {
	var p []string
	for m := range v {
		p = append(p, maskStr(ts, m))
	}
	sort.Strings(p)
	return strings.Join(p, " or ")
}

// restamp writes G−age into every buffered span of worker w (see the header).
func restamp(f *fx.Fixture, w int, arrived map[string]time.Time) {
	now := f.Now()
	for _, tv := range f.Buffered(w) {
		for _, sp := range tv.Ptr.GetSpans() {
			a, ok := arrived[fx.SpanID(sp)]
			if !ok {
				ev.Harness("C07: buffered span %q unknown to the harness", fx.SpanID(sp))
			}
			sp.ArrivalTime = G.Add(-now.Sub(a))
		}
	}
}

type failure struct{ sig, what string }

func failf(sig, format string, a ...any) *failure {
	return &failure{"c07:" + sig, fmt.Sprintf(format, a...)}
}

// ejectAndCheck runs the real sendTracesEarly(bytes) on worker w of f (handler mode) and evaluates the whole oracle of
// one ejection. ts = the model of the traces buffered on worker w (in any order); others = model traces on other workers.
// allowMemo: estimates memoised by an earlier ejection are admissible alternatives (history part).
// via: how the request reaches the worker — nil = the handler sendTracesEarly(bytes) called directly, otherwise e.g.
// (*fx.Fixture).EjectViaLoop (a sendEarly{bytes} request consumed by the worker's real collect() loop, part R).
func ejectAndCheck(f *fx.Fixture, w int, ts []*mtrace, others []*mtrace, arrived map[string]time.Time, bytes int, allowMemo bool, stats func(string), via func(*fx.Fixture, int, int)) (uint, *failure) {
	now := f.Now()
	restamp(f, w, arrived)
	before := map[string]fx.TraceView{}
	for _, v := range f.BufferedAll() {
		before[v.TraceID] = v
	}
	if len(before) != len(ts)+len(others) {
		ev.Harness("C07: buffer holds %d traces, model %d", len(before), len(ts)+len(others))
	}
	size := make([]int, len(ts))
	fresh := make([]int64, len(ts))
	for i, t := range ts {
		v, ok := before[t.id]
		if !ok || v.Worker != w {
			ev.Harness("C07: model trace %s is not buffered on worker %d", t.id, w)
		}
		if v.DataSize != t.size() {
			ev.Harness("C07: trace %s has DataSize %d, model %d", t.id, v.DataSize, t.size())
		}
		size[i] = v.DataSize
		fresh[i] = t.impact(now)
	}
	c0 := f.SendReasonCounters()
	kept0, dropped0 := f.Counter("trace_send_kept"), f.Counter("trace_send_dropped")
	q0 := len(f.Outgoing())
	tx0 := f.Tx.Len()

	if via != nil {
		via(f, w, bytes)
	} else {
		f.Eject(w, bytes)
	}

	after := map[string]fx.TraceView{}
	for _, v := range f.BufferedAll() {
		after[v.TraceID] = v
	}
	var e uint
	for i, t := range ts {
		if _, still := after[t.id]; !still {
			e |= 1 << uint(i)
		}
	}
	// 1. which traces
	valid := validSets(fresh, size, bytes)
	usedMemo := false
	if !valid[e] && allowMemo {
		// any combination of memoised estimates
		var withMemo []int
		for i, t := range ts {
			if t.memo != 0 && t.memo != fresh[i] {
				withMemo = append(withMemo, i)
			}
		}
		for m := 1; m < 1<<uint(len(withMemo)) && !usedMemo; m++ {
			imp := append([]int64{}, fresh...)
			for k, i := range withMemo {
				if m&(1<<uint(k)) != 0 {
					imp[i] = ts[i].memo
				}
			}
			if validSets(imp, size, bytes)[e] {
				usedMemo = true
			}
		}
	}
	desc := func() string {
		var p []string
		for i, t := range ts {
			var sp []string
			for _, s := range t.spans {
				sp = append(sp, fmt.Sprintf("%dB@age %v", s.size, now.Sub(s.arrived)))
			}
			m := ""
			if allowMemo && t.memo != 0 {
				m = fmt.Sprintf(" (estimate of an earlier ejection: %d)", t.memo)
			}
			p = append(p, fmt.Sprintf("%s[%s; data size %d; estimated impact %d%s]", t.id, strings.Join(sp, ", "), size[i], fresh[i], m))
		}
		return strings.Join(p, " ")
	}
	if !valid[e] && !usedMemo {
		total := 0
		for _, s := range size {
			total += s
		}
		class := "wrong-set"
		ne, nv := popcount(e), -1
		for m := range valid {
			nv = popcount(m)
		}
		switch {
		case e == 0 && len(ts) > 0:
			class = "nothing-ejected"
		case ne < nv:
			class = "stopped-too-early"
		case ne > nv:
			class = "ejected-too-much"
		default:
			class = "not-heaviest-first"
		}
		return e, failf("ejected-set:"+class, "sendTracesEarly(%d) on worker %d ejected %s, expected %s (heaviest estimated impact first until the released data size exceeds %d); buffer: %s",
			bytes, w, maskStr(ts, e), setsStr(ts, valid), bytes, desc())
	}
	if usedMemo {
		stats("order explained only by an estimate memoised at an earlier ejection")
	}
	if len(valid) > 1 {
		// which of the tied traces goes first is the runtime's choice (map order, unstable sort): every choice is checked
		// in full below, but only the tie itself is counted, so that the evidence counters are identical on every run
		stats("tie in estimated impact (either order accepted)")
		stats = func(string) {}
	}
	// 2. every ejected trace is decided per the sampler, queued for forwarding iff kept
	queued := map[string]fx.OutView{}
	for _, o := range f.Outgoing()[q0:] {
		if _, dup := queued[o.TraceID]; dup {
			return e, failf("decided-twice-in-one-ejection", "trace %s was put on the outgoing queue twice by one ejection", o.TraceID)
		}
		queued[o.TraceID] = o
	}
	nKept, nDropped := int64(0), int64(0)
	for i, t := range ts {
		in := e&(1<<uint(i)) != 0
		d := f.Remembered(t.id)
		o, q := queued[t.id]
		if !in {
			// 4. nothing else is touched
			b, a := before[t.id], after[t.id]
			switch {
			case d.Known():
				return e, failf("untouched-trace-decided", "trace %s stayed in the buffer but a decision was recorded for it (%+v)", t.id, d)
			case q:
				return e, failf("untouched-trace-queued", "trace %s stayed in the buffer but was queued for sending", t.id)
			case a.Sent || !a.SendBy.Equal(b.SendBy) || strings.Join(a.Spans, ",") != strings.Join(b.Spans, ",") || a.DataSize != b.DataSize:
				return e, failf("untouched-trace-changed", "trace %s stayed in the buffer but changed: before %+v after %+v", t.id, b, a)
			}
			continue
		}
		switch {
		case !d.Known():
			return e, failf("ejected-without-decision", "trace %s left the buffer during sendTracesEarly(%d) but no decision is recorded for it: discarded, not decided; buffer: %s", t.id, bytes, desc())
		case d.Kept && d.Dropped():
			return e, failf("two-decisions", "ejected trace %s is recorded both kept and dropped", t.id)
		case d.Kept != t.keep:
			return e, failf("decision-differs-from-sampler", "ejected trace %s decided keep=%v, the deterministic sampler says keep=%v", t.id, d.Kept, t.keep)
		case t.keep && !q:
			return e, failf("kept-not-queued", "ejected trace %s was decided KEEP but is not queued for forwarding", t.id)
		case !t.keep && q:
			return e, failf("dropped-queued", "ejected trace %s was decided DROP but is queued for forwarding", t.id)
		case t.keep && o.SendReason != collect.TraceSendEjectedMemsize:
			return e, failf("wrong-send-reason", "ejected trace %s is queued with send reason %q, expected %s", t.id, o.SendReason, collect.TraceSendEjectedMemsize)
		case t.keep && len(o.Spans) != len(t.spans):
			return e, failf("spans-lost", "ejected trace %s is queued with %d spans, it had %d", t.id, len(o.Spans), len(t.spans))
		}
		if t.keep {
			nKept++
			stats("ejected+kept")
		} else {
			nDropped++
			stats("ejected+dropped")
		}
	}
	for id := range queued {
		found := false
		for i, t := range ts {
			if t.id == id && e&(1<<uint(i)) != 0 {
				found = true
			}
		}
		if !found {
			return e, failf("queued-a-trace-not-ejected", "trace %s was queued by the ejection on worker %d without having left that worker's buffer", id, w)
		}
	}
	for _, t := range others {
		b, a := before[t.id], after[t.id]
		if a.TraceID == "" || a.Sent || !a.SendBy.Equal(b.SendBy) || strings.Join(a.Spans, ",") != strings.Join(b.Spans, ",") || f.Remembered(t.id).Known() {
			return e, failf("other-worker-touched", "ejection on worker %d changed trace %s of worker %d: before %+v after %+v", w, t.id, b.Worker, b, a)
		}
	}
	// 3. reporting
	c1 := f.SendReasonCounters()
	for name, v := range c1 {
		want := int64(0)
		if name == collect.TraceSendEjectedMemsize {
			want = nKept
		}
		if v-c0[name] != want {
			return e, failf("send-reason-metric:"+name, "metric %s moved by %d during sendTracesEarly(%d), expected %d (%d traces ejected and kept, %d ejected and dropped)", name, v-c0[name], bytes, want, nKept, nDropped)
		}
	}
	if k, d := f.Counter("trace_send_kept")-kept0, f.Counter("trace_send_dropped")-dropped0; k != nKept || d != nDropped {
		return e, failf("kept-dropped-metrics", "trace_send_kept moved by %d (expected %d), trace_send_dropped by %d (expected %d)", k, nKept, d, nDropped)
	}
	if f.Tx.Len() != tx0 {
		stats("transmitted inside the ejection handler")
	}
	// memo bookkeeping for the history part: an ejection over ≥ 2 traces estimates every buffered trace
	if len(ts) >= 2 {
		for i, t := range ts {
			if t.memo == 0 {
				t.memo = fresh[i]
			}
		}
	}
	switch {
	case e == 0:
	case popcount(e) == len(ts):
		stats("ejected everything")
	default:
		stats("ejected a proper prefix")
	}
	return e, nil
}

func popcount(m uint) int {
	n := 0
	for ; m != 0; m &= m - 1 {
		n++
	}
	return n
}

// render is the decoration-relevant view of one forwarded event, without the send reason.
func render(s fx.Sent) string {
	var ks []string
	for k := range s.Fields {
		if k != fSendReason && k != "pad" {
			ks = append(ks, k)
		}
	}
	sort.Strings(ks)
	var b strings.Builder
	fmt.Fprintf(&b, "%s rate=%d key=%s ds=%s", s.SpanID, s.SampleRate, s.APIKey, s.Dataset)
	for _, k := range ks {
		fmt.Fprintf(&b, " %s=%v", k, s.Fields[k])
	}
	return b.String()
}

// ---------------------------------------------------------------- (B) buffer product

type tspec struct{ size, age, shape int } // shape: 0 one child, 1 one root, 2 child + a second, fresh, medium child

type built struct {
	f       *fx.Fixture
	ts      []*mtrace // worker 0
	others  []*mtrace
	arrived map[string]time.Time
	all     []*mtrace
}

// build delivers the buffer described by specs on a fresh handler-mode fixture. Spans arrive oldest first so that the
// fixture clock ends at T0+maxAge with every span exactly as old as its class says. equalPads: identical sizes per class (tie scenario).
func build(workers int, ids []string, keep []bool, specs []tspec, equalPads bool) *built {
	f := fx.New(fx.Options{Workers: workers, Traces: tconf, Sampler: det2, AddRuleReasonToTrace: true, KeptSize: uint(16 * workers)})
	b := &built{f: f, arrived: map[string]time.Time{}}
	maxAge := ages[len(ages)-1]
	type item struct {
		t    *mtrace
		kind fx.Kind
		pad  int
		age  time.Duration
		n    int
	}
	var items []item
	for i, sp := range specs {
		t := &mtrace{id: ids[i], keep: keep[i]}
		b.all = append(b.all, t)
		if f.WorkerFor(t.id) == 0 {
			b.ts = append(b.ts, t)
		} else {
			b.others = append(b.others, t)
		}
		pad := pads[sp.size]
		if !equalPads {
			pad += 8 * i
		}
		kind := fx.Child
		if sp.shape == 1 {
			kind = fx.Root
		}
		items = append(items, item{t, kind, pad, ages[sp.age], 1})
		if sp.shape == 2 {
			items = append(items, item{t, fx.Child, pads[1] + 8*i + 3, 0, 2})
		}
	}
	sort.SliceStable(items, func(a, c int) bool { return items[a].age > items[c].age })
	for _, it := range items {
		at := fx.T0.Add(maxAge - it.age)
		if d := at.Sub(f.Now()); d > 0 {
			f.Advance(d)
		}
		id := fmt.Sprintf("%s.%d", it.t.id, it.n)
		sp := f.Span(fx.SpanSpec{TraceID: it.t.id, Kind: it.kind, ID: id, Fields: map[string]any{"pad": strings.Repeat("x", it.pad)}})
		b.arrived[id] = f.Now()
		it.t.spans = append(it.t.spans, &mspan{id: id, size: sp.GetDataSize(), arrived: f.Now()})
		if it.kind == fx.Root {
			it.t.hasRoot = true
		}
	}
	if d := fx.T0.Add(maxAge).Sub(f.Now()); d > 0 {
		f.Advance(d)
	}
	return b
}

// twin: the same buffer, but every trace times out instead. Returns per trace the decision and the rendered forwards.
type twinRes struct {
	kept     map[string]bool
	fwd      map[string][]string
	reasons  int64 // total movement of the send-reason counters
	nKept    int64
	nDropped int64
}

func runTwin(workers int, ids []string, keep []bool, specs []tspec, equalPads bool) *twinRes {
	b := build(workers, ids, keep, specs, equalPads)
	defer b.f.Close()
	f := b.f
	f.Advance(timeout + time.Second)
	f.TickAll()
	f.SendAll()
	res := &twinRes{kept: map[string]bool{}, fwd: map[string][]string{}}
	for _, t := range b.all {
		d := f.Remembered(t.id)
		if !d.Known() {
			ev.Harness("C07 twin: trace %s not decided by the timeout tick", t.id)
		}
		res.kept[t.id] = d.Kept
	}
	for _, s := range f.Tx.Log(0) {
		res.fwd[s.TraceID] = append(res.fwd[s.TraceID], render(s))
	}
	for id := range res.fwd {
		sort.Strings(res.fwd[id])
	}
	for _, v := range f.SendReasonCounters() {
		res.reasons += v
	}
	res.nKept, res.nDropped = f.Counter("trace_send_kept"), f.Counter("trace_send_dropped")
	return res
}

// bytesChoices: 0 and P−1, P, P+1 for every prefix sum of the heaviest-first order (ties broken by index).
func bytesChoices(ts []*mtrace, now time.Time) []int {
	idx := make([]int, len(ts))
	for i := range idx {
		idx[i] = i
	}
	sort.SliceStable(idx, func(a, b int) bool { return ts[idx[a]].impact(now) > ts[idx[b]].impact(now) })
	seen := map[int]bool{}
	var out []int
	add := func(v int) {
		if v >= 0 && !seen[v] {
			seen[v] = true
			out = append(out, v)
		}
	}
	add(0)
	p := 0
	for _, i := range idx {
		p += ts[i].size()
		add(p - 1)
		add(p)
		add(p + 1)
	}
	sort.Ints(out)
	return out
}

type productScenario struct {
	name      string
	workers   int
	ids       []string
	keep      []bool
	n         int
	shapes    int // shapes offered for trace 0 (1 = child only, 3 = all)
	equalPads bool
}

func (ps *productScenario) specsOf(idx []int) []tspec {
	specs := make([]tspec, ps.n)
	for i := 0; i < ps.n; i++ {
		v := idx[i]
		specs[i] = tspec{size: v % 3, age: (v / 3) % 3}
		if i == 0 {
			specs[i].shape = v / 9
		}
	}
	return specs
}

func (ps *productScenario) run(r *ev.Run, note func(string)) {
	dims := make([]int, ps.n)
	for i := range dims {
		dims[i] = 9
	}
	dims[0] = 9 * ps.shapes
	var mu sync.Mutex
	report := func(fl *failure, replay map[string]any) {
		mu.Lock()
		defer mu.Unlock()
		r.Violation(fl.sig, ps.name+": "+fl.what, replay)
	}
	var nEject, nBuf int64
	enumx.Each(r, ps.name, dims, 16, func(idx []int) {
		specs := ps.specsOf(idx)
		tw := runTwin(ps.workers, ps.ids, ps.keep, specs, ps.equalPads)
		probe := build(ps.workers, ps.ids, ps.keep, specs, ps.equalPads)
		choices := bytesChoices(probe.ts, probe.f.Now())
		probe.f.Close()
		if tw.reasons != tw.nKept {
			report(failf("twin:send-reason-count", "timed-out twin: send-reason counters moved by %d for %d kept traces", tw.reasons, tw.nKept), map[string]any{"scenario": ps.name, "specs": specs})
		}
		mu.Lock()
		nBuf++
		nEject += int64(len(choices))
		mu.Unlock()
		for _, bytes := range choices {
			replay := map[string]any{"scenario": ps.name, "traces": ps.ids[:ps.n], "specs(size,age,shape)": specs, "bytes": bytes}
			b := build(ps.workers, ps.ids, ps.keep, specs, ps.equalPads)
			f := b.f
			e, fl := ejectAndCheck(f, 0, b.ts, b.others, b.arrived, bytes, false, note, nil)
			if fl != nil {
				report(fl, replay)
				f.Close()
				continue
			}
			// forwarding of the ejected traces == forwarding of the same traces had they timed out (send reason aside)
			f.SendAll()
			got := map[string][]string{}
			for _, s := range f.Tx.Log(0) {
				got[s.TraceID] = append(got[s.TraceID], render(s))
				if fmt.Sprint(s.Fields[fSendReason]) != collect.TraceSendEjectedMemsize {
					report(failf("forwarded-send-reason", "span %s of ejected trace %s forwarded with %s=%v", s.SpanID, s.TraceID, fSendReason, s.Fields[fSendReason]), replay)
				}
			}
			for i, t := range b.ts {
				sort.Strings(got[t.id])
				in := e&(1<<uint(i)) != 0
				switch {
				case !in && len(got[t.id]) > 0:
					report(failf("forwarded-a-buffered-trace", "trace %s is still buffered but %d of its spans were forwarded", t.id, len(got[t.id])), replay)
				case in && f.Remembered(t.id).Kept != tw.kept[t.id]:
					report(failf("not-as-if-timed-out:decision", "ejected trace %s decided keep=%v; timing out decides keep=%v", t.id, f.Remembered(t.id).Kept, tw.kept[t.id]), replay)
				case in && strings.Join(got[t.id], "\n") != strings.Join(tw.fwd[t.id], "\n"):
					report(failf("not-as-if-timed-out:forwarded", "ejected trace %s forwarded as\n%s\nbut when it times out as\n%s", t.id, strings.Join(got[t.id], "\n"), strings.Join(tw.fwd[t.id], "\n")), replay)
				}
			}
			// a later tick decides exactly the rest, each once; the ejected ones are gone from the deadline queue
			memsize := f.Counter(collect.TraceSendEjectedMemsize)
			f.Advance(timeout + time.Second)
			f.TickAll()
			f.SendAll()
			f.TickAll()
			f.SendAll()
			var nk, nd int64
			for _, t := range b.all {
				if t.keep {
					nk++
				} else {
					nd++
				}
			}
			var reasons int64
			for _, v := range f.SendReasonCounters() {
				reasons += v
			}
			perSpan := map[string]int{}
			for _, s := range f.Tx.Log(0) {
				perSpan[s.SpanID]++
			}
			switch {
			case len(f.BufferedAll()) != 0:
				report(failf("later-tick:left-buffered", "%d traces still buffered after every deadline and two ticks", len(f.BufferedAll())), replay)
			case f.Counter("trace_send_kept") != nk || f.Counter("trace_send_dropped") != nd:
				report(failf("later-tick:decided-again", "after ejection, a later tick and a second tick: trace_send_kept=%d (expected %d), trace_send_dropped=%d (expected %d): a trace was decided twice or not at all",
					f.Counter("trace_send_kept"), nk, f.Counter("trace_send_dropped"), nd), replay)
			case reasons != nk || f.Counter(collect.TraceSendEjectedMemsize) != memsize:
				report(failf("later-tick:send-reasons", "send-reason counters total %d for %d kept traces; %s moved from %d to %d after the ejection", reasons, nk, collect.TraceSendEjectedMemsize, memsize, f.Counter(collect.TraceSendEjectedMemsize)), replay)
			}
			for _, t := range b.all {
				for _, s := range t.spans {
					want := 0
					if t.keep {
						want = 1
					}
					if perSpan[s.id] != want {
						report(failf(fmt.Sprintf("later-tick:span-forwarded-%d-times-expected-%d", perSpan[s.id], want), "span %s of trace %s (keep=%v) was forwarded %d times in total", s.id, t.id, t.keep, perSpan[s.id]), replay)
					}
				}
			}
			f.Close()
		}
	})
	r.Add("states", nBuf)
	r.Add("transitions", nEject)
	r.Add("ejections_checked", nEject)
	fmt.Printf("  %-34s buffers %d ejections %d\n", ps.name, nBuf, nEject)
}

// ---------------------------------------------------------------- (H) histories

type event struct {
	Op string `json:"op"` // span | adv | eject | tick | send
	T  int    `json:"t,omitempty"`
	S  int    `json:"s,omitempty"` // span: size class
	B  int    `json:"b,omitempty"` // eject: 0 = bytes 0, 1 = exactly the data size of the heaviest trace, 2 = everything
}

func (e event) String() string {
	switch e.Op {
	case "span":
		return fmt.Sprintf("span(%d,%s)", e.T, []string{"small", "medium", "large"}[e.S])
	case "eject":
		return "eject(" + []string{"0", "=heaviest", "all"}[e.B] + ")"
	case "adv":
		return "adv(¼timeout)"
	}
	return e.Op
}

func hist(h []event) string {
	var p []string
	for _, e := range h {
		p = append(p, e.String())
	}
	return strings.Join(p, " ")
}

func hkey(h []event) string { b, _ := json.Marshal(h); return string(b) }

type hscenario struct {
	name     string
	ids      []string
	keep     []bool
	sizes    []int
	depth    int
	maxSpans int
	maxAdv   int
	hints    sync.Map
}

type hhint struct {
	nbuf, out, nadv int
	nspan           []int
}

func (s *hscenario) exec(r *ev.Run, h []event, note func(string)) (string, string, *seqx.Failure) {
	f := fx.New(fx.Options{Workers: 1, Traces: tconf, Sampler: det2, AddRuleReasonToTrace: true, KeptSize: 16})
	defer f.Close()
	model := map[string]*mtrace{} // buffered
	decided := map[string]string{}
	arrived := map[string]time.Time{}
	nspan := make([]int, len(s.ids))
	nadv := 0
	flags := map[string]bool{}
	fail := func(fl *failure) (string, string, *seqx.Failure) {
		return "", "", &seqx.Failure{Sig: fl.sig, What: fl.what + "  [history: " + hist(h) + "]"}
	}
	buffered := func() []*mtrace {
		var ts []*mtrace
		for _, id := range s.ids {
			if t := model[id]; t != nil {
				ts = append(ts, t)
			}
		}
		return ts
	}
	for step, e := range h {
		switch e.Op {
		case "span":
			id := s.ids[e.T]
			nspan[e.T]++
			sid := fmt.Sprintf("%s.%d", id, nspan[e.T])
			sp := f.Span(fx.SpanSpec{TraceID: id, Kind: fx.Child, ID: sid, Fields: map[string]any{"pad": strings.Repeat("x", pads[e.S]+8*e.T)}})
			if tv := f.Coll.VerifBufferedTrace(id); tv != nil && !tv.Sent {
				t := model[id]
				if t == nil {
					if decided[id] != "" {
						ev.Harness("C07: decided trace %s buffered again: %s", id, hist(h))
					}
					t = &mtrace{id: id, keep: s.keep[e.T]}
					model[id] = t
				}
				t.spans = append(t.spans, &mspan{id: sid, size: sp.GetDataSize(), arrived: f.Now()})
				t.memo = 0 // a new span invalidates the memoised estimate
				arrived[sid] = f.Now()
			} else {
				flags["late-span"] = true
			}
		case "adv":
			nadv++
			f.Advance(timeout / 4)
		case "eject":
			ts := buffered()
			bytes := 0
			switch e.B {
			case 1:
				var best *mtrace
				for _, t := range ts {
					if best == nil || t.impact(f.Now()) > best.impact(f.Now()) {
						best = t
					}
				}
				if best != nil {
					bytes = best.size()
				}
			case 2:
				bytes = 1 << 40
			}
			em, fl := ejectAndCheck(f, 0, ts, nil, arrived, bytes, true, func(k string) {
				flags[k] = true
				note(k)
				if strings.Contains(k, "memoised") {
					memoExample(h[:step+1])
				}
			}, nil)
			if fl != nil {
				fl.what = fmt.Sprintf("step %d: ", step+1) + fl.what
				return fail(fl)
			}
			for i, t := range ts {
				if em&(1<<uint(i)) != 0 {
					delete(model, t.id)
					decided[t.id] = "eject"
				}
			}
		case "tick":
			before := buffered()
			f.Tick(0)
			for _, t := range before {
				if tv := f.Coll.VerifBufferedTrace(t.id); tv == nil {
					delete(model, t.id)
					decided[t.id] = "tick"
					flags["timed-out"] = true
				}
			}
		case "send":
			f.SendStep()
		}
		// after every step: the real buffer holds exactly the model's traces (an ejected trace never comes back)
		real := f.Buffered(0)
		if len(real) != len(model) {
			return fail(failf("buffer-differs-from-model", "step %d (%v): real buffer holds %d traces, the model %d", step+1, e, len(real), len(model)))
		}
	}
	// closure: everything still buffered is decided by a later tick exactly once, ejected traces never again
	var canon strings.Builder
	now := f.Now()
	for k, id := range s.ids {
		fmt.Fprintf(&canon, "%s#%d:", id, nspan[k])
		if t := model[id]; t != nil {
			for _, sp := range t.spans {
				fmt.Fprintf(&canon, "%d@%d,", sp.size, now.Sub(sp.arrived))
			}
			fmt.Fprintf(&canon, "m%d", t.memo)
		}
		d := f.Remembered(id)
		fmt.Fprintf(&canon, "d%s/%v/%v;", decided[id], d.Kept, d.Dropped())
	}
	canon.WriteString("Q")
	for _, o := range f.Outgoing() {
		fmt.Fprintf(&canon, "%s:%d,", o.TraceID, len(o.Spans))
	}
	fmt.Fprintf(&canon, "|a%d", nadv)
	hn := &hhint{nbuf: len(model), out: len(f.Outgoing()), nadv: nadv, nspan: nspan}
	s.hints.Store(hkey(h), hn)

	k0, d0 := f.Counter("trace_send_kept"), f.Counter("trace_send_dropped")
	var wantK, wantD int64
	for _, t := range model {
		if t.keep {
			wantK++
		} else {
			wantD++
		}
	}
	f.Advance(timeout + time.Second)
	f.Tick(0)
	f.Tick(0)
	f.SendAll()
	if k, d := f.Counter("trace_send_kept")-k0, f.Counter("trace_send_dropped")-d0; k != wantK || d != wantD {
		return fail(failf("later-tick:decided-again", "after the history, a later tick decided %d kept / %d dropped traces, the buffer held %d / %d: a trace that had been ejected was decided again, or one was lost", k, d, wantK, wantD))
	}
	perSpan := map[string]int{}
	for _, sn := range f.Tx.Log(0) {
		perSpan[sn.SpanID]++
		if perSpan[sn.SpanID] > 1 {
			return fail(failf("span-forwarded-twice", "span %s forwarded %d times", sn.SpanID, perSpan[sn.SpanID]))
		}
	}
	var fl []string
	for k := range flags {
		fl = append(fl, k)
	}
	sort.Strings(fl)
	return canon.String(), strings.Join(fl, ","), nil
}

func (s *hscenario) enabled(h []event) []event {
	hn := &hhint{nspan: make([]int, len(s.ids))}
	if v, ok := s.hints.Load(hkey(h)); ok {
		hn = v.(*hhint)
	}
	var out []event
	for t := range s.ids {
		if hn.nspan[t] >= s.maxSpans {
			continue
		}
		for _, sz := range s.sizes {
			out = append(out, event{Op: "span", T: t, S: sz})
		}
	}
	if hn.nbuf > 0 {
		if hn.nadv < s.maxAdv {
			out = append(out, event{Op: "adv"})
		}
		out = append(out, event{Op: "eject", B: 0})
		if hn.nbuf > 1 {
			out = append(out, event{Op: "eject", B: 1}, event{Op: "eject", B: 2})
		}
		out = append(out, event{Op: "tick"})
	}
	if hn.out > 0 {
		out = append(out, event{Op: "send"})
	}
	return out
}

// memoExample keeps the shortest (then lexicographically first) history in which an ejection order is only explained
// by an estimate memoised at an earlier ejection — reported in the evidence as an observation, not a violation.
var (
	memoMu  sync.Mutex
	memoMin string
	memoLen int
)

func memoExample(h []event) {
	s := hist(h)
	memoMu.Lock()
	if memoMin == "" || len(h) < memoLen || (len(h) == memoLen && s < memoMin) {
		memoMin, memoLen = s, len(h)
	}
	memoMu.Unlock()
}

// ---------------------------------------------------------------- (A) overage split through the real checkAlloc

const memMetric = "/gc/gomemlimit:bytes"

type splitCase struct {
	workers  int
	maxAlloc uint64
	current  uint64
	label    string
}

// runSplit: loop-mode fixture, 2 fresh traces per worker, real checkAlloc with the owned heap reading.
func runSplit(r *ev.Run, ids map[int][]string, keepOf map[string]bool, c splitCase, note func(string)) {
	f := fx.New(fx.Options{Workers: c.workers, Loop: true, Sampler: det2, AddRuleReasonToTrace: true, KeptSize: uint(16 * c.workers),
		Traces: config.TracesConfig{SendDelay: config.Duration(time.Second), TraceTimeout: config.Duration(timeout), SendTicker: config.Duration(time.Hour)},
		Mutate: func(m *config.MockConfig) { m.GetCollectionConfigVal.MaxAlloc = config.MemorySize(c.maxAlloc) }})
	defer f.Close()
	f.Coll.VerifC07UseMemMetric(memMetric)
	perW := make([][]*mtrace, c.workers)
	arrived := map[string]time.Time{}
	for w := 0; w < c.workers; w++ {
		for k, id := range ids[c.workers*10+w] {
			sid := id + ".1"
			sp := f.MakeSpan(fx.SpanSpec{TraceID: id, Kind: fx.Child, ID: sid, Fields: map[string]any{"pad": strings.Repeat("x", 100+300*k+40*w)}})
			f.AddSpan(sp)
			arrived[sid] = f.Now()
			perW[w] = append(perW[w], &mtrace{id: id, keep: keepOf[id], spans: []*mspan{{id: sid, size: sp.GetDataSize(), arrived: f.Now()}}})
		}
		restamp(f, w, arrived)
	}
	replay := map[string]any{"part": "overage-split", "workers": c.workers, "MaxAlloc": c.maxAlloc, "heap": c.current, "case": c.label}
	evict0 := f.Counter("collector_cache_eviction")
	old := debug.SetMemoryLimit(int64(c.current))
	f.Coll.VerifC07CheckAlloc()
	debug.SetMemoryLimit(old)
	f.QuiesceAll()
	f.SenderIdle()
	if g, _ := f.Metrics.Get(collect.NUMERATOR_MEMORY_HEAP_ALLOC); uint64(g) != c.current {
		ev.Harness("C07: checkAlloc sampled %v, the harness set %d (metric %s not honoured?)", g, c.current, memMetric)
	}
	over := int64(c.current) - int64(c.maxAlloc)
	fired := f.Counter("collector_cache_eviction") > evict0
	var nKept int64
	for w := 0; w < c.workers; w++ {
		ts := perW[w]
		left := map[string]bool{}
		for _, v := range f.Buffered(w) {
			left[v.TraceID] = true
		}
		var e uint
		for i, t := range ts {
			if !left[t.id] {
				e |= 1 << uint(i)
			}
		}
		var valid map[uint]bool
		switch {
		case c.maxAlloc == 0 || over < 0:
			valid = map[uint]bool{0: true}
		default:
			share := int(over / int64(c.workers)) // "its share of the overage"
			imp, size := make([]int64, len(ts)), make([]int, len(ts))
			for i, t := range ts {
				imp[i], size[i] = t.impact(f.Now()), t.size()
			}
			valid = validSets(imp, size, share)
			if over == 0 {
				valid[0] = true // exactly at the limit is not "exceeds": doing nothing is accepted as well
			}
		}
		if !valid[e] {
			cls := "wrong-share"
			if c.maxAlloc == 0 || over < 0 {
				cls = "ejected-without-memory-pressure"
			}
			r.Violation("c07:overage-split:"+cls, fmt.Sprintf("checkAlloc with heap %d, MaxAlloc %d, %d workers (overage %d, share per worker %d): worker %d ejected %s, expected %s (its traces: %s)",
				c.current, c.maxAlloc, c.workers, over, over/int64(c.workers), w, maskStr(ts, e), setsStr(ts, valid), func() string {
					var p []string
					for _, t := range ts {
						p = append(p, fmt.Sprintf("%s=%dB", t.id, t.size()))
					}
					return strings.Join(p, " ")
				}()), replay)
			return
		}
		for i, t := range ts {
			if e&(1<<uint(i)) == 0 {
				continue
			}
			d := f.Remembered(t.id)
			if !d.Known() || d.Kept != t.keep {
				r.Violation("c07:overage-split:ejected-not-decided", fmt.Sprintf("trace %s ejected by checkAlloc: decision record %+v, sampler says keep=%v", t.id, d, t.keep), replay)
				return
			}
			if t.keep {
				nKept++
			}
		}
		if e != 0 {
			note(fmt.Sprintf("split: %d workers, worker ejected %d of %d", c.workers, popcount(e), len(ts)))
		}
	}
	if got := f.Counter(collect.TraceSendEjectedMemsize); got != nKept {
		r.Violation("c07:overage-split:send-reason-metric", fmt.Sprintf("%s = %d after checkAlloc, %d ejected traces were kept", collect.TraceSendEjectedMemsize, got, nKept), replay)
	}
	// forwarded through the real sendTraces goroutine: every span of every kept ejected trace once, with the memory send reason
	n := int64(0)
	for _, s := range f.Tx.Log(0) {
		n++
		if fmt.Sprint(s.Fields[fSendReason]) != collect.TraceSendEjectedMemsize {
			r.Violation("c07:overage-split:forwarded-send-reason", fmt.Sprintf("span %s forwarded with %s=%v", s.SpanID, fSendReason, s.Fields[fSendReason]), replay)
		}
	}
	if n != nKept {
		r.Violation("c07:overage-split:forwarded-count", fmt.Sprintf("%d spans forwarded, %d ejected single-span traces were kept", n, nKept), replay)
	}
	switch {
	case over < 0 || c.maxAlloc == 0:
		note("split: no pressure → nothing")
		if fired {
			r.Violation("c07:overage-split:eviction-without-pressure", "collector_cache_eviction incremented without memory pressure", replay)
		}
	case over == 0:
		note(fmt.Sprintf("split: exactly at the limit (eviction fired: %v)", fired))
	}
}

func main() {
	r := ev.New("C07", "model_checking")
	vtime.Clock = clockwork.NewFakeClockAt(G)
	r.Assume("estimated impact of a span = data size × (⌊4·age/TraceTimeout⌋+1), of a trace = sum over its spans (doc comments of types/event.go); age = time since the span was accepted, read on the fake clock (package types is built against the time shim, Span.ArrivalTime re-stamped by the harness to G−age before each ejection)")
	r.Assume("ties in estimated impact: any order accepted; in the history part an estimate memoised by an EARLIER ejection (Trace.totalImpact is only reset by AddSpan) is accepted as an alternative to the current one — counted in 'oracle_notes'")
	r.Assume("'counted under the memory send reason' = trace_send_ejected_memsize moves by the number of ejected traces that are KEPT, exactly as trace_send_expired only counts kept timed-out traces (cross-checked against a timed-out twin of every buffer); dropped traces are counted by trace_send_dropped on both paths")
	r.Assume("heap exactly AT the limit is not 'exceeds': both ejecting with share 0 and doing nothing are accepted; below the limit or without a limit nothing may be ejected")
	r.Assume("checkAlloc reads the harness-owned runtime metric /gc/gomemlimit:bytes instead of /memory/classes/heap/objects:bytes (the sample name is a field set by Start); everything else in checkAlloc runs unmodified")

	var nmu sync.Mutex
	notes := map[string]int64{}
	note := func(k string) {
		nmu.Lock()
		notes[k]++
		nmu.Unlock()
		r.Distinct("distinct_oracle_cases", k)
	}
	k, d := cx.Bool(true), cx.Bool(false)
	ids1 := cx.PickIDs(1, det2, []cx.Want{{Worker: 0, Keep: k}, {Worker: 0, Keep: d}, {Worker: 0, Keep: d}, {Worker: 0, Keep: k}})
	keep1 := []bool{true, false, false, true}
	only := os.Getenv("VERIF_PART")

	// ---- (B)
	if only == "" || only == "B" {
		scs := []*productScenario{
			{name: "buffer-product/1-trace", workers: 1, ids: ids1, keep: keep1, n: 1, shapes: 3},
			{name: "buffer-product/2-traces", workers: 1, ids: ids1, keep: keep1, n: 2, shapes: 3},
			{name: "buffer-product/3-traces", workers: 1, ids: ids1, keep: keep1, n: 3, shapes: 3},
			{name: "buffer-product/4-traces", workers: 1, ids: ids1, keep: keep1, n: 4, shapes: ev.Pick(r, 1, 3)},
			{name: "buffer-product/ties/3-traces-equal-sizes", workers: 1, ids: ids1, keep: keep1, n: 3, shapes: 1, equalPads: true},
		}
		ids2 := cx.PickIDs(2, det2, []cx.Want{{Worker: 0, Keep: k}, {Worker: 0, Keep: d}, {Worker: 1, Keep: k}})
		scs = append(scs, &productScenario{name: "buffer-product/2-workers(2+1 traces)", workers: 2, ids: ids2, keep: []bool{true, false, true}, n: 3, shapes: 1})
		for _, ps := range scs {
			ps.run(r, note)
		}
	}
	// ---- (H)
	if only == "" || only == "H" {
		hs := &hscenario{name: "histories", ids: ids1[:3], keep: keep1[:3], sizes: []int{0, 2}, depth: ev.Pick(r, 5, 6), maxSpans: 2, maxAdv: 3}
		t := time.Now()
		st := seqx.Explore(r, seqx.Scenario[event]{Name: hs.name, Enabled: hs.enabled,
			Exec:     func(h []event) (string, string, *seqx.Failure) { return hs.exec(r, h, note) },
			MaxDepth: hs.depth, Workers: 16,
			// every history of length <= 5 (the whole quick tier) is executed whatever the canonical key says
			NoMergeDepth: 4})
		fmt.Printf("  %-34s depth %d/%d states %d transitions %d  %.1fs\n", hs.name, st.DepthCompleted, hs.depth, st.States, st.Transitions, time.Since(t).Seconds())
		r.Set("histories_bounds", map[string]any{"depth_bound": hs.depth, "depth_completed": st.DepthCompleted, "traces": hs.ids, "size_classes": hs.sizes, "max_spans_per_trace": hs.maxSpans, "advance": (timeout / 4).String(), "max_advances": hs.maxAdv})
	}
	// ---- (R)
	if only == "" || only == "R" {
		all4 := []int{0, 1, 2, 3}
		rss := []*roundsScenario{
			{name: "loop-rounds/3-traces×3-rounds", ids: ids1, keep: keep1, n: 3, rounds: 3, sizes: all4, ageAll: ev.Pick(r, false, true)},
			{name: fmt.Sprintf("loop-rounds/4-traces×%d-rounds", ev.Pick(r, 2, 3)), ids: ids1, keep: keep1, n: 4, rounds: ev.Pick(r, 2, 3), sizes: all4},
			{name: "loop-rounds/started-collector/3-traces×2-rounds", ids: ids1, keep: keep1, n: 3, rounds: 2, sizes: ev.Pick(r, []int{0, 3}, all4), loop: true},
		}
		for _, rs := range rss {
			if sub := os.Getenv("VERIF_C07_R"); sub != "" && !strings.Contains(rs.name, sub) { // debugging aid: one scenario of part R
				continue
			}
			rs.run(r, note)
		}
		r.Set("loop_rounds_bounds", map[string]any{"size_classes(pad bytes)": pads, "age_classes": []string{"0", (timeout / 2).String()}, "gap_between_rounds": roundGap.String(),
			"shares_per_round": "0 and P-1, P, P+1 for every prefix sum P of the heaviest-first order of the traces buffered at that round",
			"scenarios": func() (o []string) {
				for _, rs := range rss {
					o = append(o, rs.name)
				}
				return
			}()})
	}
	// ---- (A)
	nsplit := 0
	if only == "" || only == "A" {
		idsW := map[int][]string{}
		keepOf := map[string]bool{}
		for n := 1; n <= 3; n++ {
			var wants []cx.Want
			for w := 0; w < n; w++ {
				wants = append(wants, cx.Want{Worker: w, Keep: k}, cx.Want{Worker: w, Keep: d})
			}
			got := cx.PickIDs(n, det2, wants)
			for w := 0; w < n; w++ {
				idsW[n*10+w] = got[2*w : 2*w+2]
				keepOf[got[2*w]], keepOf[got[2*w+1]] = true, false
			}
		}
		// the sizes are only known once spans exist: measure them on a probe fixture per worker count
		const M = uint64(1) << 40
		for n := 1; n <= 3; n++ {
			probe := fx.New(fx.Options{Workers: n})
			bound := map[int]bool{0: true}
			for w := 0; w < n; w++ {
				var sz []int
				for kk, id := range idsW[n*10+w] {
					sp := probe.MakeSpan(fx.SpanSpec{TraceID: id, Kind: fx.Child, ID: id + ".1", Fields: map[string]any{"pad": strings.Repeat("x", 100+300*kk+40*w)}})
					sz = append(sz, sp.GetDataSize())
				}
				sort.Sort(sort.Reverse(sort.IntSlice(sz)))
				p := 0
				for _, s := range sz {
					p += s
					bound[p] = true
				}
			}
			probe.Close()
			var shares []int
			for b := range bound {
				shares = append(shares, b)
			}
			sort.Ints(shares)
			var cases []splitCase
			cases = append(cases,
				splitCase{n, 0, M + 12345, "no limit configured"},
				splitCase{n, M, M - 1, "one byte below the limit"},
				splitCase{n, M, M, "exactly at the limit"})
			seen := map[uint64]bool{}
			for _, s := range shares {
				// overages whose per-worker share is s−1, s (lowest and highest overage giving s), s+1
				for _, over := range []int{s*n - 1, s * n, s*n + n - 1, (s + 1) * n} {
					if over <= 0 || seen[uint64(over)] {
						continue
					}
					seen[uint64(over)] = true
					cases = append(cases, splitCase{n, M, M + uint64(over), fmt.Sprintf("overage %d = %d workers × share %d + %d", over, n, over/n, over%n)})
				}
			}
			for _, c := range cases {
				runSplit(r, idsW, keepOf, c, note)
				nsplit++
			}
		}
		r.Add("transitions", int64(nsplit))
		r.Add("checkalloc_runs", int64(nsplit))
		fmt.Printf("  %-34s runs %d\n", "overage-split (real checkAlloc)", nsplit)
	}
	if memoMin != "" {
		r.Set("stale_estimate_example", memoMin)
	}
	r.Set("oracle_notes", notes)
	r.Set("traces_validated_against_impl", nsplit)
	if _, ok := map[string]bool{"": true}[only]; !ok {
		r.Add("states", 0)
		r.Add("transitions", 0)
	}
	r.Finish()
}
