// C07 part (R): a HISTORY of overage rounds on the same worker, every request consumed by the worker's REAL collect()
// loop (`case sendEarly := <-cl.sendEarly`), not by a direct call of the handler.
//
// The statement's stop rule is per ejection: "until the data size it has released exceeds its share of the overage or
// its buffer is empty". checkAlloc measures the heap afresh on every tick, so each round's share stands on its own: what
// an earlier round released (too much because traces go whole, or exactly enough) does not change what a later round
// has to release. Part R therefore enumerates, for every buffer of a product of size × age classes (including one size
// class an order of magnitude above the others: "one huge trace, small share"), EVERY sequence of 1..rounds shares where
// the share of each round ranges over {0} ∪ {P−1, P, P+1 : P a prefix sum of the heaviest-first order of what is buffered
// at that round} — so an earlier round overshoots its share by anything between 1 byte and a whole huge trace, or
// not at all (share 0 on an empty buffer) — and applies the complete single-ejection oracle (ejectAndCheck) to every
// round with that round's share.
//
// Two drivers:
//   - handler-mode fixture + EjectViaLoop: the request is posted on the worker's sendEarly channel and a real collect()
//     of that same CollectorWorker consumes it (one collect() activation per round; worker fields persist);
//   - loop-mode fixture + EjectLoop: the collector is really started, ONE collect() activation per worker lives through
//     all rounds (locals of collect() persist as well), the real sendTraces goroutine forwards.
package main

import (
	"fmt"
	"strings"
	"sync"
	"time"

	"github.com/honeycombio/refinery/collect"
	"github.com/honeycombio/refinery/config"

	"verif/engine/enumx"
	"verif/engine/ev"
	fx "verif/fix/collector"
)

// roundGap: the clock moves by one checkAlloc period (= SendTicker) between two rounds. No age class boundary is crossed
// (ages are 0 or ½ TraceTimeout plus at most rounds × 100 ms), so the estimates of a round equal those of the previous one.
const roundGap = 100 * time.Millisecond

const hugePad = 20000

type roundsScenario struct {
	name   string
	ids    []string
	keep   []bool
	n      int
	rounds int
	sizes  []int // size classes offered per trace (indexes into pads; 3 = huge)
	ageAll bool  // age class {fresh, ½ TraceTimeout} for every trace (otherwise for trace 0 only, the others fresh)
	loop   bool  // really started collector (loop mode)
}

func (rs *roundsScenario) dims() []int {
	d := make([]int, rs.n)
	for i := range d {
		d[i] = len(rs.sizes)
		if rs.ageAll || i == 0 {
			d[i] = 2 * len(rs.sizes)
		}
	}
	return d
}

func (rs *roundsScenario) specsOf(idx []int) []tspec {
	specs := make([]tspec, rs.n)
	for i := range specs {
		specs[i] = tspec{size: rs.sizes[idx[i]%len(rs.sizes)], age: idx[i] / len(rs.sizes)}
	}
	return specs
}

// buildLoop: the buffer described by specs (single-span child traces) on a really started one-worker collector. The
// worker's SendTicker is one hour: no tick fires, the only events the loop sees are the spans and the sendEarly requests.
func buildLoop(ids []string, keep []bool, specs []tspec) *built {
	f := fx.New(fx.Options{Workers: 1, Loop: true, Sampler: det2, AddRuleReasonToTrace: true, KeptSize: 16,
		Traces: config.TracesConfig{SendDelay: config.Duration(time.Second), TraceTimeout: config.Duration(timeout), SendTicker: config.Duration(time.Hour)}})
	b := &built{f: f, arrived: map[string]time.Time{}}
	maxAge := ages[1]
	for _, age := range []int{1, 0} { // oldest first
		at := fx.T0.Add(maxAge - ages[age])
		if d := at.Sub(f.Now()); d > 0 {
			f.Advance(d)
		}
		for i, sp := range specs {
			if sp.age != age {
				continue
			}
			t := &mtrace{id: ids[i], keep: keep[i]}
			sid := t.id + ".1"
			s := f.MakeSpan(fx.SpanSpec{TraceID: t.id, Kind: fx.Child, ID: sid, Fields: map[string]any{"pad": strings.Repeat("x", pads[sp.size]+8*i)}})
			f.AddSpan(s)
			b.arrived[sid] = f.Now()
			t.spans = []*mspan{{id: sid, size: s.GetDataSize(), arrived: f.Now()}}
			b.all = append(b.all, t)
			b.ts = append(b.ts, t)
		}
	}
	return b
}

// loopRound: one sendEarly{bytes} request through the running loop, with the oracle of one ejection as far as it is
// observable on a started collector (the real sendTraces goroutine empties the outgoing queue).
func loopRound(f *fx.Fixture, ts []*mtrace, arrived map[string]time.Time, bytes int) (uint, *failure) {
	restamp(f, 0, arrived)
	now := f.Now()
	size, imp := make([]int, len(ts)), make([]int64, len(ts))
	for i, t := range ts {
		size[i], imp[i] = t.size(), t.impact(now)
	}
	tx0 := f.Tx.Len()
	c0 := f.SendReasonCounters()
	f.EjectLoop(0, bytes)
	f.SenderIdle()
	left := map[string]fx.TraceView{}
	for _, v := range f.Buffered(0) {
		left[v.TraceID] = v
	}
	var e uint
	for i, t := range ts {
		if _, still := left[t.id]; !still {
			e |= 1 << uint(i)
		} else if left[t.id].DataSize != size[i] {
			return e, failf("untouched-trace-changed", "trace %s stayed in the buffer but its data size changed from %d to %d", t.id, size[i], left[t.id].DataSize)
		}
	}
	if len(left) != len(ts)-popcount(e) {
		ev.Harness("C07 loop rounds: buffer holds %d traces, model %d", len(left), len(ts)-popcount(e))
	}
	valid := validSets(imp, size, bytes)
	if !valid[e] {
		var p []string
		for i, t := range ts {
			p = append(p, fmt.Sprintf("%s[data size %d; estimated impact %d]", t.id, size[i], imp[i]))
		}
		return e, failf("ejected-set:"+classify(e, valid, len(ts)), "sendEarly{%d} consumed by the running loop of worker 0 ejected %s, expected %s (heaviest estimated impact first until the released data size exceeds %d); buffer: %s",
			bytes, maskStr(ts, e), setsStr(ts, valid), bytes, strings.Join(p, " "))
	}
	var nKept int64
	for i, t := range ts {
		if e&(1<<uint(i)) == 0 {
			if f.Remembered(t.id).Known() {
				return e, failf("untouched-trace-decided", "trace %s stayed in the buffer but a decision was recorded for it", t.id)
			}
			continue
		}
		d := f.Remembered(t.id)
		switch {
		case !d.Known():
			return e, failf("ejected-without-decision", "trace %s left the buffer during sendEarly{%d} but no decision is recorded for it: discarded, not decided", t.id, bytes)
		case d.Kept != t.keep:
			return e, failf("decision-differs-from-sampler", "ejected trace %s decided keep=%v, the deterministic sampler says keep=%v", t.id, d.Kept, t.keep)
		}
		if t.keep {
			nKept++
		}
	}
	for name, v := range f.SendReasonCounters() {
		want := int64(0)
		if name == collect.TraceSendEjectedMemsize {
			want = nKept
		}
		if v-c0[name] != want {
			return e, failf("send-reason-metric:"+name, "metric %s moved by %d during sendEarly{%d}, expected %d", name, v-c0[name], bytes, want)
		}
	}
	fwd := map[string]int{}
	for _, s := range f.Tx.Log(tx0) {
		fwd[s.TraceID]++
		if fmt.Sprint(s.Fields[fSendReason]) != collect.TraceSendEjectedMemsize {
			return e, failf("forwarded-send-reason", "span %s of ejected trace %s forwarded with %s=%v", s.SpanID, s.TraceID, fSendReason, s.Fields[fSendReason])
		}
	}
	for i, t := range ts {
		want := 0
		if e&(1<<uint(i)) != 0 && t.keep {
			want = len(t.spans)
		}
		if fwd[t.id] != want {
			return e, failf("forwarded-count", "trace %s (ejected=%v keep=%v): %d spans forwarded by the sender after the round, expected %d", t.id, e&(1<<uint(i)) != 0, t.keep, fwd[t.id], want)
		}
	}
	return e, nil
}

func classify(e uint, valid map[uint]bool, n int) string {
	ne, nv := popcount(e), -1
	for m := range valid {
		nv = popcount(m)
	}
	switch {
	case e == 0 && n > 0:
		return "nothing-ejected"
	case ne < nv:
		return "stopped-too-early"
	case ne > nv:
		return "ejected-too-much"
	}
	return "not-heaviest-first"
}

func (rs *roundsScenario) run(r *ev.Run, note func(string)) {
	var mu sync.Mutex
	var nHist, nEject, nBuf int64
	report := func(fl *failure, replay map[string]any) {
		r.Violation("c07:loop-rounds:"+strings.TrimPrefix(fl.sig, "c07:"), rs.name+": "+fl.what, replay)
	}
	t0 := time.Now()
	workers := 16
	if rs.loop {
		workers = 4 // started collectors: every barrier is a spin on the worker's pause channel
	}
	enumx.Each(r, rs.name, rs.dims(), workers, func(idx []int) {
		specs := rs.specsOf(idx)
		var hist, eject int64
		// one() executes the history `shares` on a fresh fixture and returns the shares offered to the next round.
		one := func(shares []int) []int {
			var b *built
			if rs.loop {
				b = buildLoop(rs.ids[:rs.n], rs.keep, specs)
			} else {
				b = build(1, rs.ids[:rs.n], rs.keep, specs, false)
			}
			f := b.f
			defer f.Close()
			ts := b.ts
			var released []string
			for k, bytes := range shares {
				if k > 0 {
					f.Advance(roundGap)
				}
				var e uint
				var fl *failure
				last := k == len(shares)-1
				if rs.loop {
					e, fl = loopRound(f, ts, b.arrived, bytes)
				} else {
					stats := func(string) {}
					if last {
						stats = note // the earlier rounds were noted by the history that ended with them
					}
					e, fl = ejectAndCheck(f, 0, ts, nil, b.arrived, bytes, true, stats, (*fx.Fixture).EjectViaLoop)
				}
				eject++
				var rest []*mtrace
				sum := 0
				for i, t := range ts {
					if e&(1<<uint(i)) != 0 {
						sum += t.size()
					} else {
						rest = append(rest, t)
					}
				}
				released = append(released, fmt.Sprintf("round %d: share %d, released %d bytes in %d traces, %d still buffered", k+1, bytes, sum, popcount(e), len(rest)))
				replay := map[string]any{"part": "loop-rounds", "scenario": rs.name, "traces": rs.ids[:rs.n], "specs(size,age)": specs, "shares": shares[:k+1], "rounds": released}
				if fl != nil {
					fl.what = fmt.Sprintf("round %d of shares %v: %s  [%s]", k+1, shares, fl.what, strings.Join(released, "; "))
					report(fl, replay)
					return nil
				}
				// the stop rule of the statement, for this round on its own
				if sum <= bytes && len(rest) > 0 {
					report(failf("stop-rule", "round %d of shares %v released %d bytes <= its share %d although %d traces are still buffered  [%s]", k+1, shares, sum, bytes, len(rest), strings.Join(released, "; ")), replay)
					return nil
				}
				if last && k > 0 {
					note("round after an earlier round (own share honoured)")
				}
				ts = rest
			}
			var next []int
			if len(shares) < rs.rounds {
				next = bytesChoices(ts, f.Now().Add(roundGap))
			}
			if rs.loop {
				return next
			}
			// closure: what is still buffered is decided exactly once by a later tick, an ejected trace never again
			var nk, nd int64
			for _, t := range b.all {
				if t.keep {
					nk++
				} else {
					nd++
				}
			}
			f.SendAll()
			f.Advance(timeout + time.Second)
			f.TickAll()
			f.SendAll()
			f.TickAll()
			f.SendAll()
			replay := map[string]any{"part": "loop-rounds", "scenario": rs.name, "traces": rs.ids[:rs.n], "specs(size,age)": specs, "shares": shares}
			if k, d := f.Counter("trace_send_kept"), f.Counter("trace_send_dropped"); k != nk || d != nd || len(f.BufferedAll()) != 0 {
				report(failf("later-tick:decided-again", "after shares %v and two later ticks: trace_send_kept=%d (expected %d), trace_send_dropped=%d (expected %d), %d still buffered", shares, k, nk, d, nd, len(f.BufferedAll())), replay)
			}
			perSpan := map[string]int{}
			for _, s := range f.Tx.Log(0) {
				perSpan[s.SpanID]++
			}
			for _, t := range b.all {
				for _, s := range t.spans {
					want := 0
					if t.keep {
						want = 1
					}
					if perSpan[s.id] != want {
						report(failf(fmt.Sprintf("later-tick:span-forwarded-%d-times-expected-%d", perSpan[s.id], want), "span %s of trace %s (keep=%v) was forwarded %d times in total after shares %v", s.id, t.id, t.keep, perSpan[s.id], shares), replay)
					}
				}
			}
			return next
		}
		var rec func(shares []int)
		rec = func(shares []int) {
			next := one(shares)
			hist++
			for _, b := range next {
				rec(append(append([]int{}, shares...), b))
			}
		}
		// the empty history only yields the first round's choices
		probe := build(1, rs.ids[:rs.n], rs.keep, specs, false)
		first := bytesChoices(probe.ts, probe.f.Now())
		probe.f.Close()
		for _, b := range first {
			rec([]int{b})
		}
		mu.Lock()
		nBuf++
		nHist += hist
		nEject += eject
		mu.Unlock()
	})
	r.Add("states", nHist)
	r.Add("transitions", nEject)
	r.Add("ejections_checked", nEject)
	r.Add("round_histories", nHist)
	fmt.Printf("  %-34s buffers %d histories %d ejections %d  %.1fs\n", rs.name, nBuf, nHist, nEject, time.Since(t0).Seconds())
}
