// C08: the rules sampler follows the documented rule semantics.
//
// Engine E2 (enumx): bounded-exhaustive product of rule configurations x traces on the REAL
// sample.RulesBasedSampler (configuration parsed from YAML text with the production decoder, admitted by the real
// config.ValidateRules, sampler built by the real SamplerFactory, real types.Trace/Span/Payload), compared with
// an independent reference evaluator written from rules_conditions.md / rules.md and the property statement
// (NOT from sample/rules.go or config/sampler_config.go).
//
// The reference is three-valued: for every (condition, span value) it answers MATCH, NO-MATCH or UNSPECIFIED
// (the documents do not decide; every such class is listed in the evidence assumptions). A rule then has a lower
// and an upper match bound (both scopes are monotone in the per-span answers), a rule list has a set of rules that
// may legitimately be the first match, and the implementation's answer (which rule it applied — read from the
// reason —, rate, keep) must be one of the permitted ones. Nothing unspecified can raise an alarm.
//
// The random draw of `SampleRate: N` rules is the process-global math/rand stream; the harness owns it by
// re-seeding it (GODEBUG randseednop=0) so that the first Intn(N) yields each of 0..N-1 in turn, and demands that
// exactly one of the N draws keeps the trace, at rate N.
//
//go:debug randseednop=0
package main

import (
	"fmt"
	"math/rand"
	"regexp"
	"sort"
	"strconv"
	"strings"
	"sync"
	"time"

	"gopkg.in/yaml.v3"

	"github.com/honeycombio/refinery/config"
	"github.com/honeycombio/refinery/logger"
	"github.com/honeycombio/refinery/metrics"
	"github.com/honeycombio/refinery/sample"
	"github.com/honeycombio/refinery/types"

	"verif/engine/enumx"
	"verif/engine/ev"
)

// =====================================================================================================
// value domain of span fields
// =====================================================================================================

type valID int

const (
	vAbsent valID = iota
	vI1
	vI2
	vI3
	vF15
	vS1
	vSa
	vTrue
	vNil
	vBig0 // 2^53: the largest range in which float64 holds every integer ends here
	vBig1 // 2^53+1: not representable as float64 (rounds to 2^53)
	vBigF // 2^53 as a float
	nVals
)

var valOf = [nVals]any{nil, int64(1), int64(2), int64(3), 1.5, "1", "a", true, nil, int64(1) << 53, int64(1)<<53 + 1, float64(int64(1) << 53)}
var valName = [nVals]string{"absent", "int:1", "int:2", "int:3", "float:1.5", `str:"1"`, `str:"a"`, "bool:true", "nil", "int:2^53", "int:2^53+1", "float:2^53"}
var valKind = [nVals]string{"absent", "int", "int", "int", "float", "string", "string", "bool", "nil", "int", "int", "float"}

// phase 1b (large integers): 64-bit ids and nanosecond timestamps are integers beyond 2^53; "the comparison uses
// integers" / "convert the Value to the same type" means neighbours that collapse to one float64 stay distinct
var bigDomain = []valID{vAbsent, vI1, vBig0, vBig1, vBigF}
var bigCondValues = []cval{
	{`9007199254740993`, 9007199254740993}, {`9007199254740992`, 9007199254740992},
	{`[9007199254740993, 2]`, []any{9007199254740993, 2}}, {`"9007199254740993"`, "9007199254740993"},
}

var fDomain = []valID{vAbsent, vI1, vI2, vF15, vS1, vSa, vTrue, vNil}
var gDomain = []valID{vAbsent, vSa, vI2}

// =====================================================================================================
// conditions
// =====================================================================================================

type cval struct {
	yaml string
	v    any // as the YAML decoder delivers it: int, float64, string, bool, []any
}

var condValues = []cval{
	{`1`, 1}, {`1.5`, 1.5}, {`"1"`, "1"}, {`a`, "a"}, {`true`, true}, {`[1, a]`, []any{1, "a"}}, {`""`, ""},
	{`false`, false}, {`["1", a]`, []any{"1", "a"}}, {`[1, 2]`, []any{1, 2}}, {`".*"`, ".*"},
}

const (
	fmF = iota
	fmFG
	fmGF
	fmRootF
	fmRootFG
	fmGRootF // a non-root field before a root. one: the root span's value is only the fallback
	fmNumDesc
	nForms
	fmNone = -1
)

var formYAML = [nForms]string{"Field: f", "Fields: [f, g]", "Fields: [g, f]", "Field: root.f", "Fields: [root.f, g]", "Fields: [g, root.f]", `Field: "?.NUM_DESCENDANTS"`}

var operators = []string{"=", "!=", "<", "<=", ">", ">=", "starts-with", "contains", "does-not-contain", "exists", "not-exists", "matches", "in", "not-in", "has-root-span"}
var datatypes = []string{"", "string", "int", "float", "bool"}

type cond struct {
	form int // fmNone for has-root-span
	op   string
	dt   string
	val  cval
}

func (c cond) yaml() string {
	var b strings.Builder
	b.WriteString("{")
	if c.form != fmNone {
		b.WriteString(formYAML[c.form] + ", ")
	}
	fmt.Fprintf(&b, "Operator: '%s', Value: %s", c.op, c.val.yaml)
	if c.dt != "" {
		b.WriteString(", Datatype: " + c.dt)
	}
	b.WriteString("}")
	return b.String()
}

func family(op string) string {
	switch op {
	case "=", "!=", "<", "<=", ">", ">=":
		return "compare"
	case "starts-with", "contains", "does-not-contain":
		return "substring"
	case "matches":
		return "regex"
	case "in", "not-in":
		return "membership"
	case "exists", "not-exists":
		return "existence"
	}
	return op
}

// =====================================================================================================
// reference evaluator (from rules_conditions.md / rules.md / the property statement)
// =====================================================================================================

type tri int8

const (
	F tri = iota
	T
	U
)

func b2t(b bool) tri {
	if b {
		return T
	}
	return F
}
func (t tri) not() tri {
	switch t {
	case T:
		return F
	case F:
		return T
	}
	return U
}

type convStatus int

const (
	convOK    convStatus = iota
	convFail             // "errors in conversion will result in the comparison evaluating to false"
	convUndoc            // the documents do not say whether / how this converts
)

// docString: "coerced to strings" — decimal integers, shortest decimal floats, true/false. nil and lists: undocumented.
func docString(v any) (string, bool) {
	switch x := v.(type) {
	case string:
		return x, true
	case int:
		return strconv.Itoa(x), true
	case int64:
		return strconv.FormatInt(x, 10), true
	case float64:
		return strconv.FormatFloat(x, 'g', -1, 64), true
	case bool:
		return strconv.FormatBool(x), true
	}
	return "", false
}

// docInt: "`int` -- The comparison uses integers. (1.5 == 1 because 1.5 gets converted to 1)"; strings that
// render a number convert ("rendered as strings by some environments and as numbers ... by others").
func docInt(v any) (int64, convStatus) {
	switch x := v.(type) {
	case int:
		return int64(x), convOK
	case int64:
		return x, convOK
	case float64:
		return int64(x), convOK
	case string:
		if n, err := strconv.ParseInt(x, 10, 64); err == nil {
			return n, convOK
		}
		if _, err := strconv.ParseFloat(x, 64); err == nil {
			return 0, convUndoc // "1.5" as int: not documented
		}
		return 0, convFail
	}
	return 0, convUndoc // bool, nil, list
}

func docFloat(v any) (float64, convStatus) {
	switch x := v.(type) {
	case int:
		return float64(x), convOK
	case int64:
		return float64(x), convOK
	case float64:
		return x, convOK
	case string:
		if f, err := strconv.ParseFloat(x, 64); err == nil {
			return f, convOK
		}
		return 0, convFail
	}
	return 0, convUndoc
}

// docSpanBool: "Span values ... interpret true/false and 1/0 as boolean, and all other values are considered to be false."
// Whether the *strings* "1"/"0"/"true"/"false" count as 1/0/true/false is not said -> unspecified.
func docSpanBool(v any) tri {
	switch x := v.(type) {
	case bool:
		return b2t(x)
	case int64:
		return b2t(x == 1)
	case float64:
		if x == 1 || x == 0 {
			return b2t(x == 1)
		}
		return F
	case string:
		switch strings.ToLower(x) {
		case "1", "0", "true", "false", "t", "f":
			return U
		}
		return F
	}
	return U
}

func cmpResult(op string, c int) tri {
	switch op {
	case "=":
		return b2t(c == 0)
	case "!=":
		return b2t(c != 0)
	case "<":
		return b2t(c < 0)
	case "<=":
		return b2t(c <= 0)
	case ">":
		return b2t(c > 0)
	case ">=":
		return b2t(c >= 0)
	}
	panic("not a comparison operator: " + op)
}

func cmpOrd[X int64 | float64 | string](a, b X) int {
	switch {
	case a < b:
		return -1
	case a > b:
		return 1
	}
	return 0
}

// refValue: does a PRESENT span value sv satisfy the condition?
func refValue(c cond, sv any) tri {
	if sv == nil {
		return U // a field that is present with a null value: nothing documented
	}
	cv := c.val.v
	_, cvIsList := cv.([]any)
	switch family(c.op) {
	case "existence":
		return b2t(c.op == "exists")

	case "substring", "regex":
		// "Values are always coerced to strings -- the Datatype parameter is ignored."
		cs, ok1 := docString(cv)
		ss, ok2 := docString(sv)
		if !ok1 || !ok2 {
			return U
		}
		switch c.op {
		case "starts-with":
			return b2t(strings.HasPrefix(ss, cs))
		case "contains":
			return b2t(strings.Contains(ss, cs))
		case "does-not-contain":
			return b2t(!strings.Contains(ss, cs))
		}
		// matches: Go regexp syntax; the documents do not say whether the pattern must cover the whole value
		re, err := regexp.Compile(cs)
		if err != nil {
			return U
		}
		re2, err := regexp.Compile(`^(?:` + cs + `)$`)
		if err != nil {
			return U
		}
		if a, b := re.MatchString(ss), re2.MatchString(ss); a == b {
			return b2t(a)
		}
		return U

	case "membership":
		list, ok := cv.([]any)
		if !ok {
			return U // "The Value parameter should be a list of items."
		}
		var in tri
		switch c.dt {
		case "string":
			ss, ok := docString(sv)
			if !ok {
				return U
			}
			in = F
			for _, e := range list {
				es, ok := docString(e)
				if !ok {
					return U
				}
				if es == ss {
					in = T
				}
			}
		case "int", "float":
			// the two sides are converted to the declared type and compared exactly in that type (integers as
			// integers: neighbours beyond 2^53 that collapse to one float64 stay distinct)
			type num struct {
				i int64
				f float64
			}
			conv := func(v any) (num, convStatus) {
				if c.dt == "int" {
					n, st := docInt(v)
					return num{i: n}, st
				}
				f, st := docFloat(v)
				return num{f: f}, st
			}
			in = F
			s, st := conv(sv)
			if st == convUndoc {
				return U
			}
			for _, e := range list {
				x, est := conv(e)
				if est == convUndoc {
					return U
				}
				if est == convOK && st == convOK && x == s {
					in = T
				}
			}
			if st == convFail {
				// a span value that cannot be converted: "the comparison evaluat[es] to false" — clear for `in`,
				// not clear for `not-in`
				if c.op == "in" {
					return F
				}
				return U
			}
		case "":
			// "occurs exactly within the list ... Comparisons are exact": decided only where exact (typed) equality
			// and equality of the rendered texts agree
			ss, ok := docString(sv)
			if !ok {
				return U
			}
			exact, text := false, false
			for _, e := range list {
				es, ok := docString(e)
				if !ok {
					return U
				}
				if es == ss {
					text = true
				}
				if exactEqual(sv, e) {
					exact = true
				}
			}
			if exact != text {
				return U
			}
			in = b2t(exact)
		default:
			return U // bool with in/not-in: not documented
		}
		if c.op == "not-in" {
			return in.not()
		}
		return in

	case "compare":
		if cvIsList || cv == nil {
			return U
		}
		switch c.dt {
		case "string":
			cs, ok1 := docString(cv)
			ss, ok2 := docString(sv)
			if !ok1 || !ok2 {
				return U
			}
			return cmpResult(c.op, cmpOrd(ss, cs))
		case "int":
			cn, cst := docInt(cv)
			if cst != convOK {
				return U // a Value that does not convert to the declared Datatype: misconfiguration, see Assume
			}
			sn, sst := docInt(sv)
			switch sst {
			case convUndoc:
				return U
			case convFail:
				if c.op == "!=" {
					return U
				}
				return F
			}
			return cmpResult(c.op, cmpOrd(sn, cn))
		case "float":
			cn, cst := docFloat(cv)
			if cst != convOK {
				return U
			}
			sn, sst := docFloat(sv)
			switch sst {
			case convUndoc:
				return U
			case convFail:
				if c.op == "!=" {
					return U
				}
				return F
			}
			return cmpResult(c.op, cmpOrd(sn, cn))
		case "bool":
			cb, ok := cv.(bool)
			if !ok || (c.op != "=" && c.op != "!=") {
				return U
			}
			sb := docSpanBool(sv)
			if sb == U {
				return U
			}
			return cmpResult(c.op, cmpOrd(int64(sb), int64(b2t(cb))))
		case "":
			// "Refinery determines the type of the incoming span value. If the value is numeric or boolean, it attempts
			// to convert the Value parameter to the same type. If the span value is a string, the Value parameter must
			// also be a string or the comparison will fail."
			switch s := sv.(type) {
			case string:
				cs, ok := cv.(string)
				if !ok {
					if c.op == "!=" {
						return U // is a failed comparison "not equal"? not said
					}
					return F
				}
				return cmpResult(c.op, cmpOrd(s, cs))
			case bool:
				cb, ok := cv.(bool)
				if !ok || (c.op != "=" && c.op != "!=") {
					return U
				}
				return cmpResult(c.op, cmpOrd(int64(b2t(s)), int64(b2t(cb))))
			case int64:
				switch x := cv.(type) {
				case int:
					return cmpResult(c.op, cmpOrd(s, int64(x)))
				case float64:
					// "convert the Value to the same type" (1.5 -> 1) versus plain numeric comparison: decided where both agree
					a := cmpResult(c.op, cmpOrd(s, int64(x)))
					b := cmpResult(c.op, cmpOrd(float64(s), x))
					if a == b {
						return a
					}
					return U
				case string:
					if _, err := strconv.ParseFloat(x, 64); err != nil && c.op == "=" {
						return F // a non-numeric text equals no number under any reading
					}
					return U
				}
				return U
			case float64:
				switch x := cv.(type) {
				case int:
					return cmpResult(c.op, cmpOrd(s, float64(x)))
				case float64:
					return cmpResult(c.op, cmpOrd(s, x))
				case string:
					if _, err := strconv.ParseFloat(x, 64); err != nil && c.op == "=" {
						return F
					}
					return U
				}
				return U
			}
			return U
		}
	}
	return U
}

func exactEqual(sv, e any) bool {
	switch s := sv.(type) {
	case string:
		x, ok := e.(string)
		return ok && x == s
	case bool:
		x, ok := e.(bool)
		return ok && x == s
	case int64:
		switch x := e.(type) {
		case int:
			return int64(x) == s
		case float64:
			return x == float64(s)
		}
	case float64:
		switch x := e.(type) {
		case int:
			return float64(x) == s
		case float64:
			return x == s
		}
	}
	return false
}

// =====================================================================================================
// traces
// =====================================================================================================

type resolved struct {
	id          valID
	rootSkipped bool // a root.-prefixed field could not be looked at because the trace has no root span
}

type traceD struct {
	f, g   []valID
	root   int
	id     string
	res    [nForms][]resolved
	absent [nForms]bool // the condition's field(s) resolve to nothing on every span
	real   *types.Trace
}

func (t *traceD) String() string {
	var p []string
	for i := range t.f {
		x := fmt.Sprintf("{f=%s g=%s}", valName[t.f[i]], valName[t.g[i]])
		if i == t.root {
			x = "ROOT" + x
		}
		p = append(p, x)
	}
	return strings.Join(p, " ")
}

var mockCfg = &config.MockConfig{}

func newTrace(f, g []valID, root int, id string) *traceD {
	t := &traceD{f: f, g: g, root: root, id: id}
	n := len(f)
	first := func(ids ...valID) valID {
		for _, id := range ids {
			if id != vAbsent {
				return id
			}
		}
		return vAbsent
	}
	for i := 0; i < n; i++ {
		rootF, skipped := vAbsent, false
		if root >= 0 {
			rootF = f[root]
		} else {
			skipped = true
		}
		t.res[fmF] = append(t.res[fmF], resolved{f[i], false})
		t.res[fmFG] = append(t.res[fmFG], resolved{first(f[i], g[i]), false})
		t.res[fmGF] = append(t.res[fmGF], resolved{first(g[i], f[i]), false})
		t.res[fmRootF] = append(t.res[fmRootF], resolved{rootF, skipped})
		t.res[fmRootFG] = append(t.res[fmRootFG], resolved{first(rootF, g[i]), skipped})
		t.res[fmGRootF] = append(t.res[fmGRootF], resolved{first(g[i], rootF), skipped && g[i] == vAbsent})
		t.res[fmNumDesc] = append(t.res[fmNumDesc], resolved{vI1 + valID(n-1), false}) // int64(n): the trace's number of spans
	}
	for fm := 0; fm < nForms; fm++ {
		t.absent[fm] = true
		for _, r := range t.res[fm] {
			if r.id != vAbsent {
				t.absent[fm] = false
			}
		}
	}
	tr := &types.Trace{TraceID: id}
	for i := 0; i < n; i++ {
		m := map[string]any{"other": "x"}
		if f[i] != vAbsent {
			m["f"] = valOf[f[i]]
		}
		if g[i] != vAbsent {
			m["g"] = valOf[g[i]]
		}
		sp := &types.Span{TraceID: id, Event: &types.Event{Data: types.NewPayload(mockCfg, m)}}
		tr.AddSpan(sp)
		if i == root {
			tr.RootSpan = sp
		}
	}
	t.real = tr
	return t
}

// all ordered span sequences of length n over (fs x gs), every root choice in roots(n)
func genTraces(n int, fs, gs []valID, rootChoices func(n int) []int, id string) []*traceD {
	var out []*traceD
	nt := len(fs) * len(gs)
	total := 1
	for i := 0; i < n; i++ {
		total *= nt
	}
	for _, root := range rootChoices(n) {
		for x := 0; x < total; x++ {
			f, g := make([]valID, n), make([]valID, n)
			y := x
			for i := n - 1; i >= 0; i-- {
				k := y % nt
				y /= nt
				f[i], g[i] = fs[k/len(gs)], gs[k%len(gs)]
			}
			out = append(out, newTrace(f, g, root, id))
		}
	}
	return out
}

func rootsAll(n int) []int {
	r := []int{-1}
	for i := 0; i < n; i++ {
		r = append(r, i)
	}
	return r
}
func rootsEnds(n int) []int {
	if n == 1 {
		return []int{-1, 0}
	}
	return []int{-1, 0, n - 1}
}

// =====================================================================================================
// rules, configurations, the real sampler
// =====================================================================================================

type outcome struct {
	kind string // drop | rate | det | det+drop | dyn
	n    int
}

const dynYAML = "Sampler: {DynamicSampler: {SampleRate: %d, FieldList: [f], ClearFrequency: 24h}}"

// forValidation: config.ValidateRules does not list DeterministicSampler among the valid children of a rule's
// Sampler (although the config structs, SamplerFactory.GetDownstreamSampler and the repository's
// TestRulesWithDeterministicSampler support it), so for the admission test only, a downstream DeterministicSampler
// is rendered as a DynamicSampler stand-in. The configuration that is decoded and run is the real one.
func (o outcome) yaml(forValidation bool) string {
	switch o.kind {
	case "drop":
		return "Drop: true"
	case "rate":
		return fmt.Sprintf("SampleRate: %d", o.n)
	case "dyn":
		return fmt.Sprintf(dynYAML, o.n)
	case "det":
		if forValidation {
			return fmt.Sprintf(dynYAML, o.n)
		}
		return fmt.Sprintf("Sampler: {DeterministicSampler: {SampleRate: %d}}", o.n)
	case "det+drop":
		if forValidation {
			return "Drop: true, " + fmt.Sprintf(dynYAML, o.n)
		}
		return fmt.Sprintf("Drop: true, Sampler: {DeterministicSampler: {SampleRate: %d}}", o.n)
	}
	panic(o.kind)
}
func (o outcome) String() string { return fmt.Sprintf("%s%d", o.kind, o.n) }

type rule struct {
	name  string
	scope string // "", "trace", "span"
	conds []cond
	out   outcome
}

type ruleset []rule

func (rs ruleset) yaml() string { return rs.render(false) }

func (rs ruleset) render(forValidation bool) string {
	var b strings.Builder
	b.WriteString("RulesVersion: 2\nSamplers:\n  __default__:\n    RulesBasedSampler:\n      Rules:\n")
	for _, r := range rs {
		fmt.Fprintf(&b, "        - {Name: %s, %s", r.name, r.out.yaml(forValidation))
		if r.scope != "" {
			b.WriteString(", Scope: " + r.scope)
		}
		if len(r.conds) > 0 {
			b.WriteString(", Conditions: [")
			for i, c := range r.conds {
				if i > 0 {
					b.WriteString(", ")
				}
				b.WriteString(c.yaml())
			}
			b.WriteString("]")
		}
		b.WriteString("}\n")
	}
	return b.String()
}

func (rs ruleset) usesRand() bool {
	for _, r := range rs {
		if r.out.kind == "rate" || r.out.kind == "dyn" {
			return true
		}
	}
	return false
}

var rulesMeta *config.Metadata

// build: YAML text -> validation -> production struct decoding -> SamplerFactory. ok=false: rejected by validation.
func build(rs ruleset) (sample.Sampler, *config.RulesBasedSamplerConfig, bool) {
	y := rs.yaml()
	var m map[string]any
	if err := yaml.Unmarshal([]byte(rs.render(true)), &m); err != nil {
		ev.Harness("generated YAML does not parse: %v\n%s", err, y)
	}
	for _, res := range rulesMeta.ValidateRules(m) {
		if res.Severity == config.Error {
			return nil, nil, false
		}
	}
	var c config.V2SamplerConfig
	if err := yaml.Unmarshal([]byte(y), &c); err != nil {
		ev.Harness("generated YAML does not decode into V2SamplerConfig: %v\n%s", err, y)
	}
	rc := c.Samplers["__default__"].RulesBasedSampler
	if rc == nil || len(rc.Rules) != len(rs) {
		ev.Harness("decoded configuration lost its rules:\n%s", y)
	}
	mc := &config.MockConfig{GetSamplerTypeVal: rc, GetSamplerTypeName: "RulesBasedSampler"}
	f := &sample.SamplerFactory{Config: mc, Logger: &logger.NullLogger{}, Metrics: &metrics.NullMetrics{}}
	if err := f.Start(); err != nil {
		ev.Harness("factory start: %v", err)
	}
	s := f.GetSamplerImplementationForKey("env")
	if s == nil {
		ev.Harness("factory returned no sampler for\n%s", y)
	}
	return s, rc, true
}

// =====================================================================================================
// reference on rules and rule lists
// =====================================================================================================

type condTable struct {
	v [nVals]tri
	// allU: the documents decide nothing about this condition for any present value of the domain (a malformed
	// condition such as `in` with a scalar Value, or a Value that does not convert to the Datatype). Such a
	// condition is never judged, not even on traces that lack the field.
	allU bool
}

func tableOf(c cond) *condTable {
	tab := condTable{allU: true}
	for id := valID(1); id < nVals; id++ {
		tab.v[id] = refValue(c, valOf[id])
		if tab.v[id] != U && id != vNil {
			tab.allU = false
		}
	}
	return &tab
}

type preRule struct {
	rule
	tabs []*condTable
}

func prep(rs ruleset) []preRule {
	out := make([]preRule, len(rs))
	for i, r := range rs {
		out[i].rule = r
		for _, c := range r.conds {
			if c.op == "has-root-span" {
				out[i].tabs = append(out[i].tabs, nil)
			} else {
				out[i].tabs = append(out[i].tabs, tableOf(c))
			}
		}
	}
	return out
}

// condOnSpan: the reference answer for condition c on span i of trace t
func condOnSpan(c cond, tab *condTable, t *traceD, i int) tri {
	r := t.res[c.form][i]
	if r.id != vAbsent {
		return tab.v[r.id]
	}
	switch c.op {
	case "not-exists":
		if r.rootSkipped {
			// rules.md: "The not-exists condition on a root.-prefixed field will evaluate to false if ... the root span
			// does not exist", while "that field will be skipped"/"none of the fields are present" point the other way
			// (and the repository's own test pins `true`): undecided.
			return U
		}
		return T
	case "exists":
		return F
	}
	if t.absent[c.form] && !tab.allU {
		// statement: "a condition on a field absent from every span does not match unless its operator is not-exists"
		// rules_conditions.md: "When a Field is absent in all spans within a trace, the associated rule does not apply"
		return F
	}
	// absent on this span but present on another: the documents speak about absence from the trace only
	return U
}

func rootCond(c cond, t *traceD) tri {
	b, ok := c.val.v.(bool)
	if !ok {
		return U // "The Value parameter can either be true or false."
	}
	return b2t((t.root >= 0) == b)
}

// ruleBounds: (lo, hi) — lo: the rule certainly matches; hi: the rule may match
func ruleBounds(r *preRule, t *traceD) (bool, bool) {
	if len(r.conds) == 0 {
		return true, true // "If there are no conditions, then the rule will always match."
	}
	n := len(t.f)
	if r.scope == "span" {
		for _, c := range r.conds {
			if c.op == "has-root-span" {
				return false, false // "Combining them will cause the rule to fail evaluation and be skipped."
			}
		}
		lo, hi := false, false
		for i := 0; i < n; i++ {
			allT, noneF := true, true
			for k, c := range r.conds {
				switch condOnSpan(c, r.tabs[k], t, i) {
				case F:
					allT, noneF = false, false
				case U:
					allT = false
				}
			}
			lo = lo || allT
			hi = hi || noneF
		}
		return lo, hi
	}
	lo, hi := true, true
	for k, c := range r.conds {
		var clo, chi bool
		if c.op == "has-root-span" {
			x := rootCond(c, t)
			clo, chi = x == T, x != F
		} else {
			for i := 0; i < n; i++ {
				switch condOnSpan(c, r.tabs[k], t, i) {
				case T:
					clo, chi = true, true
				case U:
					chi = true
				}
			}
		}
		lo = lo && clo
		hi = hi && chi
	}
	return lo, hi
}

// permitted: indices of the rules that may be the first match (-1 = none)
func permitted(rs []preRule, t *traceD) []int {
	var p []int
	for i := range rs {
		lo, hi := ruleBounds(&rs[i], t)
		if hi {
			p = append(p, i)
		}
		if lo {
			return p
		}
	}
	return append(p, -1)
}

// =====================================================================================================
// observing the implementation
// =====================================================================================================

var randMu sync.Mutex // serialises every call of a sampler whose configuration can consume the global rand stream

type seedKey struct{ n, d int }

var seeds = map[seedKey]int64{}

func seedFor(n, d int) int64 {
	if s, ok := seeds[seedKey{n, d}]; ok {
		return s
	}
	for s := int64(1); ; s++ {
		if rand.New(rand.NewSource(s)).Intn(n) == d {
			return s
		}
	}
}

type obs struct {
	chosen int // rule index, -1 = "no rule matched", -2 = reason not understood
	rate   uint
	keep   bool
	reason string
	key    string
}

func classify(rs ruleset, reason string) int {
	for i, r := range rs {
		if strings.Contains(reason, r.name) {
			return i
		}
	}
	if reason == "no rule matched" {
		return -1
	}
	return -2
}

func call(s sample.Sampler, rs ruleset, t *traceD) obs {
	rate, keep, reason, key := s.GetSampleRate(t.real)
	return obs{classify(rs, reason), rate, keep, reason, key}
}

var detRef = map[int]*sample.DeterministicSampler{}

// a stand-alone DynamicSampler per goal rate: what the downstream sampler of a `dyn` rule must answer (only used
// under randMu: a trace-key builder is not goroutine safe)
var dynRef = map[int]sample.Sampler{}

func detExpect(n int, t *traceD) (uint, bool) {
	rate, keep, _, _ := detRef[n].GetSampleRate(t.real)
	return rate, keep
}

// =====================================================================================================
// judging one (configuration, trace)
// =====================================================================================================

type viol struct {
	order  int64
	what   string
	replay any
}

var (
	vmu   sync.Mutex
	viols = map[string]viol{}
	infoN = map[string]int64{}
)

func report(sig string, order int64, what string, replay any) {
	vmu.Lock()
	if v, ok := viols[sig]; !ok || order < v.order {
		viols[sig] = viol{order, what, replay}
	}
	infoN[sig]++
	vmu.Unlock()
}

func contains(p []int, x int) bool {
	for _, y := range p {
		if y == x {
			return true
		}
	}
	return false
}

// single-condition samplers for diagnosis (which condition of a larger configuration is the culprit?)
var (
	diagMu sync.Mutex
	diag   = map[string]sample.Sampler{}
)

func singleRule(c cond) ruleset {
	return ruleset{{name: "R1X", scope: "", conds: []cond{c}, out: outcome{"drop", 0}}}
}

// condVerdict: is condition c alone, on trace t, decided wrongly by the implementation?  ("", false) if fine.
func condVerdict(c cond, t *traceD) (string, string, bool) {
	rs := singleRule(c)
	key := c.yaml()
	diagMu.Lock()
	s, ok := diag[key]
	if !ok {
		s, _, _ = build(rs)
		diag[key] = s
	}
	diagMu.Unlock()
	if s == nil {
		return "", "", false
	}
	pr := prep(rs)
	lo, hi := ruleBounds(&pr[0], t)
	o := call(s, rs, t)
	matched := o.chosen == 0
	if (matched && !hi) || (!matched && lo) {
		return condSig(c, t, matched), fmt.Sprintf("condition %s on trace [%s]: implementation says %s, documented semantics say %s", c.yaml(), t, mm(matched), mm(!matched)), true
	}
	return "", "", false
}

func mm(b bool) string {
	if b {
		return "MATCH"
	}
	return "NO MATCH"
}

func condSig(c cond, t *traceD, implMatched bool) string {
	if c.op == "has-root-span" {
		return fmt.Sprintf("has-root-span/value=%s/impl=%v", c.val.yaml, implMatched)
	}
	dt := c.dt
	if dt == "" {
		dt = "none"
	}
	if t.absent[c.form] && implMatched {
		switch family(c.op) {
		case "compare":
			return "absent-field-matches/compare/datatype=" + dt
		default:
			return "absent-field-matches/" + family(c.op)
		}
	}
	kinds := map[string]bool{}
	for _, r := range t.res[c.form] {
		kinds[valKind[r.id]] = true
	}
	var ks []string
	for k := range kinds {
		ks = append(ks, k)
	}
	sort.Strings(ks)
	vk := fmt.Sprintf("%T", c.val.v)
	_ = ks // the kinds of span values involved are in the violation text, not in the class
	return fmt.Sprintf("cond-mismatch/%s/datatype=%s/value-type=%s/impl=%s", c.op, dt, vk, strings.ReplaceAll(mm(implMatched), " ", "-"))
}

type ctx struct {
	r    *ev.Run
	rs   ruleset
	pr   []preRule
	s    sample.Sampler
	rand bool
	base int64
	// local counters, flushed once per configuration
	nDraws, nLeeway, nDecided int64
}

func (x *ctx) outcomeOK(chosen int, t *traceD, o obs, keepsByDraw []bool) (bool, string) {
	if chosen == -1 {
		if o.rate == 1 && o.keep {
			return true, ""
		}
		return false, "no rule matches, so the trace must be kept at rate 1"
	}
	out := x.rs[chosen].out
	switch out.kind {
	case "drop":
		if !o.keep {
			return true, ""
		}
		return false, "a matching Drop rule must drop the trace"
	case "rate":
		if o.rate != uint(out.n) {
			return false, fmt.Sprintf("a matching SampleRate %d rule must report rate %d", out.n, out.n)
		}
		k := 0
		for _, b := range keepsByDraw {
			if b {
				k++
			}
		}
		if len(keepsByDraw) != out.n || k != 1 {
			return false, fmt.Sprintf("a SampleRate %d rule must keep for exactly 1 of the %d values of the draw (kept for %d of %d)", out.n, out.n, k, len(keepsByDraw))
		}
		return true, ""
	case "dyn": // "if the rule specifies a downstream Sampler, that sampler is used to determine the sample rate"
		er, _, _, ekey := dynRef[out.n].GetSampleRate(t.real) // caller holds randMu
		if o.rate != er || o.key != ekey {
			return false, fmt.Sprintf("a stand-alone DynamicSampler(goal %d) says rate %d key %q for this trace", out.n, er, ekey)
		}
		k := 0
		for _, b := range keepsByDraw {
			if b {
				k++
			}
		}
		if len(keepsByDraw) != int(er) || k != 1 {
			return false, fmt.Sprintf("the downstream DynamicSampler at rate %d must keep for exactly 1 of the %d values of the draw (kept for %d of %d)", er, er, k, len(keepsByDraw))
		}
		return true, ""
	default: // det, det+drop: "if the rule specifies a downstream Sampler, that sampler is used"
		er, ek := detExpect(out.n, t)
		if o.rate == er && o.keep == ek {
			return true, ""
		}
		return false, fmt.Sprintf("the downstream DeterministicSampler(rate %d) says rate %d keep %v for this trace id", out.n, er, ek)
	}
}

func (x *ctx) judge(ti int, t *traceD) {
	perm := permitted(x.pr, t)
	var o obs
	var keepsByDraw []bool
	if x.rand {
		randMu.Lock()
		o = call(x.s, x.rs, t) // which rule / which rate: independent of the draw (verified below)
		if o.chosen >= 0 && (x.rs[o.chosen].out.kind == "rate" || x.rs[o.chosen].out.kind == "dyn") {
			o.keep = false // this call's draw was not owned: the keep flag is taken from the enumerated draws only
		}
		if o.chosen >= 0 && (x.rs[o.chosen].out.kind == "rate" || x.rs[o.chosen].out.kind == "dyn") {
			n := x.rs[o.chosen].out.n
			if x.rs[o.chosen].out.kind == "dyn" {
				n = int(o.rate) // the downstream sampler's own rate (its goal rate as long as it has not adjusted)
				if n < 1 || n > 3 {
					randMu.Unlock()
					ev.Harness("unexpected rate %d from an untrained downstream DynamicSampler\n%s", n, x.rs.yaml())
				}
			}
			for d := 0; d < n; d++ {
				rand.Seed(seedFor(n, d))
				od := call(x.s, x.rs, t)
				if od.chosen != o.chosen || od.rate != o.rate {
					randMu.Unlock()
					ev.Harness("the applied rule or rate changed with the random draw: %+v vs %+v\n%s", o, od, x.rs.yaml())
				}
				keepsByDraw = append(keepsByDraw, od.keep)
				x.nDraws++
			}
		}
		randMu.Unlock()
	} else {
		o = call(x.s, x.rs, t)
	}
	order := x.base + int64(ti)
	if len(perm) > 1 {
		x.nLeeway++
	} else {
		x.nDecided++
	}
	var why string
	ok := contains(perm, o.chosen)
	if ok {
		if x.rand {
			randMu.Lock() // the stand-alone reference DynamicSampler draws, too
		}
		ok, why = x.outcomeOK(o.chosen, t, o, keepsByDraw)
		if x.rand {
			randMu.Unlock()
		}
		if ok {
			return
		}
		sig := "outcome/" + func() string {
			if o.chosen < 0 {
				return "no-rule-matched"
			}
			return x.rs[o.chosen].out.kind
		}()
		report(sig, order, fmt.Sprintf("%s — got rate %d keep %v reason %q draws→keep %v; trace [%s] id %q; config:\n%s", why, o.rate, o.keep, o.reason, keepsByDraw, t, t.id, x.rs.yaml()),
			map[string]any{"config_yaml": x.rs.yaml(), "trace": t.String(), "trace_id": t.id, "got": fmt.Sprintf("%+v", o)})
		return
	}
	// the implementation applied a rule the documents do not permit here. Find the smallest culprit.
	for _, r := range x.rs {
		for _, c := range r.conds {
			if sig, what, bad := condVerdict(c, t); bad {
				report(sig, order, what+fmt.Sprintf("  (seen in: rule applied = %s, permitted = %v, reason %q, config:\n%s)", name(x.rs, o.chosen), names(x.rs, perm), o.reason, x.rs.yaml()),
					map[string]any{"condition_yaml": c.yaml(), "config_yaml": x.rs.yaml(), "trace": t.String(), "got_reason": o.reason, "permitted_rules": names(x.rs, perm)})
				return
			}
		}
	}
	shape := fmt.Sprintf("rules=%d", len(x.rs))
	for _, r := range x.rs {
		sc := r.scope
		if sc == "" {
			sc = "trace"
		}
		shape += fmt.Sprintf("/%s:%dconds", sc, len(r.conds))
	}
	report("rule-structure/"+shape+"/applied="+name(x.rs, o.chosen), order,
		fmt.Sprintf("every condition alone is evaluated as documented, but the rule applied is %s where the documents permit only %v; reason %q; trace [%s]; config:\n%s", name(x.rs, o.chosen), names(x.rs, perm), o.reason, t, x.rs.yaml()),
		map[string]any{"config_yaml": x.rs.yaml(), "trace": t.String(), "got_reason": o.reason, "permitted_rules": names(x.rs, perm)})
}

func name(rs ruleset, i int) string {
	switch {
	case i >= 0:
		return rs[i].name
	case i == -1:
		return "<none>"
	}
	return "<reason not understood>"
}
func names(rs ruleset, p []int) []string {
	var out []string
	for _, i := range p {
		out = append(out, name(rs, i))
	}
	return out
}

// a configuration built once and shared by the workers that each judge one block of its traces
// (RulesBasedSampler.GetSampleRate only reads its configuration; configurations with a downstream
// DynamicSampler or a random draw are serialised by randMu anyway)
type builtCfg struct {
	once sync.Once
	s    sample.Sampler
	ok   bool
	pr   []preRule
}

// runPhase: nConfigs configurations x traces, split into blocks of traces so that the engine has enough
// work items to keep every worker busy; (config, trace) is judged exactly once.
func runPhase(r *ev.Run, phase string, nConfigs, blocks int, mk func(i int) (ruleset, []*traceD), stride int, base int64) {
	cache := make([]builtCfg, nConfigs)
	enumx.Each(r, phase, []int{nConfigs, blocks}, 16, func(idx []int) {
		ci, b := idx[0], idx[1]
		rs, traces := mk(ci)
		c := &cache[ci]
		c.once.Do(func() {
			c.s, _, c.ok = build(rs)
			if !c.ok {
				r.Add("configs_rejected_by_validation", 1)
				return
			}
			r.Add("configs", 1)
			c.pr = prep(rs)
		})
		if !c.ok {
			return
		}
		lo, hi := len(traces)*b/blocks, len(traces)*(b+1)/blocks
		x := &ctx{r: r, rs: rs, pr: c.pr, s: c.s, rand: rs.usesRand(), base: base + int64(ci)*int64(stride)}
		for ti := lo; ti < hi; ti++ {
			x.judge(ti, traces[ti])
		}
		r.Add("cases", int64(hi-lo))
		r.Add("draws_enumerated", x.nDraws)
		r.Add("cases_with_unspecified_leeway", x.nLeeway)
		r.Add("cases_fully_decided_by_the_documents", x.nDecided)
	})
}

// =====================================================================================================
// main: the phases
// =====================================================================================================

func allConds() []cond {
	var out []cond
	for _, op := range operators {
		if op == "has-root-span" {
			for _, dt := range []string{"", "bool"} {
				for _, v := range condValues {
					out = append(out, cond{fmNone, op, dt, v})
				}
			}
			continue
		}
		for _, dt := range datatypes {
			for _, v := range condValues {
				for fm := 0; fm < nForms; fm++ {
					out = append(out, cond{fm, op, dt, v})
				}
			}
		}
	}
	return out
}

func v(i int) cval { return condValues[i] }

// a representative set for the multi-condition / multi-rule phases (positive, negative, typed, untyped, every
// field form, trace-level conditions, string-coerced operators)
func reprConds() []cond {
	const (
		c1 = iota
		c15
		cs1
		csa
		ctrue
		cmixed
		cempty
		cfalse
		clistS
		clistI
	)
	return []cond{
		{fmF, "=", "", v(c1)}, {fmF, "=", "", v(csa)}, {fmF, "!=", "int", v(c1)}, {fmF, "!=", "string", v(csa)}, {fmF, ">", "float", v(c1)},
		{fmF, "exists", "", v(c1)}, {fmF, "not-exists", "", v(c1)}, {fmF, "<=", "float", v(c15)}, {fmF, "does-not-contain", "", v(csa)},
		{fmF, "in", "int", v(clistI)}, {fmF, "not-in", "string", v(clistS)}, {fmF, "matches", "", v(csa)}, {fmF, "starts-with", "", v(cs1)},
		{fmF, "=", "bool", v(ctrue)}, {fmF, "contains", "", v(cempty)},
		{fmFG, "=", "", v(csa)}, {fmGF, "contains", "", v(csa)}, {fmGF, "=", "int", v(c1)}, {fmFG, "not-exists", "", v(c1)},
		{fmRootF, "=", "int", v(c1)}, {fmRootF, "exists", "", v(c1)}, {fmRootF, "not-exists", "", v(c1)}, {fmRootF, "!=", "", v(csa)},
		{fmRootFG, "=", "string", v(csa)}, {fmRootFG, "exists", "", v(c1)},
		{fmGRootF, "=", "", v(csa)}, {fmGRootF, "=", "int", v(c1)}, {fmGRootF, "not-exists", "", v(c1)},
		{fmNumDesc, "=", "int", v(cs1)}, {fmNumDesc, ">", "", v(c1)}, {fmNumDesc, "<=", "int", v(c15)},
		{fmNone, "has-root-span", "", v(ctrue)}, {fmNone, "has-root-span", "", v(cfalse)},
	}
}

func main() {
	r := ev.New("C08", "exploration")
	var err error
	if rulesMeta, err = config.LoadRulesMetadata(); err != nil {
		ev.Harness("rules metadata: %v", err)
	}
	// self-tests of the harness's own seams
	for n := 1; n <= 3; n++ {
		for d := 0; d < n; d++ {
			seeds[seedKey{n, d}] = seedFor(n, d)
			rand.Seed(seeds[seedKey{n, d}])
			if got := rand.Intn(n); got != d {
				ev.Harness("the global math/rand stream is not owned by the harness (Seed has no effect): wanted %d of %d, got %d", d, n, got)
			}
		}
	}
	for _, n := range []int{1, 2} {
		d := &sample.DeterministicSampler{Config: &config.DeterministicSamplerConfig{SampleRate: n}, Logger: &logger.NullLogger{}}
		d.Start()
		detRef[n] = d
	}
	for _, n := range []int{2} {
		mc := &config.MockConfig{GetSamplerTypeVal: &config.DynamicSamplerConfig{SampleRate: int64(n), FieldList: []string{"f"}, ClearFrequency: config.Duration(24 * time.Hour)}, GetSamplerTypeName: "DynamicSampler"}
		f := &sample.SamplerFactory{Config: mc, Logger: &logger.NullLogger{}, Metrics: &metrics.NullMetrics{}}
		f.Start()
		if dynRef[n] = f.GetSamplerImplementationForKey("env"); dynRef[n] == nil {
			ev.Harness("no stand-alone DynamicSampler")
		}
	}
	// two trace ids: one kept and one dropped by a DeterministicSampler at rate 2
	idKept, idDropped := "", ""
	for i := 0; idKept == "" || idDropped == ""; i++ {
		id := fmt.Sprintf("trace-%d", i)
		if _, k, _, _ := detRef[2].GetSampleRate(&types.Trace{TraceID: id}); k && idKept == "" {
			idKept = id
		} else if !k && idDropped == "" {
			idDropped = id
		}
	}
	{ // the YAML decoder delivers the value types the reference assumes
		rs := ruleset{{name: "R1X", conds: []cond{{fmF, "=", "", condValues[0]}, {fmF, "=", "", condValues[1]}, {fmF, "in", "", condValues[8]}}, out: outcome{"drop", 0}}}
		_, rc, ok := build(rs)
		if !ok {
			ev.Harness("baseline configuration rejected by validation")
		}
		cs := rc.Rules[0].Conditions
		if _, ok := cs[0].Value.(int); !ok {
			ev.Harness("YAML int decodes as %T", cs[0].Value)
		}
		if _, ok := cs[1].Value.(float64); !ok {
			ev.Harness("YAML float decodes as %T", cs[1].Value)
		}
		if _, ok := cs[2].Value.([]any); !ok {
			ev.Harness("YAML list decodes as %T", cs[2].Value)
		}
	}

	// ---- trace sets
	small := append(genTraces(1, fDomain, gDomain, rootsEnds, idKept), genTraces(2, fDomain, gDomain, rootsEnds, idKept)...)
	redF, redG := []valID{vAbsent, vI1, vSa, vF15}, []valID{vAbsent, vSa}
	var three []*traceD
	if r.Thorough() {
		three = genTraces(3, fDomain, gDomain, rootsAll, idKept)
	} else {
		three = genTraces(3, redF, redG, rootsAll, idKept)
	}
	phase1Traces := append(append([]*traceD{}, small...), three...)
	phase2Traces := append(append([]*traceD{}, small...), genTraces(3, redF, redG, rootsAll, idKept)...)
	tinyF, tinyG := []valID{vAbsent, vI1, vSa}, []valID{vAbsent, vSa}
	if r.Thorough() {
		tinyF = []valID{vAbsent, vI1, vSa, vI2, vS1}
	}
	// trace ids matter only to a downstream deterministic sampler at rate 2: those configurations see both ids
	phase3Kept := append(genTraces(1, tinyF, tinyG, rootsEnds, idKept), genTraces(2, tinyF, tinyG, rootsEnds, idKept)...)
	phase3Traces := append(append([]*traceD{}, phase3Kept...), genTraces(1, tinyF, tinyG, rootsEnds, idDropped)...)
	phase3Traces = append(phase3Traces, genTraces(2, tinyF, tinyG, rootsEnds, idDropped)...)

	var base int64
	phaseWall := map[string]float64{}
	tPhase := time.Now()
	lap := func(name string) {
		phaseWall[name] = float64(time.Since(tPhase).Milliseconds()) / 1000
		tPhase = time.Now()
	}
	lap("setup")
	// ---- phase 1: one rule, one condition: every operator x datatype x value x field form x scope
	conds := allConds()
	scopes := []string{"trace", "span"}
	runPhase(r, "phase1", len(conds)*len(scopes), 4, func(i int) (ruleset, []*traceD) {
		c := conds[i/len(scopes)]
		return ruleset{{name: "R1X", scope: scopes[i%len(scopes)], conds: []cond{c}, out: outcome{"drop", 0}}}, phase1Traces
	}, len(phase1Traces), base)
	for _, c := range conds {
		r.Distinct("distinct_nontrivial", "p1|"+c.op+"|"+c.dt+"|"+c.val.yaml)
	}
	base += int64(len(conds)*len(scopes)) * int64(len(phase1Traces))
	lap("phase1")

	// ---- phase 1b: large integers: comparison and membership operators x datatype x values around 2^53
	var bigConds []cond
	for _, op := range operators {
		if fam := family(op); fam != "compare" && fam != "membership" {
			continue
		}
		for _, dt := range datatypes {
			for _, v := range bigCondValues {
				for _, fm := range []int{fmF, fmRootF, fmGF} {
					bigConds = append(bigConds, cond{fm, op, dt, v})
				}
			}
		}
	}
	bigTraces := append(genTraces(1, bigDomain, []valID{vAbsent}, rootsEnds, idKept), genTraces(2, bigDomain, []valID{vAbsent, vSa}, rootsEnds, idKept)...)
	runPhase(r, "phase1b", len(bigConds)*len(scopes), 4, func(i int) (ruleset, []*traceD) {
		c := bigConds[i/len(scopes)]
		return ruleset{{name: "R1X", scope: scopes[i%len(scopes)], conds: []cond{c}, out: outcome{"drop", 0}}}, bigTraces
	}, len(bigTraces), base)
	for _, c := range bigConds {
		r.Distinct("distinct_nontrivial", "p1b|"+c.op+"|"+c.dt+"|"+c.val.yaml)
	}
	base += int64(len(bigConds)*len(scopes)) * int64(len(bigTraces))
	lap("phase1b")

	// ---- phase 2: one rule, two conditions (all ordered pairs of the representative set) x scope
	rc := reprConds()
	runPhase(r, "phase2", len(rc)*len(rc)*len(scopes), 16, func(i int) (ruleset, []*traceD) {
		sc, pair := scopes[i%len(scopes)], i/len(scopes)
		return ruleset{{name: "R1X", scope: sc, conds: []cond{rc[pair/len(rc)], rc[pair%len(rc)]}, out: outcome{"drop", 0}}}, phase2Traces
	}, len(phase2Traces), base)
	base += int64(len(rc)*len(rc)*len(scopes)) * int64(len(phase2Traces))
	lap("phase2")

	// ---- phase 3: two rules (first match wins) x rule outcomes, every value of the draw
	outs1 := []outcome{{"drop", 0}, {"rate", 1}, {"rate", 2}, {"rate", 3}, {"det", 1}, {"det", 2}, {"det+drop", 2}, {"dyn", 2}}
	outs2 := []outcome{{"drop", 0}, {"rate", 2}, {"det", 2}, {"rate", 1}, {"dyn", 2}}
	r1c := []cond{rc[0], rc[1], rc[3], rc[6], rc[8], rc[15], rc[19], rc[21], rc[26], rc[28]}
	r2c := []*cond{nil, &rc[1], &rc[5], &rc[6], &rc[10], &rc[29]}
	dims3 := []int{len(r1c), len(scopes), len(outs1), len(r2c), len(outs2)}
	n3 := 1
	for _, d := range dims3 {
		n3 *= d
	}
	runPhase(r, "phase3", n3, 4, func(i int) (ruleset, []*traceD) {
		idx := make([]int, len(dims3))
		for d, x := len(dims3)-1, i; d >= 0; d-- {
			idx[d] = x % dims3[d]
			x /= dims3[d]
		}
		r1 := rule{name: "R1X", scope: scopes[idx[1]], conds: []cond{r1c[idx[0]]}, out: outs1[idx[2]]}
		r2 := rule{name: "R2Y", out: outs2[idx[4]]}
		if c := r2c[idx[3]]; c != nil {
			r2.conds = []cond{*c}
		}
		trs := phase3Kept
		if ((r1.out.kind == "det" || r1.out.kind == "det+drop") && r1.out.n == 2) || (r2.out.kind == "det") {
			trs = phase3Traces
		}
		return ruleset{r1, r2}, trs
	}, len(phase3Traces), base)
	for _, o1 := range outs1 {
		for _, o2 := range outs2 {
			r.Distinct("distinct_nontrivial", "p3|"+o1.String()+"|"+o2.String())
		}
	}
	lap("phase3")
	phase4(r, idKept, idDropped) // look-alike rules with downstream samplers (phase4.go)
	lap("phase4")
	r.Set("phase_wall_s", phaseWall)
	// ---- verdicts, in a deterministic order, the minimal (earliest enumerated) case per class
	var sigs []string
	for s := range viols {
		sigs = append(sigs, s)
	}
	sort.Strings(sigs)
	for _, s := range sigs {
		r.Violation(s, viols[s].what, viols[s].replay)
	}
	r.Set("mismatching_cases_per_class", infoN)
	r.Set("evaluations", r.Count("cases"))
	r.Set("rule", "the rule applied (read from the reason) is one the documented semantics permit as first match; Drop drops; SampleRate N reports N and keeps for exactly one of the N draw values; a downstream sampler's answer is returned unchanged; no match keeps at rate 1")
	r.Set("bounds", map[string]any{
		"operators": operators, "datatypes": datatypes, "condition_values": func() (o []string) {
			for _, v := range condValues {
				o = append(o, v.yaml)
			}
			return
		}(), "field_forms": formYAML, "scopes": scopes,
		"span_values_f": "absent,1,2,1.5,\"1\",\"a\",true,null", "span_values_g": "absent,\"a\",2",
		"phase1": fmt.Sprintf("%d single conditions x 2 scopes x %d traces (1-2 spans full domain, root none/first/last; 3 spans %s, every root choice)", len(conds), len(phase1Traces), ev.Pick(r, "reduced domain", "full domain")),
		"phase2": fmt.Sprintf("%d^2 ordered condition pairs x 2 scopes x %d traces", len(rc), len(phase2Traces)),
		"phase3": fmt.Sprintf("2-rule lists: %d x 2 scopes x %d outcomes, then %d x %d outcomes, x %d traces (two trace ids: kept/dropped by the downstream sampler), every draw value", len(r1c), len(outs1), len(r2c), len(outs2), len(phase3Traces)),
	})
	r.Sample(map[string]any{"example_config": ruleset{{name: "R1X", scope: "span", conds: []cond{rc[3], rc[19]}, out: outcome{"rate", 2}}, {name: "R2Y", out: outcome{"det", 2}}}.yaml(), "example_trace": phase2Traces[700].String()})
	for _, a := range []string{
		"UNSPECIFIED (never alarms) — a field that is absent on the span under evaluation but present on another span of the trace, for every operator except exists/not-exists (the documents and the statement speak only about fields absent from the whole trace)",
		"UNSPECIFIED — span values that are present but null; how null renders as a string",
		"UNSPECIFIED — not-exists on a root.-prefixed field when the trace has no root span (rules.md says both 'that field will be skipped' and 'will evaluate to false'; the repository's own test pins 'matches')",
		"UNSPECIFIED — a condition Value that cannot be converted to the declared Datatype (e.g. Datatype int with Value a/true/\"\"/a list), bool Datatype with a non-boolean Value or an ordering operator, in/not-in with Datatype bool or a scalar Value, has-root-span with a non-boolean Value, lists with comparison operators. NOTE: rules.md says 'Errors in conversion will result in the comparison evaluating to false' while the implementation silently falls back to the untyped comparison for such conditions (Init() error is only logged at debug level) — recorded, not alarmed, because validation-passing-but-nonsensical conditions are outside what the statement calls documented semantics",
		"UNSPECIFIED — untyped comparison of a numeric span value with a fractional Value where 'convert the Value to the span's type' and plain numeric comparison disagree; numeric/boolean span value against a Value of another kind (except '=' against non-numeric text: false); '!=' where the documents say 'the comparison will fail'; negative operators (!=, not-in) when the span value cannot be converted to the Datatype; ordering of booleans; bool Datatype on the strings \"1\"/\"0\"/\"true\"/\"false\"",
		"UNSPECIFIED — in/not-in without Datatype where exact (typed) equality and equality of rendered text disagree (1 vs \"1\"); `matches` where an unanchored and a fully anchored match disagree",
		"config.ValidateRules does not list DeterministicSampler among the valid children of a rule's Sampler although the structs, SamplerFactory.GetDownstreamSampler and the repository's TestRulesWithDeterministicSampler support it: for the admission test only, such a rule is validated with a DynamicSampler stand-in; a downstream DynamicSampler (validator-accepted) is exercised as well, against a stand-alone DynamicSampler and with every draw value",
		"the rate reported for a Drop rule is not checked (nothing documented); configurations rejected by config.ValidateRules (mixed-type lists) are skipped and counted",
		"the draw: process-global math/rand, owned by re-seeding (randseednop=0) so that the first Intn(N) is each of 0..N-1; every sampler call of a configuration that can draw is serialised",
		"which rule was applied is read from the reason string (it contains the rule's Name; 'no rule matched' otherwise), as the repository's own tests do",
	} {
		r.Assume(a)
	}
	r.Finish()
}
