package main

// Phase 4: "a rule with a downstream sampler delegates to it" for look-alike rules. Name is optional; two rules
// of one sampler may have no name (or the same one), the same scope, the same number of conditions and the same
// kind of downstream sampler with different parameters. Each must still delegate to ITS OWN downstream sampler.
//
// The rule that applied cannot be read off the reason here (that is how the other phases identify it), so the
// oracle is on the outcome: the traces used match exactly one of the two rules, by a condition every reading of
// the documents agrees on (untyped `=` of an int / a string against a present field of that type), and the
// answer must be the one the stand-alone reference sampler of that rule's rate gives (rate and keep).

import (
	"fmt"
	"strings"

	"github.com/honeycombio/refinery/config"
	"github.com/honeycombio/refinery/logger"
	"github.com/honeycombio/refinery/metrics"
	"github.com/honeycombio/refinery/sample"
	"gopkg.in/yaml.v3"

	"verif/engine/ev"
)

func phase4(r *ev.Run, idKept, idDropped string) {
	n := 0
	for _, names := range [][2]string{{"", ""}, {"same", "same"}, {"first", "second"}} {
		for _, scope := range []string{"trace", "span"} {
			for _, rates := range [][2]int{{1, 2}, {2, 1}} {
				nm := func(s string) string {
					if s == "" {
						return ""
					}
					return "Name: " + s + ", "
				}
				y := fmt.Sprintf(`RulesVersion: 2
Samplers:
  __default__:
    RulesBasedSampler:
      Rules:
        - {%sScope: %s, Conditions: [{Field: f, Operator: '=', Value: 1}], Sampler: {DeterministicSampler: {SampleRate: %d}}}
        - {%sScope: %s, Conditions: [{Field: f, Operator: '=', Value: a}], Sampler: {DeterministicSampler: {SampleRate: %d}}}
`, nm(names[0]), scope, rates[0], nm(names[1]), scope, rates[1])
				var m map[string]any
				// (the validation metadata does not list DeterministicSampler as a rule-downstream sampler although the
				// loader and the factory support it; as in the other phases the text is validated with a dynamic
				// sampler in its place)
				yv := strings.ReplaceAll(y, "DeterministicSampler: {", "DynamicSampler: {FieldList: [f], ")
				if err := yaml.Unmarshal([]byte(yv), &m); err != nil {
					ev.Harness("phase 4 YAML does not parse: %v\n%s", err, y)
				}
				for _, res := range rulesMeta.ValidateRules(m) {
					if res.Severity == config.Error {
						ev.Harness("phase 4 configuration rejected by validation (%s):\n%s", res.Message, y)
					}
				}
				var c config.V2SamplerConfig
				if err := yaml.Unmarshal([]byte(y), &c); err != nil {
					ev.Harness("phase 4 YAML does not decode: %v\n%s", err, y)
				}
				mc := &config.MockConfig{GetSamplerTypeVal: c.Samplers["__default__"].RulesBasedSampler, GetSamplerTypeName: "RulesBasedSampler"}
				f := &sample.SamplerFactory{Config: mc, Logger: &logger.NullLogger{}, Metrics: &metrics.NullMetrics{}}
				if err := f.Start(); err != nil {
					ev.Harness("factory start: %v", err)
				}
				s := f.GetSamplerImplementationForKey("env")
				for _, id := range []string{idKept, idDropped} {
					for rule, v := range []valID{vI1, vSa} {
						for _, spans := range [][]valID{{v}, {v, v}, {vAbsent, v}} {
							t := newTrace(spans, make([]valID, len(spans)), len(spans)-1, id)
							wantRate, wantKeep := detExpect(rates[rule], t)
							rate, keep, reason, _ := s.GetSampleRate(t.real)
							n++
							if rate != wantRate || keep != wantKeep {
								report(fmt.Sprintf("delegation/look-alike-rules/names=%q,%q", names[0], names[1]), int64(1)<<60+int64(n),
									fmt.Sprintf("trace [%s] id %q matches only rule %d, whose downstream DeterministicSampler has rate %d (stand-alone: rate %d keep %v); the rules sampler answered rate %d keep %v reason %q; config:\n%s",
										t, id, rule+1, rates[rule], wantRate, wantKeep, rate, keep, reason, y),
									map[string]any{"config_yaml": y, "trace": t.String(), "trace_id": id})
							}
						}
					}
				}
				f.Stop()
			}
		}
	}
	r.Add("phase4_evaluations", int64(n))
	r.Add("evaluations", int64(n))
	r.Distinct("distinct_nontrivial", "p4|look-alike-rules-with-downstream-samplers")
}
