// C06, concurrent part (engine E3): "changes to these reloadable options apply to spans forwarded after the reload"
// rests on the collector hearing about every reload. The configuration's reload callback (sendReloadSignal, run on
// the watcher's goroutine) and the collector's monitor goroutine (reload case: reloadConfigs) meet at a 1-slot signal
// channel; two reloads in quick succession overlap with a running reloadConfigs. Threads: watcher (change the
// configuration, fire the callbacks; twice) ‖ monitor (take a pending signal, run the reload case body extracted from
// the current source); all schedules up to the preemption bound; afterwards the monitor keeps running until no
// signal is pending (epilogue). Oracle: the decoration state the collector derives at reload time (the hostname for
// AddHostMetadataToTrace) is that of the configuration in force, i.e. the last one.
package main

import (
	"fmt"
	"os"

	"github.com/honeycombio/refinery/config"

	"verif/engine/ev"
	"verif/engine/vsched"
	fx "verif/fix/collector"
)

func concurrentPart(r *ev.Run) {
	bound := ev.Pick(r, 2, 3)
	host, _ := os.Hostname()
	if host == "" {
		r.Cap("concurrent part skipped: this machine has no hostname, the observable of the part")
		return
	}
	// sequences of two reloads: (AddHostMetadataToTrace after reload 1, after reload 2), from the opposite start
	scenarios := [][3]bool{{false, true, false}, {true, false, true}, {false, true, true}, {true, false, false}}
	execs := 0
	for _, sc := range scenarios {
		var f *fx.Fixture
		e := &vsched.Explorer{Bound: bound, Stop: func() bool { return r.Expired("c06 concurrent") }, Setup: func() {
			if f != nil {
				f.Close()
			}
			f = fx.New(fx.Options{Workers: 1, AddHostMetadataToTrace: sc[0]})
			vsched.Go("watcher.reload-callbacks", func() {
				for k, v := range sc[1:] {
					v := v
					if k > 0 {
						vsched.Yield() // any amount of the collector's work may happen between two reloads
					}
					f.SetConfig(func(c *config.MockConfig) { c.AddHostMetadataToTrace = v })
					f.Conf.Reload() // fires the registered callbacks, among them the collector's sendReloadSignal
				}
			})
			vsched.Go("collector.monitor", func() {
				for i := 0; i < 4; i++ { // the monitor loop: take a pending signal and handle it, else look again later
					if f.Coll.VerifTakeReloadSignal() {
						f.Coll.VerifC06MonitorReloadBody()
					} else {
						vsched.Yield()
					}
				}
			})
		}, Check: func(x *vsched.Exec) string {
			// the monitor goroutine lives on: whatever is still pending is taken
			for f.Coll.VerifTakeReloadSignal() {
				f.Coll.VerifC06MonitorReloadBody()
			}
			want := ""
			if sc[2] {
				want = host
			}
			if got := f.Coll.VerifHostname(); got != want {
				return fmt.Sprintf("collector-missed-the-last-reload: AddHostMetadataToTrace went %v -> %v -> %v by two reloads; after the collector has handled every reload signal it received, the hostname it decorates with is %q, the configuration in force says %q", sc[0], sc[1], sc[2], got, want)
			}
			r.Distinct("distinct_outcomes", fmt.Sprintf("conc:%v", sc))
			return ""
		}}
		ok := e.Explore()
		execs += e.Stats.Executions
		if !ok {
			r.Violation("concurrent:"+firstWordC(e.Failure), e.Failure, map[string]any{"scenario": fmt.Sprint(sc), "schedule": e.FailExec.Choices})
		}
		if f != nil {
			f.Close()
			f = nil
		}
	}
	r.Set("concurrent_executions", execs)
	r.Set("concurrent_preemption_bound_completed", bound)
}

func firstWordC(s string) string {
	for i, ch := range s {
		if ch == ':' || ch == ' ' {
			return s[:i]
		}
	}
	return s
}
