// C06: forwarded spans are decorated as configured, including after reload (DESIGN §6 C06).
//
// Engine E1 (seqx): BFS over histories of
//
//	span(t,kind)   a span of kind root|child|span-event|link through the worker's span handler (on time or late)
//	stress(t,kind) the same span through the stress-relief entry point ProcessSpanImmediately
//	adv            the fake clock moves past SendDelay and TraceTimeout
//	tick           the worker's send tick (decides due traces)
//	eject          memory-pressure ejection of everything buffered (another way of being decided)
//	send           one iteration of the real sendTraces loop (forwards one decided trace)
//	reload(opt)    a configuration reload that toggles ONE of AddHostMetadataToTrace, AddRuleReasonToTrace,
//	               AddSpanCountToRoot, AddCountsToRoot, or moves AdditionalAttributes to the next of ∅,{a:1},{a:2,b:3}
//
// executed on the real handlers of a real InMemCollector (fix/collector, handler mode, fake clock). Because `send` is
// its own event, a reload can fall between a trace's decision and its transmission.
//
// Reference model (written from the property statement and configMeta.yaml, where all five options are `reload: true`):
// the model keeps the CURRENT value of the five options (changed only by reload events) and, per trace, the number of
// spans of each kind received so far. For every event handed to the transmission during a step it requires, from the
// deep snapshot taken at enqueue time:
//
//	additional attributes : exactly the configured map as of now (keys a, b never occur in a payload)
//	meta.refinery.local_hostname : == os.Hostname() iff AddHostMetadataToTrace is on now
//	meta.refinery.reason  : present iff AddRuleReasonToTrace is on now, and then contains the reason recorded when the
//	                        trace was decided; meta.refinery.send_reason likewise (on-time: the trace's send reason,
//	                        late: trace_send_late_span; the stress path has no send reason to report)
//	root span counts      : for a root forwarded by the trace sampler (on time, or late for a sampler-decided trace):
//	                        AddCountsToRoot on  → meta.event_count = all spans received when the trace was decided (late
//	                        root: when the root arrived, itself included), meta.span_event_count / meta.span_link_count the
//	                        span events / links among them, meta.span_count the rest;
//	                        else AddSpanCountToRoot on → meta.span_count = all of them;
//	                        a count that is 0 is not serialised by the payload (0 ≡ absent).
//
// Weak readings (see r.Assume): count fields must be ABSENT only if the option was off both when the trace was decided
// and when the span was forwarded; no count requirement for traces decided by stress relief.
package main

import (
	"encoding/json"
	"fmt"
	"os"
	"sort"
	"strings"
	"sync"
	"time"

	"github.com/honeycombio/refinery/collect"
	"github.com/honeycombio/refinery/config"

	"verif/engine/ev"
	"verif/engine/seqx"
	fx "verif/fix/collector"
	"verif/fix/collector/cx"
)

const (
	fHost       = "meta.refinery.local_hostname"
	fReason     = "meta.refinery.reason"
	fSendReason = "meta.refinery.send_reason"
	fSpanCount  = "meta.span_count"
	fEventCount = "meta.event_count"
	fSpanEvents = "meta.span_event_count"
	fSpanLinks  = "meta.span_link_count"
)

var attrSets = []map[string]string{nil, {"a": "1"}, {"a": "2", "b": "3"}}
var attrUniverse = []string{"a", "b"}

var hostname = func() string {
	h, err := os.Hostname()
	if err != nil || h == "" {
		ev.Harness("C06 needs a non-empty os.Hostname() (got %q, %v)", h, err)
	}
	return h
}()

// ---- events

type event struct {
	Op  string  `json:"op"` // span | stress | adv | tick | eject | send | reload
	T   int     `json:"t,omitempty"`
	K   fx.Kind `json:"k,omitempty"`
	Opt string  `json:"opt,omitempty"` // reload: host | reason | spancount | counts | attrs
}

func (e event) String() string {
	switch e.Op {
	case "span", "stress":
		return fmt.Sprintf("%s(%d,%s)", e.Op, e.T, e.K)
	case "reload":
		return "reload(" + e.Opt + ")"
	}
	return e.Op
}

func hist(h []event) string {
	var p []string
	for _, e := range h {
		p = append(p, e.String())
	}
	return strings.Join(p, " ")
}

func key(h []event) string { b, _ := json.Marshal(h); return string(b) }

// ---- model

type mcfg struct {
	Host, Reason, SpanCount, Counts bool
	Attrs                           int
}

func (c mcfg) String() string {
	b := func(v bool) string {
		if v {
			return "1"
		}
		return "0"
	}
	return "host" + b(c.Host) + ",reason" + b(c.Reason) + ",spancount" + b(c.SpanCount) + ",counts" + b(c.Counts) + fmt.Sprintf(",attrs%d", c.Attrs)
}

func (c *mcfg) toggle(opt string) {
	switch opt {
	case "host":
		c.Host = !c.Host
	case "reason":
		c.Reason = !c.Reason
	case "spancount":
		c.SpanCount = !c.SpanCount
	case "counts":
		c.Counts = !c.Counts
	case "attrs":
		c.Attrs = (c.Attrs + 1) % len(attrSets)
	default:
		panic("c06: unknown option " + opt)
	}
}

func (c mcfg) apply(m *config.MockConfig) {
	m.AddHostMetadataToTrace = c.Host
	m.AddRuleReasonToTrace = c.Reason
	m.AddSpanCountToRoot = c.SpanCount
	m.AddCountsToRoot = c.Counts
	if a := attrSets[c.Attrs]; a == nil {
		m.AdditionalAttributes = nil
	} else {
		cp := map[string]string{}
		for k, v := range a {
			cp[k] = v
		}
		m.AdditionalAttributes = cp
	}
}

type mspan struct {
	id     string
	tr     *mtrace
	kind   fx.Kind
	path   string // ontime | late | stress
	recvAt [4]int // spans of the trace received up to and including this one, by kind
	fwd    int
}

type mtrace struct {
	id         string
	recv       [4]int
	nspan      int
	buffered   bool
	decided    bool
	kept       bool
	byStress   bool
	by         string // tick | eject | stress
	reason     string
	sendReason string
	atDecision [4]int
	cfgAtDec   mcfg
	pending    int // on-time spans decided-kept but not yet forwarded
}

type scenario struct {
	name       string
	init       mcfg
	ids        []string
	kinds      []fx.Kind
	stress     []fx.Kind
	opts       []string
	sampler    func() any
	eject      bool
	depth      int
	maxSpans   int
	maxReloads int
	maxAdv     int
	hints      sync.Map
}

type hint struct {
	buffered, decided []bool
	nspan             []int
	out, nadv, nrel   int
}

var tcfg = config.TracesConfig{SendDelay: config.Duration(time.Second), TraceTimeout: config.Duration(4 * time.Second), SendTicker: config.Duration(100 * time.Millisecond)}

const advance = 4*time.Second + time.Millisecond

func sum(a [4]int) int { return a[0] + a[1] + a[2] + a[3] }

func num(v any) (int64, bool) {
	switch x := v.(type) {
	case nil:
		return 0, true // a zero count is not serialised
	case int64:
		return x, true
	case int:
		return int64(x), true
	case uint:
		return int64(x), true
	case uint32:
		return int64(x), true
	case float64:
		return int64(x), float64(int64(x)) == x
	}
	return 0, false
}

// run is one execution (handler mode or the handler twin of a loop run).
type run struct {
	s       *scenario
	f       *fx.Fixture
	cfg     mcfg
	touched map[string]bool // options toggled at least once by a reload
	traces  map[string]*mtrace
	spans   map[string]*mspan
	txSeen  int
	step    int
	nadv    int
	nrel    int
	flags   map[string]bool
	fail    *seqx.Failure
	h       []event
}

func (s *scenario) options(loop bool) fx.Options {
	o := fx.Options{Workers: 1, Traces: tcfg, Sampler: s.sampler, KeptSize: 16, Loop: loop,
		AddHostMetadataToTrace: s.init.Host, AddRuleReasonToTrace: s.init.Reason, AddSpanCountToRoot: s.init.SpanCount, AddCountsToRoot: s.init.Counts,
		StressRelief: &collect.MockStressReliever{IsStressed: true, ShouldKeep: true, SampleRate: 3}}
	if a := attrSets[s.init.Attrs]; a != nil {
		cp := map[string]string{}
		for k, v := range a {
			cp[k] = v
		}
		o.AdditionalAttributes = cp
	}
	return o
}

func (s *scenario) newRun(f *fx.Fixture, h []event) *run {
	r := &run{s: s, f: f, cfg: s.init, touched: map[string]bool{}, traces: map[string]*mtrace{}, spans: map[string]*mspan{}, flags: map[string]bool{}, h: h}
	for _, id := range s.ids {
		r.traces[id] = &mtrace{id: id}
	}
	return r
}

func (r *run) violate(sig, format string, a ...any) {
	if r.fail != nil {
		return
	}
	r.fail = &seqx.Failure{Sig: "c06:" + sig, What: fmt.Sprintf("step %d: ", r.step) + fmt.Sprintf(format, a...) +
		fmt.Sprintf("  [start config %v; config now %v; history: %s]", r.s.init, r.cfg, hist(r.h))}
}

func (r *run) tag(opt string) string {
	if r.touched[opt] {
		return "after-reload"
	}
	return "since-start"
}

func (r *run) spec(e event) (fx.SpanSpec, *mspan) {
	t := r.traces[r.s.ids[e.T]]
	t.nspan++
	t.recv[e.K]++
	ms := &mspan{id: fmt.Sprintf("%s.%d", t.id, t.nspan), tr: t, kind: e.K, recvAt: t.recv}
	r.spans[ms.id] = ms
	return fx.SpanSpec{TraceID: t.id, Kind: e.K, ID: ms.id}, ms
}

// deliver functions are supplied by the caller so that the same model/oracle serves handler and loop mode.
type driver struct {
	span   func(fx.SpanSpec)
	stress func(fx.SpanSpec)
	adv    func()
	tick   func()
	eject  func()
	send   func()
	reload func(func(*config.MockConfig))
}

func handlerDriver(f *fx.Fixture) driver {
	return driver{
		span:   func(s fx.SpanSpec) { f.Span(s) },
		stress: func(s fx.SpanSpec) { f.Immediately(f.MakeSpan(s)) },
		adv:    func() { f.Advance(advance) },
		tick:   func() { f.Tick(0) },
		eject:  func() { f.Eject(0, 1<<40) },
		send:   func() { f.SendStep() },
		reload: func(m func(*config.MockConfig)) { f.Reload(m) },
	}
}

func (r *run) isBuffered(id string) bool {
	t := r.f.Coll.VerifBufferedTrace(id)
	return t != nil && !t.Sent
}

func (r *run) do(d driver, e event) {
	r.step++
	f := r.f
	q0 := len(f.Outgoing())
	switch e.Op {
	case "span":
		spec, ms := r.spec(e)
		t := ms.tr
		d.span(spec)
		switch {
		case r.isBuffered(t.id):
			if t.decided {
				// the decision was forgotten and a new trace started: not reachable with a kept-decision capacity of 16
				ev.Harness("C06: span %s of decided trace %s was buffered again: %s", ms.id, t.id, hist(r.h))
			}
			ms.path, t.buffered = "ontime", true
		case t.decided:
			ms.path = "late"
		default:
			ev.Harness("C06: span %s neither buffered nor late: %s", ms.id, hist(r.h))
		}
	case "stress":
		spec, ms := r.spec(e)
		t := ms.tr
		ms.path = "stress"
		if t.buffered {
			ev.Harness("C06: stress span offered for a buffered trace: %s", hist(r.h))
		}
		d.stress(spec)
		if !t.decided {
			t.decided, t.kept, t.byStress, t.by, t.reason, t.cfgAtDec = true, true, true, "stress", "mock", r.cfg
		}
	case "adv":
		r.nadv++
		d.adv()
	case "tick", "eject":
		if e.Op == "tick" {
			d.tick()
		} else {
			d.eject()
		}
		out := f.Outgoing()
		queued := map[string]fx.OutView{}
		for _, o := range out[min(q0, len(out)):] {
			queued[o.TraceID] = o
		}
		for _, id := range r.s.ids {
			t := r.traces[id]
			if !t.buffered || r.isBuffered(id) {
				continue
			}
			t.buffered, t.decided, t.by, t.atDecision, t.cfgAtDec = false, true, e.Op, t.recv, r.cfg
			if o, ok := queued[id]; ok {
				t.kept, t.reason, t.sendReason = true, o.Reason, o.SendReason
				t.pending = len(o.Spans)
				if t.reason == "" {
					ev.Harness("C06: decided trace %s has an empty reason", id)
				}
			} else {
				t.kept = false
				r.flags["dropped"] = true
			}
		}
	case "send":
		d.send()
	case "reload":
		r.nrel++
		r.cfg.toggle(e.Opt)
		r.touched[e.Opt] = true
		c := r.cfg
		d.reload(c.apply)
	default:
		panic("c06: unknown event " + e.Op)
	}
	r.checkTx(e)
}

// checkTx evaluates the oracle on every event handed to the transmission since the last call.
func (r *run) checkTx(e event) {
	log := r.f.Tx.Log(r.txSeen)
	r.txSeen += len(log)
	for _, s := range log {
		ms := r.spans[s.SpanID]
		if ms == nil || ms.tr.id != s.TraceID {
			ev.Harness("C06: transmission of unknown span %q/%q: %s", s.TraceID, s.SpanID, hist(r.h))
		}
		ms.fwd++
		t := ms.tr
		path := ms.path
		switch {
		case e.Op == "send" && path == "ontime":
			t.pending--
		case e.Op == "span" && path == "late", e.Op == "stress" && path == "stress":
		default:
			// who forwards what and when is C01/C02's subject; decoration is still checked below
			r.flags["forward-outside-expected-step"] = true
		}
		r.oracle(s, ms, path)
	}
}

func (r *run) oracle(s fx.Sent, ms *mspan, path string) {
	c := r.cfg
	t := ms.tr
	desc := fmt.Sprintf("span %s (%s, forwarded %s) of trace %s (decided by %s)", ms.id, ms.kind, path, t.id, t.by)

	// additional attributes
	want := attrSets[c.Attrs]
	for _, k := range attrUniverse {
		got, has := s.Fields[k]
		w, wanted := want[k]
		switch {
		case wanted && !has:
			r.violate("attributes:missing:"+path+":"+r.tag("attrs"), "%s lacks configured additional attribute %s=%s (configured now: %v)", desc, k, w, want)
		case wanted && fmt.Sprint(got) != w:
			r.violate("attributes:stale-value:"+path+":"+r.tag("attrs"), "%s carries additional attribute %s=%v, configured now is %s", desc, k, got, w)
		case !wanted && has:
			r.violate("attributes:no-longer-configured:"+path+":"+r.tag("attrs"), "%s carries additional attribute %s=%v which is not configured now (%v)", desc, k, got, want)
		}
	}
	r.flags[fmt.Sprintf("attrs%d/%s", c.Attrs, path)] = true

	// hostname
	hv, hasHost := s.Fields[fHost]
	switch {
	case c.Host && !hasHost:
		r.violate("hostname:missing:"+path+":"+r.tag("host"), "%s lacks %s although AddHostMetadataToTrace is enabled", desc, fHost)
	case c.Host && fmt.Sprint(hv) != hostname:
		r.violate("hostname:wrong-value:"+path, "%s carries %s=%v, the host is %q", desc, fHost, hv, hostname)
	case !c.Host && hasHost:
		r.violate("hostname:present-though-disabled:"+path+":"+r.tag("host"), "%s carries %s=%v although AddHostMetadataToTrace is disabled", desc, fHost, hv)
	}
	r.flags[fmt.Sprintf("host%v/%s/%s", c.Host, path, r.tag("host"))] = true

	// decision reason
	rv, hasReason := s.Fields[fReason]
	sv, hasSend := s.Fields[fSendReason]
	switch {
	case c.Reason && !hasReason:
		r.violate("reason:missing:"+path+":"+r.tag("reason"), "%s lacks %s although AddRuleReasonToTrace is enabled", desc, fReason)
	case c.Reason && !strings.Contains(fmt.Sprint(rv), t.reason):
		r.violate("reason:not-the-decision-reason:"+path, "%s carries %s=%q, the trace was decided with reason %q", desc, fReason, rv, t.reason)
	case !c.Reason && hasReason:
		r.violate("reason:present-though-disabled:"+path+":"+r.tag("reason"), "%s carries %s=%v although AddRuleReasonToTrace is disabled", desc, fReason, rv)
	}
	wantSend := map[string]string{"ontime": t.sendReason, "late": collect.TraceSendLateSpan}[path]
	switch {
	case c.Reason && path != "stress" && !hasSend:
		r.violate("send-reason:missing:"+path+":"+r.tag("reason"), "%s lacks %s although AddRuleReasonToTrace is enabled", desc, fSendReason)
	case c.Reason && path != "stress" && fmt.Sprint(sv) != wantSend:
		r.violate("send-reason:wrong:"+path, "%s carries %s=%v, expected %s", desc, fSendReason, sv, wantSend)
	case !c.Reason && hasSend:
		r.violate("send-reason:present-though-disabled:"+path+":"+r.tag("reason"), "%s carries %s=%v although AddRuleReasonToTrace is disabled", desc, fSendReason, sv)
	}
	r.flags[fmt.Sprintf("reason%v/%s/%s", c.Reason, path, r.tag("reason"))] = true

	// root counts
	if ms.kind != fx.Root || path == "stress" {
		return
	}
	if t.byStress {
		r.flags["root-of-stress-decided-trace(no count oracle)"] = true
		return
	}
	n := t.atDecision
	when := "when the trace was decided"
	if path == "late" {
		n, when = ms.recvAt, "when this late root arrived"
	}
	total, evs, links := int64(sum(n)), int64(n[fx.SpanEvent]), int64(n[fx.Link])
	wantF := map[string]int64{}
	mode := "off"
	switch {
	case c.Counts:
		mode = "counts"
		wantF[fEventCount], wantF[fSpanEvents], wantF[fSpanLinks], wantF[fSpanCount] = total, evs, links, total-evs-links
	case c.SpanCount:
		mode = "spancount"
		wantF[fSpanCount] = total
	}
	// may a field legitimately be left over from decision time (option on then, off now)? Only on the on-time path.
	leftover := map[string]bool{}
	if path == "ontime" {
		if t.cfgAtDec.Counts {
			leftover[fEventCount], leftover[fSpanEvents], leftover[fSpanLinks], leftover[fSpanCount] = true, true, true, true
		} else if t.cfgAtDec.SpanCount {
			leftover[fSpanCount] = true
		}
	}
	ctag := "since-start"
	if r.touched["counts"] || r.touched["spancount"] {
		ctag = "after-reload"
	}
	for _, fld := range []string{fSpanCount, fEventCount, fSpanEvents, fSpanLinks} {
		got, ok := num(s.Fields[fld])
		if !ok {
			r.violate("root-counts:not-a-number:"+fld, "%s carries %s=%v (%T)", desc, fld, s.Fields[fld], s.Fields[fld])
			continue
		}
		w, wanted := wantF[fld]
		switch {
		case wanted && got != w:
			r.violate(fmt.Sprintf("root-counts:%s:%s:%s:%s", fld, mode, path, ctag),
				"%s carries %s=%d, expected %d: %s Refinery had received %d spans of the trace (%d span events, %d links) [mode %s]", desc, fld, got, w, when, total, evs, links, mode)
		case !wanted && got != 0 && !leftover[fld]:
			r.violate(fmt.Sprintf("root-counts:%s:present-though-disabled:%s:%s", fld, path, ctag),
				"%s carries %s=%d although neither root-count option asks for it now nor did when the trace was decided", desc, fld, got)
		case !wanted && got != 0:
			r.flags["root-count-left-over-from-decision-time"] = true
		}
	}
	r.flags[fmt.Sprintf("rootcounts-%s/%s/n%d", mode, path, total)] = true
	if evs > 0 || links > 0 {
		r.flags["root-with-annotations/"+mode] = true
	}
}

// canon: two histories are merged only if they agree on everything below, which determines every future observation:
// the model configuration and which options were ever toggled (signature tags), per trace the multiset of buffered span
// kinds / root presence / whether its deadline has passed, the decision (by whom, reason, counts at decision, options at
// decision), the counts received so far, the kept record of the real decision cache, the outgoing queue, and the event budgets.
func (r *run) canon() string {
	var b strings.Builder
	now := r.f.Now()
	fmt.Fprintf(&b, "%v|", r.cfg)
	var tk []string
	for k := range r.touched {
		tk = append(tk, k)
	}
	sort.Strings(tk)
	fmt.Fprintf(&b, "%v|", tk)
	for _, id := range r.s.ids {
		t := r.traces[id]
		fmt.Fprintf(&b, "%s n%d r%v ", id, t.nspan, t.recv)
		if tv := r.f.Coll.VerifBufferedTrace(id); tv != nil {
			var ks []string
			for _, sp := range tv.GetSpans() {
				ks = append(ks, r.spans[fx.SpanID(sp)].kind.String())
			}
			sort.Strings(ks)
			lastRoot := ""
			if tv.RootSpan != nil {
				lastRoot = fx.SpanID(tv.RootSpan)
			}
			fmt.Fprintf(&b, "buf%v root=%v due=%v sent=%v ", ks, lastRoot != "", !tv.SendBy.After(now), tv.Sent)
		}
		if t.decided {
			fmt.Fprintf(&b, "dec(%v,%s,%s,%s,%v,%v,p%d) ", t.kept, t.by, t.reason, t.sendReason, t.atDecision, t.cfgAtDec, t.pending)
		}
		d := r.f.Remembered(id)
		fmt.Fprintf(&b, "rem(%v,%v,%+v);", d.Kept, d.Dropped(), d.KeptRec)
	}
	b.WriteString("Q")
	for _, o := range r.f.Outgoing() {
		fmt.Fprintf(&b, "%s:%d,", o.TraceID, len(o.Spans))
	}
	fmt.Fprintf(&b, "|a%d r%d", r.nadv, r.nrel)
	return b.String()
}

func (r *run) outcome() string {
	var fl []string
	for k := range r.flags {
		fl = append(fl, k)
	}
	sort.Strings(fl)
	return strings.Join(fl, ",")
}

func (s *scenario) exec(er *ev.Run, h []event) (string, string, *seqx.Failure) {
	f := fx.New(s.options(false))
	defer f.Close()
	r := s.newRun(f, h)
	d := handlerDriver(f)
	for _, e := range h {
		r.do(d, e)
		if r.fail != nil {
			return "", "", r.fail
		}
	}
	hn := &hint{out: len(f.Outgoing()), nadv: r.nadv, nrel: r.nrel}
	for _, id := range s.ids {
		t := r.traces[id]
		hn.buffered = append(hn.buffered, t.buffered)
		hn.decided = append(hn.decided, t.decided)
		hn.nspan = append(hn.nspan, t.nspan)
	}
	s.hints.Store(key(h), hn)
	for k := range r.flags {
		er.Distinct("decoration_cases_checked", k)
		caseSet.Store(k, true)
	}
	if m := f.Tx.Mutated(); len(m) > 0 {
		er.Add("events_changed_after_enqueue", int64(len(m)))
	}
	return r.canon(), r.outcome(), nil
}

func (s *scenario) enabled(h []event) []event {
	hn := &hint{buffered: make([]bool, len(s.ids)), decided: make([]bool, len(s.ids)), nspan: make([]int, len(s.ids))}
	if v, ok := s.hints.Load(key(h)); ok {
		hn = v.(*hint)
	}
	var out []event
	anyBuf := false
	for t := range s.ids {
		anyBuf = anyBuf || hn.buffered[t]
		if hn.nspan[t] >= s.maxSpans {
			continue
		}
		for _, k := range s.kinds {
			out = append(out, event{Op: "span", T: t, K: k})
		}
		if !hn.buffered[t] { // stress-relief decisions for a trace that is being buffered are excluded (as in C01)
			for _, k := range s.stress {
				out = append(out, event{Op: "stress", T: t, K: k})
			}
		}
	}
	if anyBuf {
		if hn.nadv < s.maxAdv {
			out = append(out, event{Op: "adv"})
		}
		out = append(out, event{Op: "tick"})
		if s.eject {
			out = append(out, event{Op: "eject"})
		}
	}
	if hn.out > 0 {
		out = append(out, event{Op: "send"})
	}
	if hn.nrel < s.maxReloads {
		for _, o := range s.opts {
			out = append(out, event{Op: "reload", Opt: o})
		}
	}
	return out
}

var caseSet sync.Map // every (option value, path, since-start/after-reload, count mode) combination the oracle was evaluated on

// ---- samplers

func det1() any { return &config.DeterministicSamplerConfig{SampleRate: 1} }

// rulesByRoot keeps everything, with a reason that depends on the content of the trace at decision time.
func rulesByRoot() any {
	return &config.RulesBasedSamplerConfig{Rules: []*config.RulesBasedSamplerRule{
		{Name: "complete", SampleRate: 1, Conditions: []*config.RulesBasedSamplerCondition{{Operator: config.HasRootSpan, Value: true}}},
		{Name: "rootless", SampleRate: 1},
	}}
}

// ---- loop conformance: the same histories through the really started goroutines

func decor(s fx.Sent) string {
	var ks []string
	for k := range s.Fields {
		if strings.HasPrefix(k, "meta.refinery.") || strings.HasPrefix(k, "meta.span") || k == fEventCount || k == "meta.stressed" || k == "a" || k == "b" {
			ks = append(ks, k)
		}
	}
	sort.Strings(ks)
	var b strings.Builder
	fmt.Fprintf(&b, "%s r%d {", s.SpanID, s.SampleRate)
	for _, k := range ks {
		fmt.Fprintf(&b, "%s=%v ", k, s.Fields[k])
	}
	b.WriteString("}")
	return b.String()
}

func decorAll(f *fx.Fixture) []string {
	var out []string
	for _, s := range f.Tx.Log(0) {
		out = append(out, decor(s))
	}
	sort.Strings(out)
	return out
}

func (s *scenario) loopAlphabet() []event {
	var out []event
	for t := range s.ids {
		for _, k := range s.kinds {
			out = append(out, event{Op: "span", T: t, K: k})
		}
		for _, k := range s.stress {
			out = append(out, event{Op: "stress", T: t, K: k})
		}
	}
	out = append(out, event{Op: "advtick"})
	if s.eject {
		out = append(out, event{Op: "eject"})
	}
	for _, o := range s.opts {
		out = append(out, event{Op: "reload", Opt: o})
	}
	return out
}

// handler twin: every loop-shaped event followed by a full drain of the sender (the started sender runs at once).
func (s *scenario) runTwin(h []event) ([]string, *seqx.Failure, bool) {
	f := fx.New(s.options(false))
	defer f.Close()
	r := s.newRun(f, h)
	d := handlerDriver(f)
	for _, e := range h {
		if (e.Op == "stress") && r.traces[s.ids[e.T]].buffered {
			return nil, nil, false // excluded combination
		}
		switch e.Op {
		case "advtick":
			r.do(d, event{Op: "adv"})
			r.do(d, event{Op: "tick"})
		default:
			r.do(d, e)
		}
		for len(f.Outgoing()) > 0 {
			r.do(d, event{Op: "send"})
		}
	}
	return decorAll(f), r.fail, true
}

func (s *scenario) runLoop(h []event) []string {
	o := s.options(true)
	o.Traces.SendTicker = config.Duration(advance)
	f := fx.New(o)
	defer f.Close()
	cfg := s.init
	n := map[string]int{}
	mk := func(e event) fx.SpanSpec {
		id := s.ids[e.T]
		n[id]++
		return fx.SpanSpec{TraceID: id, Kind: e.K, ID: fmt.Sprintf("%s.%d", id, n[id])}
	}
	for _, e := range h {
		switch e.Op {
		case "span":
			f.AddSpan(f.MakeSpan(mk(e)))
		case "stress":
			f.Immediately(f.MakeSpan(mk(e)))
		case "advtick":
			if got := f.AdvanceLoop(advance); len(got) != 1 {
				panic(fmt.Sprintf("c06: advtick produced %d ticks", len(got)))
			}
		case "eject":
			f.EjectLoop(0, 1<<40)
		case "reload":
			cfg.toggle(e.Opt)
			c := cfg
			f.ReloadLoop(c.apply)
		}
		// every loop-mode operation above returns only after the worker has finished it (its own barrier); the sender
		// goroutine is awaited here so that, as in the twin, nothing decided stays unsent across the next event
		f.SenderIdle()
	}
	return decorAll(f)
}

func (s *scenario) loopConformance(r *ev.Run, depth int) int {
	alpha := s.loopAlphabet()
	var hs [][]event
	var gen func(h []event)
	gen = func(h []event) {
		if len(h) > 0 {
			hs = append(hs, append([]event{}, h...))
		}
		if len(h) == depth {
			return
		}
		for _, e := range alpha {
			gen(append(h, e))
		}
	}
	gen(nil)
	type res struct {
		sig, what string
		ok        bool
	}
	out := make([]*res, len(hs))
	var wg sync.WaitGroup
	ch := make(chan int, 64)
	for k := 0; k < 16; k++ {
		wg.Add(1)
		go func() {
			defer wg.Done()
			for i := range ch {
				h := hs[i]
				tw, fail, ok := s.runTwin(h)
				if !ok {
					out[i] = &res{}
					continue
				}
				lp := s.runLoop(h)
				switch {
				case strings.Join(tw, "\n") != strings.Join(lp, "\n"):
					out[i] = &res{sig: "c06:loop-conformance:decoration", what: fmt.Sprintf("after %s the started collector forwarded\n%s\nbut the handlers\n%s", hist(h), strings.Join(lp, "\n"), strings.Join(tw, "\n")), ok: true}
				case fail != nil:
					out[i] = &res{sig: fail.Sig, what: fail.What + " [loop-shaped history, confirmed through the started goroutines]", ok: true}
				default:
					out[i] = &res{ok: true}
				}
			}
		}()
	}
	sent := 0
	for i := range hs {
		if i%32 == 0 && r.Expired("loop conformance "+s.name) {
			break
		}
		ch <- i
		sent++
	}
	close(ch)
	wg.Wait()
	done := 0
	for i, x := range out[:sent] {
		if x == nil || !x.ok {
			continue
		}
		done++
		if x.sig != "" {
			r.Violation(x.sig, s.name+": "+x.what, map[string]any{"scenario": s.name, "loop_history": hs[i]})
		}
	}
	r.Add("loop_histories", int64(done))
	r.Add("transitions", int64(done))
	return done
}

func main() {
	r := ev.New("C06", "model_checking")
	r.Assume("reload = MockConfig change + the collector's reload handler (reloadConfigs) + every worker's reload case, completed before the next event; 'forward time' = the handler call that hands the span to the transmission")
	r.Assume("root-count fields must be absent (0) only when the option was off both when the trace was decided and when the span was forwarded; a count left on the root by the decision step after the option was switched off before transmission is accepted")
	r.Assume("no root-count requirement for traces decided by stress relief (statement: 'forwarded by the trace sampler') nor for roots forwarded through ProcessSpanImmediately")
	r.Assume("meta.refinery.send_reason is required on the sampler paths only (trace send reason on time, trace_send_late_span for late spans); the stress path has no send reason to report, but must not carry one when reasons are disabled")
	r.Assume("meta.span_count under AddCountsToRoot counts every span that is neither a span event nor a link (root included), so that span_count+span_event_count+span_link_count = event_count = spans received")
	r.Assume("stress-relief spans are only offered for traces that are not currently buffered (stress toggling while a trace is buffered is excluded, as in C01)")

	ids := cx.PickIDs(1, det1, []cx.Want{{Worker: 0}, {Worker: 0}})
	all := []fx.Kind{fx.Root, fx.Child, fx.SpanEvent, fx.Link}
	off := mcfg{}
	on := mcfg{Host: true, Reason: true, SpanCount: true, Counts: true, Attrs: 1}
	q := func(a, b int) int { return ev.Pick(r, a, b) }
	scs := []*scenario{
		// one option at a time, from both start values, one trace, every span kind, late roots, stress path
		{name: "host/off", init: off, ids: ids[:1], kinds: all, stress: []fx.Kind{fx.Root, fx.Child}, opts: []string{"host"}, sampler: det1, eject: true, depth: q(6, 8), maxSpans: 3, maxReloads: 2, maxAdv: 1},
		{name: "host/on", init: on, ids: ids[:1], kinds: all, stress: []fx.Kind{fx.Root, fx.Child}, opts: []string{"host"}, sampler: det1, eject: true, depth: q(6, 8), maxSpans: 3, maxReloads: 2, maxAdv: 1},
		{name: "reason/off", init: off, ids: ids[:1], kinds: []fx.Kind{fx.Root, fx.Child}, stress: []fx.Kind{fx.Child}, opts: []string{"reason"}, sampler: rulesByRoot, eject: true, depth: q(6, 8), maxSpans: 3, maxReloads: 2, maxAdv: 1},
		{name: "reason/on", init: on, ids: ids[:1], kinds: []fx.Kind{fx.Root, fx.Child}, stress: []fx.Kind{fx.Child}, opts: []string{"reason"}, sampler: rulesByRoot, eject: true, depth: q(6, 8), maxSpans: 3, maxReloads: 2, maxAdv: 1},
		{name: "counts/off", init: off, ids: ids[:1], kinds: all, stress: []fx.Kind{fx.Child}, opts: []string{"spancount", "counts"}, sampler: det1, eject: true, depth: q(6, 7), maxSpans: 4, maxReloads: 2, maxAdv: 1},
		{name: "counts/on", init: on, ids: ids[:1], kinds: all, stress: []fx.Kind{fx.Child}, opts: []string{"spancount", "counts"}, sampler: det1, eject: true, depth: q(6, 7), maxSpans: 4, maxReloads: 2, maxAdv: 1},
		{name: "attrs/none", init: off, ids: ids[:1], kinds: []fx.Kind{fx.Root, fx.Child}, stress: []fx.Kind{fx.Child}, opts: []string{"attrs"}, sampler: det1, eject: true, depth: q(6, 8), maxSpans: 3, maxReloads: 3, maxAdv: 1},
		// every option together, two traces
		{name: "all-options/2-traces/off", init: off, ids: ids, kinds: []fx.Kind{fx.Root, fx.Child, fx.SpanEvent}, stress: []fx.Kind{fx.Root}, opts: []string{"host", "reason", "spancount", "counts", "attrs"}, sampler: rulesByRoot, eject: false, depth: q(5, 6), maxSpans: 2, maxReloads: 2, maxAdv: 1},
		{name: "all-options/2-traces/on", init: on, ids: ids, kinds: []fx.Kind{fx.Root, fx.Child, fx.Link}, stress: []fx.Kind{fx.Root}, opts: []string{"host", "reason", "spancount", "counts", "attrs"}, sampler: rulesByRoot, eject: false, depth: q(5, 6), maxSpans: 2, maxReloads: 2, maxAdv: 1},
	}
	if only := os.Getenv("VERIF_SCENARIO"); only != "" {
		var fl []*scenario
		for _, s := range scs {
			if strings.Contains(s.name, only) {
				fl = append(fl, s)
			}
		}
		scs = fl
	}
	bounds := map[string]any{}
	for _, s := range scs {
		s := s
		t := time.Now()
		// every history of length <= 5 is executed whatever the canonical key says in the one-trace scenarios (alphabet <= 11),
		// of length <= 4 in the two-trace ones (alphabet 16) and in those with up to 4 spans per trace
		noMerge := 4
		if len(s.ids) > 1 || s.maxSpans > 3 {
			noMerge = 3
		}
		st := seqx.Explore(r, seqx.Scenario[event]{
			Name: s.name, Enabled: s.enabled,
			Exec:     func(h []event) (string, string, *seqx.Failure) { return s.exec(r, h) },
			MaxDepth: s.depth, Workers: 16,
			NoMergeDepth: noMerge,
		})
		bounds[s.name] = map[string]any{"start_config": s.init.String(), "traces": s.ids, "kinds": fmt.Sprint(s.kinds), "stress_kinds": fmt.Sprint(s.stress), "reload_options": s.opts,
			"depth_bound": s.depth, "depth_completed": st.DepthCompleted, "states": st.States, "transitions": st.Transitions, "max_spans_per_trace": s.maxSpans, "max_reloads": s.maxReloads, "wall_s": time.Since(t).Seconds()}
		fmt.Printf("  %-28s depth %d/%d states %d transitions %d  %.1fs\n", s.name, st.DepthCompleted, s.depth, st.States, st.Transitions, time.Since(t).Seconds())
	}
	nloop := 0
	if os.Getenv("VERIF_SCENARIO") == "" {
		for _, ls := range []*scenario{
			{name: "loop/off", init: off, ids: ids[:1], kinds: ev.Pick(r, []fx.Kind{fx.Root, fx.Child}, []fx.Kind{fx.Root, fx.Child, fx.SpanEvent}), stress: []fx.Kind{fx.Root}, opts: []string{"host", "attrs"}, sampler: rulesByRoot, eject: true},
			{name: "loop/on", init: on, ids: ids[:1], kinds: []fx.Kind{fx.Root, fx.Link}, stress: []fx.Kind{fx.Root}, opts: []string{"host", "counts", "reason"}, sampler: rulesByRoot, eject: r.Thorough()},
		} {
			d := q(3, 4)
			t := time.Now()
			n := ls.loopConformance(r, d)
			nloop += n
			bounds[ls.name] = map[string]any{"depth": d, "histories": n, "alphabet": fmt.Sprint(ls.loopAlphabet()), "wall_s": time.Since(t).Seconds()}
			fmt.Printf("  %-28s depth %d histories %d  %.1fs\n", ls.name, d, n, time.Since(t).Seconds())
		}
	}
	var cases []string
	caseSet.Range(func(k, _ any) bool { cases = append(cases, k.(string)); return true })
	sort.Strings(cases)
	r.Set("decoration_cases", cases)
	r.Set("bounds", bounds)
	r.Set("traces_validated_against_impl", nloop)
	concurrentPart(r)
	r.Finish()
}
