// C09: sampling does not depend on wire encoding or span order.
//
// Engine E2 (enumx), differential oracle. A *logical trace* is a tuple of 1–3 spans (span 0 is the root,
// the others are children) each carrying one field "n" whose value is drawn from
// {int 200, int -1, int 1500000, float 1.5, float 2.0, "x", true, null}. Every logical trace is pushed through the REAL
// routers of an in-process node (fix/pipeline) into a REAL InMemCollector (fix/nodecoll, handler mode) in
// every arrival order and with every per-span choice of wire encoding (JSON event, JSON batch, msgpack
// batch / msgpack event with signed or unsigned, minimal or fixed-width integers and 32/64-bit floats,
// OTLP/HTTP protobuf + JSON, OTLP/gRPC, and "forwarded from a peer" = the bytes a second real node's real
// peer transmission produced for the same span). The sampler's answer (keep, rate, sample key, reason) is
// read from the collector's own makeDecision telemetry and must be IDENTICAL to the answer for the
// canonical presentation of the same logical trace (all spans JSON batch, logical order), for every
// sampler configuration in `samplers()`.
//
// Batching: one collector instance (one "job") receives presentation number b of EVERY logical trace at
// once, each trace under its own trace ID, which depends on the logical trace only (so the reference
// presentation b=0 and every variant of a logical trace use the same ID; the deterministic sampler sees the
// same hash). Spans that arrive p-th in their trace are sent before any span that arrives (p+1)-th; within
// one position, spans that share a path travel in one request. Traces are independent inside the collector
// (the only shared state, dynsampler counts, cannot change a rate within a run: ClearFrequency 24 h).
//
// No expected value is hand-written: the statement is an equivalence, so the oracle is the equivalence.
// The random draw is owned by configuration: every rule keeps with SampleRate 1 or drops with Drop, the
// dynamic samplers run at goal rate 1 with a 24 h clear frequency (so no rate is ever recomputed in a run),
// the deterministic sampler is a pure function of the trace ID.
package main

import (
	"encoding/hex"
	"fmt"
	"os"
	"runtime/pprof"
	"sort"
	"strings"
	"sync"
	"time"

	"github.com/honeycombio/refinery/collect"
	"github.com/honeycombio/refinery/config"

	"verif/engine/enumx"
	"verif/engine/ev"
	"verif/fix/codec"
	"verif/fix/nodecoll"
	"verif/fix/pipeline"
)

const apiKey = "0123456789abcdef0123456789abcdef" // classic key: sampler selector = dataset, no /1/auth lookup

// ---------------------------------------------------------------------------------------------
// logical values

type lval struct {
	Name string
	Kind string // int | float | str | bool
	I    int64
	F    float64
	S    string
	B    bool
}

var values = []lval{
	{Name: "int200", Kind: "int", I: 200},
	{Name: "int-1", Kind: "int", I: -1},
	{Name: "int1500000", Kind: "int", I: 1500000},       // a whole number that JSON delivers as a float and whose %v text is in exponent form
	{Name: "int3000000000", Kind: "int", I: 3000000000}, // beyond 32 signed bits (a duration in ns, a byte count): unsigned 32-bit, signed or unsigned 64-bit on the wire
	{Name: "float1.5", Kind: "float", F: 1.5},
	{Name: "float2.0", Kind: "float", F: 2.0},
	{Name: "str-x", Kind: "str", S: "x"},
	{Name: "true", Kind: "bool", B: true},
	{Name: "null", Kind: "nil"}, // a field that is present with a null value (JSON null / msgpack nil; OTLP has no such attribute)
}

// ---------------------------------------------------------------------------------------------
// encodings of one span

type enc struct {
	Path    string // json-batch | json-event | msgpack-batch | msgpack-event | otlp-http-proto | otlp-http-json | otlp-grpc
	Lead    byte   // integer wire format for msgpack paths (codec.Int16 …); 0 = not an integer value
	F32     bool   // float values: 32-bit msgpack float
	ViaPeer bool   // sent to the non-owner node, which forwards it with its real peer transmission
}

var leadName = map[byte]string{codec.NegFixInt: "negfixint", codec.Int8: "int8", codec.Int16: "int16", codec.Int32: "int32", codec.Int64: "int64",
	codec.Uint8: "uint8", codec.Uint16: "uint16", codec.Uint32: "uint32", codec.Uint64: "uint64"}

func (e enc) String() string {
	s := e.Path
	if e.Lead != 0 {
		s += "/" + leadName[e.Lead]
	}
	if e.F32 {
		s += "/float32"
	}
	if e.ViaPeer {
		s = "peer(" + s + ")"
	}
	return s
}

// family collapses widths: it names the class of Go value Refinery's decoders can be expected to produce.
func (e enc) family(v lval) string {
	s := e.Path
	if strings.HasPrefix(e.Path, "msgpack") {
		switch {
		case v.Kind == "int" && e.Lead >= codec.Uint8 && e.Lead <= codec.Uint64:
			s += "/uint"
		case v.Kind == "int":
			s += "/int"
		case v.Kind == "float" && e.F32:
			s += "/float32"
		case v.Kind == "float":
			s += "/float64"
		}
	}
	if e.ViaPeer {
		s = "peer(" + s + ")"
	}
	return s
}

var canonical = enc{Path: "json-batch"}

// encodings lists the wire encodings of value v at a richness level: 1 = everything (used for 1-span
// traces), 2 = one representative per decoder class and path (2-span traces), 3 = the four classes that
// differ in the decoded Go type (3-span traces).
func encodings(v lval, level int) []enc {
	type variant struct {
		lead byte
		f32  bool
	}
	var all, some, min []variant // msgpack value variants: every width / class representatives / minimal
	switch {
	case v.Kind == "int" && v.I >= 1<<31: // does not fit 32 signed bits
		all = []variant{{lead: codec.Int64}, {lead: codec.Uint32}, {lead: codec.Uint64}}
		some = []variant{{lead: codec.Int64}, {lead: codec.Uint64}}
		min = []variant{{lead: codec.Int64}, {lead: codec.Uint32}}
	case v.Kind == "int" && v.I >= 65536: // needs 32 bits
		all = []variant{{lead: codec.Int32}, {lead: codec.Int64}, {lead: codec.Uint32}, {lead: codec.Uint64}}
		some = []variant{{lead: codec.Int32}, {lead: codec.Uint64}}
		min = []variant{{lead: codec.Int32}, {lead: codec.Uint32}}
	case v.Kind == "int" && v.I >= 128:
		all = []variant{{lead: codec.Int16}, {lead: codec.Int32}, {lead: codec.Int64}, {lead: codec.Uint8}, {lead: codec.Uint16}, {lead: codec.Uint32}, {lead: codec.Uint64}}
		some = []variant{{lead: codec.Int16}, {lead: codec.Uint8}, {lead: codec.Uint64}}
		min = []variant{{lead: codec.Int16}, {lead: codec.Uint8}}
	case v.Kind == "int":
		all = []variant{{lead: codec.NegFixInt}, {lead: codec.Int8}, {lead: codec.Int16}, {lead: codec.Int32}, {lead: codec.Int64}}
		some = []variant{{lead: codec.NegFixInt}, {lead: codec.Int64}}
		min = []variant{{lead: codec.NegFixInt}, {lead: codec.Int64}}
	case v.Kind == "float":
		all = []variant{{}, {f32: true}}
		some, min = all, all
	default:
		all = []variant{{}}
		some, min = all, all
	}
	var out []enc
	add := func(path string, vs []variant, peer bool) {
		if v.Kind == "nil" && strings.HasPrefix(path, "otlp") {
			return
		}
		for _, x := range vs {
			out = append(out, enc{Path: path, Lead: x.lead, F32: x.f32, ViaPeer: peer})
		}
	}
	one := []variant{{}}
	switch level {
	case 1:
		for _, peer := range []bool{false, true} {
			add("json-batch", one, peer)
			add("json-event", one, peer)
			add("msgpack-batch", all, peer)
			add("msgpack-event", all, peer)
			add("otlp-http-proto", one, peer)
			add("otlp-http-json", one, peer)
			add("otlp-grpc", one, peer)
		}
	case 2:
		add("json-batch", one, false)
		add("json-event", one, false)
		add("msgpack-batch", some, false)
		add("msgpack-event", min[len(min)-1:], false)
		add("otlp-http-proto", one, false)
		add("json-batch", one, true)
		add("msgpack-batch", min, true)
	default:
		add("json-batch", one, false)
		add("msgpack-batch", min, false)
		add("msgpack-batch", min[len(min)-1:], true)
	}
	return out
}

func wireValue(v lval, e enc) codec.Value {
	switch v.Kind {
	case "int":
		if e.Lead != 0 {
			return codec.IntAs(v.I, e.Lead)
		}
		return codec.Int(v.I)
	case "float":
		if e.F32 {
			return codec.F32(float32(v.F))
		}
		return codec.F64(v.F)
	case "str":
		return codec.Str(v.S)
	case "nil":
		return codec.Nil()
	}
	return codec.Bool(v.B)
}

// ---------------------------------------------------------------------------------------------
// sampler configurations (one dataset each; the dataset selects the sampler)

type samplerDef struct {
	Name   string
	Class  string
	Choice func() *config.V2SamplerChoice
	// Pre, if set: the spans are ingested while THIS sampler is configured for the dataset; the rules are then
	// reloaded to Choice before the traces are decided (a reload between ingestion and decision: what an encoding
	// worked out for the old rules at ingestion must not leak into the decision under the new ones)
	Pre func() *config.V2SamplerChoice
}

func cond(field, op string, value any, datatype string) *config.RulesBasedSamplerCondition {
	return &config.RulesBasedSamplerCondition{Field: field, Operator: op, Value: value, Datatype: datatype}
}

// ruleSampler: rule "match" keeps at rate 1 when the conditions hold, everything else is dropped by rule
// "fallthrough" — so keep, rate and reason all reveal whether the conditions matched.
func ruleSampler(scope string, conds ...*config.RulesBasedSamplerCondition) func() *config.V2SamplerChoice {
	return func() *config.V2SamplerChoice {
		cs := make([]*config.RulesBasedSamplerCondition, len(conds))
		for i, c := range conds {
			cs[i] = cond(c.Field, c.Operator, c.Value, c.Datatype) // fresh: conditions carry a sync.Once
		}
		return &config.V2SamplerChoice{RulesBasedSampler: &config.RulesBasedSamplerConfig{Rules: []*config.RulesBasedSamplerRule{
			{Name: "match", SampleRate: 1, Scope: scope, Conditions: cs},
			{Name: "fallthrough", Drop: true},
		}}}
	}
}

func dyn(useLen bool, fields ...string) *config.DynamicSamplerConfig {
	return &config.DynamicSamplerConfig{SampleRate: 1, ClearFrequency: config.Duration(24 * time.Hour), FieldList: fields, UseTraceLength: useLen}
}

func samplers() []samplerDef {
	var out []samplerDef
	add := func(name, class string, c func() *config.V2SamplerChoice) {
		out = append(out, samplerDef{Name: name, Class: class, Choice: c})
	}
	// untyped / int-typed / float-typed comparisons on the numeric field, values as YAML would deliver them
	for _, dt := range []string{"", "int", "float"} {
		tn := dt
		if tn == "" {
			tn = "untyped"
		}
		add("rules-"+tn+"-eq-200", "rules/"+tn, ruleSampler("", cond("n", "=", 200, dt)))
		add("rules-"+tn+"-ne-200", "rules/"+tn, ruleSampler("", cond("n", "!=", 200, dt)))
		add("rules-"+tn+"-lt-2", "rules/"+tn, ruleSampler("", cond("n", "<", 2, dt)))
		add("rules-"+tn+"-ge-1.5", "rules/"+tn, ruleSampler("", cond("n", ">=", 1.5, dt)))
		add("rules-"+tn+"-in-200,-1,1.5", "rules/"+tn, ruleSampler("", cond("n", "in", []any{200, -1, 1.5}, dt)))
	}
	add("rules-untyped-span-scope-ge1.5-and-lt200", "rules/untyped", ruleSampler("span", cond("n", ">=", 1.5, ""), cond("n", "<", 200, "")))
	add("rules-untyped-root-eq-200", "rules/untyped", ruleSampler("", cond("root.n", "=", 200, "")))
	add("rules-float-root-ge-1.5", "rules/float", ruleSampler("", cond("root.n", ">=", 1.5, "float")))
	// a non-root field with a root. fallback: spans without "m" resolve to the root's "n"
	mixed := func(scope string) func() *config.V2SamplerChoice {
		return func() *config.V2SamplerChoice {
			return &config.V2SamplerChoice{RulesBasedSampler: &config.RulesBasedSamplerConfig{Rules: []*config.RulesBasedSamplerRule{
				{Name: "match", SampleRate: 1, Scope: scope, Conditions: []*config.RulesBasedSamplerCondition{{Fields: []string{"m", "root.n"}, Operator: "=", Value: 200}}},
				{Name: "fallthrough", Drop: true},
			}}}
		}
	}
	add("rules-untyped-fields-m-then-root.n-eq-200", "rules/untyped", mixed(""))
	add("rules-untyped-span-scope-fields-m-then-root.n-eq-200", "rules/untyped", mixed("span"))
	add("rules-exists-then-dynamic", "rules+dynamic", func() *config.V2SamplerChoice {
		return &config.V2SamplerChoice{RulesBasedSampler: &config.RulesBasedSamplerConfig{Rules: []*config.RulesBasedSamplerRule{
			{Name: "dyn", Conditions: []*config.RulesBasedSamplerCondition{cond("n", "exists", nil, "")},
				Sampler: &config.RulesBasedDownstreamSampler{DynamicSampler: dyn(false, "n")}},
			{Name: "fallthrough", Drop: true},
		}}}
	})
	// conditions on a configured ID field (the documented "is this a child span" rule): the field is consumed by the
	// identity extraction on the wire-bytes paths, the rule must still see it
	add("rules-parent-id-exists", "rules/id-field", func() *config.V2SamplerChoice {
		return &config.V2SamplerChoice{RulesBasedSampler: &config.RulesBasedSamplerConfig{Rules: []*config.RulesBasedSamplerRule{
			{Name: "has-child", SampleRate: 1, Conditions: []*config.RulesBasedSamplerCondition{cond("trace.parent_id", "exists", nil, "")}},
			{Name: "fallthrough", Drop: true},
		}}}
	})
	add("rules-trace-id-field-not-exists", "rules/id-field", func() *config.V2SamplerChoice {
		return &config.V2SamplerChoice{RulesBasedSampler: &config.RulesBasedSamplerConfig{Rules: []*config.RulesBasedSamplerRule{
			{Name: "no-trace-id", Drop: true, Conditions: []*config.RulesBasedSamplerCondition{cond("trace.trace_id", "not-exists", nil, "")}},
			{Name: "rest", SampleRate: 1},
		}}}
	})
	// rules reloaded between ingestion and decision: ingested under a dynamic sampler keyed on n, decided by rules
	// that read n and a field that follows it on the wire
	out = append(out, samplerDef{Name: "reloaded:dynamic-n->rules-n-ge-1.5-and-sid-exists", Class: "rules/reloaded",
		Pre:    func() *config.V2SamplerChoice { return &config.V2SamplerChoice{DynamicSampler: dyn(false, "n")} },
		Choice: ruleSampler("", cond("n", ">=", 1.5, ""), cond("sid", "exists", nil, ""))})
	out = append(out, samplerDef{Name: "reloaded:rules-n-eq-200->dynamic-sid-n", Class: "dynamic/reloaded",
		Pre:    ruleSampler("", cond("n", "=", 200, "")),
		Choice: func() *config.V2SamplerChoice { return &config.V2SamplerChoice{DynamicSampler: dyn(false, "sid", "n")} }})
	add("dynamic-n", "dynamic", func() *config.V2SamplerChoice { return &config.V2SamplerChoice{DynamicSampler: dyn(false, "n")} })
	add("dynamic-root.n-tracelength", "dynamic", func() *config.V2SamplerChoice { return &config.V2SamplerChoice{DynamicSampler: dyn(true, "root.n")} })
	add("deterministic-2", "deterministic", func() *config.V2SamplerChoice {
		return &config.V2SamplerChoice{DeterministicSampler: &config.DeterministicSamplerConfig{SampleRate: 2}}
	})
	return out
}

func dataset(s samplerDef) string { return "ds-" + s.Name }

func newConfig(defs []samplerDef) *config.MockConfig {
	cfg := pipeline.DefaultConfig()
	cfg.Samplers = map[string]*config.V2SamplerChoice{}
	for _, s := range defs {
		if _, ok := cfg.Samplers[dataset(s)]; !ok {
			if s.Pre != nil {
				cfg.Samplers[dataset(s)] = s.Pre()
			} else {
				cfg.Samplers[dataset(s)] = s.Choice()
			}
		}
	}
	cfg.AddRuleReasonToTrace = true
	nodecoll.Prepare(cfg)
	return cfg
}

// ---------------------------------------------------------------------------------------------
// one worker = owner node A (real collector) + non-owner node B (forwards to A)

const addrA, addrB = "http://node-a.test:8081", "http://node-b.test:8081"

type worker struct {
	a, b *pipeline.Node
	rc   *nodecoll.Real
}

func newWorker(defs []samplerDef, capacity int) *worker {
	w := &worker{}
	w.a = pipeline.New(pipeline.Options{Config: newConfig(defs), Self: addrA, Peers: []string{addrB}, MaxBatchSize: capacity,
		Collector: func(n *pipeline.Node) collect.Collector { w.rc = nodecoll.New(n); return w.rc }})
	w.b = pipeline.New(pipeline.Options{Config: newConfig(defs), Self: addrB, Peers: []string{addrA}, MaxBatchSize: capacity})
	w.b.LinkPeer(addrA, w.a)
	w.rc.OutgoingCap = capacity
	return w
}

func (w *worker) close() {
	w.rc.Close()
	w.a.Close()
	w.b.Close()
}

// presentation of one logical trace
type presentation struct {
	Vals    []int // value index per span (span 0 = root)
	Arrival []int // Arrival[p] = index of the span that arrives p-th
	Encs    []enc // per span
}

type item struct {
	trace   int // index of the logical trace
	slot    int // which of the trace's IDs (presentation ordinal mod pool size)
	b       int // presentation ordinal
	traceID string
	p       presentation
	wire    [][]byte // per span: the bytes this span contributes to a request on its path (see spanWire)
}

// spanWire renders one span for its path once (the bytes depend only on trace ID, span and encoding, and
// are reused by every job): for the batch paths the batch MEMBER (codec.Batch of one event without the
// array framing), for the single-event paths the request body. OTLP spans are built per request.
func spanWire(it item, si int) []byte {
	e := it.p.Encs[si]
	evt := codec.Event{Data: spanFields(it, si)}
	switch e.Path {
	case "json-batch":
		b := codec.JSONBatch(evt)
		return b[1 : len(b)-1] // strip [ ]
	case "msgpack-batch":
		b := codec.MsgpackBatch("", evt)
		if b[0] != 0x91 {
			panic("codec.MsgpackBatch of one event does not start with fixarray(1)")
		}
		return b[1:]
	case "json-event":
		return evt.JSONObject()
	case "msgpack-event":
		return evt.MsgpackObject()
	}
	return nil
}

type outcome struct {
	Keep   bool
	Rate   uint
	Key    string
	Reason string
}

func (o outcome) String() string {
	return fmt.Sprintf("keep=%v rate=%d key=%q reason=%q", o.Keep, o.Rate, o.Key, o.Reason)
}

var t0 = time.Date(2024, 3, 1, 11, 0, 0, 0, time.UTC)

var pathOrder = []string{"json-batch", "msgpack-batch", "json-event", "msgpack-event", "otlp-http-proto", "otlp-http-json", "otlp-grpc"}

const rootSpanID = "0102030405060701"

func spanFields(it item, si int) []codec.Field {
	v, e := values[it.p.Vals[si]], it.p.Encs[si]
	fields := []codec.Field{codec.F("trace.trace_id", codec.Str(it.traceID))}
	if si != 0 {
		fields = append(fields, codec.F("trace.parent_id", codec.Str(rootSpanID)))
	}
	fields = append(fields, codec.F("n", wireValue(v, e)), codec.F("sid", codec.Str(fmt.Sprintf("s%d", si))))
	if si != 0 && si == len(it.p.Vals)-1 {
		// the last non-root span also carries the value under "m": conditions on Fields [m, root.n] then resolve
		// differently per span (own field / fallback to the root's), which is where arrival order could leak in
		fields = append(fields, codec.F("m", wireValue(v, e)))
	}
	return fields
}

func otlpSpan(it item, si int) codec.OTLPSpan {
	idb, err := hex.DecodeString(it.traceID)
	if err != nil || len(idb) != 16 {
		panic("trace ID is not 32 hex digits")
	}
	sp := codec.OTLPSpan{TraceID: idb, SpanID: []byte{1, 2, 3, 4, 5, 6, 7, byte(si + 1)}, Name: "op", Start: t0, End: t0.Add(time.Millisecond),
		Attrs: []codec.Field{codec.F("n", wireValue(values[it.p.Vals[si]], enc{})), codec.F("sid", codec.Str(fmt.Sprintf("s%d", si)))}}
	if si != 0 {
		sp.ParentSpanID = []byte{1, 2, 3, 4, 5, 6, 7, 1}
		if si == len(it.p.Vals)-1 {
			sp.Attrs = append(sp.Attrs, codec.F("m", wireValue(values[it.p.Vals[si]], enc{})))
		}
	}
	return sp
}

// runJob presents all items (distinct trace IDs) to one fresh collector and returns the sampler's answer
// per item. problem != "" = the harness could not get the spans into the collector (never a verdict).
// reloadRules installs c as the dataset's sampler on both nodes and lets the owner's collector go through its reload
// path (reloadConfigs; every worker consumes its reload notification).
func (w *worker) reloadRules(ds string, c func() *config.V2SamplerChoice) {
	for _, n := range []*pipeline.Node{w.a, w.b} {
		ch := c()
		n.Cfg.Mux.Lock()
		n.Cfg.Samplers[ds] = ch
		n.Cfg.Mux.Unlock()
	}
	w.rc.Coll.VerifReloadConfigs()
	for i := 0; i < w.rc.Coll.VerifNumWorkers(); i++ {
		w.rc.Coll.VerifWorkerRunPending(i)
	}
}

func (w *worker) runJob(s samplerDef, items []item) (out []outcome, problem string) {
	w.rc.Reset()
	ds := dataset(s)
	if s.Pre != nil {
		w.reloadRules(ds, s.Pre) // (the previous job of this definition left the post-reload sampler behind)
	}
	usedPeer := false
	want := 0
	for pos := 0; pos < 3; pos++ {
		type group struct {
			path string
			peer bool
		}
		groups := map[group][]int{} // -> item indices (in item order)
		for ii, it := range items {
			if pos < len(it.p.Arrival) {
				e := it.p.Encs[it.p.Arrival[pos]]
				g := group{e.Path, e.ViaPeer}
				groups[g] = append(groups[g], ii)
				want++
			}
		}
		for _, peer := range []bool{false, true} {
			node := w.a
			if peer {
				node = w.b
			}
			sent := false
			for _, path := range pathOrder {
				idxs := groups[group{path, peer}]
				if len(idxs) == 0 {
					continue
				}
				sent = true
				switch path {
				case "json-batch", "msgpack-batch":
					ct := codec.CTJSON
					if path == "msgpack-batch" {
						ct = codec.CTMsgpack
					}
					// = codec.Batch(ds, apiKey, ct, events...): array framing around the pre-rendered members
					req := codec.Batch(ds, apiKey, ct)
					var body []byte
					if ct == codec.CTMsgpack {
						body = codec.AppendArrayHeader(nil, len(idxs), 0)
					} else {
						body = []byte{'['}
					}
					for k, ii := range idxs {
						if k > 0 && ct == codec.CTJSON {
							body = append(body, ',')
						}
						body = append(body, items[ii].wire[items[ii].p.Arrival[pos]]...)
					}
					if ct == codec.CTJSON {
						body = append(body, ']')
					}
					req.Body = body
					resp := node.Do(pipeline.Incoming, req)
					st := resp.BatchStatuses()
					if resp.Status != 200 || len(st) != len(idxs) {
						return nil, fmt.Sprintf("%s: HTTP %d %s", path, resp.Status, trunc(string(resp.Body), 200))
					}
					for _, x := range st {
						if x != 202 {
							return nil, fmt.Sprintf("%s: batch answer %s", path, trunc(string(resp.Body), 200))
						}
					}
				case "json-event", "msgpack-event":
					ct := codec.CTJSON
					if path == "msgpack-event" {
						ct = codec.CTMsgpack
					}
					req := codec.SingleEvent(ds, apiKey, ct, codec.Event{Data: []codec.Field{codec.F("x", codec.Nil())}})
					for _, ii := range idxs {
						req.Body = items[ii].wire[items[ii].p.Arrival[pos]]
						resp := node.Do(pipeline.Incoming, req)
						if resp.Status != 200 {
							return nil, fmt.Sprintf("%s: HTTP %d %s", path, resp.Status, trunc(string(resp.Body), 200))
						}
					}
				default:
					spans := make([]codec.OTLPSpan, len(idxs))
					for k, ii := range idxs {
						spans[k] = otlpSpan(items[ii], items[ii].p.Arrival[pos])
					}
					msg := codec.OTLPTraceMessage([]codec.Field{codec.F("service.name", codec.Str("svc"))}, spans...)
					switch path {
					case "otlp-http-proto", "otlp-http-json":
						ct := codec.CTProto
						if path == "otlp-http-json" {
							ct = codec.CTJSON
						}
						if resp := node.Do(pipeline.Incoming, codec.OTLPHTTP("/v1/traces", apiKey, ds, ct, msg)); resp.Status != 200 {
							return nil, fmt.Sprintf("%s: HTTP %d %s", path, resp.Status, trunc(string(resp.Body), 200))
						}
					default:
						if _, err := node.GRPCTraceExport(pipeline.Incoming, map[string]string{"x-honeycomb-team": apiKey, "x-honeycomb-dataset": ds}, codec.OTLPProto(msg)); err != nil {
							return nil, "otlp-grpc export: " + err.Error()
						}
					}
				}
			}
			if peer && sent {
				usedPeer = true
				w.b.PeerTx.Flush() // the real peer transmission puts the spans on the wire; MemNet serves them to A's peer listener
			}
		}
		if len(w.rc.Arrivals) != want {
			return nil, fmt.Sprintf("after arrival position %d: %d of %d spans reached the owner's collector", pos, len(w.rc.Arrivals), want)
		}
	}
	if usedPeer {
		if pr := w.b.DecodeProblems(); len(pr) > 0 {
			return nil, "peer forward undecodable: " + pr[0]
		}
		w.b.Net.Reset()
	}
	// every span arrived under its trace ID, in the intended order, with the intended root flag
	seen := map[string]int{}
	byID := map[string]int{}
	for ii, it := range items {
		byID[it.traceID] = ii
	}
	for _, sp := range w.rc.Arrivals {
		ii, ok := byID[sp.TraceID]
		if !ok {
			return nil, fmt.Sprintf("a span arrived under unknown trace ID %q", sp.TraceID)
		}
		pos := seen[sp.TraceID]
		seen[sp.TraceID]++
		arr := items[ii].p.Arrival
		if pos >= len(arr) || sp.IsRoot != (arr[pos] == 0) || sp.Dataset != ds {
			return nil, fmt.Sprintf("trace %s: span #%d arrived as root=%v dataset=%q", sp.TraceID, pos, sp.IsRoot, sp.Dataset)
		}
	}
	// The kept traces stay on the collector's outgoing queue and are discarded with the collector at the
	// next Reset: what is transmitted afterwards is C01/C02/C20's subject, and not sending keeps node A's
	// transmissions empty (no flush needed between jobs).
	if s.Pre != nil {
		w.reloadRules(ds, s.Choice)
	}
	dec := w.rc.Decide()
	if len(dec) != len(items) {
		return nil, fmt.Sprintf("%d decisions for %d traces", len(dec), len(items))
	}
	out = make([]outcome, len(items))
	for _, d := range dec {
		ii, ok := byID[d.TraceID]
		if !ok || d.Selector != ds {
			return nil, fmt.Sprintf("decision for trace %q by sampler %q (expected %q)", d.TraceID, d.Selector, ds)
		}
		out[ii] = outcome{Keep: d.Keep, Rate: d.Rate, Key: d.SampleKey, Reason: d.Reason}
	}
	return out, ""
}

func trunc(s string, n int) string {
	if len(s) > n {
		return s[:n] + "…"
	}
	return s
}

// ---------------------------------------------------------------------------------------------

type failing struct {
	order   int64
	items   []string // class: non-canonical "<value>@<family>" items (+ "arrival-order"), sorted
	comps   string
	sampler int
	what    string
	rep     map[string]any
}

func main() {
	r := ev.New("C09", "exploration")
	if pf := os.Getenv("VERIF_PROF"); pf != "" { // development aid: CPU profile of the enumeration
		f, _ := os.Create(pf)
		pprof.StartCPUProfile(f)
		defer pprof.StopCPUProfile()
	}
	defs := samplers()
	workers := 16

	// ---- logical traces
	// quick: 3-span traces over {200, "x"} and 2-span traces with the small (level 3) encoding lists
	k3vals := ev.Pick(r, []int{0, 4}, []int{0, 1, 2, 3, 4, 5})
	level := map[int]int{1: 1, 2: ev.Pick(r, 3, 2), 3: 3}
	var traces [][]int
	for a := range values {
		traces = append(traces, []int{a})
	}
	for a := range values {
		for b := range values {
			traces = append(traces, []int{a, b})
		}
	}
	for _, a := range k3vals {
		for _, b := range k3vals {
			for _, c := range k3vals {
				traces = append(traces, []int{a, b, c})
			}
		}
	}
	// ---- presentations: ordinal b of trace t = (arrival permutation, per-span encoding), encodings fastest;
	// b = 0 is the canonical presentation (identity order, every span JSON batch).
	perms := map[int][][]int{1: enumx.Perms(1), 2: enumx.Perms(2), 3: enumx.Perms(3)}
	encLists := make([][][]enc, len(traces))
	nPres := make([]int, len(traces))
	maxPres, totalPres := 0, 0
	for ti, tr := range traces {
		n := len(perms[len(tr)])
		for _, vi := range tr {
			l := encodings(values[vi], level[len(tr)])
			if l[0] != canonical {
				ev.Harness("encoding list must start with the canonical encoding")
			}
			encLists[ti] = append(encLists[ti], l)
			n *= len(l)
		}
		nPres[ti] = n
		totalPres += n
		if n > maxPres {
			maxPres = n
		}
	}
	present := func(ti, b int) presentation {
		tr := traces[ti]
		p := presentation{Vals: tr, Encs: make([]enc, len(tr))}
		for i := len(tr) - 1; i >= 0; i-- {
			l := encLists[ti][i]
			p.Encs[i] = l[b%len(l)]
			b /= len(l)
		}
		p.Arrival = perms[len(tr)][b]
		return p
	}
	describe := func(p presentation) map[string]any {
		vs := make([]string, len(p.Vals))
		es := make([]string, len(p.Vals))
		for i, vi := range p.Vals {
			vs[i] = values[vi].Name
			es[i] = p.Encs[i].String()
		}
		return map[string]any{"span_values(root first)": vs, "arrival_order": p.Arrival, "encodings": es}
	}
	// ---- trace IDs. Each logical trace gets a small pool of IDs (32 hex digits: OTLP needs 16 bytes, and no 8
	// leading zero bytes or husky shortens it; owned by node A according to the real sharder of both
	// nodes). Presentation b of trace t always uses ID (b mod pool size), and one collector instance (job j)
	// receives the presentations [j*pool, (j+1)*pool) of every trace: all IDs inside a job are distinct,
	// and a presentation is compared with the canonical presentation sent under THE SAME ID.
	jobsPerSampler := ev.Pick(r, 12, 24)
	poolSize := make([]int, len(traces))
	traceIDs := make([][]string, len(traces))
	maxItems := 0
	for ti := range traces {
		poolSize[ti] = (nPres[ti] + jobsPerSampler - 1) / jobsPerSampler
		maxItems += poolSize[ti]
	}
	// Workers. No batch of a transmission may reach MaxBatchSize (it would be dispatched asynchronously and
	// reach the collector concurrently); the real send() blocks on a full outgoing queue (nobody drains it
	// in handler mode).
	pool := make(chan *worker, workers)
	for i := 0; i < workers; i++ {
		pool <- newWorker(defs, maxItems+16)
	}
	w0 := <-pool
	next := uint64(1)
	for ti := range traces {
		for len(traceIDs[ti]) < poolSize[ti] {
			id := fmt.Sprintf("%016x%016x", next*0x9e3779b97f4a7c15|1<<63, next*0xc2b2ae3d27d4eb4f)
			next++
			if w0.a.OwnedBySelf(id) && !w0.b.OwnedBySelf(id) && w0.b.Owner(id) == addrA {
				traceIDs[ti] = append(traceIDs[ti], id)
			}
			if next > 1<<24 {
				ev.Harness("no self-owned trace IDs")
			}
		}
	}
	pool <- w0

	// wire bytes per (trace, ID slot, span, encoding index), rendered once
	wires := make([][][][][]byte, len(traces))
	for ti, tr := range traces {
		wires[ti] = make([][][][]byte, poolSize[ti])
		for slot := range wires[ti] {
			wires[ti][slot] = make([][][]byte, len(tr))
			for si := range tr {
				for _, e := range encLists[ti][si] {
					p := presentation{Vals: tr, Encs: make([]enc, len(tr))}
					p.Encs[si] = e
					wires[ti][slot][si] = append(wires[ti][slot][si], spanWire(item{trace: ti, traceID: traceIDs[ti][slot], p: p}, si))
				}
			}
		}
	}
	mkItem := func(ti, b, slot int) item {
		tr := traces[ti]
		it := item{trace: ti, slot: slot, b: b, traceID: traceIDs[ti][slot], p: present(ti, b), wire: make([][]byte, len(tr))}
		x := b
		for i := len(tr) - 1; i >= 0; i-- {
			l := encLists[ti][i]
			it.wire[i] = wires[ti][slot][i][x%len(l)]
			x /= len(l)
		}
		return it
	}
	// reference job: the canonical presentation (b = 0) under every ID of every trace
	refItems := func() []item {
		var items []item
		for ti := range traces {
			for slot := 0; slot < poolSize[ti]; slot++ {
				items = append(items, mkItem(ti, 0, slot))
			}
		}
		return items
	}
	refIndex := make([][]int, len(traces)) // [trace][slot] -> position in the reference job
	{
		n := 0
		for ti := range traces {
			for slot := 0; slot < poolSize[ti]; slot++ {
				refIndex[ti] = append(refIndex[ti], n)
				n++
			}
		}
	}
	jobItems := func(j int) []item {
		var items []item
		for ti := range traces {
			for b := j * poolSize[ti]; b < (j+1)*poolSize[ti] && b < nPres[ti]; b++ {
				if b == 0 {
					continue // the canonical presentation is the reference itself
				}
				items = append(items, mkItem(ti, b, b%poolSize[ti]))
			}
		}
		return items
	}

	var mu sync.Mutex
	harness := ""
	fail := func(msg string) {
		mu.Lock()
		if harness == "" {
			harness = msg
		}
		mu.Unlock()
	}

	// ---- phase 1: reference answers (b = 0) per sampler
	refs := make([][]outcome, len(defs)) // [sampler][position in the reference job]
	enumx.Each(r, "references", []int{len(defs)}, workers, func(idx []int) {
		w := <-pool
		defer func() { pool <- w }()
		out, prob := w.runJob(defs[idx[0]], refItems())
		if prob != "" {
			fail(fmt.Sprintf("reference job, sampler %s: %s", defs[idx[0]].Name, prob))
			return
		}
		refs[idx[0]] = out
		r.Add("evaluations", int64(len(out)-1))
		for _, o := range out {
			r.Distinct("distinct_reference_outcomes", o.String())
			r.Distinct(fmt.Sprintf("sampler_keep_%v", o.Keep), defs[idx[0]].Name)
		}
	})
	if harness != "" {
		ev.Harness("span could not be delivered / decided: %s", harness)
	}
	// determinism self-check (DESIGN §3): the reference job replayed must give the identical answers
	{
		w := <-pool
		for si := range defs {
			again, prob := w.runJob(defs[si], refItems())
			if prob != "" || fmt.Sprint(again) != fmt.Sprint(refs[si]) {
				ev.Harness("reference job of sampler %s is not reproducible: %s", defs[si].Name, prob)
			}
		}
		pool <- w
	}

	// ---- phase 2: every other presentation
	var fails []failing
	enumx.Each(r, "presentations", []int{jobsPerSampler, len(defs)}, workers, func(idx []int) {
		w := <-pool
		defer func() { pool <- w }()
		j, si := idx[0], idx[1]
		s := defs[si]
		items := jobItems(j)
		if len(items) == 0 {
			r.Add("evaluations", -1)
			return
		}
		out, prob := w.runJob(s, items)
		if prob != "" {
			fail(fmt.Sprintf("job %d sampler %s: %s", j, s.Name, prob))
			return
		}
		r.Add("evaluations", int64(len(items)-1))
		for ii, it := range items {
			ref, got := refs[si][refIndex[it.trace][it.slot]], out[ii]
			r.Distinct("distinct_nontrivial", s.Name+"|"+ref.String())
			var class []string
			for i, e := range it.p.Encs {
				fam := e.family(values[it.p.Vals[i]])
				r.Distinct("encoding_families_exercised", fam)
				if e != canonical {
					class = append(class, values[it.p.Vals[i]].Name+"@"+fam)
				}
			}
			for i, a := range it.p.Arrival {
				if a != i {
					class = append(class, "arrival-order")
					break
				}
			}
			if got == ref {
				continue
			}
			sort.Strings(class)
			var comps []string
			if got.Keep != ref.Keep {
				comps = append(comps, "keep")
			}
			if got.Rate != ref.Rate {
				comps = append(comps, "rate")
			}
			if got.Key != ref.Key {
				comps = append(comps, "key")
			}
			if got.Reason != ref.Reason {
				comps = append(comps, "reason")
			}
			rep := describe(it.p)
			rep["sampler"] = s.Name
			rep["trace_id"] = it.traceID
			rep["answer_for_this"] = got.String()
			rep["answer_for_json_batch_in_logical_order"] = ref.String()
			f := failing{order: int64(it.trace)*int64(maxPres) + int64(it.b), items: class, comps: strings.Join(comps, ","), sampler: si, rep: rep,
				what: fmt.Sprintf("sampler %s answers {%s} for the logical trace %v presented as %v (arrival %v) but {%s} for the same trace sent as JSON batch in logical order",
					s.Name, got, rep["span_values(root first)"], rep["encodings"], it.p.Arrival, ref)}
			mu.Lock()
			fails = append(fails, f)
			mu.Unlock()
		}
	})
	pprof.StopCPUProfile()
	for i := 0; i < workers; i++ {
		(<-pool).close()
	}
	if harness != "" {
		ev.Harness("span could not be delivered / decided: %s", harness)
	}

	// ---- classification: a failing case belongs to the class (sampler, differing components, multiset of
	// non-canonical span presentations [+ arrival order]). Only MINIMAL classes are reported (no strict
	// sub-multiset of the class fails for the same sampler and components): the enumeration is exhaustive,
	// so the sub-presentations were all tried; larger classes add no information. Every failing case counts.
	type ck struct {
		sampler int
		comps   string
		items   string
	}
	best := map[ck]failing{}
	for _, f := range fails {
		k := ck{f.sampler, f.comps, strings.Join(f.items, " + ")}
		if g, ok := best[k]; !ok || f.order < g.order {
			best[k] = f
		}
	}
	var reported []string
	repBy := map[string]failing{}
	for k, f := range best {
		minimal := true
		n := len(f.items)
		for m := 1; m < 1<<n-1 && minimal; m++ { // proper non-empty sub-multisets
			var sub []string
			for i := 0; i < n; i++ {
				if m&(1<<i) != 0 {
					sub = append(sub, f.items[i])
				}
			}
			if _, ok := best[ck{k.sampler, k.comps, strings.Join(sub, " + ")}]; ok {
				minimal = false
			}
		}
		if minimal {
			sig := fmt.Sprintf("decision-differs(%s)|sampler=%s|%s", k.comps, defs[k.sampler].Name, k.items)
			reported = append(reported, sig)
			repBy[sig] = f
		}
	}
	sort.Strings(reported)
	for _, sig := range reported {
		r.Violation(sig, repBy[sig].what, repBy[sig].rep)
	}
	r.Set("violating_cases", len(fails))
	r.Set("violating_classes", len(best))
	r.Set("violating_classes_minimal(reported)", len(reported))

	// vacuity guards
	r.Set("samplers", len(defs))
	r.Set("samplers_seen_keeping", r.NDistinct("sampler_keep_true"))
	r.Set("samplers_seen_dropping", r.NDistinct("sampler_keep_false"))
	r.Set("logical_traces", len(traces))
	r.Set("presentations_per_sampler", totalPres)
	r.Set("collector_instances(jobs)", (jobsPerSampler+1)*len(defs))
	r.Set("max_traces_in_one_collector", maxItems)
	r.Set("rule", "for every logical trace, arrival order, per-span encoding and sampler: (keep, rate, sample key, reason) answered by the real sampler inside the real collector == the answer for the same logical trace sent as JSON batch in logical order")
	var names []string
	for _, s := range defs {
		names = append(names, s.Name)
	}
	r.Set("bounds", map[string]any{"values": values, "spans": "1..3 (span 0 root)", "three_span_values": k3vals, "samplers": names,
		"encodings_1span(int200)": fmt.Sprint(encodings(values[0], 1)), "encodings_2span(int200)": fmt.Sprint(encodings(values[0], 2)), "encodings_3span(int200)": fmt.Sprint(encodings(values[0], 3)),
		"encodings_1span(float1.5)": fmt.Sprint(encodings(values[3], 1))})
	r.Sample(map[string]any{"example_trace_ids": traceIDs[:3]})
	r.Assume("'numerically equal values': an integer stays an integer on msgpack/OTLP (signedness and width vary), a float stays a float (32/64 bit, only exactly representable values); JSON renders both as a JSON number. An integer is never re-typed as a msgpack float or vice versa")
	r.Assume("OTLP spans necessarily carry protocol-derived extra fields (name, duration_ms, span.kind …); every sampler configured here reads only field n and the trace ID, so the sampled fields are the same in all presentations")
	r.Assume("the random keep draw is owned by configuration (rule SampleRate 1 / Drop, dynamic goal rate 1 with 24 h ClearFrequency, deterministic = hash of trace ID); samplers whose keep is a genuine coin flip are outside a deterministic equivalence check")
	r.Assume("decision observed through the collector's own makeDecision telemetry span (kept, rate, reason, sampler key), cross-checked against the outgoing queue for kept traces; real collector in handler mode (processSpan / send tick bodies called directly); many logical traces (distinct trace IDs) share one collector instance")
	r.Assume("forwarded-from-peer: the span is ingested by a second real node that does not own the trace; its real peer DirectTransmission serialises it and the bytes are served to the owner's peer listener")
	r.Finish()
}
