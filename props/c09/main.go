// C09: sampling does not depend on wire encoding or span order.
//
// Engine E2 (enumx), differential oracle. A *logical trace* is a tuple of 1–3 spans (span 0 is the root,
// the others are children) each carrying one field "n" whose value is drawn from
// {int 200, int -1, float 1.5, float 2.0, "x", true}. Every logical trace is pushed through the REAL
// routers of an in-process node (fix/pipeline) into a REAL InMemCollector (fix/nodecoll, handler mode) in
// every arrival order and with every per-span choice of wire encoding (JSON event, JSON batch, msgpack
// batch / msgpack event with signed or unsigned, minimal or fixed-width integers and 32/64-bit floats,
// OTLP/HTTP protobuf + JSON, OTLP/gRPC, and "forwarded from a peer" = the bytes a second real node's real
// peer transmission produced for the same span). The sampler's answer (keep, rate, sample key, reason) is
// read from the collector's own makeDecision telemetry and must be IDENTICAL to the answer for the
// canonical presentation of the same logical trace (all spans JSON batch, logical order), for every
// sampler configuration in `samplers()`.
//
// No expected value is hand-written: the statement is an equivalence, so the oracle is the equivalence.
// The random draw is owned by configuration: every rule keeps with SampleRate 1 or drops with Drop, the
// dynamic samplers run at goal rate 1 with a 24 h clear frequency (so no rate is ever recomputed in a run),
// the deterministic sampler is a pure function of the trace ID.
package main

import (
	"encoding/hex"
	"fmt"
	"sort"
	"strings"
	"sync"
	"time"

	"github.com/honeycombio/refinery/collect"
	"github.com/honeycombio/refinery/config"

	"verif/engine/enumx"
	"verif/engine/ev"
	"verif/fix/codec"
	"verif/fix/nodecoll"
	"verif/fix/pipeline"
)

const apiKey = "0123456789abcdef0123456789abcdef" // classic key: sampler selector = dataset, no /1/auth lookup

// ---------------------------------------------------------------------------------------------
// logical values

type lval struct {
	Name string
	Kind string // int | float | str | bool
	I    int64
	F    float64
	S    string
	B    bool
}

var values = []lval{
	{Name: "int200", Kind: "int", I: 200},
	{Name: "int-1", Kind: "int", I: -1},
	{Name: "float1.5", Kind: "float", F: 1.5},
	{Name: "float2.0", Kind: "float", F: 2.0},
	{Name: "str-x", Kind: "str", S: "x"},
	{Name: "true", Kind: "bool", B: true},
}

// ---------------------------------------------------------------------------------------------
// encodings of one span

type enc struct {
	Path    string // json-batch | json-event | msgpack-batch | msgpack-event | otlp-http-proto | otlp-http-json | otlp-grpc
	Lead    byte   // integer wire format for msgpack paths (codec.Int16 …); 0 = not an integer value
	F32     bool   // float values: 32-bit msgpack float
	ViaPeer bool   // sent to the non-owner node, which forwards it with its real peer transmission
}

var leadName = map[byte]string{codec.NegFixInt: "negfixint", codec.Int8: "int8", codec.Int16: "int16", codec.Int32: "int32", codec.Int64: "int64",
	codec.Uint8: "uint8", codec.Uint16: "uint16", codec.Uint32: "uint32", codec.Uint64: "uint64"}

func (e enc) String() string {
	s := e.Path
	if e.Lead != 0 {
		s += "/" + leadName[e.Lead]
	}
	if e.F32 {
		s += "/float32"
	}
	if e.ViaPeer {
		s = "peer(" + s + ")"
	}
	return s
}

// family collapses widths: it names the class of Go value Refinery's decoders can be expected to produce.
func (e enc) family(v lval) string {
	s := e.Path
	if strings.HasPrefix(e.Path, "msgpack") {
		switch {
		case v.Kind == "int" && e.Lead >= codec.Uint8 && e.Lead <= codec.Uint64:
			s += "/uint"
		case v.Kind == "int":
			s += "/int"
		case v.Kind == "float" && e.F32:
			s += "/float32"
		case v.Kind == "float":
			s += "/float64"
		}
	}
	if e.ViaPeer {
		s = "peer(" + s + ")"
	}
	return s
}

var canonical = enc{Path: "json-batch"}

// encodings lists the wire encodings of value v at a richness level: 1 = everything (used for 1-span
// traces), 2 = one representative per decoder class and path (2-span traces), 3 = the four classes that
// differ in the decoded Go type (3-span traces).
func encodings(v lval, level int) []enc {
	type variant struct {
		lead byte
		f32  bool
	}
	var all, some, min []variant // msgpack value variants: every width / class representatives / minimal
	switch {
	case v.Kind == "int" && v.I >= 128:
		all = []variant{{lead: codec.Int16}, {lead: codec.Int32}, {lead: codec.Int64}, {lead: codec.Uint8}, {lead: codec.Uint16}, {lead: codec.Uint32}, {lead: codec.Uint64}}
		some = []variant{{lead: codec.Int16}, {lead: codec.Uint8}, {lead: codec.Uint64}}
		min = []variant{{lead: codec.Int16}, {lead: codec.Uint8}}
	case v.Kind == "int":
		all = []variant{{lead: codec.NegFixInt}, {lead: codec.Int8}, {lead: codec.Int16}, {lead: codec.Int32}, {lead: codec.Int64}}
		some = []variant{{lead: codec.NegFixInt}, {lead: codec.Int64}}
		min = []variant{{lead: codec.NegFixInt}, {lead: codec.Int64}}
	case v.Kind == "float":
		all = []variant{{}, {f32: true}}
		some, min = all, all
	default:
		all = []variant{{}}
		some, min = all, all
	}
	var out []enc
	add := func(path string, vs []variant, peer bool) {
		for _, x := range vs {
			out = append(out, enc{Path: path, Lead: x.lead, F32: x.f32, ViaPeer: peer})
		}
	}
	one := []variant{{}}
	switch level {
	case 1:
		for _, peer := range []bool{false, true} {
			add("json-batch", one, peer)
			add("json-event", one, peer)
			add("msgpack-batch", all, peer)
			add("msgpack-event", all, peer)
			add("otlp-http-proto", one, peer)
			add("otlp-http-json", one, peer)
			add("otlp-grpc", one, peer)
		}
	case 2:
		add("json-batch", one, false)
		add("json-event", one, false)
		add("msgpack-batch", some, false)
		add("msgpack-event", min[len(min)-1:], false)
		add("otlp-http-proto", one, false)
		add("json-batch", one, true)
		add("msgpack-batch", min, true)
	default:
		add("json-batch", one, false)
		add("msgpack-batch", min, false)
		add("msgpack-batch", min[len(min)-1:], true)
	}
	return out
}

func wireValue(v lval, e enc) codec.Value {
	switch v.Kind {
	case "int":
		if e.Lead != 0 {
			return codec.IntAs(v.I, e.Lead)
		}
		return codec.Int(v.I)
	case "float":
		if e.F32 {
			return codec.F32(float32(v.F))
		}
		return codec.F64(v.F)
	case "str":
		return codec.Str(v.S)
	}
	return codec.Bool(v.B)
}

// ---------------------------------------------------------------------------------------------
// sampler configurations (one dataset each; the dataset selects the sampler)

type samplerDef struct {
	Name    string
	Class   string
	TraceID int // index into traceIDs
	Choice  func() *config.V2SamplerChoice
}

func cond(field, op string, value any, datatype string) *config.RulesBasedSamplerCondition {
	return &config.RulesBasedSamplerCondition{Field: field, Operator: op, Value: value, Datatype: datatype}
}

// ruleSampler: rule "match" keeps at rate 1 when the conditions hold, everything else is dropped by rule
// "fallthrough" — so keep, rate and reason all reveal whether the conditions matched.
func ruleSampler(scope string, conds ...*config.RulesBasedSamplerCondition) func() *config.V2SamplerChoice {
	return func() *config.V2SamplerChoice {
		cs := make([]*config.RulesBasedSamplerCondition, len(conds))
		for i, c := range conds {
			cs[i] = cond(c.Field, c.Operator, c.Value, c.Datatype) // fresh: conditions carry a sync.Once
		}
		return &config.V2SamplerChoice{RulesBasedSampler: &config.RulesBasedSamplerConfig{Rules: []*config.RulesBasedSamplerRule{
			{Name: "match", SampleRate: 1, Scope: scope, Conditions: cs},
			{Name: "fallthrough", Drop: true},
		}}}
	}
}

func dyn(useLen bool, fields ...string) *config.DynamicSamplerConfig {
	return &config.DynamicSamplerConfig{SampleRate: 1, ClearFrequency: config.Duration(24 * time.Hour), FieldList: fields, UseTraceLength: useLen}
}

func samplers() []samplerDef {
	var out []samplerDef
	add := func(name, class string, c func() *config.V2SamplerChoice) {
		out = append(out, samplerDef{Name: name, Class: class, Choice: c})
	}
	opName := map[string]string{"=": "eq", "!=": "ne", "<": "lt", ">=": "ge", "in": "in"}
	// untyped / int-typed / float-typed comparisons on the numeric field, values as YAML would deliver them
	for _, dt := range []string{"", "int", "float"} {
		tn := dt
		if tn == "" {
			tn = "untyped"
		}
		add("rules-"+tn+"-eq-200", "rules/"+tn, ruleSampler("", cond("n", "=", 200, dt)))
		add("rules-"+tn+"-ne-200", "rules/"+tn, ruleSampler("", cond("n", "!=", 200, dt)))
		add("rules-"+tn+"-lt-2", "rules/"+tn, ruleSampler("", cond("n", "<", 2, dt)))
		add("rules-"+tn+"-ge-1.5", "rules/"+tn, ruleSampler("", cond("n", ">=", 1.5, dt)))
		add("rules-"+tn+"-in-200,-1,1.5", "rules/"+tn, ruleSampler("", cond("n", "in", []any{200, -1, 1.5}, dt)))
	}
	_ = opName
	add("rules-untyped-span-scope-ge1.5-and-lt200", "rules/untyped", ruleSampler("span", cond("n", ">=", 1.5, ""), cond("n", "<", 200, "")))
	add("rules-untyped-root-eq-200", "rules/untyped", ruleSampler("", cond("root.n", "=", 200, "")))
	add("rules-float-root-ge-1.5", "rules/float", ruleSampler("", cond("root.n", ">=", 1.5, "float")))
	add("rules-exists-then-dynamic", "rules+dynamic", func() *config.V2SamplerChoice {
		return &config.V2SamplerChoice{RulesBasedSampler: &config.RulesBasedSamplerConfig{Rules: []*config.RulesBasedSamplerRule{
			{Name: "dyn", Conditions: []*config.RulesBasedSamplerCondition{cond("n", "exists", nil, "")},
				Sampler: &config.RulesBasedDownstreamSampler{DynamicSampler: dyn(false, "n")}},
			{Name: "fallthrough", Drop: true},
		}}}
	})
	add("dynamic-n", "dynamic", func() *config.V2SamplerChoice { return &config.V2SamplerChoice{DynamicSampler: dyn(false, "n")} })
	add("dynamic-root.n-tracelength", "dynamic", func() *config.V2SamplerChoice { return &config.V2SamplerChoice{DynamicSampler: dyn(true, "root.n")} })
	for i := 0; i < 2; i++ {
		out = append(out, samplerDef{Name: fmt.Sprintf("deterministic-2/id%d", i), Class: "deterministic", TraceID: i,
			Choice: func() *config.V2SamplerChoice {
				return &config.V2SamplerChoice{DeterministicSampler: &config.DeterministicSamplerConfig{SampleRate: 2}}
			}})
	}
	return out
}

func dataset(s samplerDef) string { return "ds-" + strings.SplitN(s.Name, "/", 2)[0] }

func newConfig(defs []samplerDef) *config.MockConfig {
	cfg := pipeline.DefaultConfig()
	cfg.Samplers = map[string]*config.V2SamplerChoice{}
	for _, s := range defs {
		if _, ok := cfg.Samplers[dataset(s)]; !ok {
			cfg.Samplers[dataset(s)] = s.Choice()
		}
	}
	cfg.AddRuleReasonToTrace = true
	nodecoll.Prepare(cfg)
	return cfg
}

// ---------------------------------------------------------------------------------------------
// one worker = owner node A (real collector) + non-owner node B (forwards to A)

const addrA, addrB = "http://node-a.test:8081", "http://node-b.test:8081"

type worker struct {
	a, b *pipeline.Node
	rc   *nodecoll.Real
}

func newWorker(defs []samplerDef) *worker {
	w := &worker{}
	w.a = pipeline.New(pipeline.Options{Config: newConfig(defs), Self: addrA, Peers: []string{addrB},
		Collector: func(n *pipeline.Node) collect.Collector { w.rc = nodecoll.New(n); return w.rc }})
	w.b = pipeline.New(pipeline.Options{Config: newConfig(defs), Self: addrB, Peers: []string{addrA}})
	w.b.LinkPeer(addrA, w.a)
	return w
}

func (w *worker) close() {
	w.rc.Close()
	w.a.Close()
	w.b.Close()
}

// logical trace presentation
type presentation struct {
	Vals    []int // value index per span (span 0 = root)
	Arrival []int // Arrival[p] = index of the span that arrives p-th
	Encs    []enc // per span
}

type outcome struct {
	Keep   bool
	Rate   uint
	Key    string
	Reason string
}

func (o outcome) String() string {
	return fmt.Sprintf("keep=%v rate=%d key=%q reason=%q", o.Keep, o.Rate, o.Key, o.Reason)
}

var t0 = time.Date(2024, 3, 1, 11, 0, 0, 0, time.UTC)

// run presents the trace to the node pair and returns the sampler's answer. problem != "" = the harness
// could not get the spans into the collector (never a property verdict).
func (w *worker) run(s samplerDef, traceID string, p presentation) (o outcome, problem string) {
	w.rc.Reset()
	ds := dataset(s)
	for _, si := range p.Arrival {
		v, e := values[p.Vals[si]], p.Encs[si]
		node := w.a
		if e.ViaPeer {
			node = w.b
		}
		var status int
		switch {
		case strings.HasPrefix(e.Path, "otlp"):
			idb, _ := hex.DecodeString(traceID)
			sp := codec.OTLPSpan{TraceID: idb, SpanID: []byte{1, 2, 3, 4, 5, 6, 7, byte(si + 1)}, Name: "op", Start: t0, End: t0.Add(time.Millisecond),
				Attrs: []codec.Field{codec.F("n", wireValue(v, enc{})), codec.F("sid", codec.Str(fmt.Sprintf("s%d", si)))}}
			if si != 0 {
				sp.ParentSpanID = []byte{1, 2, 3, 4, 5, 6, 7, 1}
			}
			msg := codec.OTLPTraceMessage([]codec.Field{codec.F("service.name", codec.Str("svc"))}, sp)
			switch e.Path {
			case "otlp-http-proto":
				status = node.Do(pipeline.Incoming, codec.OTLPHTTP("/v1/traces", apiKey, ds, codec.CTProto, msg)).Status
			case "otlp-http-json":
				status = node.Do(pipeline.Incoming, codec.OTLPHTTP("/v1/traces", apiKey, ds, codec.CTJSON, msg)).Status
			default:
				status = 200
				if _, err := node.GRPCTraceExport(pipeline.Incoming, map[string]string{"x-honeycomb-team": apiKey, "x-honeycomb-dataset": ds}, codec.OTLPProto(msg)); err != nil {
					return o, "otlp-grpc export: " + err.Error()
				}
			}
		default:
			fields := []codec.Field{codec.F("trace.trace_id", codec.Str(traceID))}
			if si != 0 {
				fields = append(fields, codec.F("trace.parent_id", codec.Str("0102030405060701")))
			}
			fields = append(fields, codec.F("n", wireValue(v, e)), codec.F("sid", codec.Str(fmt.Sprintf("s%d", si))))
			evt := codec.Event{Data: fields}
			var req codec.Request
			switch e.Path {
			case "json-batch":
				req = codec.Batch(ds, apiKey, codec.CTJSON, evt)
			case "json-event":
				req = codec.SingleEvent(ds, apiKey, codec.CTJSON, evt)
			case "msgpack-batch":
				req = codec.Batch(ds, apiKey, codec.CTMsgpack, evt)
			case "msgpack-event":
				req = codec.SingleEvent(ds, apiKey, codec.CTMsgpack, evt)
			default:
				return o, "unknown path " + e.Path
			}
			resp := node.Do(pipeline.Incoming, req)
			status = resp.Status
			if st := resp.BatchStatuses(); strings.HasSuffix(e.Path, "-batch") && (len(st) != 1 || st[0] != 202) {
				return o, fmt.Sprintf("%s: batch answer %s", e, string(resp.Body))
			}
		}
		if status != 200 {
			return o, fmt.Sprintf("%s: HTTP %d", e, status)
		}
		if e.ViaPeer {
			w.b.PeerTx.Flush() // the real peer transmission puts the span on the wire; MemNet serves it to A's peer listener
		}
	}
	if len(w.rc.Arrivals) != len(p.Arrival) {
		return o, fmt.Sprintf("%d of %d spans reached the owner's collector", len(w.rc.Arrivals), len(p.Arrival))
	}
	for i, sp := range w.rc.Arrivals {
		if sp.TraceID != traceID || sp.IsRoot != (p.Arrival[i] == 0) || sp.Dataset != ds {
			return o, fmt.Sprintf("span %d arrived as trace=%q root=%v dataset=%q", p.Arrival[i], sp.TraceID, sp.IsRoot, sp.Dataset)
		}
	}
	ds2 := w.rc.Decide()
	w.rc.Send()
	w.a.Reset()
	w.b.Reset()
	if len(ds2) != 1 || ds2[0].TraceID != traceID {
		return o, fmt.Sprintf("expected one decision for %s, got %v", traceID, ds2)
	}
	if ds2[0].Selector != ds {
		return o, fmt.Sprintf("decided by sampler %q, expected %q", ds2[0].Selector, ds)
	}
	return outcome{Keep: ds2[0].Keep, Rate: ds2[0].Rate, Key: ds2[0].SampleKey, Reason: ds2[0].Reason}, ""
}

// ---------------------------------------------------------------------------------------------

type caseT struct {
	trace   int // index into traces
	arrival int // index into enumx.Perms(k)
	encs    [3]uint8
}

type found struct {
	order int64
	what  string
	rep   any
}

func main() {
	r := ev.New("C09", "exploration")
	defs := samplers()
	workers := 16
	pool := make(chan *worker, workers)
	for i := 0; i < workers; i++ {
		pool <- newWorker(defs)
	}

	// ---- trace IDs: 32 hex digits (OTLP needs bytes), owned by node A; two of them with different
	// deterministic-sampler outcomes at rate 2 (found by asking the real sampler through the real path).
	w0 := <-pool
	var traceIDs []string
	{
		var kept, dropped string
		detIdx := -1
		for i, s := range defs {
			if s.Class == "deterministic" {
				detIdx = i
				break
			}
		}
		for i := 1; i < 4096 && (kept == "" || dropped == ""); i++ {
			id := fmt.Sprintf("%032x", uint64(i)*0x9e3779b97f4a7c15)
			if !w0.a.OwnedBySelf(id) || w0.b.OwnedBySelf(id) {
				continue
			}
			o, prob := w0.run(defs[detIdx], id, presentation{Vals: []int{0}, Arrival: []int{0}, Encs: []enc{canonical}})
			if prob != "" {
				ev.Harness("probing trace IDs: %s", prob)
			}
			if o.Keep && kept == "" {
				kept = id
			} else if !o.Keep && dropped == "" {
				dropped = id
			}
		}
		if kept == "" || dropped == "" {
			ev.Harness("no kept+dropped pair of self-owned hex trace IDs found")
		}
		traceIDs = []string{kept, dropped}
	}
	pool <- w0

	// ---- logical traces and their presentations
	maxSpans := 3
	k3vals := ev.Pick(r, []int{0, 2, 4}, []int{0, 1, 2, 3, 4, 5}) // quick: 3-span traces over {200, 1.5, "x"}
	var traces [][]int
	for a := range values {
		traces = append(traces, []int{a})
	}
	for a := range values {
		for b := range values {
			traces = append(traces, []int{a, b})
		}
	}
	for _, a := range k3vals {
		for _, b := range k3vals {
			for _, c := range k3vals {
				traces = append(traces, []int{a, b, c})
			}
		}
	}
	perms := map[int][][]int{1: enumx.Perms(1), 2: enumx.Perms(2), 3: enumx.Perms(3)}
	encLists := map[[2]int][]enc{} // (value, level)
	for vi, v := range values {
		for lvl := 1; lvl <= maxSpans; lvl++ {
			encLists[[2]int{vi, lvl}] = encodings(v, lvl)
		}
	}
	var cases []caseT
	for ti, tr := range traces {
		k := len(tr)
		lists := make([][]enc, k)
		dims := make([]int, k)
		for i, vi := range tr {
			lists[i] = encLists[[2]int{vi, k}]
			dims[i] = len(lists[i])
		}
		for pi := range perms[k] {
			idx := make([]int, k)
			for {
				c := caseT{trace: ti, arrival: pi}
				for i := range idx {
					c.encs[i] = uint8(idx[i])
				}
				cases = append(cases, c)
				d := k - 1
				for d >= 0 {
					idx[d]++
					if idx[d] < dims[d] {
						break
					}
					idx[d] = 0
					d--
				}
				if d < 0 {
					break
				}
			}
		}
	}
	present := func(c caseT) presentation {
		tr := traces[c.trace]
		p := presentation{Vals: tr, Arrival: perms[len(tr)][c.arrival], Encs: make([]enc, len(tr))}
		for i, vi := range tr {
			p.Encs[i] = encLists[[2]int{vi, len(tr)}][c.encs[i]]
		}
		return p
	}
	canonicalOf := func(tr []int) presentation {
		p := presentation{Vals: tr, Arrival: perms[len(tr)][0], Encs: make([]enc, len(tr))}
		for i := range tr {
			p.Encs[i] = canonical
		}
		return p
	}

	// ---- reference answers: canonical presentation, computed once per (trace, sampler)
	type refKey struct{ trace, sampler int }
	var refs sync.Map
	reference := func(w *worker, ti, si int) (outcome, string) {
		if v, ok := refs.Load(refKey{ti, si}); ok {
			return v.(outcome), ""
		}
		o, prob := w.run(defs[si], traceIDs[defs[si].TraceID], canonicalOf(traces[ti]))
		if prob == "" {
			refs.Store(refKey{ti, si}, o)
		}
		return o, prob
	}

	var mu sync.Mutex
	viol := map[string]found{}
	harness := ""
	report := func(sig string, order int64, what string, rep any) {
		mu.Lock()
		if f, ok := viol[sig]; !ok || order < f.order {
			viol[sig] = found{order, what, rep}
		}
		mu.Unlock()
	}
	describe := func(p presentation) map[string]any {
		vs := make([]string, len(p.Vals))
		es := make([]string, len(p.Vals))
		for i, vi := range p.Vals {
			vs[i] = values[vi].Name
			es[i] = p.Encs[i].String()
		}
		return map[string]any{"span_values(root first)": vs, "arrival_order": p.Arrival, "encodings": es}
	}

	dims := []int{len(cases), len(defs)}
	enumx.Each(r, "presentations", dims, workers, func(idx []int) {
		w := <-pool
		defer func() { pool <- w }()
		c, si := cases[idx[0]], idx[1]
		s := defs[si]
		p := present(c)
		ref, prob := reference(w, c.trace, si)
		var got outcome
		if prob == "" {
			got, prob = w.run(s, traceIDs[s.TraceID], p)
		}
		if prob != "" {
			mu.Lock()
			if harness == "" {
				harness = fmt.Sprintf("%s; sampler=%s case=%s", prob, s.Name, ev.J(describe(p)))
			}
			mu.Unlock()
			return
		}
		isCanon := c.arrival == 0
		for _, e := range p.Encs {
			if e != canonical {
				isCanon = false
			}
		}
		if !isCanon {
			r.Distinct("distinct_nontrivial", s.Name+"|"+ref.String())
		}
		r.Distinct("distinct_reference_outcomes", ref.String())
		r.Distinct(fmt.Sprintf("sampler_keep_%v", ref.Keep), s.Name)
		for i, e := range p.Encs {
			r.Distinct("encoding_families_exercised", e.family(values[p.Vals[i]]))
		}
		if got == ref {
			return
		}
		// ---- difference: which component, and which single span presentation is responsible?
		var comps []string
		if got.Keep != ref.Keep {
			comps = append(comps, "keep")
		}
		if got.Rate != ref.Rate {
			comps = append(comps, "rate")
		}
		if got.Key != ref.Key {
			comps = append(comps, "key")
		}
		if got.Reason != ref.Reason {
			comps = append(comps, "reason")
		}
		culprit := ""
		min := p
		canon := canonicalOf(p.Vals)
		for i := range p.Vals { // single-span substitution into the canonical presentation
			if p.Encs[i] == canonical {
				continue
			}
			q := canonicalOf(p.Vals)
			q.Encs[i] = p.Encs[i]
			o, prob := w.run(s, traceIDs[s.TraceID], q)
			if prob == "" && o != ref {
				culprit = fmt.Sprintf("value=%s,encoding=%s", values[p.Vals[i]].Name, p.Encs[i].family(values[p.Vals[i]]))
				min, got = q, o
				break
			}
		}
		if culprit == "" {
			q := canon
			q.Arrival = p.Arrival
			if o, prob := w.run(s, traceIDs[s.TraceID], q); prob == "" && o != ref {
				culprit = "span-order"
				min, got = q, o
			}
		}
		if culprit == "" {
			var fs []string
			for i, e := range p.Encs {
				fs = append(fs, e.family(values[p.Vals[i]]))
			}
			sort.Strings(fs)
			culprit = "combination:" + strings.Join(fs, "+")
		}
		sig := fmt.Sprintf("decision-differs(%s)|sampler=%s|%s", strings.Join(comps, ","), s.Name, culprit)
		rep := describe(min)
		rep["sampler"] = s.Name
		rep["trace_id"] = traceIDs[s.TraceID]
		rep["canonical_presentation"] = describe(canon)
		rep["answer_for_canonical"] = ref.String()
		rep["answer_for_this"] = got.String()
		report(sig, int64(idx[0])*int64(len(defs))+int64(si),
			fmt.Sprintf("sampler %s answers {%s} for the logical trace %v presented as %v (arrival %v) but {%s} for the same trace sent as JSON batch in logical order",
				s.Name, got, rep["span_values(root first)"], rep["encodings"], min.Arrival, ref), rep)
	})
	for i := 0; i < workers; i++ {
		(<-pool).close()
	}
	if harness != "" {
		ev.Harness("span could not be delivered / decided: %s", harness)
	}
	sigs := make([]string, 0, len(viol))
	for s := range viol {
		sigs = append(sigs, s)
	}
	sort.Strings(sigs)
	for _, s := range sigs {
		r.Violation(s, viol[s].what, viol[s].rep)
	}

	// vacuity guards
	both := 0
	for _, s := range defs {
		_ = s
	}
	both = minInt(r.NDistinct("sampler_keep_true"), r.NDistinct("sampler_keep_false"))
	r.Set("samplers", len(defs))
	r.Set("samplers_seen_keeping_and_dropping(min)", both)
	r.Set("logical_traces", len(traces))
	r.Set("presentations", len(cases))
	r.Set("rule", "for every logical trace, arrival order, per-span encoding and sampler: (keep, rate, sample key, reason) answered by the real sampler inside the real collector == the answer for the same logical trace sent as JSON batch in logical order")
	var names []string
	for _, s := range defs {
		names = append(names, s.Name)
	}
	r.Set("bounds", map[string]any{"values": values, "spans": "1..3 (span 0 root)", "three_span_values": k3vals, "samplers": names,
		"encodings_level1": fmt.Sprint(encodings(values[0], 1)), "encodings_level2": fmt.Sprint(encodings(values[0], 2)), "encodings_level3": fmt.Sprint(encodings(values[0], 3))})
	r.Sample(map[string]any{"trace_ids": traceIDs})
	r.Assume("'numerically equal values': an integer stays an integer on msgpack/OTLP (signedness and width vary), a float stays a float (32/64 bit, only exactly representable values); JSON renders both as a JSON number. An integer is never re-typed as a msgpack float or vice versa")
	r.Assume("OTLP spans necessarily carry protocol-derived extra fields (name, duration_ms, span.kind …); every sampler configured here reads only field n and the trace ID, so the sampled fields are the same in all presentations")
	r.Assume("the random keep draw is owned by configuration (rule SampleRate 1 / Drop, dynamic goal rate 1 with 24 h ClearFrequency, deterministic = hash of trace ID); samplers whose keep is a genuine coin flip are outside a deterministic equivalence check")
	r.Assume("decision observed through the collector's own makeDecision telemetry span (kept, rate, reason, sampler key), cross-checked against the outgoing queue for kept traces; real collector in handler mode (processSpan / send tick / sendTraces bodies called directly)")
	r.Assume("forwarded-from-peer: the span is ingested by a second real node that does not own the trace; its real peer DirectTransmission serialises it and the bytes are served to the owner's peer listener")
	r.Finish()
}

func minInt(a, b int) int {
	if a < b {
		return a
	}
	return b
}
