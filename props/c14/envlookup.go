// C14, part 2: the environment name the selection starts from. Part 1 takes the environment name as an input ("what
// the router's lookup returned"); this part explores the lookup itself: the real Router.getEnvironmentName over its
// real environment cache, with the Honeycomb API (the cache's lookup function) going down and coming back, and the
// fake clock moving across the cache TTL. Engine E1 (seqx): BFS over histories of requests / API outages / clock
// steps. Oracle: a request either fails (allowed only when this very request had to ask the API and the API was
// down) or it gets exactly the environment the API has for that key - never another key's environment and never
// no environment at all without an error (the span would then be sampled by __default__ although its environment
// has a sampler).
package main

import (
	"fmt"
	"strings"
	"sync"
	"time"

	"github.com/honeycombio/refinery/route"
	"github.com/jonboulle/clockwork"

	"verif/engine/ev"
	"verif/engine/seqx"
	"verif/shim/vtime"
)

type envEvent struct {
	Op  string // req, down, up, adv
	Key string
	D   time.Duration
}

func (e envEvent) String() string {
	switch e.Op {
	case "req":
		return "req(" + e.Key + ")"
	case "adv":
		return "adv(" + e.D.String() + ")"
	}
	return "api-" + e.Op
}

const envTTL = time.Minute

var envOf = map[string]string{
	"abcdefghij0123456789":             "prod",  // environment key (20 alphanumerics)
	"zyxwvutsrq9876543210AB":           "other", // environment key (22 alphanumerics)
	"0123456789abcdef0123456789abcdef": "",      // classic key: no environment, no lookup
}

var envMu sync.Mutex // vtime.Clock is process-wide: one history at a time

func envExec(h []envEvent) (string, string, *seqx.Failure) {
	envMu.Lock()
	defer envMu.Unlock()
	clk := clockwork.NewFakeClockAt(time.Date(2024, 1, 1, 0, 0, 0, 0, time.UTC))
	vtime.Clock = clk
	defer func() { vtime.Clock = nil }()
	up := true
	calls := 0
	rt := &route.Router{}
	rt.SetEnvironmentCache(envTTL, func(key string) (string, error) {
		calls++
		if !up {
			return "", fmt.Errorf("honeycomb api unavailable")
		}
		return envOf[key], nil
	})
	// reference: age of the last successful and of the last failed lookup per key (what any cache could remember)
	type mem struct{ okAt, failAt time.Time }
	ages := map[string]*mem{}
	var outcome []string
	for step, e := range h {
		switch e.Op {
		case "down":
			up = false
		case "up":
			up = true
		case "adv":
			clk.Advance(e.D)
		case "req":
			before := calls
			env, err := rt.VerifC14EnvName(e.Key)
			asked := calls > before
			want := envOf[e.Key]
			m := ages[e.Key]
			if m == nil {
				m = &mem{}
				ages[e.Key] = m
			}
			switch {
			case err != nil && (up || !asked):
				return "", "", &seqx.Failure{Sig: "envlookup:request-rejected-although-api-answers", What: fmt.Sprintf("step %d of %v: lookup failed (%v), API up=%v, API asked=%v", step, h, err, up, asked)}
			case err == nil && env != want && env == "":
				return "", "", &seqx.Failure{Sig: "envlookup:no-environment-and-no-error", What: fmt.Sprintf("step %d of %v: request with environment key %s was given environment \"\" without an error (API asked=%v, API up=%v); its trace is sampled by __default__ instead of the sampler of %q", step, h, e.Key, asked, up, want)}
			case err == nil && env != want:
				return "", "", &seqx.Failure{Sig: "envlookup:environment-of-another-key", What: fmt.Sprintf("step %d of %v: key %s resolved to %q, the API says %q", step, h, e.Key, env, want)}
			}
			if want != "" {
				if err != nil {
					m.failAt = clk.Now()
					outcome = append(outcome, "rejected")
				} else if asked {
					m.okAt = clk.Now()
					outcome = append(outcome, "looked-up")
				} else {
					outcome = append(outcome, "cached")
				}
			}
		}
	}
	now := clk.Now()
	age := func(t time.Time) string {
		if t.IsZero() || now.Sub(t) > envTTL {
			return "-"
		}
		return now.Sub(t).String()
	}
	var ks []string
	for _, k := range []string{"abcdefghij0123456789", "zyxwvutsrq9876543210AB"} {
		if m := ages[k]; m != nil {
			ks = append(ks, k[:1]+":"+age(m.okAt)+"/"+age(m.failAt))
		} else {
			ks = append(ks, k[:1]+":-/-")
		}
	}
	return fmt.Sprintf("up=%v|%s", up, strings.Join(ks, "|")), strings.Join(outcome, ","), nil
}

func envLookupPart(r *ev.Run) {
	alphabet := []envEvent{
		{Op: "req", Key: "abcdefghij0123456789"}, {Op: "down"}, {Op: "up"}, {Op: "adv", D: time.Second},
		{Op: "req", Key: "zyxwvutsrq9876543210AB"}, {Op: "adv", D: envTTL - time.Second}, {Op: "adv", D: 15 * time.Second},
		{Op: "req", Key: "0123456789abcdef0123456789abcdef"},
	}
	depth := ev.Pick(r, 7, 9)
	seqx.Explore(r, seqx.Scenario[envEvent]{
		Name: "environment-lookup",
		Enabled: func(h []envEvent) []envEvent {
			var out []envEvent
			for _, e := range alphabet {
				if n := len(h); n > 0 && (e.Op == "down" || e.Op == "up") && (h[n-1].Op == "down" || h[n-1].Op == "up") {
					continue // two API state changes in a row: only the last one is seen by anybody
				}
				out = append(out, e)
			}
			return out
		},
		Exec:     envExec,
		MaxDepth: depth, Workers: 4,
		NoMergeDepth: ev.Pick(r, 4, 5),
	})
	r.Set("envlookup_bounds", map[string]any{"keys": 3, "ttl": envTTL.String(), "alphabet": fmt.Sprint(alphabet), "depth": depth})
	r.Assume("environment-lookup part: canonical state = API up/down + per key the age (within the TTL) of the last successful and of the last failed lookup; histories up to the no-merge depth do not depend on it")
}
