// C14: each trace is sampled by the sampler configured for its destination.
// Engine E2 (enumx): API key shapes (classic configuration keys, classic ingest keys, environment keys, environment
// ingest keys, near misses, upper case, empty) × environment name × dataset × DatasetPrefix {"", "classic"} × rules files
// (every subset of samplers for {prod, other, svc, classic.prod, classic.svc}, with __default__ (validated load) and
// without it (--no-validate load), as plain dynamic samplers or as rules-based samplers with a downstream sampler)
// × ingestion path {batch msgpack first-event, single msgpack event, OTLP metadata-only}.
// Everything is real: config.NewConfig on generated YAML files, types.NewCoreFieldsUnmarshaler for ingestion, a real
// collector worker's processSpan + makeDecision (hook) with the real SamplerFactory for the decision.
// Oracle (reference classifier written from rules.md / config.md / the statement):
//  1. the selector used at decision time is the environment name for environment-scoped keys and
//     [DatasetPrefix.]dataset for classic keys (keys the documents do not classify: either, but one of the two);
//  2. the sampler that decides is the one configured for that selector, else __default__ — observed through the
//     sampler's reason and through which (per-sampler distinct) fields appear in the sampler key;
//  3. on the paths that extract sampling fields at ingestion, the fields of that same sampler are the ones extracted,
//     and on every path the values of all its fields are in the key the sampler computed (available at decision time).
package main

import (
	"fmt"
	"os"
	"path/filepath"
	"regexp"
	"sort"
	"strings"
	"sync"
	"time"

	"github.com/jonboulle/clockwork"

	"github.com/honeycombio/refinery/collect"
	"github.com/honeycombio/refinery/config"
	"github.com/honeycombio/refinery/logger"
	"github.com/honeycombio/refinery/metrics"
	"github.com/honeycombio/refinery/sample"
	"github.com/honeycombio/refinery/types"

	"verif/engine/enumx"
	"verif/engine/ev"
)

// ---------- reference classifier (from the documents, not from the code) ----------
// rules.md: "If the API key is a 'classic' key (which is a 32-character hexadecimal value), the specified dataset name is
// used as the target. If the API key is a new-style key (20-23 alphanumeric characters), the key's environment name is used."
// Release notes 2.5: classic *ingest* keys are supported; Honeycomb ingest keys are 64 characters, "hc<region letter>ic_" (classic)
// or "hc<region letter>ik_" (environment) followed by 58 lower-case alphanumerics.
var (
	reClassicCfg    = regexp.MustCompile(`^[0-9a-f]{32}$`)
	reClassicIngest = regexp.MustCompile(`^hc[a-z]ic_[0-9a-z]{58}$`)
	reEnvCfg        = regexp.MustCompile(`^[0-9A-Za-z]{20,23}$`)
	reEnvIngest     = regexp.MustCompile(`^hc[a-z]ik_[0-9a-z]{58}$`)
)

func classify(key string) string {
	switch {
	case reClassicCfg.MatchString(key), reClassicIngest.MatchString(key):
		return "classic"
	case reEnvCfg.MatchString(key), reEnvIngest.MatchString(key):
		return "environment"
	}
	return "unspecified"
}

type keyShape struct{ Name, Key string }

func keyShapes() []keyShape {
	s58 := "0123456789abcdefghijklmnopqrstuvwxyz0123456789abcdefghijkl"[:58]
	return []keyShape{
		{"classic-32-hex", "0123456789abcdef0123456789abcdef"},
		{"classic-32-digits", "12345678901234567890123456789012"},
		{"classic-32-letters-a-f", "abcdefabcdefabcdefabcdefabcdefab"},
		{"classic-ingest-hcaic", "hcaic_" + s58},
		{"classic-ingest-hcxic", "hcxic_" + s58},
		{"env-22", "abcDEF1234567890abcdEF"},
		{"env-20", "abcDEF1234567890abcd"},
		{"env-23", "abcDEF1234567890abcdEFg"},
		{"env-ingest-hcaik", "hcaik_" + s58},
		{"env-ingest-hcxik", "hcxik_" + s58},
		// not classified by the documents
		{"near-miss-31-hex", "0123456789abcdef0123456789abcde"},
		{"near-miss-33-hex", "0123456789abcdef0123456789abcdef0"},
		{"upper-case-32-hex", "0123456789ABCDEF0123456789ABCDEF"},
		{"32-with-non-hex-letter", "0123456789abcdeg0123456789abcdef"},
		{"ingest-63-chars", "hcaic_" + s58[:57]},
		{"ingest-upper-case-suffix", "hcaic_" + s58[:10] + "A" + s58[11:]},
		{"ingest-digit-region", "hc1ic_" + s58},
		{"empty", ""},
	}
}

// ---------- rules files ----------
var targets = []string{"prod", "other", "svc", "classic.prod", "classic.svc"} // + __default__

func fieldsOf(target, kind string) []string {
	if kind == "rules" {
		return []string{"c_" + target, "f_" + target}
	}
	return []string{"f_" + target, "r_" + target} // r_ is configured as root.r_<target>
}

func samplerYAML(target, kind string) string {
	if kind == "rules" {
		return fmt.Sprintf(`    RulesBasedSampler:
      Rules:
        - Name: rule_%[1]s
          Conditions:
            - Field: "c_%[1]s"
              Operator: exists
          Sampler:
            DynamicSampler:
              SampleRate: 1
              FieldList: ["f_%[1]s"]
        - Name: fallthrough_%[1]s
          SampleRate: 1
`, target)
	}
	return fmt.Sprintf(`    DynamicSampler:
      SampleRate: 1
      FieldList: ["f_%[1]s", "root.r_%[1]s"]
`, target)
}

type cfgCase struct {
	Prefix     string
	Present    map[string]bool
	HasDefault bool
	Kind       string
}

func (c cfgCase) String() string {
	var p []string
	for _, t := range targets {
		if c.Present[t] {
			p = append(p, t)
		}
	}
	return fmt.Sprintf("prefix=%q samplers=%v default=%v kind=%s", c.Prefix, p, c.HasDefault, c.Kind)
}

func (c cfgCase) resolve(selector string) (string, bool) {
	if c.Present[selector] {
		return selector, true
	}
	if c.HasDefault {
		return "__default__", true
	}
	return "", false
}

func load(dir string, c cfgCase) config.Config {
	if err := os.MkdirAll(dir, 0o755); err != nil {
		ev.Harness("mkdir: %v", err)
	}
	main := "General:\n  ConfigurationVersion: 2\n"
	if c.Prefix != "" {
		main += "  DatasetPrefix: " + c.Prefix + "\n"
	}
	main += "SampleCache:\n  KeptSize: 100\n  DroppedSize: 1000\n"
	rules := "RulesVersion: 2\nSamplers:\n"
	if c.HasDefault {
		rules += "  __default__:\n" + samplerYAML("__default__", c.Kind)
	}
	for _, t := range targets {
		if c.Present[t] {
			rules += "  " + t + ":\n" + samplerYAML(t, c.Kind)
		}
	}
	cp, rp := filepath.Join(dir, "config.yaml"), filepath.Join(dir, "rules.yaml")
	if err := os.WriteFile(cp, []byte(main), 0o644); err != nil {
		ev.Harness("write: %v", err)
	}
	if err := os.WriteFile(rp, []byte(rules), 0o644); err != nil {
		ev.Harness("write: %v", err)
	}
	// a rules file without __default__ is rejected by validation; it can only be run with --no-validate
	cfg, err := config.NewConfig(&config.CmdEnv{ConfigLocations: []string{cp}, RulesLocations: []string{rp}, NoValidate: !c.HasDefault})
	if cfg == nil {
		ev.Harness("cannot load generated config (%v): %v", c, err)
	}
	return cfg
}

// ---------- a minimal msgpack encoder for {string: string} maps (not the library under test) ----------
func mpStr(b []byte, s string) []byte {
	n := len(s)
	switch {
	case n < 32:
		b = append(b, 0xa0|byte(n))
	case n < 256:
		b = append(b, 0xd9, byte(n))
	default:
		b = append(b, 0xda, byte(n>>8), byte(n))
	}
	return append(b, s...)
}

func mpMap(keys []string, m map[string]string) []byte {
	var b []byte
	if len(keys) < 16 {
		b = append(b, 0x80|byte(len(keys)))
	} else {
		b = append(b, 0xde, byte(len(keys)>>8), byte(len(keys)))
	}
	for _, k := range keys {
		b = mpStr(b, k)
		b = mpStr(b, m[k])
	}
	return b
}

var paths = []string{"batch-msgpack-first-event", "msgpack-single-event", "otlp-metadata-only"}

func main() {
	r := ev.New("C14", "exploration")
	work := os.Getenv("VERIF_WORK")
	if work == "" {
		work = "/verif/.work/c14"
	}
	work = filepath.Join(work, "cfg")
	os.RemoveAll(work)

	var cfgs []cfgCase
	for _, kind := range []string{"dynamic", "rules"} {
		for _, prefix := range []string{"", "classic"} {
			for mask := 0; mask < 1<<len(targets); mask++ {
				for _, hasDefault := range []bool{true, false} {
					p := map[string]bool{}
					for i, t := range targets {
						if mask&(1<<i) != 0 {
							p[t] = true
						}
					}
					cfgs = append(cfgs, cfgCase{prefix, p, hasDefault, kind})
				}
			}
		}
	}
	keys := keyShapes()
	envs := []string{"prod", "other", ""}
	datasets := []string{"prod", "svc", "classic.prod"} // the last one begins with the DatasetPrefix value itself
	allTargets := append(append([]string{}, targets...), "__default__")

	clock := clockwork.NewFakeClockAt(time.Date(2024, 1, 1, 0, 0, 0, 0, time.UTC))

	// samples are gathered and stored sorted, so the evidence file does not depend on goroutine timing
	var smu sync.Mutex
	var samples []map[string]any
	addSample := func(m map[string]any) { smu.Lock(); samples = append(samples, m); smu.Unlock() }

	enumx.Each(r, "configs", []int{len(cfgs)}, 16, func(idx []int) {
		cc := cfgs[idx[0]]
		cfg := load(filepath.Join(work, fmt.Sprintf("c%04d", idx[0])), cc)
		if got := cfg.GetDatasetPrefix(); got != cc.Prefix {
			ev.Harness("generated config has DatasetPrefix %q, wanted %q", got, cc.Prefix)
		}
		sf := &sample.SamplerFactory{Config: cfg, Logger: &logger.NullLogger{}, Metrics: &metrics.NullMetrics{}}
		if err := sf.Start(); err != nil {
			ev.Harness("factory: %v", err)
		}
		defer sf.Stop()
		worker, err := collect.VerifC14NewWorker(cfg, sf, clock)
		if err != nil {
			ev.Harness("worker: %v", err)
		}
		defer worker.Stop()
		tidField := cfg.GetTraceIdFieldNames()[0]

		n := 0
		for ki, k := range keys {
			class := classify(k.Key)
			for _, env := range envs {
				for _, ds := range datasets {
					// reference selector(s)
					dsSel := ds
					if cc.Prefix != "" {
						dsSel = cc.Prefix + "." + ds
					}
					var cands []string
					switch class {
					case "classic":
						cands = []string{dsSel}
					case "environment":
						cands = []string{env}
					default:
						cands = []string{env, dsSel}
					}
					defined := true
					for _, c := range cands {
						if _, ok := cc.resolve(c); !ok {
							defined = false // no sampler at all for this destination (only without __default__): outside the statement
						}
					}
					if !defined {
						r.Add("skipped_no_sampler_at_all", int64(len(paths)))
						continue
					}
					for pi, path := range paths {
						n++
						tid := fmt.Sprintf("t-%d-%d-%s-%s-%d", idx[0], ki, env, ds, pi)
						fields := map[string]string{tidField: tid}
						names := []string{tidField}
						for _, t := range allTargets {
							for _, pre := range []string{"f_", "r_", "c_"} {
								fields[pre+t] = strings.Replace(pre, "_", "v_", 1) + t // f_prod -> "fv_prod"
								names = append(names, pre+t)
							}
						}
						sort.Strings(names)
						body := mpMap(names, fields)

						// ---- ingestion (what route.batch / the OTLP handler do with the request's key, environment and dataset) ----
						un := types.NewCoreFieldsUnmarshaler(types.CoreFieldsUnmarshalerOptions{Config: cfg, APIKey: k.Key, Env: env, Dataset: ds})
						payload := types.NewPayload(cfg, nil)
						var ierr error
						switch path {
						case "batch-msgpack-first-event":
							_, ierr = un.UnmarshalMsgpFirstEvent(append(append([]byte{}, body...), body...), &payload)
						case "msgpack-single-event":
							ierr = un.UnmarshalMsgpEvent(body, &payload)
						case "otlp-metadata-only":
							ierr = un.UnmarshalMsgpEventMetadataOnly(body, &payload)
						}
						if ierr != nil {
							ev.Harness("ingest failed: %v", ierr)
						}
						if err := payload.ExtractMetadata(); err != nil {
							ev.Harness("ExtractMetadata: %v", err)
						}
						if payload.MetaTraceID != tid {
							ev.Harness("trace id not extracted: %q", payload.MetaTraceID)
						}
						extracted := payload.VerifC14MemoizedKeys()

						// ---- decision (real processSpan + makeDecision) ----
						sp := &types.Span{TraceID: tid, IsRoot: true, ArrivalTime: clock.Now(),
							Event: &types.Event{APIHost: "http://api", APIKey: k.Key, Dataset: ds, Environment: env, Data: payload}}
						dec, err := collect.VerifC14Decide(worker, sp)
						if err != nil {
							ev.Harness("decide: %v", err)
						}
						replay := map[string]any{"config": cc.String(), "api_key": k.Key, "key_shape": k.Name, "environment": env, "dataset": ds, "path": path}
						pfx := map[bool]string{false: "no-prefix", true: "with-prefix"}[cc.Prefix != ""]

						// 1. selector
						okSel := false
						for _, c := range cands {
							if dec.Selector == c {
								okSel = true
							}
						}
						if !okSel {
							r.Violation(fmt.Sprintf("selector:%s-key:%s:%s", class, k.Name, pfx),
								fmt.Sprintf("key %q (%s) env=%q dataset=%q prefix=%q: decision used selector %q, the documents require %q", k.Key, class, env, ds, cc.Prefix, dec.Selector, cands), replay)
							continue
						}
						target, _ := cc.resolve(dec.Selector)

						// 2. the deciding sampler is that selector's, else __default__
						wantF := fieldsOf(target, cc.Kind)
						var wantVals []string
						for _, f := range wantF {
							if strings.HasPrefix(f, "c_") {
								continue // a rule condition field: that it was readable is shown by the rule matching (reason rule_<target>, not fallthrough_<target>)
							}
							wantVals = append(wantVals, fields[f])
						}
						tokens := map[string]bool{}
						for _, tok := range strings.FieldsFunc(dec.Key, func(c rune) bool { return c == '•' || c == ',' }) {
							tokens[tok] = true
						}
						decidedBy := ""
						for _, t := range allTargets {
							if tokens[fields["f_"+t]] {
								decidedBy += t + ";"
							}
						}
						wantReason := "dynamic"
						if cc.Kind == "rules" {
							wantReason = "rules/trace/rule_" + target + ":dynamic"
						}
						if decidedBy != target+";" || dec.Reason != wantReason {
							r.Violation(fmt.Sprintf("deciding-sampler-is-not-the-selected-one:%s-key:%s:%s", class, pfx, cc.Kind),
								fmt.Sprintf("selector %q → sampler for %q expected (reason %q); decided by sampler(s) %q with reason %q key %q [%v, key %s env=%q dataset=%q]",
									dec.Selector, target, wantReason, decidedBy, dec.Reason, dec.Key, cc, k.Name, env, ds), replay)
							continue
						}
						// 3a. fields extracted at ingestion are those of the same sampler
						if path != "otlp-metadata-only" {
							have := map[string]bool{}
							for _, e := range extracted {
								have[e] = true
							}
							for _, f := range wantF {
								if !have[f] {
									r.Violation(fmt.Sprintf("ingestion-did-not-extract-fields-of-selected-sampler:%s-key:%s:%s:%s", class, pfx, cc.Kind, path),
										fmt.Sprintf("sampler for %q decides and reads %v, but ingestion (key %s env=%q dataset=%q) extracted only %v [%v]", target, wantF, k.Name, env, ds, extracted, cc), replay)
									break
								}
							}
						}
						// 3b. every field the sampler reads was available when it decided
						for _, v := range wantVals {
							if !tokens[v] {
								r.Violation(fmt.Sprintf("field-not-available-at-decision:%s:%s", cc.Kind, path),
									fmt.Sprintf("sampler for %q reads %v; its key %q lacks value %q [%v, key %s env=%q dataset=%q]", target, wantF, dec.Key, v, cc, k.Name, env, ds), replay)
								break
							}
						}
						if target != "__default__" {
							r.Distinct("distinct_nontrivial", strings.Join([]string{class, pfx, target, cc.Kind, path}, "|"))
							r.Add("decided_by_specific_sampler", 1)
						} else {
							r.Add("decided_by_default", 1)
						}
						r.Distinct("classes_seen", class+"|"+k.Name)
						if n == 1 && idx[0]%23 == 2 {
							addSample(map[string]any{"in": replay, "selector": dec.Selector, "sampler": target, "reason": dec.Reason, "key": dec.Key, "extracted_at_ingest": extracted})
						}
					}
				}
			}
		}
		r.Add("evaluations", int64(n-1)) // enumx.Each counts 1 per config
	})
	os.RemoveAll(work)
	sort.Slice(samples, func(i, j int) bool { return ev.J(samples[i]) < ev.J(samples[j]) })
	for _, m := range samples {
		r.Sample(m)
	}

	r.Set("configs", len(cfgs))
	r.Set("key_shapes", len(keys))
	r.Set("rule", "selector = environment name for environment(-ingest) keys, [DatasetPrefix.]dataset for classic(-ingest) keys, either for keys the documents do not classify; deciding sampler = Samplers[selector] else __default__; ingestion extracts that sampler's fields; all its field values present in the key it computed")
	r.Set("bounds", map[string]any{"keys": len(keys), "environments": envs, "datasets": datasets, "prefixes": []string{"", "classic"},
		"rules": "every subset of {prod, other, svc, classic.prod, classic.svc} × {with __default__ (validated), without (--no-validate)} × {DynamicSampler incl. a root. field, RulesBasedSampler with condition + downstream}", "paths": paths})
	r.Assume("key classes are taken from rules.md (classic = 32 hex characters, new style = 20-23 alphanumerics) plus Honeycomb's ingest-key format (64 chars, hc<a-z>ic_/hc<a-z>ik_ + 58 lower-case alphanumerics); for key shapes outside these classes (31/33 characters, upper-case hex, non-hex letter, malformed ingest keys, empty) the statement fixes no selector, so either is accepted, but the sampler and the extracted fields must follow the selector actually used")
	r.Assume("the environment name is an input (what the router's environment lookup returned, \"\" when it returned nothing); that the router passes the same key, environment and dataset to ingestion and to the span is the router fixture's business, not checked here")
	r.Assume("a destination with neither its own sampler nor __default__ (possible only with --no-validate) has no sampler at all and is outside the statement; such inputs are counted as skipped")
	r.Assume("'available when it decides' is observed end to end: the value of every field the selected sampler reads appears in the key that sampler computed inside the real makeDecision, on every ingestion path")
	envLookupPart(r)
	reloadWorkersPart(r)
	r.Finish()
}
