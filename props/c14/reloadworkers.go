// C14, part 3: the rules-files dimension with a LIVE RELOAD in the middle of a history, on a collector with several
// workers. Parts 1 and 2 decide every trace on a freshly loaded configuration; here the rules change while the real
// collector (fix/collector, loop mode: N × collect(), sendTraces(), monitor() are running) has already decided traces,
// i.e. while its workers hold samplers built from the previous rules. A reload is the configuration change followed
// by the collector's real reload handler reloadConfigs, which notifies every worker with a non-blocking send on a
// 1-slot channel. Enumerated (engine E2, every combination): the rules before / after the first / after the second
// reload, one reload or two in a row, which workers are busy (parked on their own pause channel: they do not take
// their notification until the run of reloads is over, so a second notification meets a full channel) while the
// other workers take each notification as it is sent, and whether the workers decide traces before the first and
// between the two reloads (= hold samplers of those rules).
// Oracle (the statement, nothing else): once a worker has taken whatever notification it was sent, a trace it decides
// for an environment is decided by the sampler that the rules NOW IN FORCE configure for that environment name, else
// by their __default__ - observed, as in part 1, through the reason (it carries the rule name, distinct per
// rules version and target) and the sampler key (the value of the field only that sampler reads).
package main

import (
	"fmt"
	"strings"

	"github.com/honeycombio/refinery/config"
	"github.com/honeycombio/refinery/types"

	"verif/engine/enumx"
	"verif/engine/ev"
	fx "verif/fix/collector"
)

// one rules file: the sampler of environment "prod" ("" = none, "a", "b" = two different samplers) and __default__
// ("a" or "b"). Environment "other" never has a sampler of its own.
type rwRules struct{ Prod, Def string }

func (x rwRules) String() string {
	p := "-"
	if x.Prod != "" {
		p = "prod-" + x.Prod
	}
	return fmt.Sprintf("{prod:%s __default__:__default__-%s}", p, x.Def)
}

// variant a: a rules-based sampler with one unconditional rule <target>-a, rate 1
// variant b: a rules-based sampler with one unconditional rule <target>-b that hands over to a dynamic sampler on f_<target>
func rwSampler(target, variant string) *config.V2SamplerChoice {
	rule := &config.RulesBasedSamplerRule{Name: target + "-" + variant, SampleRate: 1}
	if variant == "b" {
		rule.Sampler = &config.RulesBasedDownstreamSampler{DynamicSampler: &config.DynamicSamplerConfig{
			SampleRate: 1, FieldList: []string{"f_" + target}, ClearFrequency: config.Duration(24 * 3600 * 1e9)}}
	}
	return &config.V2SamplerChoice{RulesBasedSampler: &config.RulesBasedSamplerConfig{Rules: []*config.RulesBasedSamplerRule{rule}}}
}

func (x rwRules) build() map[string]*config.V2SamplerChoice {
	m := map[string]*config.V2SamplerChoice{"__default__": rwSampler("__default__", x.Def)}
	if x.Prod != "" {
		m["prod"] = rwSampler("prod", x.Prod)
	}
	return m
}

// expect returns the reason and the sampler-key fragment of the sampler these rules configure for environment env.
func (x rwRules) expect(env string) (reason, keyPart string) {
	t, v := "__default__", x.Def
	if env == "prod" && x.Prod != "" {
		t, v = "prod", x.Prod
	}
	if v == "b" {
		return "rules/trace/" + t + "-b:dynamic", "fv_" + t
	}
	return "rules/trace/" + t + "-a", ""
}

const rwEnvKey = "abcDEF1234567890abcdEF" // an environment-scoped key (22 alphanumerics)

var rwEnvs = []string{"prod", "other"}

type rwViol struct {
	sig, what string
	replay    any
}

func reloadWorkersPart(r *ev.Run) {
	var files []rwRules
	for _, p := range []string{"", "a", "b"} {
		for _, d := range []string{"a", "b"} {
			files = append(files, rwRules{p, d})
		}
	}
	workerCounts := ev.Pick(r, []int{2}, []int{2, 3})
	for _, n := range workerCounts {
		// busy: 0 = nobody, 1..n = that one worker, n+1 = every worker
		dims := []int{len(files), len(files), len(files) + 1, n + 2, 2, 2}
		enumx.Each(r, fmt.Sprintf("rules-reload-%d-workers", n), dims, 8, func(idx []int) {
			r0, r1 := files[idx[0]], files[idx[1]]
			seq := []rwRules{r0, r1}
			if idx[2] < len(files) {
				seq = append(seq, files[idx[2]])
			}
			busy, warm0, warm1 := idx[3], idx[4] == 1, idx[5] == 1
			skip := r0 == r1 || (len(seq) == 3 && seq[2] == r1) || // a reload that changes nothing is not a rules change
				(len(seq) == 2 && warm1) || // no second reload: nothing is "between"
				(busy == n+1 && warm1) // every worker busy: nobody decides anything between the reloads
			if skip {
				r.Add("evaluations", -1)
				return
			}
			judged, v := rwHistory(n, seq, busy, warm0, warm1)
			r.Add("reload_histories", 1)
			r.Add("reload_decisions_judged", judged)
			if v != nil {
				r.Violation(v.sig, v.what, v.replay)
			}
		})
	}
	r.Set("reload_bounds", map[string]any{
		"workers":           workerCounts,
		"rules_files":       fmt.Sprint(files),
		"environments":      rwEnvs,
		"reloads":           "1 or 2, every sequence of rules files in which each reload changes the file",
		"busy_workers":      "nobody | exactly one worker (each) | every worker; busy from before the first reload until after the last",
		"traces_before":     "none | every worker decides one trace of every environment",
		"traces_between":    "none | every worker that is not busy decides one trace of every environment (after it took the first notification)",
		"traces_at_the_end": "every worker decides one trace of every environment, after every worker took whatever notification it was sent",
	})
	r.Assume("rules-reload part: a reload = the configuration object answers with the new rules + the collector's real reload handler (reloadConfigs) has returned; a busy worker is one parked on its own pause channel; decisions are forced with the collector's own early-send request (sendEarly), so no clock moves and no ticker fires; traces decided between the configuration change and the moment the deciding worker takes its notification are not judged (there are none in these histories)")
	r.Assume("rules-reload part: samplers are told apart by the rule name in the reason (distinct for every target and variant) and, for the variant with a downstream dynamic sampler, by the field value in the sampler key; all samplers have rate 1, so every trace is transmitted and carries meta.refinery.reason / meta.refinery.sample_key")
}

func rwHistory(n int, seq []rwRules, busy int, warm0, warm1 bool) (int64, *rwViol) {
	first := seq[0]
	f := fx.New(fx.Options{Workers: n, Loop: true, AddRuleReasonToTrace: true, KeptSize: uint(64 * n),
		Samplers: func() map[string]*config.V2SamplerChoice { return first.build() }})
	defer f.Close()

	isBusy := func(w int) bool { return busy == n+1 || busy == w+1 }
	busyName := "nobody-busy"
	switch {
	case busy == n+1:
		busyName = "every-worker-busy"
	case busy > 0:
		busyName = "one-worker-busy"
	}
	pattern := fmt.Sprintf("%d-reload(s):%s", len(seq)-1, busyName)
	var hist []string
	replay := map[string]any{"part": "rules-reload", "workers": n, "rules": fmt.Sprint(seq), "busy": busy, "traces_before": warm0, "traces_between": warm1}

	nextID := 0
	idFor := func(w int) string {
		for {
			nextID++
			id := fmt.Sprintf("rw-%d", nextID)
			if f.WorkerFor(id) == w {
				return id
			}
		}
	}
	var judged int64
	// decide lets worker w decide one fresh trace of environment env and compares the deciding sampler with the one
	// rules[cur] configure.
	decide := func(w int, env string, cur int, when string) *rwViol {
		id := idFor(w)
		from := f.Tx.Len()
		f.AddSpan(f.MakeSpan(fx.SpanSpec{TraceID: id, Kind: fx.Root, APIKey: rwEnvKey, Environment: env, Dataset: "ds",
			Fields: map[string]any{"f_prod": "fv_prod", "f_other": "fv_other", "f___default__": "fv___default__"}}))
		f.EjectLoop(w, 0)
		f.SenderIdle()
		var got *fx.Sent
		for _, s := range f.Tx.Log(from) {
			if s.TraceID == id {
				s := s
				got = &s
			}
		}
		if got == nil {
			ev.Harness("C14 rules-reload: trace %s (worker %d, env %s) was not transmitted although every sampler has rate 1 [%v]", id, w, env, hist)
		}
		reason, _ := got.Fields[types.MetaRefineryReason].(string)
		key, _ := got.Fields[types.MetaRefinerySampleKey].(string)
		judged++
		wantReason, wantKey := seq[cur].expect(env)
		if reason == wantReason && strings.Contains(key, wantKey) {
			return nil
		}
		kind := "a-sampler-the-rules-in-force-do-not-configure-for-it"
		for k := 0; k < len(seq); k++ {
			if pr, pk := seq[k].expect(env); k != cur && pr == reason && strings.Contains(key, pk) {
				kind = "the-sampler-of-superseded-rules"
			}
		}
		return &rwViol{
			sig: fmt.Sprintf("rules-reload:trace-decided-by-%s:%s:%s", kind, pattern, when),
			what: fmt.Sprintf("%d workers; %s; then worker %d decided a trace of environment %q (environment key): reason %q sampler key %q; the rules in force %v configure reason %q (key containing %q)",
				n, strings.Join(hist, "; "), w, env, reason, key, seq[cur], wantReason, wantKey),
			replay: replay,
		}
	}
	decideAll := func(cur int, when string, only func(int) bool) *rwViol {
		for w := 0; w < n; w++ {
			if only != nil && !only(w) {
				continue
			}
			for _, env := range rwEnvs {
				if v := decide(w, env, cur, when); v != nil {
					return v
				}
			}
		}
		return nil
	}

	hist = append(hist, "rules "+seq[0].String()+" at start")
	if warm0 {
		if v := decideAll(0, "before-any-reload", nil); v != nil {
			return judged, v
		}
		hist = append(hist, "every worker decided a trace of prod and of other")
	}
	var resumes []func()
	var free []int
	for w := 0; w < n; w++ {
		if isBusy(w) {
			resumes = append(resumes, f.Park(w))
			hist = append(hist, fmt.Sprintf("worker %d becomes busy", w))
		} else {
			free = append(free, w)
		}
	}
	for k := 1; k < len(seq); k++ {
		rules := seq[k]
		f.ReloadConfigsNow(func(m *config.MockConfig) { m.Samplers = rules.build() })
		f.Settle(free...)
		hist = append(hist, fmt.Sprintf("reload #%d: rules %s; workers %v took their notification", k, rules, free))
		if k == 1 && len(seq) == 3 && warm1 {
			if v := decideAll(1, "between-the-reloads", func(w int) bool { return !isBusy(w) }); v != nil {
				for _, res := range resumes {
					res()
				}
				return judged, v
			}
			hist = append(hist, fmt.Sprintf("workers %v decided a trace of prod and of other", free))
		}
	}
	for _, res := range resumes {
		res()
	}
	all := make([]int, n)
	for w := range all {
		all[w] = w
	}
	f.Settle(all...)
	if len(resumes) > 0 {
		hist = append(hist, "the busy worker(s) go on and take their pending notification")
	}
	return judged, decideAll(len(seq)-1, "after-the-last-reload", nil)
}
