// C34: usage reports neither lose nor double count.
// Engine E4 "faultx" (= seqx whose alphabet also contains the environment's answers): BFS over every
// history of cumulative counter readings (2 signals, growth 0/1/5) and report attempts whose outcome
// (sent, failed, pending-then-sent, pending-then-failed, pending twice) is popped from an
// explorer-owned script by a scripted OpAMP client, executed on the REAL usageTracker through the REAL
// Agent.sendUsageReport. Oracle = ledger written from the statement:
//   - no payload offered to the OpAMP client contains a negative datapoint,
//   - at every step, per signal, usage in accepted payloads <= counter growth (no double count),
//   - once counters stop growing and sends succeed (flush suffix: report->sent until the agent says
//     "no data"), per signal usage in accepted payloads == counter growth (nothing lost).
//
// Payloads are decoded with pmetric.JSONUnmarshaler from the bytes handed to SendCustomMessage.
package main

import (
	"errors"
	"fmt"
	"os"
	"sort"
	"strings"
	"time"

	"github.com/honeycombio/refinery/agent"
	"github.com/jonboulle/clockwork"
	"github.com/open-telemetry/opamp-go/client"
	"github.com/open-telemetry/opamp-go/client/types"
	"github.com/open-telemetry/opamp-go/protobufs"
	"go.opentelemetry.io/collector/pdata/pmetric"

	"verif/engine/ev"
	"verif/engine/seqx"
)

type event struct {
	Op  string // "read" | "report"
	Sig int    // read: which signal
	D   int    // read: growth since the previous reading of that signal
	Out string // report: the environment's answers, '-' separated (ok | fail | pend-ok | pend-fail | pend-pend)
}

func (e event) String() string {
	if e.Op == "read" {
		return fmt.Sprintf("read(%s,+%d)", signals[e.Sig], e.D)
	}
	return "report->" + e.Out
}

var signals = agent.VerifUsageSignals() // traces, logs

var t0 = time.Date(2024, 1, 1, 0, 0, 0, 0, time.UTC)

// scripted OpAMP client: every SendCustomMessage pops the next answer.
type offered struct {
	data     []byte
	accepted bool
}
type scriptClient struct {
	client.OpAMPClient // nil: any other method call panics (none is reachable from sendUsageReport)
	script             []string
	offers             []offered
	underrun           bool
}

var errSend = errors.New("scripted send failure")

func closedChan() chan struct{} { c := make(chan struct{}); close(c); return c }

func (c *scriptClient) SendCustomMessage(m *protobufs.CustomMessage) (chan struct{}, error) {
	if len(c.script) == 0 {
		// the code asked for more sends than the event scripted (e.g. a retry loop added by a change):
		// answer "fail" and remember; never blocks.
		c.underrun = true
		c.offers = append(c.offers, offered{data: m.Data})
		return nil, errSend
	}
	a := c.script[0]
	c.script = c.script[1:]
	switch a {
	case "ok":
		c.offers = append(c.offers, offered{data: append([]byte{}, m.Data...), accepted: true})
		return closedChan(), nil // accepted, and "sent" is signalled at once
	case "pend":
		c.offers = append(c.offers, offered{data: m.Data})
		return closedChan(), types.ErrCustomMessagePending // previous message in flight; its channel is already done
	default: // fail
		c.offers = append(c.offers, offered{data: m.Data})
		return nil, errSend
	}
}

// decode sums the bytes_received datapoints of one payload per signal; neg reports a negative datapoint.
func decode(data []byte) (per map[string]int64, neg bool, err error) {
	per = map[string]int64{}
	um := &pmetric.JSONUnmarshaler{}
	m, err := um.UnmarshalMetrics(data)
	if err != nil {
		return nil, false, err
	}
	for i := 0; i < m.ResourceMetrics().Len(); i++ {
		rm := m.ResourceMetrics().At(i)
		for j := 0; j < rm.ScopeMetrics().Len(); j++ {
			sm := rm.ScopeMetrics().At(j)
			for k := 0; k < sm.Metrics().Len(); k++ {
				mt := sm.Metrics().At(k)
				if mt.Type() != pmetric.MetricTypeSum {
					continue
				}
				dps := mt.Sum().DataPoints()
				for d := 0; d < dps.Len(); d++ {
					dp := dps.At(d)
					var v int64
					if dp.ValueType() == pmetric.NumberDataPointValueTypeDouble {
						if dp.DoubleValue() < 0 {
							neg = true
						}
						v = int64(dp.DoubleValue())
					} else {
						v = dp.IntValue()
					}
					if v < 0 {
						neg = true
					}
					if mt.Name() != "bytes_received" {
						continue
					}
					s, _ := dp.Attributes().Get("signal")
					per[s.Str()] += v
				}
			}
		}
	}
	return per, neg, nil
}

type result struct {
	canon, outcome string
	fail           *seqx.Failure
	nontrivial     string // key of a non-trivial case (unsent usage carried across >=1 failed attempt), "" otherwise
}

func clip(n, c int) int {
	if n > c {
		return c
	}
	return n
}

func run(h []event) result {
	clk := clockwork.NewFakeClockAt(t0)
	cl := &scriptClient{}
	a := agent.VerifNewUsageAgent(cl, clk)
	defer a.VerifCancel()
	cum := make([]int, len(signals))    // counter values = growth since start
	sent := make([]int64, len(signals)) // usage in accepted payloads
	runFails, maxFails := 0, 0          // consecutive failed attempts (current run, longest run)
	seenOffers := 0
	lastOutcome := "none" // outcome of the last report attempt of the history
	// backwards: a cumulative reading went DOWN (a counter source that was reset). The ledger says nothing then;
	// what remains is the first clause: no payload offered to the client carries negative usage.
	backwards := false

	// account digests everything the client was offered since the last call.
	account := func(step string) *seqx.Failure {
		for ; seenOffers < len(cl.offers); seenOffers++ {
			o := cl.offers[seenOffers]
			per, neg, err := decode(o.data)
			if err != nil {
				return &seqx.Failure{Sig: "payload:undecodable", What: fmt.Sprintf("%s: payload is not OTLP/JSON metrics: %v", step, err)}
			}
			if neg {
				return &seqx.Failure{Sig: "payload:negative-datapoint", What: fmt.Sprintf("%s: payload carries a negative datapoint: %s", step, o.data)}
			}
			if o.accepted {
				for i, s := range signals {
					sent[i] += per[s]
				}
			}
		}
		for i, s := range signals {
			if sent[i] > int64(cum[i]) && !backwards {
				return &seqx.Failure{Sig: fmt.Sprintf("ledger:double-count:last-attempt=%s", lastOutcome),
					What: fmt.Sprintf("history %v, at %s: signal %s: successfully sent reports carry %d but the counter only grew by %d", h, step, s, sent[i], cum[i])}
			}
		}
		return nil
	}

	for n, e := range h {
		step := fmt.Sprintf("step %d %v", n, e)
		switch e.Op {
		case "read":
			if e.D < 0 {
				backwards = true
			}
			cum[e.Sig] += e.D
			a.VerifAddUsage(signals[e.Sig], float64(cum[e.Sig]))
		case "report":
			cl.script = strings.Split(e.Out, "-")
			before := len(cl.offers)
			noData, err := a.VerifSendUsageReport()
			if backwards && os.Getenv("C34_DEBUG") != "" {
				last := ""
				if len(cl.offers) > before {
					last = string(cl.offers[len(cl.offers)-1].data)
				}
				fmt.Fprintf(os.Stderr, "DBG %v -> noData=%v err=%v offers=%d %s\n", h[:n+1], noData, err, len(cl.offers)-before, last)
			}
			lastOutcome = e.Out
			accepted := false
			for _, o := range cl.offers[before:] {
				accepted = accepted || o.accepted
			}
			// (the value returned by sendUsageReport is not judged: the statement speaks only about what the
			// sent reports carry; a wrong return value shows up in the ledger)
			_ = err
			switch {
			case noData:
				lastOutcome = "nodata"
			case accepted:
				runFails = 0
			default:
				runFails++
				if runFails > maxFails {
					maxFails = runFails
				}
			}
		}
		if f := account(step); f != nil {
			return result{fail: f}
		}
	}

	// canonical state, taken before the flush suffix mutates the object
	fields, complete := a.VerifTrackerFields()
	var canon string
	if complete {
		var names []string
		for n := range fields {
			names = append(names, n)
		}
		sort.Strings(names)
		var sb strings.Builder
		// the field that mirrors the harness's cumulative readings is stored relative to them (shift
		// invariance, see r.Assume below); everything else verbatim.
		cf := cumField(fields, cum)
		for _, n := range names {
			m := fields[n]
			var ks []string
			for k := range m {
				ks = append(ks, k)
			}
			sort.Strings(ks)
			fmt.Fprintf(&sb, "%s{", n)
			for _, k := range ks {
				if n == cf {
					fmt.Fprintf(&sb, "%s=cum;", k)
				} else {
					fmt.Fprintf(&sb, "%s=%g;", k, m[k])
				}
			}
			sb.WriteString("}")
		}
		for i := range signals {
			fmt.Fprintf(&sb, "|zero=%v,owed=%d", cum[i] == 0, int64(cum[i])-sent[i])
		}
		fmt.Fprintf(&sb, "|fails=%d/%d", clip(runFails, 3), clip(maxFails, 3))
		canon = sb.String()
	}
	owed := int64(0)
	for i := range signals {
		owed += int64(cum[i]) - sent[i]
	}
	res := result{canon: canon}
	if owed > 0 && runFails > 0 {
		res.nontrivial = fmt.Sprintf("owed=%d,run=%d,%s", owed, clip(runFails, 3), canon)
	}

	// flush suffix: counters stop growing, every send succeeds, until the agent has nothing to report
	flushes := 0
	for ; flushes < len(h)+3; flushes++ {
		cl.script = []string{"ok"}
		noData, _ := a.VerifSendUsageReport()
		if f := account(fmt.Sprintf("flush %d", flushes)); f != nil {
			res.fail = f
			return res
		}
		if noData {
			break
		}
	}
	for i, s := range signals {
		if sent[i] != int64(cum[i]) && !backwards {
			res.fail = &seqx.Failure{Sig: fmt.Sprintf("ledger:lost:longest-run-of-failed-attempts=%d", clip(maxFails, 2)),
				What: fmt.Sprintf("after %v and then %d successful report(s) with nothing left to report: signal %s counter grew by %d but successfully sent reports carry only %d (%d lost for good; longest run of consecutive failed attempts: %d)",
					h, flushes, s, cum[i], sent[i], int64(cum[i])-sent[i], maxFails)}
			return res
		}
	}
	res.outcome = fmt.Sprintf("owed=%v,fails=%d,flushes=%d", owed > 0, clip(maxFails, 3), flushes)
	return res
}

// cumField names the tracker field that mirrors the cumulative readings (all present signals equal the
// harness's cumulative value, and at least one signal present); "" if there is none or it is ambiguous.
func cumField(fields map[string]map[string]float64, cum []int) string {
	var hit []string
	for n, m := range fields {
		if len(m) == 0 {
			continue
		}
		ok := true
		for k, v := range m {
			idx := -1
			for i, s := range signals {
				if s == k {
					idx = i
				}
			}
			if idx < 0 || v != float64(cum[idx]) {
				ok = false
			}
		}
		if ok {
			hit = append(hit, n)
		}
	}
	if len(hit) != 1 {
		return ""
	}
	return hit[0]
}

func main() {
	r := ev.New("C34", "fault_enumeration")
	var alphabet []event
	for s := range signals {
		for _, d := range []int{1, 5, 0} {
			alphabet = append(alphabet, event{Op: "read", Sig: s, D: d})
		}
	}
	for _, o := range []string{"ok", "fail", "pend-ok", "pend-fail", "pend-pend"} {
		alphabet = append(alphabet, event{Op: "report", Out: o})
	}
	depth := ev.Pick(r, 9, 12)
	seqx.Explore(r, seqx.Scenario[event]{
		Name:    "usage-ledger",
		Enabled: func(h []event) []event { return alphabet },
		Exec: func(h []event) (string, string, *seqx.Failure) {
			res := run(h)
			if res.nontrivial != "" {
				r.Distinct("distinct_nontrivial", res.nontrivial)
			}
			return res.canon, res.outcome, res.fail
		},
		MaxDepth: depth, Workers: 16,
		// every history of length <= 5 (11^5) is executed whatever the canonical key says
		NoMergeDepth: 4,
	})
	// second scenario: one reading of signal 0 goes backwards by 3 (after it has grown by 5); only "no negative usage
	// in any payload" is judged from then on
	back := append(append([]event{}, alphabet...), event{Op: "read", Sig: 0, D: -3})
	seqx.Explore(r, seqx.Scenario[event]{
		Name: "usage-ledger-with-a-backward-reading",
		Enabled: func(h []event) []event {
			cum0, used := 0, false
			for _, e := range h {
				if e.Op == "read" && e.Sig == 0 {
					cum0 += e.D
				}
				if e.Op == "read" && e.D < 0 {
					used = true
				}
			}
			if cum0 >= 3 && !used {
				return back
			}
			return alphabet
		},
		Exec: func(h []event) (string, string, *seqx.Failure) {
			res := run(h)
			c := res.canon
			if c != "" {
				// the main scenario's key stores the tracker's mirror of the readings relative to them (shift invariance
				// holds for non-decreasing readings only): here the absolute readings are part of the state
				cum := make([]int, len(signals))
				seen := false
				for _, e := range h {
					if e.Op == "read" {
						cum[e.Sig] += e.D
						seen = seen || e.D < 0
					}
				}
				c += fmt.Sprintf("|cum=%v|backward-reading-seen=%v", cum, seen)
			}
			return c, res.outcome, res.fail
		},
		MaxDepth: ev.Pick(r, 7, 9), Workers: 16,
	})
	r.Set("evaluations", r.Count("transitions"))
	if r.NDistinct("distinct_nontrivial") == 0 {
		r.Set("distinct_nontrivial", 0) // exploration was cut at a shallow violation
	}
	r.Set("rule", "per signal: sum of datapoints in payloads the OpAMP client accepted <= counter growth at every step, == counter growth after the flush suffix (successful reports until 'no data'); no payload offered to the client has a negative datapoint")
	r.Set("bounds", map[string]any{"signals": signals, "growth_per_reading": []int{0, 1, 5}, "report_outcomes": []string{"ok", "fail", "pend-ok", "pend-fail", "pend-pend"}, "depth": depth})
	r.Assume("'still waiting to be sent' is read in the weakest way: whatever the agent delivers when counters stop growing and it keeps reporting successfully until it says it has no data")
	r.Assume("a payload counts as successfully sent iff SendCustomMessage returned (closed channel, nil); ErrCustomMessagePending means the offered payload was not taken")
	r.Assume("readings are fed through usageTracker.Add directly (cumulative, non-decreasing); the inline metrics.Get->Add body of Agent.healthCheck is trusted")
	r.Assume("canonical state = every float map of the real tracker (the one mirroring the cumulative readings stored relative to them: Add only uses data-last and data==0, and a non-zero counter never returns to 0) + per-signal (counter==0, growth-sent) + clipped failed-attempt run lengths (they only select the violation signature)")
	r.Finish()
}
