// C34: usage reports neither lose nor double count.
// Engine E4 "faultx" (= seqx whose alphabet also contains the environment's answers): BFS over every
// history of cumulative counter readings (2 signals, growth 0/1/5) and report attempts whose outcome
// (sent, failed, pending-then-sent, pending-then-failed, pending twice) is popped from an
// explorer-owned script by a scripted OpAMP client, executed on the REAL usageTracker through the REAL
// Agent.sendUsageReport. Oracle = ledger written from the statement:
//   - no payload offered to the OpAMP client contains a negative datapoint,
//   - at every step, per signal, usage in accepted payloads <= counter growth (no double count),
//   - once counters stop growing and sends succeed (flush suffix: report->sent until the agent says
//     "no data"), per signal usage in accepted payloads == counter growth (nothing lost).
//
// Third scenario: the same ledger with ServerToAgent messages that are not about usage (agent_identification = a new
// instance uid, twice over; a malformed uid; own-metrics connection settings; a custom message; a remote config without
// a config map) delivered through the REAL Agent.onMessage anywhere between readings and report attempts.
//
// Fourth scenario (stop.go): the real Agent.Stop requested anywhere in a history whose reports can be in flight (accepted by
// the OpAMP client, not yet taken by the connection); delivered usage must never exceed the counter growth.
//
// Payloads are decoded with pmetric.JSONUnmarshaler from the bytes handed to SendCustomMessage.
package main

import (
	"errors"
	"fmt"
	"os"
	"sort"
	"strings"
	"time"

	"github.com/honeycombio/refinery/agent"
	"github.com/jonboulle/clockwork"
	"github.com/open-telemetry/opamp-go/client"
	"github.com/open-telemetry/opamp-go/client/types"
	"github.com/open-telemetry/opamp-go/protobufs"
	"go.opentelemetry.io/collector/pdata/pmetric"

	"verif/engine/ev"
	"verif/engine/seqx"
)

type event struct {
	Op  string // "read" | "report" | "msg"
	Sig int    // read: which signal
	D   int    // read: growth since the previous reading of that signal
	Out string // report: the environment's answers, '-' separated (ok | fail | pend-ok | pend-fail | pend-pend)
	// msg: which ServerToAgent message the OpAMP server sends (see serverMessage)
}

func (e event) String() string {
	switch e.Op {
	case "read":
		return fmt.Sprintf("read(%s,+%d)", signals[e.Sig], e.D)
	case "msg":
		return "server-msg(" + e.Out + ")"
	case "deliver": // fourth scenario (stop.go): the connection takes the report the client holds; [what later sends get]
		return "connection-takes-held-report[then sends->" + e.Out + "]"
	case "stop":
		return "Agent.Stop[sends->" + e.Out + "]"
	case "tick":
		return "clock+1m"
	case "cancel-stop-ctx":
		return "cancel(ctx given to Stop)"
	}
	return "report->" + e.Out
}

// The ServerToAgent messages of the third scenario, as the OpAMP client hands them to Callbacks.OnMessage.
// None of them says anything about usage: whatever the agent does with them, the ledger must still balance.
var serverMessageKinds = []string{
	"agent_identification:A", // the server assigns a new instance uid
	"agent_identification:B", // ... and another one (so that a history can re-identify the agent more than once, to a new or to the same uid)
	"agent_identification:malformed-uid",
	"own_metrics_connection_settings",
	"custom_message",
	"remote_config:no-config-map",
}

// two well-formed (16 byte) instance uids
var (
	uidA = [16]byte{0x01, 0x94, 0xfd, 0xc2, 0xfa, 0x2f, 0x7c, 0xc0, 0x81, 0xd3, 0xff, 0x12, 0x04, 0x5b, 0x73, 0xc8}
	uidB = [16]byte{0x01, 0x94, 0xfd, 0xc2, 0xfa, 0x2f, 0x7c, 0xc0, 0x81, 0xd3, 0xff, 0x12, 0x04, 0x5b, 0x73, 0xc9}
)

func serverMessage(kind string) *types.MessageData {
	switch kind {
	case "agent_identification:A":
		return &types.MessageData{AgentIdentification: &protobufs.AgentIdentification{NewInstanceUid: uidA[:]}}
	case "agent_identification:B":
		return &types.MessageData{AgentIdentification: &protobufs.AgentIdentification{NewInstanceUid: uidB[:]}}
	case "agent_identification:malformed-uid":
		return &types.MessageData{AgentIdentification: &protobufs.AgentIdentification{NewInstanceUid: []byte{1, 2, 3}}}
	case "own_metrics_connection_settings":
		return &types.MessageData{OwnMetricsConnSettings: &protobufs.TelemetryConnectionSettings{DestinationEndpoint: "http://metrics.invalid:4318"}}
	case "custom_message":
		return &types.MessageData{CustomMessage: &protobufs.CustomMessage{Capability: "io.honeycomb.verif", Type: "ack", Data: []byte("{}")}}
	case "remote_config:no-config-map":
		return &types.MessageData{RemoteConfig: &protobufs.AgentRemoteConfig{ConfigHash: []byte{7}}}
	}
	ev.Harness("unknown server message kind %s", kind)
	return nil
}

var signals = agent.VerifUsageSignals() // traces, logs

var t0 = time.Date(2024, 1, 1, 0, 0, 0, 0, time.UTC)

// scripted OpAMP client: every SendCustomMessage pops the next answer.
type offered struct {
	data     []byte
	accepted bool
}
type scriptClient struct {
	client.OpAMPClient // nil: any other method call panics (none is reachable from sendUsageReport)
	script             []string
	offers             []offered
	underrun           bool
}

var errSend = errors.New("scripted send failure")

func closedChan() chan struct{} { c := make(chan struct{}); close(c); return c }

func (c *scriptClient) SendCustomMessage(m *protobufs.CustomMessage) (chan struct{}, error) {
	if len(c.script) == 0 {
		// the code asked for more sends than the event scripted (e.g. a retry loop added by a change):
		// answer "fail" and remember; never blocks.
		c.underrun = true
		c.offers = append(c.offers, offered{data: m.Data})
		return nil, errSend
	}
	a := c.script[0]
	c.script = c.script[1:]
	switch a {
	case "ok":
		c.offers = append(c.offers, offered{data: append([]byte{}, m.Data...), accepted: true})
		return closedChan(), nil // accepted, and "sent" is signalled at once
	case "pend":
		c.offers = append(c.offers, offered{data: m.Data})
		return closedChan(), types.ErrCustomMessagePending // previous message in flight; its channel is already done
	default: // fail
		c.offers = append(c.offers, offered{data: m.Data})
		return nil, errSend
	}
}

// decode sums the bytes_received datapoints of one payload per signal; neg reports a negative datapoint.
func decode(data []byte) (per map[string]int64, neg bool, err error) {
	per = map[string]int64{}
	um := &pmetric.JSONUnmarshaler{}
	m, err := um.UnmarshalMetrics(data)
	if err != nil {
		return nil, false, err
	}
	for i := 0; i < m.ResourceMetrics().Len(); i++ {
		rm := m.ResourceMetrics().At(i)
		for j := 0; j < rm.ScopeMetrics().Len(); j++ {
			sm := rm.ScopeMetrics().At(j)
			for k := 0; k < sm.Metrics().Len(); k++ {
				mt := sm.Metrics().At(k)
				if mt.Type() != pmetric.MetricTypeSum {
					continue
				}
				dps := mt.Sum().DataPoints()
				for d := 0; d < dps.Len(); d++ {
					dp := dps.At(d)
					var v int64
					if dp.ValueType() == pmetric.NumberDataPointValueTypeDouble {
						if dp.DoubleValue() < 0 {
							neg = true
						}
						v = int64(dp.DoubleValue())
					} else {
						v = dp.IntValue()
					}
					if v < 0 {
						neg = true
					}
					if mt.Name() != "bytes_received" {
						continue
					}
					s, _ := dp.Attributes().Get("signal")
					per[s.Str()] += v
				}
			}
		}
	}
	return per, neg, nil
}

type result struct {
	canon, outcome string
	fail           *seqx.Failure
	nontrivial     string // key of a non-trivial case (unsent usage carried across >=1 failed attempt), "" otherwise
}

func clip(n, c int) int {
	if n > c {
		return c
	}
	return n
}

// run executes one history on a fresh agent. resample selects how the flush suffix reads "counters stop growing":
// false = nothing samples the counters any more; true = the health-check loop keeps sampling them (one more reading
// per signal, growth 0) before the successful reports.
func run(h []event, resample bool) result {
	clk := clockwork.NewFakeClockAt(t0)
	cl := &scriptClient{}
	a := agent.VerifNewUsageAgent(cl, clk)
	defer a.VerifCancel()
	cum := make([]int, len(signals))    // counter values = growth since start
	sent := make([]int64, len(signals)) // usage in accepted payloads
	runFails, maxFails := 0, 0          // consecutive failed attempts (current run, longest run)
	seenOffers := 0
	lastOutcome := "none" // outcome of the last report attempt of the history
	uid0 := a.VerifInstanceID()
	// sigTail tells whether the failing history had the server re-identify the agent (third scenario only); a function
	// of the canonical state
	sigTail := func() string {
		if a.VerifInstanceID() == uid0 {
			return ""
		}
		return ":after-agent_identification"
	}
	// backwards: a cumulative reading went DOWN (a counter source that was reset). The ledger says nothing then;
	// what remains is the first clause: no payload offered to the client carries negative usage.
	backwards := false

	// account digests everything the client was offered since the last call.
	account := func(step string) *seqx.Failure {
		for ; seenOffers < len(cl.offers); seenOffers++ {
			o := cl.offers[seenOffers]
			per, neg, err := decode(o.data)
			if err != nil {
				return &seqx.Failure{Sig: "payload:undecodable", What: fmt.Sprintf("%s: payload is not OTLP/JSON metrics: %v", step, err)}
			}
			if neg {
				return &seqx.Failure{Sig: "payload:negative-datapoint", What: fmt.Sprintf("%s: payload carries a negative datapoint: %s", step, o.data)}
			}
			if o.accepted {
				for i, s := range signals {
					sent[i] += per[s]
				}
			}
		}
		for i, s := range signals {
			if sent[i] > int64(cum[i]) && !backwards {
				return &seqx.Failure{Sig: fmt.Sprintf("ledger:double-count:last-attempt=%s%s", lastOutcome, sigTail()),
					What: fmt.Sprintf("history %v, at %s: signal %s: successfully sent reports carry %d but the counter only grew by %d", h, step, s, sent[i], cum[i])}
			}
		}
		return nil
	}

	for n, e := range h {
		step := fmt.Sprintf("step %d %v", n, e)
		switch e.Op {
		case "read":
			if e.D < 0 {
				backwards = true
			}
			cum[e.Sig] += e.D
			a.VerifAddUsage(signals[e.Sig], float64(cum[e.Sig]))
		case "msg":
			// the OpAMP client calls Callbacks.OnMessage (= Agent.onMessage) on its receive goroutine; here between two
			// steps of the usage loops
			a.VerifOnMessage(serverMessage(e.Out))
		case "report":
			cl.script = strings.Split(e.Out, "-")
			before := len(cl.offers)
			noData, err := a.VerifSendUsageReport()
			if backwards && os.Getenv("C34_DEBUG") != "" {
				last := ""
				if len(cl.offers) > before {
					last = string(cl.offers[len(cl.offers)-1].data)
				}
				fmt.Fprintf(os.Stderr, "DBG %v -> noData=%v err=%v offers=%d %s\n", h[:n+1], noData, err, len(cl.offers)-before, last)
			}
			lastOutcome = e.Out
			accepted := false
			for _, o := range cl.offers[before:] {
				accepted = accepted || o.accepted
			}
			// (the value returned by sendUsageReport is not judged: the statement speaks only about what the
			// sent reports carry; a wrong return value shows up in the ledger)
			_ = err
			switch {
			case noData:
				lastOutcome = "nodata"
			case accepted:
				runFails = 0
			default:
				runFails++
				if runFails > maxFails {
					maxFails = runFails
				}
			}
		}
		if f := account(step); f != nil {
			return result{fail: f}
		}
	}

	// canonical state, taken before the flush suffix mutates the object
	fields, complete := a.VerifTrackerFields()
	var canon string
	if complete {
		var names []string
		for n := range fields {
			names = append(names, n)
		}
		sort.Strings(names)
		var sb strings.Builder
		// the field that mirrors the harness's cumulative readings is stored relative to them (shift
		// invariance, see r.Assume below); everything else verbatim.
		cf := cumField(fields, cum)
		for _, n := range names {
			m := fields[n]
			var ks []string
			for k := range m {
				ks = append(ks, k)
			}
			sort.Strings(ks)
			fmt.Fprintf(&sb, "%s{", n)
			for _, k := range ks {
				if n == cf {
					fmt.Fprintf(&sb, "%s=cum;", k)
				} else {
					fmt.Fprintf(&sb, "%s=%g;", k, m[k])
				}
			}
			sb.WriteString("}")
		}
		for i := range signals {
			fmt.Fprintf(&sb, "|zero=%v,owed=%d", cum[i] == 0, int64(cum[i])-sent[i])
		}
		fmt.Fprintf(&sb, "|fails=%d/%d|uid=%s", clip(runFails, 3), clip(maxFails, 3), a.VerifInstanceID())
		canon = sb.String()
	}
	owed := int64(0)
	for i := range signals {
		owed += int64(cum[i]) - sent[i]
	}
	res := result{canon: canon}
	if owed > 0 && runFails > 0 {
		res.nontrivial = fmt.Sprintf("owed=%d,run=%d,%s", owed, clip(runFails, 3), canon)
	}

	// flush suffix: counters stop growing, every send succeeds, until the agent has nothing to report
	if resample {
		for i, s := range signals {
			a.VerifAddUsage(s, float64(cum[i]))
		}
	}
	flushes := 0
	for ; flushes < len(h)+3; flushes++ {
		cl.script = []string{"ok"}
		noData, _ := a.VerifSendUsageReport()
		if f := account(fmt.Sprintf("flush %d", flushes)); f != nil {
			res.fail = f
			return res
		}
		if noData {
			break
		}
	}
	for i, s := range signals {
		if sent[i] != int64(cum[i]) && !backwards {
			res.fail = &seqx.Failure{Sig: fmt.Sprintf("ledger:lost:longest-run-of-failed-attempts=%d%s", clip(maxFails, 2), sigTail()),
				What: fmt.Sprintf("after %v and then %d successful report(s) with nothing left to report: signal %s counter grew by %d but successfully sent reports carry only %d (%d lost for good; longest run of consecutive failed attempts: %d)",
					h, flushes, s, cum[i], sent[i], int64(cum[i])-sent[i], maxFails)}
			return res
		}
	}
	res.outcome = fmt.Sprintf("owed=%v,fails=%d,flushes=%d", owed > 0, clip(maxFails, 3), flushes)
	return res
}

// cumField names the tracker field that mirrors the cumulative readings (all present signals equal the
// harness's cumulative value, and at least one signal present); "" if there is none or it is ambiguous.
func cumField(fields map[string]map[string]float64, cum []int) string {
	var hit []string
	for n, m := range fields {
		if len(m) == 0 {
			continue
		}
		ok := true
		for k, v := range m {
			idx := -1
			for i, s := range signals {
				if s == k {
					idx = i
				}
			}
			if idx < 0 || v != float64(cum[idx]) {
				ok = false
			}
		}
		if ok {
			hit = append(hit, n)
		}
	}
	if len(hit) != 1 {
		return ""
	}
	return hit[0]
}

func main() {
	r := ev.New("C34", "fault_enumeration")
	var alphabet []event
	for s := range signals {
		for _, d := range []int{1, 5, 0} {
			alphabet = append(alphabet, event{Op: "read", Sig: s, D: d})
		}
	}
	for _, o := range []string{"ok", "fail", "pend-ok", "pend-fail", "pend-pend"} {
		alphabet = append(alphabet, event{Op: "report", Out: o})
	}
	depth := ev.Pick(r, 9, 12)
	seqx.Explore(r, seqx.Scenario[event]{
		Name:    "usage-ledger",
		Enabled: func(h []event) []event { return alphabet },
		Exec: func(h []event) (string, string, *seqx.Failure) {
			res := run(h, false)
			if res.nontrivial != "" {
				r.Distinct("distinct_nontrivial", res.nontrivial)
			}
			return res.canon, res.outcome, res.fail
		},
		MaxDepth: depth, Workers: 16,
		// every history of length <= 5 (11^5) is executed whatever the canonical key says
		NoMergeDepth: 4,
	})
	// second scenario: one reading of signal 0 goes backwards by 3 (after it has grown by 5); only "no negative usage
	// in any payload" is judged from then on
	back := append(append([]event{}, alphabet...), event{Op: "read", Sig: 0, D: -3})
	seqx.Explore(r, seqx.Scenario[event]{
		Name: "usage-ledger-with-a-backward-reading",
		Enabled: func(h []event) []event {
			cum0, used := 0, false
			for _, e := range h {
				if e.Op == "read" && e.Sig == 0 {
					cum0 += e.D
				}
				if e.Op == "read" && e.D < 0 {
					used = true
				}
			}
			if cum0 >= 3 && !used {
				return back
			}
			return alphabet
		},
		Exec: func(h []event) (string, string, *seqx.Failure) {
			res := run(h, false)
			c := res.canon
			if c != "" {
				// the main scenario's key stores the tracker's mirror of the readings relative to them (shift invariance
				// holds for non-decreasing readings only): here the absolute readings are part of the state
				cum := make([]int, len(signals))
				seen := false
				for _, e := range h {
					if e.Op == "read" {
						cum[e.Sig] += e.D
						seen = seen || e.D < 0
					}
				}
				c += fmt.Sprintf("|cum=%v|backward-reading-seen=%v", cum, seen)
			}
			return c, res.outcome, res.fail
		},
		MaxDepth: ev.Pick(r, 7, 9), Workers: 16,
	})
	// third scenario: ServerToAgent messages that are not about usage arrive between readings and report attempts
	// (Callbacks.OnMessage = the real Agent.onMessage -> updateAgentIdentity / updateRemoteConfig): the ledger of the
	// first scenario must balance all the same. The flush suffix lets the health-check loop sample the (unchanged)
	// counters once more before the successful reports, so that usage an implementation re-derives from the counters
	// after a message is not called lost.
	withMsgs := append([]event{}, alphabet...)
	for _, k := range serverMessageKinds {
		withMsgs = append(withMsgs, event{Op: "msg", Out: k})
	}
	msgDepth := ev.Pick(r, 9, 11)
	seqx.Explore(r, seqx.Scenario[event]{
		Name:    "usage-ledger-with-server-messages",
		Enabled: func(h []event) []event { return withMsgs },
		Exec: func(h []event) (string, string, *seqx.Failure) {
			res := run(h, true)
			nmsg, nident := 0, 0
			for _, e := range h {
				if e.Op == "msg" {
					nmsg++
					if e.Out == "agent_identification:A" || e.Out == "agent_identification:B" {
						nident++
					}
				}
			}
			if res.fail == nil && nident > 0 {
				r.Distinct("distinct_histories_with_agent_identification", fmt.Sprintf("n=%d,%s", clip(nident, 3), res.canon))
			}
			return res.canon, fmt.Sprintf("%s,msgs=%d,idents=%d", res.outcome, clip(nmsg, 1), clip(nident, 2)), res.fail
		},
		MaxDepth: msgDepth, Workers: 16,
		// every history of length <= 4 (quick; 17^4) / <= 5 (thorough; 17^5) is executed whatever the canonical key says
		NoMergeDepth: ev.Pick(r, 3, 4),
	})
	// fourth scenario: the real Agent.Stop anywhere in a history with reports in flight (stop.go)
	exploreStop(r)
	r.Set("evaluations", r.Count("transitions"))
	if r.NDistinct("distinct_nontrivial") == 0 {
		r.Set("distinct_nontrivial", 0) // exploration was cut at a shallow violation
	}
	r.Set("rule", "per signal: sum of datapoints in payloads the OpAMP client accepted <= counter growth at every step, == counter growth after the flush suffix (successful reports until 'no data'); no payload offered to the client has a negative datapoint")
	r.Set("bounds", map[string]any{"signals": signals, "growth_per_reading": []int{0, 1, 5}, "report_outcomes": []string{"ok", "fail", "pend-ok", "pend-fail", "pend-pend"}, "depth": depth,
		"server_messages": serverMessageKinds, "depth_with_server_messages": msgDepth})
	r.Assume("'still waiting to be sent' is read in the weakest way: whatever the agent delivers when counters stop growing and it keeps reporting successfully until it says it has no data")
	r.Assume("a payload counts as successfully sent iff SendCustomMessage returned (closed channel, nil); ErrCustomMessagePending means the offered payload was not taken")
	r.Assume("readings are fed through usageTracker.Add directly (cumulative, non-decreasing); the inline metrics.Get->Add body of Agent.healthCheck is trusted")
	r.Assume("canonical state = every float map of the real tracker (the one mirroring the cumulative readings stored relative to them: Add only uses data-last and data==0, and a non-zero counter never returns to 0) + per-signal (counter==0, growth-sent) + clipped failed-attempt run lengths (they only select the violation signature)")
	r.Assume("server messages are delivered by calling the registered Callbacks.OnMessage (Agent.onMessage) between two steps of the usage loops, on the harness goroutine (the OpAMP client's receive goroutine is not modelled; interleavings inside Add/NewReport are not part of this check); messages with a non-empty remote config map (a configuration reload) are out of this check's alphabet")
	r.Assume("third scenario: 'counters stop growing' in the flush suffix = one more sampling of every signal with growth 0, then successful reports until 'no data'; the canonical state additionally holds the agent's instance uid")
	r.Finish()
}
