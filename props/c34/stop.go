// C34, fourth scenario: the agent's shutdown (the REAL Agent.Stop) requested anywhere in a usage history, in particular
// while a usage report is in flight: accepted by the OpAMP client (SendCustomMessage returned an open channel and nil)
// but not yet taken by the connection.
//
// The OpAMP client of this scenario behaves like opamp-go's ClientCommon.SendCustomMessage: it holds at most one custom
// message; while one is held every further SendCustomMessage answers (the held message's channel, ErrCustomMessagePending);
// the channel is closed when the connection takes the message ("deliver", an environment event). Sends that find no held
// message are accepted or refused as the environment decides (every event that can provoke sends carries that decision).
// The periodic reporter is one harness goroutine per report attempt running the body of reportUsagePeriodically
// (sendUsageReport); Stop runs on its own goroutine with its own context, because an implementation may block in it.
// After every event the harness waits until every goroutine that runs (or was created by) code of package agent is
// parked or gone (goroutine dump), so the enumeration is over environment decisions only.
//
// Oracle (from the statement, weakest reading): no offered payload carries a negative datapoint; at every step, and after
// Stop once every report still held is delivered, per signal the usage carried by delivered reports <= counter growth.
// (A held report that is never delivered is the same history without the deliver event.)
package main

import (
	"bytes"
	"context"
	"fmt"
	"runtime"
	"sort"
	"strings"
	"sync"
	"time"

	"github.com/honeycombio/refinery/agent"
	"github.com/jonboulle/clockwork"
	"github.com/open-telemetry/opamp-go/client"
	"github.com/open-telemetry/opamp-go/client/types"
	"github.com/open-telemetry/opamp-go/protobufs"

	"verif/engine/ev"
	"verif/engine/seqx"
)

type heldMsg struct {
	data      []byte
	ch        chan struct{}
	afterStop bool // accepted after the client was stopped: no connection will ever take it
}

// holdClient is the OpAMP client of this scenario. Methods other than the three below are not reachable from
// sendUsageReport / Stop on the unchanged tree (a call panics on the nil embedded interface and is reported).
type holdClient struct {
	client.OpAMPClient
	mu        sync.Mutex
	mode      string // what a send that finds no held message gets: "accept" | "fail"
	held      *heldMsg
	stopped   bool
	offers    [][]byte // every payload handed to SendCustomMessage
	delivered [][]byte // payloads the connection took (= successfully sent)
	pendings  int      // answers ErrCustomMessagePending given
}

func (c *holdClient) SendCustomMessage(m *protobufs.CustomMessage) (chan struct{}, error) {
	c.mu.Lock()
	defer c.mu.Unlock()
	data := append([]byte{}, m.Data...)
	c.offers = append(c.offers, data)
	if c.held != nil {
		c.pendings++
		return c.held.ch, types.ErrCustomMessagePending
	}
	if c.mode != "accept" {
		return nil, errSend
	}
	c.held = &heldMsg{data: data, ch: make(chan struct{}), afterStop: c.stopped}
	return c.held.ch, nil
}

func (c *holdClient) SetHealth(*protobufs.ComponentHealth) error { return nil }

func (c *holdClient) Stop(context.Context) error {
	c.mu.Lock()
	c.stopped = true
	c.mu.Unlock()
	return nil
}

// deliver: the connection takes the held message.
func (c *holdClient) deliver() {
	c.mu.Lock()
	h := c.held
	c.held = nil
	c.delivered = append(c.delivered, h.data)
	c.mu.Unlock()
	close(h.ch)
}

// ---- goroutines of the code under test ----

type agentCallT struct {
	done     chan struct{}
	panicked any
	stack    string
}

// agentCall is the bottom frame of every harness goroutine that calls into package agent (quiesce recognises it by name).
func agentCall(c *agentCallT, f func()) {
	defer close(c.done)
	defer func() {
		if p := recover(); p != nil {
			c.panicked = p
			_, c.stack = ev.PanicSite()
		}
	}()
	f()
}

func startAgentCall(f func()) *agentCallT {
	c := &agentCallT{done: make(chan struct{})}
	go agentCall(c, f)
	return c
}

func (c *agentCallT) finished() bool {
	select {
	case <-c.done:
		return true
	default:
		return false
	}
}

var parkedStates = map[string]bool{
	"select": true, "select (no cases)": true, "chan receive": true, "chan receive (nil chan)": true,
	"chan send": true, "chan send (nil chan)": true, "sync.Cond.Wait": true, "sync.WaitGroup.Wait": true,
}

const quiesceHorizon = 60 * time.Second // harness horizon only (a goroutine of the code under test that neither parks nor ends)

var stackBuf = make([]byte, 1<<20)

// quiesce returns once every goroutine that has a frame of package agent (or was created by one), and every harness
// goroutine calling into it, is parked on a channel operation or gone. It returns how many of them are parked and how
// many of those were not started by the harness. Only this scenario's single worker runs while it is called.
func quiesce(what string) (parked, foreign int) {
	start := time.Now()
	for polls := 0; ; polls++ {
		n := runtime.Stack(stackBuf, true)
		for n == len(stackBuf) {
			stackBuf = make([]byte, 2*len(stackBuf))
			n = runtime.Stack(stackBuf, true)
		}
		parked, foreign = 0, 0
		busy := ""
		for _, blk := range bytes.Split(stackBuf[:n], []byte("\n\n")) {
			// ("created by main.startAgentCall": a goroutine that has not run yet shows only the go statement's wrapper)
			mine := bytes.Contains(blk, []byte("main.agentCall(")) || bytes.Contains(blk, []byte("main.startAgentCall"))
			if !mine && !bytes.Contains(blk, []byte("github.com/honeycombio/refinery/agent.")) {
				continue
			}
			hdr := blk
			if i := bytes.IndexByte(hdr, '\n'); i >= 0 {
				hdr = hdr[:i]
			}
			state := ""
			if i, j := bytes.IndexByte(hdr, '['), bytes.LastIndexByte(hdr, ']'); i >= 0 && j > i {
				state = string(hdr[i+1 : j])
				if k := strings.IndexByte(state, ','); k >= 0 {
					state = state[:k]
				}
			}
			if !parkedStates[state] {
				busy = string(hdr)
				break
			}
			parked++
			if !mine {
				foreign++
			}
		}
		if busy == "" {
			return parked, foreign
		}
		if polls%64 == 63 && time.Since(start) > quiesceHorizon {
			ev.Harness("C34 shutdown scenario: %s: a goroutine of package agent neither parks nor ends within %v: %s\n%s", what, quiesceHorizon, busy, stackBuf[:n])
		}
		runtime.Gosched()
	}
}

// ---- one history ----

const (
	enRead = 1 << iota
	enReport
	enDeliver
	enStop
	enBlockedStop // tick, cancel of Stop's context
	enCancelCtx
)

var (
	stopEnabledMu sync.Mutex
	stopEnabled   = map[string]uint8{}
)

func sums(data []byte) string {
	per, _, err := decode(data)
	if err != nil {
		return "undecodable"
	}
	var sb strings.Builder
	for _, s := range signals {
		fmt.Fprintf(&sb, "%s=%d;", s, per[s])
	}
	return sb.String()
}

func trackerKey(a *agent.Agent, cum []int) (string, bool) {
	fields, complete := a.VerifTrackerFields()
	if !complete {
		return "", false
	}
	var names []string
	for n := range fields {
		names = append(names, n)
	}
	sort.Strings(names)
	var sb strings.Builder
	cf := cumField(fields, cum)
	for _, n := range names {
		m := fields[n]
		var ks []string
		for k := range m {
			ks = append(ks, k)
		}
		sort.Strings(ks)
		fmt.Fprintf(&sb, "%s{", n)
		for _, k := range ks {
			if n == cf {
				fmt.Fprintf(&sb, "%s=cum;", k)
			} else {
				fmt.Fprintf(&sb, "%s=%g;", k, m[k])
			}
		}
		sb.WriteString("}")
	}
	return sb.String(), true
}

type stopStats struct {
	stopWithReportInFlight bool
	stopBlocked            bool
	foreign                int
}

func runStop(h []event) (res result, enabled uint8, stats stopStats) {
	clk := clockwork.NewFakeClockAt(t0)
	cl := &holdClient{mode: "fail"}
	a := agent.VerifNewUsageAgent(cl, clk)
	cum := make([]int, len(signals))
	sent := make([]int64, len(signals))
	seenOffers, seenDelivered := 0, 0
	var reporter, stopCall *agentCallT
	stopRequested, stopReturned, stopCtxCancelled := false, false, false
	stopCtx, stopCtxCancel := context.WithCancel(context.Background())
	foreign := 0

	// whatever happens, no goroutine of this history may outlive it: release everything a goroutine of the agent can
	// wait for (its own context, Stop's context, the clock, the held report's channel is left alone) and wait.
	defer func() {
		a.VerifCancel()
		stopCtxCancel()
		clk.Advance(time.Hour)
		quiesce("clean-up")
	}()

	phase := func() string {
		if stopRequested {
			return "shutdown"
		}
		return "no-shutdown"
	}
	account := func(step string) *seqx.Failure {
		cl.mu.Lock()
		defer cl.mu.Unlock()
		for ; seenOffers < len(cl.offers); seenOffers++ {
			_, neg, err := decode(cl.offers[seenOffers])
			if err != nil {
				return &seqx.Failure{Sig: "payload:undecodable", What: fmt.Sprintf("%s: payload is not OTLP/JSON metrics: %v", step, err)}
			}
			if neg {
				return &seqx.Failure{Sig: "payload:negative-datapoint:" + phase(), What: fmt.Sprintf("history %v, at %s: payload carries a negative datapoint: %s", h, step, cl.offers[seenOffers])}
			}
		}
		for ; seenDelivered < len(cl.delivered); seenDelivered++ {
			per, _, _ := decode(cl.delivered[seenDelivered])
			for i, s := range signals {
				sent[i] += per[s]
			}
		}
		for i, s := range signals {
			if sent[i] > int64(cum[i]) {
				return &seqx.Failure{Sig: "ledger:double-count:" + phase(),
					What: fmt.Sprintf("history %v, at %s: signal %s: the %d report(s) the connection took carry %d but the counter only grew by %d", h, step, s, len(cl.delivered), sent[i], cum[i])}
			}
		}
		return nil
	}
	// settle waits for the goroutines and digests what they did
	settle := func(step string, wait bool) *seqx.Failure {
		if !wait {
			return account(step) // a reading: nothing of the agent was woken or started
		}
		_, foreign = quiesce(step)
		if foreign > stats.foreign {
			stats.foreign = foreign
		}
		for _, c := range []*agentCallT{reporter, stopCall} {
			if c != nil && c.finished() && c.panicked != nil {
				return &seqx.Failure{Sig: "panic-in-code-under-test:" + phase(), What: fmt.Sprintf("history %v, at %s: the code under test panics: %v\n%s", h, step, c.panicked, c.stack)}
			}
		}
		if reporter != nil && reporter.finished() {
			reporter = nil
		}
		if stopCall != nil && !stopReturned && stopCall.finished() {
			stopReturned = true
		}
		return account(step)
	}
	deliverable := func() bool {
		cl.mu.Lock()
		defer cl.mu.Unlock()
		return cl.held != nil && !cl.held.afterStop
	}
	setMode := func(m string) { cl.mu.Lock(); cl.mode = m; cl.mu.Unlock() }

	for n, e := range h {
		step := fmt.Sprintf("step %d %v", n, e)
		switch e.Op {
		case "read":
			cum[e.Sig] += e.D
			a.VerifAddUsage(signals[e.Sig], float64(cum[e.Sig]))
		case "report":
			if reporter != nil {
				ev.Harness("C34 shutdown scenario: %v: report attempt while the reporter is busy", h)
			}
			setMode(e.Out)
			reporter = startAgentCall(func() { a.VerifSendUsageReport() })
		case "deliver":
			if !deliverable() {
				ev.Harness("C34 shutdown scenario: %v: deliver without a held report", h)
			}
			setMode(e.Out)
			cl.deliver()
		case "stop":
			setMode(e.Out)
			stats.stopWithReportInFlight = deliverable()
			stopRequested = true
			stopCall = startAgentCall(func() { a.Stop(stopCtx) })
		case "tick":
			clk.Advance(time.Minute)
		case "cancel-stop-ctx":
			stopCtxCancelled = true
			stopCtxCancel()
		default:
			ev.Harness("C34 shutdown scenario: unknown event %v", e)
		}
		if f := settle(step, e.Op != "read"); f != nil {
			return result{fail: f}, 0, stats
		}
		if e.Op == "stop" && !stopReturned {
			stats.stopBlocked = true
		}
	}

	// what the environment may do next
	if !stopRequested {
		enabled |= enRead | enStop
	}
	if reporter == nil && !stopReturned {
		enabled |= enReport
	}
	if deliverable() {
		enabled |= enDeliver
	}
	if stopRequested && !stopReturned {
		enabled |= enBlockedStop
		if !stopCtxCancelled {
			enabled |= enCancelCtx
		}
	}

	// canonical state. Goroutines the harness did not start (started by Stop, say) hold state the key cannot see: never merged.
	owed := int64(0)
	if tk, ok := trackerKey(a, cum); ok && foreign == 0 {
		var sb strings.Builder
		sb.WriteString(tk)
		for i := range signals {
			fmt.Fprintf(&sb, "|zero=%v,owed=%d", cum[i] == 0, int64(cum[i])-sent[i])
		}
		cl.mu.Lock()
		if cl.held != nil {
			fmt.Fprintf(&sb, "|held=%s,afterStop=%v", sums(cl.held.data), cl.held.afterStop)
		}
		if reporter != nil && len(cl.offers) > 0 {
			fmt.Fprintf(&sb, "|reporter-waits-with=%s", sums(cl.offers[len(cl.offers)-1]))
		}
		fmt.Fprintf(&sb, "|client-stopped=%v", cl.stopped)
		if stopRequested && !stopReturned {
			fmt.Fprintf(&sb, "|mode=%s", cl.mode)
		}
		cl.mu.Unlock()
		fmt.Fprintf(&sb, "|reporter-busy=%v|stop=%v/%v/%v|uid=%s", reporter != nil, stopRequested, stopReturned, stopCtxCancelled, a.VerifInstanceID())
		res.canon = sb.String()
	}
	for i := range signals {
		owed += int64(cum[i]) - sent[i]
	}
	res.outcome = fmt.Sprintf("owed=%v,reporter-busy=%v,held=%v,stop=%v/%v,stop-with-report-in-flight=%v,pendings=%d,goroutines-started-by-the-agent=%d",
		owed > 0, reporter != nil, enabled&enDeliver != 0, stopRequested, stopReturned, stats.stopWithReportInFlight, clip(cl.pendings, 2), clip(stats.foreign, 2))

	// resolution suffix, after a shutdown request only: every report the client still holds (and every report accepted
	// while doing so) is taken by the connection; the ledger must still not show more than the counters grew by.
	if stopRequested {
		for k := 0; k < 4 && deliverable(); k++ {
			setMode("accept")
			cl.deliver()
			if f := settle(fmt.Sprintf("resolution suffix: held report %d delivered", k+1), true); f != nil {
				res.fail = f
				return res, enabled, stats
			}
		}
	}
	return res, enabled, stats
}

func exploreStop(r *ev.Run) {
	var reads []event
	for s := range signals {
		for _, d := range []int{1, 5} {
			reads = append(reads, event{Op: "read", Sig: s, D: d})
		}
	}
	answers := []string{"accept", "fail"}
	depth := ev.Pick(r, 9, 11)
	noMerge := ev.Pick(r, 4, 5)
	key := func(h []event) string { return fmt.Sprint(h) }
	var nStopInFlight, nStopBlocked int64
	began := time.Now()
	// one P while this scenario runs: the goroutine dump stops the world, which is cheap with a single P, and a Gosched of
	// the polling harness goroutine hands the P to the agent's runnable goroutines
	defer runtime.GOMAXPROCS(runtime.GOMAXPROCS(1))
	seqx.Explore(r, seqx.Scenario[event]{
		Name: "usage-ledger-with-shutdown",
		Enabled: func(h []event) []event {
			stopEnabledMu.Lock()
			en, ok := stopEnabled[key(h)]
			stopEnabledMu.Unlock()
			if !ok {
				ev.Harness("C34 shutdown scenario: history %v expanded before it was executed", h)
			}
			var out []event
			if en&enRead != 0 {
				out = append(out, reads...)
			}
			for _, op := range []struct {
				bit uint8
				op  string
			}{{enReport, "report"}, {enDeliver, "deliver"}, {enStop, "stop"}} {
				if en&op.bit != 0 {
					for _, m := range answers {
						out = append(out, event{Op: op.op, Out: m})
					}
				}
			}
			if en&enBlockedStop != 0 {
				out = append(out, event{Op: "tick"})
			}
			if en&enCancelCtx != 0 {
				out = append(out, event{Op: "cancel-stop-ctx"})
			}
			return out
		},
		Exec: func(h []event) (string, string, *seqx.Failure) {
			res, en, st := runStop(h)
			stopEnabledMu.Lock()
			stopEnabled[key(h)] = en
			if res.fail == nil && len(h) > 0 && h[len(h)-1].Op == "stop" {
				if st.stopWithReportInFlight {
					nStopInFlight++
				}
				if st.stopBlocked {
					nStopBlocked++
				}
			}
			stopEnabledMu.Unlock()
			return res.canon, res.outcome, res.fail
		},
		// one worker: quiesce reads the goroutine dump of the whole process
		MaxDepth: depth, Workers: 1, NoMergeDepth: noMerge,
	})
	r.Set("wall_s_shutdown_scenario", int(time.Since(began).Seconds()))
	r.Set("shutdown_requests_with_a_report_in_flight", nStopInFlight)
	r.Set("shutdown_requests_that_block_in_Stop", nStopBlocked)
	r.Set("bounds_shutdown_scenario", map[string]any{"signals": signals, "growth_per_reading": []int{1, 5},
		"answer_to_a_send_that_finds_no_held_report": answers, "events": []string{"read", "report[answer]", "deliver[answer]", "stop[answer]", "tick(1m, while Stop blocks)", "cancel-stop-ctx(while Stop blocks)"},
		"depth": depth, "resolution_suffix_deliveries": 4})
	r.Assume("shutdown scenario: the OpAMP client holds at most one custom message, answers (held channel, ErrCustomMessagePending) while one is held, closes the channel when the connection takes it (as opamp-go's ClientCommon.SendCustomMessage / NextMessage do); a report counts as successfully sent iff the connection took it; a report accepted after the client's Stop is never taken; SetHealth and the client's Stop succeed at once")
	r.Assume("shutdown scenario: one reporter (a report attempt starts only when the previous sendUsageReport has returned, and none after Stop has returned: reportUsagePeriodically leaves at ctx.Done), readings stop at the shutdown request; after every event the harness waits until every goroutine with a frame of (or created by) package agent is parked on a channel operation or gone, so interleavings of goroutines that are runnable at the same time are left to the Go scheduler (on the unchanged tree they share no data then: Stop's caller and the reporter woken by the cancelled context)")
	r.Assume("shutdown scenario: only 'no negative usage' and 'delivered usage <= counter growth' are judged (what is not delivered when the agent is stopped is 'still waiting to be sent'); states with goroutines the agent started itself are never merged")
}
