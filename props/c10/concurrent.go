package main

import (
	"context"
	"fmt"
	"time"

	"github.com/honeycombio/refinery/collect"
	"github.com/honeycombio/refinery/config"
	"github.com/honeycombio/refinery/logger"
	"github.com/honeycombio/refinery/metrics"
	"github.com/honeycombio/refinery/pubsub"
	peer "github.com/honeycombio/refinery/verifexport/peerx"
	"github.com/jonboulle/clockwork"

	"verif/engine/ev"
	"verif/engine/vsched"
)

// E3 part of C10: the stress-relief decision stays a function of (trace ID, rate) WHILE the rate is being
// reloaded: whatever (rate, keep) pair GetSampleRate returns must be the pair a node configured statically
// at that rate returns for the same trace ID ("every node decides the same for the same trace ID and rate").
// Threads: config reload (UpdateFromConfig with a changed SamplingRate) ∥ two routers sampling trace IDs.
// All schedules up to the preemption bound; scheduling points at every mutex operation of package collect.
type nopHealth struct{}

func (nopHealth) Register(string, time.Duration) {}
func (nopHealth) Unregister(string)              {}
func (nopHealth) Ready(string, bool)             {}

type stubPubSub struct{}
type stubSub struct{}

func (stubSub) Close()                                                      {}
func (stubPubSub) Publish(ctx context.Context, topic, message string) error { return nil }
func (stubPubSub) Subscribe(ctx context.Context, topic string, cb pubsub.SubscriptionCallback) pubsub.Subscription {
	return stubSub{}
}
func (stubPubSub) FormatTopic(t string) string { return t }
func (stubPubSub) Close()                      {}
func (stubPubSub) Start() error                { return nil }
func (stubPubSub) Stop() error                 { return nil }

func newSR(rate uint64) (*collect.StressRelief, *config.MockConfig) {
	cfg := &config.MockConfig{StressRelief: config.StressReliefConfig{Mode: "always", ActivationLevel: 80, DeactivationLevel: 50, SamplingRate: rate, MinimumActivationDuration: config.Duration(time.Second)}}
	s := &collect.StressRelief{RefineryMetrics: &metrics.NullMetrics{}, Config: cfg, Logger: &logger.NullLogger{}, Health: nopHealth{}, PubSub: stubPubSub{},
		Peer: peer.NewMockPeers([]string{"me"}, "me"), Clock: clockwork.NewFakeClockAt(time.Unix(1700000000, 0)), Done: make(chan struct{})}
	if err := s.Start(); err != nil {
		ev.Harness("stress relief start: %v", err)
	}
	s.UpdateFromConfig()
	return s, cfg
}

type pair struct {
	rate uint
	keep bool
}

func concurrentPart(r *ev.Run) {
	bound := ev.Pick(r, 2, 3)
	ids := []string{"trace-a", "trace-b", "trace-c", "trace-d", "trace-e", "trace-f"}
	changes := [][2]uint64{{2, 1000}, {1000, 2}, {1, 3}, {3, 1}}
	// reference: statically configured nodes
	ref := map[uint64]map[string]pair{}
	for _, ch := range changes {
		for _, rate := range ch {
			if ref[rate] != nil {
				continue
			}
			s, _ := newSR(rate)
			ref[rate] = map[string]pair{}
			for _, id := range ids {
				rt, keep, _ := s.GetSampleRate(id)
				ref[rate][id] = pair{rt, keep}
			}
			close(s.Done)
		}
	}
	r.Sharded(len(changes), func(si, sn int) {
		ch := changes[si]
		var s *collect.StressRelief
		var got [2][]pair
		e := &vsched.Explorer{Bound: bound, Stop: func() bool { return r.Expired("c10 concurrent") }, Setup: func() {
			var cfg *config.MockConfig
			s, cfg = newSR(ch[0])
			cfg.Mux.Lock()
			cfg.StressRelief.SamplingRate = ch[1]
			cfg.Mux.Unlock()
			got = [2][]pair{}
			vsched.Go("reload.UpdateFromConfig", func() { s.UpdateFromConfig() })
			for t := 0; t < 2; t++ {
				t := t
				vsched.Go(fmt.Sprintf("router%d.GetSampleRate", t), func() {
					for _, id := range ids[t*3 : t*3+3] {
						rt, keep, _ := s.GetSampleRate(id)
						got[t] = append(got[t], pair{rt, keep})
					}
				})
			}
		}, Check: func(x *vsched.Exec) string {
			defer close(s.Done)
			for t := 0; t < 2; t++ {
				for k, p := range got[t] {
					id := ids[t*3+k]
					want, known := ref[uint64(p.rate)][id]
					if p.rate <= 1 {
						want, known = pair{1, true}, true
					}
					if !known {
						return fmt.Sprintf("unknown-rate-returned: GetSampleRate(%s) returned rate %d, configured rates are %d and %d", id, p.rate, ch[0], ch[1])
					}
					if p != want {
						return fmt.Sprintf("decision-not-a-function-of-id-and-rate: during a reload %d->%d GetSampleRate(%s) returned (rate %d, keep %v); a node configured at rate %d returns keep %v", ch[0], ch[1], id, p.rate, p.keep, p.rate, want.keep)
					}
				}
			}
			r.Distinct("distinct_outcomes", fmt.Sprintf("conc:%v:%v", got[0], got[1]))
			return ""
		}}
		ok := e.Explore()
		e.Report(r)
		r.Sample(map[string]any{"concurrent_reload": fmt.Sprintf("%d->%d", ch[0], ch[1]), "executions": e.Stats.Executions, "bound": bound})
		if !ok {
			r.Violation("concurrent:"+firstWord(e.Failure), e.Failure, map[string]any{"change": ch, "schedule": e.FailExec.Choices})
		}
	})
	r.Set("preemption_bound_completed", bound)
	r.Set("concurrent_executions", r.Count("executions"))
}

func firstWord(s string) string {
	for i, ch := range s {
		if ch == ':' || ch == ' ' {
			return s[:i]
		}
	}
	return s
}
