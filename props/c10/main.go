// C10: deterministic sampling (sample.DeterministicSampler) and stress-relief sampling
// (collect.StressRelief.GetSampleRate) are pure, nested threshold functions of the trace ID.
//
// Engine E2 (enumx), two enumerations, nothing sampled, no statistical test:
//
//	(a) behaviour: a chain of rates R x a fixed enumerated set of trace IDs on the REAL samplers, two (det: a
//	    struct-literal instance and one from the SamplerFactory; stress: two started instances with different
//	    host identities, re-configured through UpdateFromConfig) -> instances agree on every (ID, rate); the
//	    reported rate is the configured one; rate 1 keeps everything at rate 1; the kept sets are nested along
//	    the whole chain (kept at N => kept at every smaller M in R); the exact kept count over the fixed ID set
//	    lies inside a fixed arithmetic band around |IDs|*keptHashes/2^W (a deterministic fact about a fixed
//	    set, reproducible bit for bit). A child process recomputes a digest of the decisions: another *run*
//	    decides the same.
//	(b) threshold arithmetic: the threshold actually in force (read through an added accessor) for every
//	    rate of a dense range: monotone non-increasing in the rate (= nesting for ALL ids, not only the
//	    enumerated ones) and keptHashes(rate) = bound+1 within 1 of 2^W/rate (= the "1/N" claim, exactly,
//	    assuming only that the hash is uniform).
package main

import (
	"crypto/sha256"
	"encoding/hex"
	"fmt"
	"math"
	"math/big"
	"math/bits"
	"os"
	"os/exec"
	"sort"
	"strings"
	"sync"

	"github.com/honeycombio/refinery/collect"
	"github.com/honeycombio/refinery/config"
	"github.com/honeycombio/refinery/logger"
	"github.com/honeycombio/refinery/metrics"
	"github.com/honeycombio/refinery/sample"
	"github.com/honeycombio/refinery/types"

	"verif/engine/enumx"
	"verif/engine/ev"
)

const sigmas = 5.0 // band half-width in binomial standard deviations (see Assume)

var ids []string
var idTraces []*types.Trace

func makeIDs(n int) {
	ids = make([]string, n)
	idTraces = make([]*types.Trace, n)
	for i := range ids {
		// three realistic shapes of trace id: 32-hex (W3C), 16-hex, and free-form
		switch i % 3 {
		case 0:
			ids[i] = fmt.Sprintf("%032x", uint64(i)*0x9e3779b97f4a7c15)
		case 1:
			ids[i] = fmt.Sprintf("%016x", i)
		default:
			ids[i] = fmt.Sprintf("trace-%d", i)
		}
		idTraces[i] = &types.Trace{TraceID: ids[i]}
	}
}

// rate chains -----------------------------------------------------------------------------------

func chain(dense uint64, maxPow uint, extra ...uint64) []uint64 {
	set := map[uint64]bool{}
	for r := uint64(1); r <= dense; r++ {
		set[r] = true
	}
	for k := uint(1); k <= maxPow; k++ {
		p := uint64(1) << k
		set[p] = true
		set[p-1] = true
		set[p+1] = true
	}
	for _, e := range extra {
		set[e] = true
	}
	var out []uint64
	for r := range set {
		if r >= 1 {
			out = append(out, r)
		}
	}
	sort.Slice(out, func(i, j int) bool { return out[i] < out[j] })
	return out
}

// subjects ----------------------------------------------------------------------------------------

func newDetDirect(rate int) *sample.DeterministicSampler {
	d := &sample.DeterministicSampler{Config: &config.DeterministicSamplerConfig{SampleRate: rate}, Logger: &logger.NullLogger{}}
	if err := d.Start(); err != nil {
		ev.Harness("deterministic Start(rate=%d): %v", rate, err)
	}
	return d
}

func newDetFactory(rate int) sample.Sampler {
	cfg := &config.MockConfig{GetSamplerTypeVal: &config.DeterministicSamplerConfig{SampleRate: rate}, GetSamplerTypeName: "DeterministicSampler"}
	f := &sample.SamplerFactory{Config: cfg, Logger: &logger.NullLogger{}, Metrics: &metrics.NullMetrics{}}
	if err := f.Start(); err != nil {
		ev.Harness("factory start: %v", err)
	}
	s := f.GetSamplerImplementationForKey("env")
	if s == nil {
		ev.Harness("factory returned no sampler for rate %d", rate)
	}
	return s
}

type stressPair struct {
	cfg  [2]*config.MockConfig
	sr   [2]*collect.StressRelief
	stop [2]func()
}

func newStressPair() *stressPair {
	p := &stressPair{}
	for i, host := range []string{"host-A:8081", "another.node.example:9999"} {
		p.cfg[i] = &config.MockConfig{StressRelief: config.StressReliefConfig{Mode: "always", ActivationLevel: 90, DeactivationLevel: 75, SamplingRate: 100}}
		sr, stop, err := collect.VerifC10NewStressRelief(p.cfg[i], host)
		if err != nil {
			ev.Harness("stress relief start: %v", err)
		}
		p.sr[i], p.stop[i] = sr, stop
	}
	return p
}

func (p *stressPair) setRate(r uint64) {
	for i := range p.sr {
		p.cfg[i].Mux.Lock()
		p.cfg[i].StressRelief.SamplingRate = r
		p.cfg[i].Mux.Unlock()
		p.sr[i].UpdateFromConfig() // the reload path of the real system
	}
}

var stressFree = make(chan *stressPair, 64)

func getStress() *stressPair {
	select {
	case p := <-stressFree:
		return p
	default:
		return newStressPair()
	}
}
func putStress(p *stressPair) { stressFree <- p }

// collecting violations deterministically (minimal replay per sig regardless of worker timing) --------

type viol struct {
	order  int64
	what   string
	replay any
}

var (
	vmu   sync.Mutex
	viols = map[string]viol{}
)

func report(sig string, order int64, what string, replay any) {
	vmu.Lock()
	if v, ok := viols[sig]; !ok || order < v.order {
		viols[sig] = viol{order, what, replay}
	}
	vmu.Unlock()
}

func flush(r *ev.Run) {
	var sigs []string
	for s := range viols {
		sigs = append(sigs, s)
	}
	sort.Strings(sigs)
	for _, s := range sigs {
		r.Violation(s, viols[s].what, viols[s].replay)
	}
}

type bitset []uint64

func newBits(n int) bitset      { return make(bitset, (n+63)/64) }
func (b bitset) set(i int)      { b[i/64] |= 1 << (i % 64) }
func (b bitset) get(i int) bool { return b[i/64]&(1<<(i%64)) != 0 }
func (b bitset) count() (c int) {
	for _, w := range b {
		c += bits.OnesCount64(w)
	}
	return
}

// band: is count within sigmas*sd (+1 for the rounding of the expectation) of n*kept/2^W ?
func inBand(count, n int, kept *big.Float, width uint) (bool, float64, float64) {
	space := new(big.Float).SetMantExp(big.NewFloat(1), int(width))
	pf, _ := new(big.Float).Quo(kept, space).Float64()
	exp := float64(n) * pf
	sd := math.Sqrt(float64(n) * pf * (1 - pf))
	return math.Abs(float64(count)-exp) <= sigmas*sd+1, exp, sd
}

// (a) behaviour -----------------------------------------------------------------------------------

type rateResult struct {
	kept  bitset
	count int
}

func behaviourDet(r *ev.Run, rates []uint64) []rateResult {
	res := make([]rateResult, len(rates))
	enumx.Each(r, "det-behaviour", []int{len(rates)}, 16, func(idx []int) {
		ri := idx[0]
		rate := rates[ri]
		a := newDetDirect(int(rate))
		b := newDetFactory(int(rate))
		kept := newBits(len(ids))
		for i, tr := range idTraces {
			ra, ka, _, keyA := a.GetSampleRate(tr)
			rb, kb, _, _ := b.GetSampleRate(tr)
			ra2, ka2, _, _ := a.GetSampleRate(tr)
			if ka != kb || ra != rb || ka != ka2 || ra != ra2 {
				report("det:instances-or-calls-disagree", int64(ri)*1e6+int64(i), fmt.Sprintf("rate %d id %q: instance A (rate %d keep %v), instance B from factory (rate %d keep %v), A again (rate %d keep %v)", rate, ids[i], ra, ka, rb, kb, ra2, ka2), map[string]any{"rate": rate, "trace_id": ids[i]})
			}
			want := uint(rate)
			if ra != want {
				report("det:reported-rate-differs-from-configured", int64(ri)*1e6+int64(i), fmt.Sprintf("rate %d id %q: reported rate %d", rate, ids[i], ra), map[string]any{"rate": rate, "trace_id": ids[i]})
			}
			if rate <= 1 && !ka {
				report("det:rate<=1-does-not-keep-everything", int64(ri)*1e6+int64(i), fmt.Sprintf("rate %d id %q dropped", rate, ids[i]), map[string]any{"rate": rate, "trace_id": ids[i]})
			}
			if keyA != "" {
				report("det:returns-a-key", int64(ri), fmt.Sprintf("rate %d: key %q", rate, keyA), nil)
			}
			if ka {
				kept.set(i)
			}
		}
		c := kept.count()
		res[ri] = rateResult{kept, c}
		if rate > 1 {
			bound := a.VerifC10UpperBound()
			keptHashes := new(big.Float).SetUint64(uint64(bound) + 1)
			ok, exp, sd := inBand(c, len(ids), keptHashes, 32)
			if !ok {
				report("det:kept-count-outside-band", int64(ri), fmt.Sprintf("rate %d: %d of %d enumerated ids kept, expected %.2f (sd %.2f, band %.0f sd + 1)", rate, c, len(ids), exp, sd, sigmas), map[string]any{"rate": rate, "kept": c, "ids": len(ids)})
			}
			r.Distinct("distinct_nontrivial", fmt.Sprintf("det:%d:%d", rate, c))
		}
		r.Add("decisions_compared", int64(len(ids)))
	})
	return res
}

func behaviourStress(r *ev.Run, rates []uint64) []rateResult {
	res := make([]rateResult, len(rates))
	enumx.Each(r, "stress-behaviour", []int{len(rates)}, 16, func(idx []int) {
		ri := idx[0]
		rate := rates[ri]
		p := getStress()
		defer putStress(p)
		p.setRate(rate)
		kept := newBits(len(ids))
		for i, id := range ids {
			ra, ka, _ := p.sr[0].GetSampleRate(id)
			rb, kb, _ := p.sr[1].GetSampleRate(id)
			if ka != kb || ra != rb {
				report("stress:nodes-disagree", int64(ri)*1e6+int64(i), fmt.Sprintf("rate %d id %q: node A (rate %d keep %v) node B (rate %d keep %v)", rate, id, ra, ka, rb, kb), map[string]any{"rate": rate, "trace_id": id})
			}
			if ra != uint(rate) {
				report("stress:reported-rate-differs-from-configured", int64(ri)*1e6+int64(i), fmt.Sprintf("rate %d id %q: reported rate %d", rate, id, ra), map[string]any{"rate": rate, "trace_id": id})
			}
			if rate <= 1 && !ka {
				report("stress:rate<=1-does-not-keep-everything", int64(ri)*1e6+int64(i), fmt.Sprintf("rate %d id %q dropped", rate, id), map[string]any{"rate": rate, "trace_id": id})
			}
			if ka {
				kept.set(i)
			}
		}
		c := kept.count()
		res[ri] = rateResult{kept, c}
		if rate > 1 {
			bound := p.sr[0].VerifC10UpperBound()
			keptHashes := new(big.Float).SetPrec(80).SetUint64(bound)
			keptHashes.Add(keptHashes, big.NewFloat(1))
			ok, exp, sd := inBand(c, len(ids), keptHashes, 64)
			if !ok {
				report("stress:kept-count-outside-band", int64(ri), fmt.Sprintf("rate %d: %d of %d enumerated ids kept, expected %.2f (sd %.2f, band %.0f sd + 1)", rate, c, len(ids), exp, sd, sigmas), map[string]any{"rate": rate, "kept": c, "ids": len(ids)})
			}
			r.Distinct("distinct_nontrivial", fmt.Sprintf("stress:%d:%d", rate, c))
		}
		r.Add("decisions_compared", int64(len(ids)))
	})
	return res
}

func nesting(r *ev.Run, kind string, rates []uint64, res []rateResult) {
	strict := 0
	for i := 1; i < len(rates); i++ {
		if res[i].kept == nil || res[i-1].kept == nil {
			continue // enumeration was cut short by the deadline
		}
		for w := range res[i].kept {
			if extra := res[i].kept[w] &^ res[i-1].kept[w]; extra != 0 {
				j := w*64 + bits.TrailingZeros64(extra)
				report(kind+":not-nested", int64(i), fmt.Sprintf("trace id %q is kept at rate %d but dropped at the smaller rate %d", ids[j], rates[i], rates[i-1]), map[string]any{"trace_id": ids[j], "kept_at": rates[i], "dropped_at": rates[i-1]})
				break
			}
		}
		if res[i].count < res[i-1].count {
			strict++
		}
	}
	r.Set(kind+"_chain_strict_shrinks", strict)
	shrinks[kind] = strict
}

var shrinks = map[string]int{}

// (b) threshold arithmetic ------------------------------------------------------------------------

// keptOK: |(bound+1)*rate - 2^W| <= rate   (i.e. bound+1 within 1 of 2^W/rate)
func keptOK(bound, rate uint64, width uint) bool {
	hi, lo := bits.Mul64(bound, rate)
	var c uint64
	lo, c = bits.Add64(lo, rate, 0)
	hi += c // (bound+1)*rate as 128-bit hi:lo
	var sHi, sLo uint64
	if width == 32 {
		sHi, sLo = 0, 1<<32
	} else {
		sHi, sLo = 1, 0
	}
	// diff = |x - S|
	var dHi, dLo, b uint64
	if hi > sHi || (hi == sHi && lo >= sLo) {
		dLo, b = bits.Sub64(lo, sLo, 0)
		dHi, _ = bits.Sub64(hi, sHi, b)
	} else {
		dLo, b = bits.Sub64(sLo, lo, 0)
		dHi, _ = bits.Sub64(sHi, hi, b)
	}
	return dHi == 0 && dLo <= rate
}

func arithmeticDet(r *ev.Run, maxRate uint64) {
	const block = 1 << 16
	nblocks := int((maxRate + block - 1) / block)
	enumx.Each(r, "det-threshold", []int{nblocks}, 16, func(idx []int) {
		lo := uint64(idx[0])*block + 1
		hi := lo + block - 1
		if hi > maxRate {
			hi = maxRate
		}
		d := &sample.DeterministicSampler{Config: &config.DeterministicSamplerConfig{}, Logger: &logger.NullLogger{}}
		boundOf := func(rate uint64) uint32 {
			if rate <= 1 {
				return math.MaxUint32 // rate <= 1 keeps everything without consulting a threshold (verified in (a))
			}
			d.Config.SampleRate = int(rate)
			if err := d.Start(); err != nil {
				ev.Harness("Start: %v", err)
			}
			return d.VerifC10UpperBound()
		}
		var prev uint32
		havePrev := false
		if lo > 1 {
			prev, havePrev = boundOf(lo-1), true
		}
		for rate := lo; rate <= hi; rate++ {
			b := boundOf(rate)
			if havePrev && b > prev {
				report("det:threshold-not-monotone", int64(rate), fmt.Sprintf("threshold(rate %d) = %d > threshold(rate %d) = %d: some hash is kept at the larger rate and dropped at the smaller", rate, b, rate-1, prev), map[string]any{"rate": rate})
			}
			if rate > 1 && !keptOK(uint64(b), rate, 32) {
				report("det:kept-hashes-not-1/N", int64(rate), fmt.Sprintf("rate %d: threshold %d keeps %d of 2^32 hash values, 2^32/rate = %.3f", rate, b, uint64(b)+1, float64(1<<32)/float64(rate)), map[string]any{"rate": rate, "threshold": b})
			}
			prev, havePrev = b, true
		}
		r.Add("thresholds_checked", int64(hi-lo+1))
	})
}

func arithmeticStress(r *ev.Run, dense uint64, chainRates []uint64) {
	const block = 1 << 14
	nblocks := int((dense + block - 1) / block)
	check := func(p *stressPair, rate uint64, prev uint64, havePrev bool, prevRate uint64) uint64 {
		p.setRate(rate)
		b := p.sr[0].VerifC10UpperBound()
		if rate <= 1 {
			return math.MaxUint64 // rate <= 1 keeps everything without consulting a threshold (verified in (a))
		}
		if b2 := p.sr[1].VerifC10UpperBound(); b2 != b {
			report("stress:nodes-disagree", int64(rate%1e9), fmt.Sprintf("rate %d: thresholds %d vs %d on two nodes", rate, b, b2), map[string]any{"rate": rate})
		}
		if havePrev && b > prev {
			report("stress:threshold-not-monotone", int64(rate%1e9), fmt.Sprintf("threshold(rate %d) = %d > threshold(rate %d) = %d", rate, b, prevRate, prev), map[string]any{"rate": rate})
		}
		if rate > 1 && !keptOK(b, rate, 64) {
			report("stress:kept-hashes-not-1/N", int64(rate%1e9), fmt.Sprintf("rate %d: threshold %d keeps threshold+1 of 2^64 hash values, 2^64/rate = %.6g", rate, b, math.Exp2(64)/float64(rate)), map[string]any{"rate": rate, "threshold": b})
		}
		return b
	}
	enumx.Each(r, "stress-threshold", []int{nblocks}, 16, func(idx []int) {
		lo := uint64(idx[0])*block + 1
		hi := lo + block - 1
		if hi > dense {
			hi = dense
		}
		p := getStress()
		defer putStress(p)
		var prev uint64
		havePrev := false
		if lo > 2 {
			p.setRate(lo - 1)
			prev, havePrev = p.sr[0].VerifC10UpperBound(), true
		} else if lo == 2 {
			prev, havePrev = math.MaxUint64, true
		}
		for rate := lo; rate <= hi; rate++ {
			prev = check(p, rate, prev, havePrev, rate-1)
			havePrev = true
		}
		r.Add("thresholds_checked", int64(hi-lo+1))
	})
	// the sparse chain up to 2^64-1, sequentially
	p := getStress()
	var prev, prevRate uint64
	havePrev := false
	for _, rate := range chainRates {
		prev = check(p, rate, prev, havePrev, prevRate)
		havePrev, prevRate = true, rate
	}
	putStress(p)
	r.Add("thresholds_checked", int64(len(chainRates)))
	r.Add("evaluations", int64(len(chainRates)))
}

// digest of the decisions of a fresh process ---------------------------------------------------------

func digest() string {
	h := sha256.New()
	rates := []uint64{2, 3, 4, 5, 7, 10, 16, 100, 1000, 65537}
	n := 4096
	if n > len(ids) {
		n = len(ids)
	}
	p := getStress()
	for _, rate := range rates {
		d := newDetDirect(int(rate))
		p.setRate(rate)
		for i := 0; i < n; i++ {
			_, k1, _, _ := d.GetSampleRate(idTraces[i])
			_, k2, _ := p.sr[0].GetSampleRate(ids[i])
			var b byte
			if k1 {
				b |= 1
			}
			if k2 {
				b |= 2
			}
			h.Write([]byte{b})
		}
	}
	putStress(p)
	return hex.EncodeToString(h.Sum(nil))
}

func main() {
	for _, a := range os.Args[1:] {
		if a == "digest-child" {
			makeIDs(4096)
			fmt.Println("DIGEST " + digest())
			return
		}
	}
	r := ev.New("C10", "exploration")
	concurrentPart(r) // E3 part (in a shard worker process this runs its share and exits)
	nIDs := ev.Pick(r, 1<<16, 1<<16)
	makeIDs(nIDs)
	dense := uint64(ev.Pick(r, 4096, 8192))
	detRates := chain(dense, 31)                                             // … 2^31-1, 2^31, (2^31+1 removed below)
	stressRates := chain(dense, 63, 1<<63, math.MaxUint64, math.MaxUint64-1) // … 2^63, 2^64-1
	// the deterministic sampler's rate is documented for 1..2^31
	for len(detRates) > 0 && detRates[len(detRates)-1] > 1<<31 {
		detRates = detRates[:len(detRates)-1]
	}

	// (a)
	dres := behaviourDet(r, detRates)
	nesting(r, "det", detRates, dres)
	sres := behaviourStress(r, stressRates)
	nesting(r, "stress", stressRates, sres)

	// another run decides the same
	mine := digest()
	out, err := exec.Command(os.Args[0], "digest-child").Output()
	if err != nil {
		ev.Harness("child process failed: %v", err)
	}
	theirs := ""
	for _, l := range strings.Split(string(out), "\n") {
		if strings.HasPrefix(l, "DIGEST ") {
			theirs = strings.TrimPrefix(l, "DIGEST ")
		}
	}
	if theirs == "" {
		ev.Harness("child process printed no digest: %q", string(out))
	}
	if mine != theirs {
		report("runs-disagree", 0, "a second process decided differently for the same (trace id, rate) pairs: digest "+mine+" vs "+theirs, map[string]any{"parent": mine, "child": theirs})
	}
	r.Set("cross_process_digest", mine)

	// (b)
	maxDet := uint64(ev.Pick(r, 1<<24, 1<<31))
	arithmeticDet(r, maxDet)
	// powers of two and neighbours up to 2^31 are in detRates; check their thresholds too (quick tier gap 2^24..2^31)
	{
		var prev uint32
		for i, rate := range detRates {
			b := uint32(math.MaxUint32) // rate <= 1: everything is kept, no threshold is consulted
			if rate > 1 {
				b = newDetDirect(int(rate)).VerifC10UpperBound()
			}
			if i > 0 && b > prev {
				report("det:threshold-not-monotone", int64(rate), fmt.Sprintf("threshold(rate %d) = %d > threshold(rate %d) = %d", rate, b, detRates[i-1], prev), map[string]any{"rate": rate})
			}
			if rate > 1 && !keptOK(uint64(b), rate, 32) {
				report("det:kept-hashes-not-1/N", int64(rate), fmt.Sprintf("rate %d: threshold %d keeps %d of 2^32 hash values", rate, b, uint64(b)+1), map[string]any{"rate": rate, "threshold": b})
			}
			prev = b
		}
		r.Add("thresholds_checked", int64(len(detRates)))
		r.Add("evaluations", int64(len(detRates)))
	}
	arithmeticStress(r, uint64(ev.Pick(r, 1<<20, 1<<24)), stressRates)

	// rates below 1 are outside the property's quantifier (the config struct is tagged gte=1); probe, don't judge
	probe := map[string]string{}
	for _, rate := range []int{0, -1} {
		func() {
			defer func() {
				if x := recover(); x != nil {
					probe[fmt.Sprint(rate)] = fmt.Sprintf("Start panics: %v", x)
				}
			}()
			d := newDetDirect(rate)
			rr, k, _, _ := d.GetSampleRate(idTraces[0])
			probe[fmt.Sprint(rate)] = fmt.Sprintf("rate=%d keep=%v", rr, k)
		}()
	}
	r.Set("probe_rates_below_1_not_judged", probe)

	// vacuity guard (only meaningful when nothing was found: a violation may itself flatten the chain)
	if len(viols) == 0 {
		for kind, n := range shrinks {
			if n < 10 {
				ev.Harness("%s: kept sets shrink only %d times along the chain — vacuous", kind, n)
			}
		}
	}
	flush(r)
	r.Set("rule", "keep(id,rate) identical across instances, nodes, calls and processes; reported rate = configured rate; rate 1 keeps all; kept(r') ⊆ kept(r) for r<r' along the chain and threshold(r) monotone non-increasing for every rate in the dense range; |(threshold+1)·rate − 2^W| ≤ rate; kept count over the fixed id set within 5 sd + 1 of |ids|·(threshold+1)/2^W")
	r.Set("bounds", map[string]any{"ids": nIDs, "det_chain_rates": len(detRates), "stress_chain_rates": len(stressRates), "chain_dense_upto": dense,
		"det_threshold_rates_upto": maxDet, "stress_threshold_rates_upto": ev.Pick(r, 1<<20, 1<<24)})
	r.Sample(map[string]any{"det_rate_2_kept": dres[1].count, "det_rate_10_kept": dres[9].count, "stress_rate_2_kept": sres[1].count, "stress_rate_10_kept": sres[9].count, "ids": nIDs})
	r.Assume("'kept fraction is 1/N within statistical tolerance' is decided without statistics: (i) exactly, as |keptHashes·N − 2^W| ≤ N on the real threshold for every rate of the dense range (uniformity of SHA-1 / wyhash output is the only thing taken on trust), and (ii) as a fixed arithmetic band (5 binomial sd + 1; 5 rather than the design's 4 because ~8 400 (rate, sampler) bands are evaluated on one fixed id set) around the exact expectation for a fixed enumerated id set — a reproducible fact, not a test")
	r.Assume("'v <= threshold' versus 'v < threshold' and threshold ± 1 are indistinguishable by the statement (both are thresholds within 1 of 2^W/N); the check does not pin them")
	r.Assume("rates < 1 are outside the quantifier (deterministic sampler 1..2^31, config tag gte=1): probed and recorded under probe_rates_below_1_not_judged, not judged here (SampleRate 0 makes DeterministicSampler.Start divide by zero — C28's subject)")
	r.Assume("'every run': one child process re-computes the decisions of 10 rates × 4096 ids for both samplers and must produce the same digest")
	r.Finish()
}
