package main

import (
	"fmt"
	"time"

	"github.com/honeycombio/refinery/collect/cache"
	"github.com/honeycombio/refinery/config"
	"github.com/honeycombio/refinery/metrics"
	"github.com/honeycombio/refinery/types"
	"github.com/jonboulle/clockwork"

	"verif/engine/ev"
	"verif/engine/vsched"
	"verif/shim/vtime"
)

// E3 part of C31 (DESIGN §6 C31 "E3"): a decision recorded by the worker is never invisible to a later
// look-up, whatever the drainer, the monitor tick and a router goroutine (ProcessSpanImmediately) are
// doing in between. All schedules up to the preemption bound; scheduling points at every mutex, atomic
// and channel operation of collect/cache and generics. The cache's own goroutines run as (parked)
// service threads; their tick bodies are separate threads here.
type kt struct {
	id   string
	rate uint
	rsn  uint
}

func (k *kt) ID() string              { return k.id }
func (k *kt) SampleRate() uint        { return k.rate }
func (k *kt) DescendantCount() uint32 { return 1 }
func (k *kt) SpanEventCount() uint32  { return 0 }
func (k *kt) SpanLinkCount() uint32   { return 0 }
func (k *kt) SpanCount() uint32       { return 1 }
func (k *kt) SetKeptReason(r uint)    { k.rsn = r }
func (k *kt) KeptReason() uint        { return k.rsn }

func sp(id string) *types.Span {
	return &types.Span{TraceID: id, Event: &types.Event{Data: types.NewPayload(&config.MockConfig{}, map[string]any{"a": 1})}}
}

type look struct {
	found, kept bool
	rate        uint
	after       bool // the look-up started after the worker's Record of that trace had returned
}

func concurrentPart(r *ev.Run) {
	bound := ev.Pick(r, 1, 2)
	vsched.SpawnPolicy["cuckooSentCache.go"] = "thread"
	vsched.SpawnPolicy["cuckoo.go"] = "thread"
	vsched.SettleYields = 0
	vsched.DaemonSettle = 50
	type scen struct {
		Name           string
		Drain, Monitor bool
		Router         bool
		TwoKeeps       bool // worker and router each record a KEPT decision with a reason the cache has not seen before
	}
	scens := []scen{{"worker+drainer", true, false, false, false}, {"worker+monitor", false, true, false, false}, {"worker+router", false, false, true, false},
		{"worker+drainer+router", true, false, true, false}, {"worker+monitor+drainer", true, true, false, false},
		{"worker-keeps+router-keeps(new reasons)", false, false, false, true}}
	r.Sharded(len(scens), func(si, sn int) {
		sc := scens[si]
		var c cache.TraceSentCache
		var w [3]look
		var rt look
		recorded := false
		e := &vsched.Explorer{Bound: bound, Stop: func() bool { return r.Expired("c31 concurrent " + sc.Name) }, Setup: func() {
			vtime.Clock = clockwork.NewFakeClockAt(time.Unix(1700000000, 0))
			var err error
			c, err = cache.NewCuckooSentCache(config.SampleCacheConfig{KeptSize: 4, DroppedSize: 1000, SizeCheckInterval: config.Duration(10 * time.Second), WorkerCount: 1}, &metrics.NullMetrics{})
			if err != nil {
				ev.Harness("%v", err)
			}
			w, rt, recorded = [3]look{}, look{}, false
			get := func(id string) look {
				rec, _, found := c.CheckSpan(sp(id))
				l := look{found: found}
				if found {
					l.kept, l.rate = rec.Kept(), rec.Rate()
				}
				return l
			}
			if sc.TwoKeeps {
				// the worker records at makeDecision, router goroutines record through ProcessSpanImmediately: two kept
				// decisions, each with a reason new to the cache, at once. Each must be answered with ITS reason.
				vsched.Go("worker", func() { c.Record(&kt{id: "KW", rate: 2}, true, "reason-of-the-worker") })
				vsched.Go("router", func() { c.Record(&kt{id: "KR", rate: 5}, true, "reason-of-the-router") })
				return
			}
			vsched.Go("worker", func() {
				c.Record(&kt{id: "T"}, false, "")
				recorded = true
				w[0] = get("T")
				c.Record(&kt{id: "K", rate: 3}, true, "r")
				w[1] = get("K")
				c.Record(&kt{id: "T", rate: 2}, true, "late-keep") // also recorded as kept: dropped must still win
				w[2] = get("T")
			})
			if sc.Drain {
				vsched.Go("drainer.tick", func() { cache.VerifC35Drain(cache.VerifC35Dropped(c)) })
			}
			if sc.Monitor {
				vsched.Go("monitor.tick", func() { cache.VerifC35MonitorTick(c) })
			}
			if sc.Router {
				vsched.Go("router", func() {
					after := recorded
					rt = get("T")
					rt.after = after
				})
			}
		}, Check: func(x *vsched.Exec) string {
			defer c.Stop()
			if sc.TwoKeeps {
				for _, q := range []struct {
					id, want string
					rate     uint
				}{{"KW", "reason-of-the-worker", 2}, {"KR", "reason-of-the-router", 5}} {
					rec, reason, found := c.CheckSpan(sp(q.id))
					if !found || !rec.Kept() || rec.Rate() != q.rate {
						return fmt.Sprintf("kept-record-invisible: %s recorded kept at rate %d, look-up answers found=%v", q.id, q.rate, found)
					}
					if reason != q.want {
						return fmt.Sprintf("kept-reason-of-another-decision: %s was recorded with reason %q, the cache answers %q", q.id, q.want, reason)
					}
				}
				r.Distinct("distinct_outcomes", "conc:"+sc.Name)
				return ""
			}
			if !w[0].found || w[0].kept {
				return fmt.Sprintf("dropped-record-invisible: worker recorded T as dropped and looked it up at once: %+v", w[0])
			}
			if !w[1].found || !w[1].kept || w[1].rate != 3 {
				return fmt.Sprintf("kept-record-invisible: worker recorded K kept at rate 3 and looked it up at once: %+v", w[1])
			}
			if !w[2].found || w[2].kept {
				return fmt.Sprintf("dropped-does-not-win: T recorded dropped, then kept; look-up answers %+v", w[2])
			}
			if sc.Router && rt.after && (!rt.found || rt.kept) {
				return fmt.Sprintf("dropped-record-invisible-to-router: look-up started after Record(T dropped) returned: %+v", rt)
			}
			r.Distinct("distinct_outcomes", fmt.Sprintf("conc:%s:router=%+v", sc.Name, rt))
			return ""
		}}
		ok := e.Explore()
		e.Report(r)
		r.Sample(map[string]any{"concurrent_scenario": sc.Name, "executions": e.Stats.Executions, "bound": bound})
		if !ok {
			r.Violation("concurrent:"+firstWord(e.Failure), sc.Name+": "+e.Failure, map[string]any{"scenario": sc.Name, "schedule": e.FailExec.Choices})
		}
	})
	r.Set("preemption_bound_completed", bound)
}

func firstWord(s string) string {
	for i, ch := range s {
		if ch == ':' || ch == ' ' {
			return s[:i]
		}
	}
	return s
}
