// C31: the decision cache remembers what it promises.
//
// Engine E1 (seqx): breadth-first search over histories of Record(kept, rate/reason variant),
// Record(dropped), a bulk Record(dropped) of three fresh filler IDs, CheckSpan, CheckTrace, the drainer
// tick body (drain until the add queue is empty), the monitor tick body (Maintain + TTL-set clean-up),
// Resize (kept capacity 2<->3, dropped capacity 7<->3) and a clock advance past the recently-dropped
// TTL, on a real cache built by the real NewCuckooSentCache. The 100µs drainer goroutine is terminated
// through its own done protocol right after construction and the monitor ticker is given a 10000h
// period, so both bodies run only when the explorer says so.
//
// Oracle = LRU + "filter generation filled" model written from the statement:
//   - kept: every trace among the K most recently recorded-or-consulted kept decisions answers kept with
//     the last recorded rate and reason (whichever way "consulted" is read, see Assume); a Resize keeps
//     the newest up to the new K;
//   - dropped: a dropped record that has reached the filter answers dropped - also when the trace was
//     recorded kept - until some filter generation has held as many entries as the dropped capacity
//     configured when it was created ("filled to capacity since the record");
//   - filter false positives, add-queue overflow and cuckoo evictions (an insert that had to displace
//     stored fingerprints: random victim choice inside the library) are detected and those branches are
//     skipped and counted.
package main

import (
	"bytes"
	"crypto/sha1"
	"encoding/hex"
	"fmt"
	"os"
	"runtime/pprof"
	"strings"
	"sync"
	"time"

	"github.com/honeycombio/refinery/collect/cache"
	"github.com/honeycombio/refinery/config"
	"github.com/honeycombio/refinery/metrics"
	"github.com/honeycombio/refinery/types"
	"github.com/jonboulle/clockwork"

	"verif/engine/ev"
	"verif/engine/seqx"
)

var t0 = time.Date(2024, 1, 1, 0, 0, 0, 0, time.UTC)

var keptCaps = []uint{2, 3}
var dropCaps = []uint{7, 3} // cuckoo.NewFilter gives them 8 and 4 slots

const queueDepth = cache.AddQueueDepth

type variant struct {
	rate   uint
	reason string
}

var variants = []variant{{2, "rule-a"}, {7, "rule-b"}}

var fillerPool = func() []string {
	var p []string
	for i := 0; i < 96; i++ {
		p = append(p, fmt.Sprintf("filler-%02d", i))
	}
	return p
}()

const fillN = 3

type event struct {
	Op string // recK | recD | span | trace | drain | maintain | fill | resizeK | resizeD | adv
	T  int    // trace index
	V  int    // kept variant
}

func tid(i int) string { return fmt.Sprintf("trace-%d", i+1) }

func (e event) String() string {
	switch e.Op {
	case "recK":
		return fmt.Sprintf("record(%s,kept,%d,%s)", tid(e.T), variants[e.V].rate, variants[e.V].reason)
	case "recD":
		return fmt.Sprintf("record(%s,dropped)", tid(e.T))
	case "span":
		return "checkSpan(" + tid(e.T) + ")"
	case "trace":
		return "checkTrace(" + tid(e.T) + ")"
	}
	return e.Op
}

// ---- KeptTrace implementation handed to Record --------------------------------------------------------
type ktrace struct {
	id     string
	rate   uint
	reason uint
}

func (k *ktrace) ID() string              { return k.id }
func (k *ktrace) SampleRate() uint        { return k.rate }
func (k *ktrace) DescendantCount() uint32 { return 1 }
func (k *ktrace) SpanEventCount() uint32  { return 0 }
func (k *ktrace) SpanLinkCount() uint32   { return 0 }
func (k *ktrace) SpanCount() uint32       { return 1 }
func (k *ktrace) SetKeptReason(r uint)    { k.reason = r }
func (k *ktrace) KeptReason() uint        { return k.reason }

// ---- reference model ------------------------------------------------------------------------------------------
type lruModel struct {
	traceBumps, droppedAnswerBumps bool
	order                          []int // oldest .. newest
}

func (l *lruModel) touch(t int, add bool, capacity int) {
	for i, x := range l.order {
		if x == t {
			l.order = append(append([]int{}, l.order[:i]...), l.order[i+1:]...)
			l.order = append(l.order, t)
			return
		}
	}
	if add {
		l.order = append(l.order, t)
		l.trim(capacity)
	}
}
func (l *lruModel) trim(capacity int) {
	if len(l.order) > capacity {
		l.order = append([]int{}, l.order[len(l.order)-capacity:]...)
	}
}
func (l *lruModel) has(t int) bool {
	for _, x := range l.order {
		if x == t {
			return true
		}
	}
	return false
}

type traceModel struct {
	keptEver    bool
	kept        variant // last recorded
	droppedEver bool
	mustDropped bool // a dropped record reached the filter and no generation has been filled since
	// heldBy: the filter generations that received the trace's dropped record when it was drained
	// (current and, once started, future). Retention across rotation: as long as one of them has never
	// been filled to capacity, the record cannot legitimately be gone — the two-generation mechanism
	// only ever discards a generation that is full.
	heldBy []any
}

type model struct {
	k, d   int // indices into keptCaps / dropCaps
	tr     []traceModel
	lrus   []*lruModel
	queue  []string     // IDs recorded dropped, not yet in the filter (FIFO)
	capOf  map[any]uint // filter generation handle -> dropped capacity configured when it appeared
	filled map[any]bool // generations that have reached that capacity
}

func (m *model) release() {
	for i := range m.tr {
		m.tr[i].mustDropped = false
	}
}

// probe caches VerifC31Probe: (capacity, id) -> first and overflow bucket
var probes sync.Map

func probe(capacity uint, id string) (int, int) {
	k := fmt.Sprintf("%d/%s", capacity, id)
	if v, ok := probes.Load(k); ok {
		p := v.([2]int)
		return p[0], p[1]
	}
	i1, i2 := cache.VerifC31Probe(capacity, id)
	probes.Store(k, [2]int{i1, i2})
	return i1, i2
}

// ---- skipping excluded branches ---------------------------------------------------------------------------
var excluded sync.Map // history key -> reason

func hkey(h []event) string { return fmt.Sprint(h) }

type subject struct {
	c    cache.TraceSentCache
	ctl  *cache.VerifC31
	clk  *clockwork.FakeClock
	nIDs int
}

func build() *subject {
	cfg := config.SampleCacheConfig{KeptSize: keptCaps[0], DroppedSize: dropCaps[0], SizeCheckInterval: config.Duration(10000 * time.Hour), WorkerCount: 1}
	c, err := cache.NewCuckooSentCache(cfg, &metrics.NullMetrics{})
	if err != nil {
		ev.Harness("NewCuckooSentCache: %v", err)
	}
	ctl := cache.VerifC31Wrap(c)
	if ctl == nil {
		ev.Harness("NewCuckooSentCache returned an unexpected implementation")
	}
	clk := clockwork.NewFakeClockAt(t0)
	ctl.Quiesce(clk)
	return &subject{c: c, ctl: ctl, clk: clk}
}

type answer struct {
	found, kept bool
	rate        uint
	reason      string
}

func (a answer) String() string {
	switch {
	case !a.found:
		return "not-found"
	case !a.kept:
		return "dropped"
	}
	return fmt.Sprintf("kept(%d,%s)", a.rate, a.reason)
}

func toAnswer(rec cache.TraceSentRecord, reason string, found bool) answer {
	if !found || rec == nil {
		return answer{}
	}
	if !rec.Kept() {
		return answer{found: true}
	}
	return answer{found: true, kept: true, rate: rec.Rate(), reason: reason}
}

func preserved(before, after []byte) bool {
	// fingerprints are 16 bit little endian; every occupied slot must still hold the same fingerprint
	if len(before) != len(after) {
		return false
	}
	for i := 0; i+1 < len(before); i += 2 {
		if (before[i] != 0 || before[i+1] != 0) && (before[i] != after[i] || before[i+1] != after[i+1]) {
			return false
		}
	}
	return true
}

// exec runs one history. Maintain() contains a single drain() call that gives up after 1ms of REAL
// time; on a loaded machine that can leave part of the queue behind. That is a wall-clock artefact, not
// a behaviour of interest, so such an execution is discarded and repeated (counted).
func exec(r *ev.Run, nIDs int, h []event) (string, string, *seqx.Failure) {
	for try := 0; ; try++ {
		c, o, f, again := exec1(r, nIDs, h)
		if !again {
			return c, o, f
		}
		r.Add("reruns_after_realtime_drain_cutoff", 1)
		if try > 50 {
			ev.Harness("drain() keeps hitting its 1ms real-time cut-off")
		}
	}
}

// VERIF_DUMP=<file> writes one line per executed history (debugging aid for determinism diffs)
var dumpMu sync.Mutex
var dumpF *os.File

func exec1(r *ev.Run, nIDs int, h []event) (string, string, *seqx.Failure, bool) {
	again := false
	c, o, f := exec3(r, nIDs, h, &again)
	if dumpF != nil && !again {
		dumpMu.Lock()
		fmt.Fprintf(dumpF, "%v\t%s\t%s\n", h, o, c)
		dumpMu.Unlock()
	}
	return c, o, f, again
}

func exec3(r *ev.Run, nIDs int, h []event, again *bool) (string, string, *seqx.Failure) {
	s := build()
	defer s.c.Stop()
	m := &model{tr: make([]traceModel, nIDs), capOf: map[any]uint{}, filled: map[any]bool{}}
	for _, tb := range []bool{true, false} {
		for _, db := range []bool{false, true} {
			m.lrus = append(m.lrus, &lruModel{traceBumps: tb, droppedAnswerBumps: db})
		}
	}
	snap0 := s.ctl.Snapshot()
	m.capOf[snap0.Cur] = dropCaps[0]
	outcome := "init"
	exclude := func(kind string) (string, string, *seqx.Failure) {
		excluded.Store(hkey(h), kind)
		r.Add("excluded_"+kind, 1)
		return "", "excluded:" + kind, nil
	}
	pre := snap0
	for step, e := range h {
		last := step == len(h)-1
		type gen struct {
			h      any
			count  uint
			layout []byte
		}
		var gens []gen
		for _, hd := range []any{pre.Cur, pre.Fut} {
			if hd != nil {
				c, l := cache.VerifC31FilterInfo(hd)
				gens = append(gens, gen{hd, c, l})
			}
		}
		var ans answer
		asked := false
		switch e.Op {
		case "recK":
			v := variants[e.V]
			s.c.Record(&ktrace{id: tid(e.T), rate: v.rate}, true, v.reason)
			m.tr[e.T].keptEver, m.tr[e.T].kept = true, v
			for _, l := range m.lrus {
				l.touch(e.T, true, int(keptCaps[m.k]))
			}
		case "recD":
			if len(m.queue) >= queueDepth {
				return exclude("add_queue_overflow")
			}
			s.c.Record(&ktrace{id: tid(e.T)}, false, "")
			m.tr[e.T].droppedEver = true
			m.queue = append(m.queue, tid(e.T))
		case "fill", "topup":
			// the first pool names that are in neither generation nor queued: a function of the state.
			// "fill" adds a batch of fillN; "topup" adds ONE name chosen so that (given the bucket occupancy of
			// both generations and an empty queue) it needs no eviction — the single-step filler that lets a
			// generation be topped up exactly to its capacity.
			want := fillN
			if e.Op == "topup" {
				want = 1
			}
			fits := func(n string) bool {
				if e.Op != "topup" {
					return true
				}
				if len(m.queue) > 0 {
					return false // occupancy is only known for what is already in the filters
				}
				for _, g := range gens {
					nb := len(g.layout) / 8
					occ := make([]int, nb)
					for i := 0; i+1 < len(g.layout); i += 2 {
						if g.layout[i] != 0 || g.layout[i+1] != 0 {
							occ[i/8]++
						}
					}
					i1, i2 := probe(uint(float64(nb)*3.6), n)
					if occ[i1] >= 4 && occ[i2] >= 4 {
						return false
					}
				}
				return true
			}
			var names []string
			for _, n := range fillerPool {
				if len(names) == want {
					break
				}
				if cache.VerifC31FilterHas(pre.Cur, n) || cache.VerifC31FilterHas(pre.Fut, n) {
					continue
				}
				q := false
				for _, x := range m.queue {
					q = q || x == n
				}
				if !q && fits(n) {
					names = append(names, n)
				}
			}
			if len(names) < want {
				if e.Op == "topup" {
					return "", "topup:no-fitting-name", nil // both buckets of every candidate are full (or the queue is not empty): a no-op
				}
				ev.Harness("filler pool exhausted")
			}
			for _, n := range names {
				s.c.Record(&ktrace{id: n}, false, "")
				m.queue = append(m.queue, n)
			}
		case "drain":
			for i := 0; i < 1000 && s.ctl.Snapshot().Queued > 0; i++ {
				s.ctl.Drain() // the drainer's tick body: drain until the queue is empty
			}
		case "maintain":
			s.ctl.Maintain()
			if s.ctl.Snapshot().Queued > 0 {
				*again = true
				return "", "", nil
			}
		case "resizeK", "resizeD":
			if e.Op == "resizeK" {
				m.k = 1 - m.k
			} else {
				m.d = 1 - m.d
			}
			cfg := config.SampleCacheConfig{KeptSize: keptCaps[m.k], DroppedSize: dropCaps[m.d], SizeCheckInterval: config.Duration(10000 * time.Hour), WorkerCount: 1}
			if err := s.c.Resize(cfg); err != nil {
				return "", "", &seqx.Failure{Sig: "resize:error", What: fmt.Sprintf("step %d %v: Resize failed: %v", step, e, err)}
			}
			for _, l := range m.lrus {
				l.trim(int(keptCaps[m.k]))
			}
		case "adv":
			s.clk.Advance(3*time.Second + 1)
		case "span":
			rec, reason, found := s.c.CheckSpan(&types.Span{TraceID: tid(e.T), Event: &types.Event{}})
			ans, asked = toAnswer(rec, reason, found), true
		case "trace":
			rec, reason, found := s.c.CheckTrace(tid(e.T))
			ans, asked = toAnswer(rec, reason, found), true
		}
		post := s.ctl.Snapshot()
		// --- what went into the filters during this event?
		nIns := len(m.queue) - post.Queued
		if nIns < 0 {
			ev.Harness("queue bookkeeping: model %d, real %d", len(m.queue), post.Queued)
		}
		inserted := m.queue[:nIns]
		// would any of these inserts have had to displace stored fingerprints? (predicted from bucket
		// occupancy; the library's victim choice is random, so such branches are excluded)
		for _, g := range gens {
			nb := len(g.layout) / 8
			occ := make([]int, nb)
			for i := 0; i+1 < len(g.layout); i += 2 {
				if g.layout[i] != 0 || g.layout[i+1] != 0 {
					occ[i/8]++
				}
			}
			for _, id := range inserted {
				i1, i2 := probe(uint(float64(nb)*3.6), id) // any capacity that yields nb buckets
				if i1 >= nb || i2 >= nb {
					ev.Harness("probe filter has more buckets than the generation under test (%d)", nb)
				}
				switch {
				case occ[i1] < 4:
					occ[i1]++
				case occ[i2] < 4:
					occ[i2]++
				default:
					if os.Getenv("VERIF_HISTORY") != "" {
						fmt.Printf(" eviction predicted at step %d %v: id=%s buckets=(%d,%d) occupancy=%v inserted=%v\n", step, e, id, i1, i2, occ, inserted)
					}
					return exclude("cuckoo_eviction")
				}
			}
		}
		for _, g := range gens {
			c2, l2 := cache.VerifC31FilterInfo(g.h)
			if !preserved(g.layout, l2) || int(c2)-int(g.count) != nIns {
				ev.Harness("the filter displaced or lost fingerprints although the occupancy prediction said no eviction was needed (history %v)", h)
			}
		}
		m.queue = append([]string{}, m.queue[nIns:]...)
		for _, id := range inserted {
			for i := range m.tr {
				if tid(i) == id {
					m.tr[i].mustDropped = true
					for _, g := range gens {
						m.tr[i].heldBy = append(m.tr[i].heldBy, g.h)
					}
				}
			}
		}
		for _, hd := range []any{post.Cur, post.Fut} {
			if hd != nil {
				if _, ok := m.capOf[hd]; !ok {
					// a generation created during this event. (The code as it is never creates one during a Resize; an
					// implementation that does gets the capacity in force after the event attributed to it, and what
					// the generation it replaced was holding is judged by the retention clause like any other loss.)
					m.capOf[hd] = dropCaps[m.d]
				}
			}
		}
		for _, hd := range []any{pre.Cur, pre.Fut, post.Cur, post.Fut} {
			if hd == nil {
				continue
			}
			if c, _ := cache.VerifC31FilterInfo(hd); c >= m.capOf[hd] {
				if !m.filled[hd] && last {
					r.Add("generation_filled_to_capacity", 1)
				}
				m.filled[hd] = true
				m.release()
			}
		}
		if last {
			if pre.Fut == nil && post.Fut != nil {
				r.Add("future_generation_started", 1)
			}
			if pre.Cur != post.Cur {
				r.Add("rotations", 1)
				if pre.Fut == nil {
					// DESIGN C31 P: load jumped past 0.5 and 0.99 between two Maintain calls, so the filter
					// rotated to a generation created in the same call: every dropped record is forgotten at
					// once. The filter WAS filled to capacity since those records, so the statement as
					// worded is not violated; counted for the record.
					r.Add("rotations_to_a_just_created_empty_generation", 1)
				}
			}
		}
		// --- judge the answer
		if asked {
			t := &m.tr[e.T]
			mustKept := t.keptEver
			for _, l := range m.lrus {
				mustKept = mustKept && l.has(e.T)
			}
			where := fmt.Sprintf("step %d %v answered %v", step, e, ans)
			kind := e.Op
			unfilledHolder := false
			for _, g := range t.heldBy {
				if !m.filled[g] {
					unfilledHolder = true
				}
			}
			if unfilledHolder && !(ans.found && !ans.kept) {
				return "", "", &seqx.Failure{Sig: "dropped:lost-although-a-generation-that-received-it-was-never-filled:" + kind,
					What: where + " although a filter generation that received its dropped record has never been filled to capacity (a not-yet-full generation was discarded: retention across rotation broken)"}
			}
			switch {
			case ans.found && !ans.kept: // "dropped"
				if !t.droppedEver {
					if cache.VerifC31FilterHas(pre.Cur, tid(e.T)) {
						return exclude("filter_false_positive")
					}
					return "", "", &seqx.Failure{Sig: "dropped:answered-for-a-trace-never-recorded-dropped:" + kind, What: where + " although the trace was never recorded as dropped and the filter does not contain it"}
				}
			case ans.found && ans.kept:
				if t.mustDropped {
					return "", "", &seqx.Failure{Sig: "dropped:kept-record-answered-instead:" + kind, What: where + " although its dropped record reached the filter and no filter generation has been filled to capacity since"}
				}
				if !t.keptEver {
					return "", "", &seqx.Failure{Sig: "kept:answered-for-a-trace-never-recorded-kept:" + kind, What: where}
				}
				if ans.rate != t.kept.rate || ans.reason != t.kept.reason {
					return "", "", &seqx.Failure{Sig: "kept:wrong-rate-or-reason:" + kind, What: fmt.Sprintf("%s, last recorded kept(%d,%s)", where, t.kept.rate, t.kept.reason)}
				}
			default: // not found
				if t.mustDropped {
					return "", "", &seqx.Failure{Sig: "dropped:forgotten-before-the-filter-was-full:" + kind, What: where + " although its dropped record reached the filter and no filter generation has been filled to capacity since"}
				}
				if mustKept {
					return "", "", &seqx.Failure{Sig: "kept:forgotten-within-capacity:" + kind, What: fmt.Sprintf("%s although it is among the %d most recently recorded/consulted kept decisions under every reading (kept LRU %v)", where, keptCaps[m.k], s.ctl.Kept())}
				}
			}
			// recency effect of the consultation, per reading
			for _, l := range m.lrus {
				if e.Op == "trace" && !l.traceBumps {
					continue
				}
				if ans.found && !ans.kept && !l.droppedAnswerBumps {
					continue
				}
				l.touch(e.T, false, 0)
			}
			cls := "free"
			if t.mustDropped {
				cls = "must-dropped"
			} else if mustKept && !t.droppedEver {
				cls = "must-kept"
			} else if mustKept {
				cls = "kept-or-dropped"
			}
			outcome = fmt.Sprintf("%s/%s/%s", e.Op, cls, strings.SplitN(ans.String(), "(", 2)[0])
			if last {
				r.Add("answers_"+cls, 1)
			}
		} else {
			outcome = e.Op
		}
		pre = post
	}
	// --- canonical state
	fin := pre
	now := s.clk.Now()
	var b bytes.Buffer
	fmt.Fprintf(&b, "K%dD%d|kept=%s|next=%d|q=%s|", m.k, m.d, strings.Join(s.ctl.Kept(), ","), fin.NextCap, strings.Join(m.queue, ","))
	for _, hd := range []any{fin.Cur, fin.Fut} {
		if hd == nil {
			b.WriteString("gen:-|")
			continue
		}
		_, l := cache.VerifC31FilterInfo(hd)
		fmt.Fprintf(&b, "gen:%x/%d/%v|", l, m.capOf[hd], m.filled[hd])
	}
	// expired entries of the recently-dropped set behave alike (Contains is false, clean-up removes them)
	fmt.Fprintf(&b, "recent=%s|", strings.Join(s.ctl.Recent(now), ","))
	for i, t := range m.tr {
		// which LIVE generations received the record, and whether some generation that received it was
		// discarded before it was ever full (that promise can then never be released): both decide the
		// future verdicts of the retention-across-rotation clause
		held := ""
		lostUnfilled := false
		for _, g := range t.heldBy {
			switch g {
			case fin.Cur:
				held += "c"
			case fin.Fut:
				held += "f"
			default:
				if !m.filled[g] {
					lostUnfilled = true
				}
			}
		}
		fmt.Fprintf(&b, "%d:%v%v%v%v%s%v;", i, t.keptEver, t.kept, t.droppedEver, t.mustDropped, held, lostUnfilled)
	}
	for _, l := range m.lrus {
		fmt.Fprintf(&b, "%v", l.order)
	}
	sum := sha1.Sum(b.Bytes()) // the key is long; a 160-bit digest keeps the seen-set small
	return hex.EncodeToString(sum[:]), outcome, nil
}

// enabled builds the menu: trace IDs are introduced in index order, queries only name traces that
// have been recorded, the second rate/reason variant is offered for the first two traces only.
func enabled(nIDs int, h []event) []event {
	used := 0
	for _, e := range h {
		if (e.Op == "recK" || e.Op == "recD") && e.T+1 > used {
			used = e.T + 1
		}
	}
	lim := used + 1
	if lim > nIDs {
		lim = nIDs
	}
	var out []event
	for t := 0; t < lim; t++ {
		out = append(out, event{Op: "recK", T: t})
		if t < 2 {
			out = append(out, event{Op: "recK", T: t, V: 1})
		}
		out = append(out, event{Op: "recD", T: t})
	}
	for t := 0; t < used; t++ {
		out = append(out, event{Op: "trace", T: t}, event{Op: "span", T: t})
	}
	out = append(out, event{Op: "drain"}, event{Op: "maintain"}, event{Op: "fill"}, event{Op: "resizeK"}, event{Op: "resizeD"}, event{Op: "adv"})
	return out
}

func main() {
	r := ev.New("C31", "model_checking")
	if p := os.Getenv("VERIF_DUMP"); p != "" {
		dumpF, _ = os.Create(p)
	}
	if p := os.Getenv("VERIF_PROF"); p != "" {
		f, _ := os.Create(p)
		pprof.StartCPUProfile(f)
	}
	if _, _, isShard := ev.ShardInfo(); isShard {
		concurrentPart(r) // worker process of the E3 part
	}
	nIDs := ev.Pick(r, 4, 6)
	if hs := os.Getenv("VERIF_HISTORY"); hs != "" {
		// debugging / replay aid: run one history, e.g. "fill;maintain;recD0;drain;resizeD;trace0"
		var h []event
		for _, w := range strings.Split(hs, ";") {
			e := event{Op: strings.TrimRight(w, "0123456789")}
			if n := strings.TrimPrefix(w, e.Op); n != "" {
				fmt.Sscan(n, &e.T)
			}
			h = append(h, e)
		}
		c, o, f := exec(r, nIDs, h)
		_, ex := excluded.Load(hkey(h))
		fmt.Printf("history %v\n canon=%q\n outcome=%q\n failure=%+v excluded=%v\n", h, c, o, f, ex)
		for i := 1; i <= len(h); i++ {
			if why, ex := excluded.Load(hkey(h[:i])); ex {
				fmt.Printf(" prefix %d excluded: %v\n", i, why)
			}
		}
		os.Exit(0)
	}
	depth := ev.Pick(r, 7, 8)
	if d := os.Getenv("VERIF_DEPTH"); d != "" {
		fmt.Sscan(d, &depth)
	}
	if d := os.Getenv("VERIF_IDS"); d != "" {
		fmt.Sscan(d, &nIDs)
	}
	concurrentPart(r) // the (cheap) E3 part first: a deadline under load then cuts the deep end of the BFS, not this
	seqx.Explore(r, seqx.Scenario[event]{
		Name:     "sentcache",
		Enabled:  func(h []event) []event { return enabled(nIDs, h) },
		Exec:     func(h []event) (string, string, *seqx.Failure) { return exec(r, nIDs, h) },
		Expand:   func(h []event) bool { _, ex := excluded.Load(hkey(h)); return !ex },
		MaxDepth: depth, Workers: 16,
		// every history of length <= 4 (quick) / 3 (thorough, whose deeper bound multiplies the unmerged states) is
		// executed whatever the canonical key says
		NoMergeDepth: ev.Pick(r, 3, 2),
	})
	// Directed family for the dropped side: only one trace ID and the events that move the two filter
	// generations (fill, maintain, drain, resize of the dropped capacity, clock), so that histories such as
	// "future generation started, record, resize, fill, rotate, look up" (9-10 events) are inside the bound.
	dd := ev.Pick(r, 9, 12)
	seqx.Explore(r, seqx.Scenario[event]{
		Name: "dropped-side",
		Enabled: func(h []event) []event {
			// trace 0 is the record under observation; `fill` adds three fillers, `topup` exactly one that fits
			out := []event{{Op: "recD", T: 0}, {Op: "fill"}, {Op: "topup"}, {Op: "maintain"}, {Op: "resizeD"}}
			for _, e := range h {
				if e.Op == "recD" && e.T == 0 {
					return append(out, event{Op: "trace", T: 0})
				}
			}
			return out
		},
		Exec:     func(h []event) (string, string, *seqx.Failure) { return exec(r, nIDs, h) },
		Expand:   func(h []event) bool { _, ex := excluded.Load(hkey(h)); return !ex },
		MaxDepth: dd, Workers: 16,
		// every history of length <= 5 (quick) / 4 (thorough) is executed whatever the canonical key says
		NoMergeDepth: ev.Pick(r, 4, 3),
	})
	r.Set("traces_validated_against_impl", r.Count("transitions"))
	for _, k := range []string{"excluded_filter_false_positive", "excluded_add_queue_overflow", "excluded_cuckoo_eviction"} {
		r.Add(k, 0)
	}
	r.Set("bounds", map[string]any{"trace_ids": nIDs, "depth": depth, "kept_capacity": fmt.Sprint(keptCaps), "dropped_capacity": fmt.Sprint(dropCaps) + " (8 and 4 filter slots)",
		"filler_batch": fillN, "kept_variants": fmt.Sprint(variants), "id_order": "trace-(i+1) is first recorded only after trace-i", "advance": "3s+1ns"})
	r.Assume("'consulted' is read in every way at once: a kept decision is guaranteed only if it is among the K most recent whether or not CheckTrace counts as a consultation and whether or not a consultation answered 'dropped' refreshes recency (4 LRU readings, intersection)")
	r.Assume("a dropped record counts from the moment it left the add queue (the queue is asynchronous by design); while it is only queued either answer is accepted, for CheckSpan as well as CheckTrace")
	r.Assume("retention across rotation (mechanism anchor 'two-generation filter', why_tests_cant 'retention across filter rotation'): in addition to the weak reading below, a dropped record must still be answered 'dropped' while any generation that received it has never been filled to capacity; this holds on the unchanged tree because Maintain only ever discards the full current generation")
	r.Assume("'filled to capacity since the record': some filter generation has, at or after the record, held at least as many entries as the DroppedSize configured when that generation was created; from then on either answer is accepted for every earlier record")
	r.Assume("branches with a cuckoo filter false positive, an add-queue overflow, or an insert that displaced stored fingerprints (library picks victims with runtime.fastrand) are skipped and counted as excluded_*")
	r.Assume("canonical state = capacities, real kept LRU (order, rate, reason), both filter bucket layouts with their creation capacity, next capacity, add-queue contents, recently-dropped entries as offsets from now (expired ones merged), per-trace model flags, the four model LRU orders; filler IDs are chosen as a function of that state")
	pprof.StopCPUProfile()
	r.Finish()
}
