// C31: the decision cache remembers what it promises.
//
// Engine E1 (seqx): breadth-first search over histories of Record(kept, rate/reason variant),
// Record(dropped), a bulk Record(dropped) of three fresh filler IDs, CheckSpan, CheckTrace, the drainer
// tick body (drain until the add queue is empty), the monitor tick body (Maintain + TTL-set clean-up),
// Resize (kept capacity 2<->3, dropped capacity 7<->3) and a clock advance past the recently-dropped
// TTL, on a real cache built by the real NewCuckooSentCache. The 100µs drainer goroutine is terminated
// through its own done protocol right after construction and the monitor ticker is given a 10000h
// period, so both bodies run only when the explorer says so.
//
// Oracle = LRU + "filter generation filled" model written from the statement:
//   - kept: every trace among the K most recently recorded-or-consulted kept decisions answers kept with
//     the last recorded rate and reason (whichever way "consulted" is read, see Assume); a Resize keeps
//     the newest up to the new K;
//   - dropped: a dropped record that has reached the filter answers dropped - also when the trace was
//     recorded kept - until some filter generation has held as many entries as the dropped capacity
//     configured when it was created ("filled to capacity since the record");
//   - reload sequences (third family, reloadSequences): the cache is built with each of the four
//     configurations keptCaps x dropCaps and up to three reloads to arbitrary configurations of that grid
//     (the one in force, an earlier one, the start-up one) are interleaved with kept records and look-ups;
//     the promised capacity is the one of the last reload;
//   - filter false positives, add-queue overflow and cuckoo evictions (an insert that had to displace
//     stored fingerprints: random victim choice inside the library) are detected and those branches are
//     skipped and counted.
package main

import (
	"bytes"
	"crypto/sha1"
	"encoding/hex"
	"fmt"
	"os"
	"runtime/pprof"
	"strings"
	"sync"
	"time"

	"github.com/honeycombio/refinery/collect/cache"
	"github.com/honeycombio/refinery/config"
	"github.com/honeycombio/refinery/metrics"
	"github.com/honeycombio/refinery/types"
	"github.com/jonboulle/clockwork"

	"verif/engine/ev"
	"verif/engine/seqx"
)

var t0 = time.Date(2024, 1, 1, 0, 0, 0, 0, time.UTC)

var keptCaps = []uint{2, 3}
var dropCaps = []uint{7, 3} // cuckoo.NewFilter gives them 8 and 4 slots

const queueDepth = cache.AddQueueDepth

type variant struct {
	rate   uint
	reason string
}

var variants = []variant{{2, "rule-a"}, {7, "rule-b"}}

var fillerPool = func() []string {
	var p []string
	for i := 0; i < 96; i++ {
		p = append(p, fmt.Sprintf("filler-%02d", i))
	}
	return p
}()

const fillN = 3

type event struct {
	Op string // recK | recD | span | trace | drain | maintain | fill | resizeK | resizeD | adv | cfg
	T  int    // trace index (cfg: index into keptCaps)
	V  int    // kept variant (cfg: index into dropCaps)
}

// start is the configuration a history's cache is constructed with (indices into keptCaps / dropCaps).
// trail = the family under exploration studies SEQUENCES of reloads: the canonical key then carries the
// whole sequence of configurations applied so far, so that nothing is assumed about Resize being free of
// memory (e.g. the real LRU capacity, which the cache does not expose, is a function of that sequence).
type start struct {
	k, d  int
	trail bool
}

func tid(i int) string { return fmt.Sprintf("trace-%d", i+1) }

func (e event) String() string {
	switch e.Op {
	case "recK":
		return fmt.Sprintf("record(%s,kept,%d,%s)", tid(e.T), variants[e.V].rate, variants[e.V].reason)
	case "recD":
		return fmt.Sprintf("record(%s,dropped)", tid(e.T))
	case "span":
		return "checkSpan(" + tid(e.T) + ")"
	case "trace":
		return "checkTrace(" + tid(e.T) + ")"
	case "cfg":
		return fmt.Sprintf("reload(KeptSize=%d,DroppedSize=%d)", keptCaps[e.T], dropCaps[e.V])
	}
	return e.Op
}

// ---- KeptTrace implementation handed to Record --------------------------------------------------------
type ktrace struct {
	id     string
	rate   uint
	reason uint
}

func (k *ktrace) ID() string              { return k.id }
func (k *ktrace) SampleRate() uint        { return k.rate }
func (k *ktrace) DescendantCount() uint32 { return 1 }
func (k *ktrace) SpanEventCount() uint32  { return 0 }
func (k *ktrace) SpanLinkCount() uint32   { return 0 }
func (k *ktrace) SpanCount() uint32       { return 1 }
func (k *ktrace) SetKeptReason(r uint)    { k.reason = r }
func (k *ktrace) KeptReason() uint        { return k.reason }

// ---- reference model ------------------------------------------------------------------------------------------
type lruModel struct {
	traceBumps, droppedAnswerBumps bool
	order                          []int // oldest .. newest
}

func (l *lruModel) touch(t int, add bool, capacity int) {
	for i, x := range l.order {
		if x == t {
			l.order = append(append([]int{}, l.order[:i]...), l.order[i+1:]...)
			l.order = append(l.order, t)
			return
		}
	}
	if add {
		l.order = append(l.order, t)
		l.trim(capacity)
	}
}
func (l *lruModel) trim(capacity int) {
	if len(l.order) > capacity {
		l.order = append([]int{}, l.order[len(l.order)-capacity:]...)
	}
}
func (l *lruModel) has(t int) bool {
	for _, x := range l.order {
		if x == t {
			return true
		}
	}
	return false
}

type traceModel struct {
	keptEver    bool
	kept        variant // last recorded
	droppedEver bool
	mustDropped bool // a dropped record reached the filter and no generation has been filled since
	// heldBy: the filter generations that received the trace's dropped record when it was drained
	// (current and, once started, future). Retention across rotation: as long as one of them has never
	// been filled to capacity, the record cannot legitimately be gone — the two-generation mechanism
	// only ever discards a generation that is full.
	heldBy []any
}

type model struct {
	k, d   int // indices into keptCaps / dropCaps
	tr     []traceModel
	lrus   []*lruModel
	queue  []string     // IDs recorded dropped, not yet in the filter (FIFO)
	capOf  map[any]uint // filter generation handle -> dropped capacity configured when it appeared
	filled map[any]bool // generations that have reached that capacity
}

func (m *model) release() {
	for i := range m.tr {
		m.tr[i].mustDropped = false
	}
}

// probe caches VerifC31Probe: (capacity, id) -> first and overflow bucket
var probes sync.Map

func probe(capacity uint, id string) (int, int) {
	k := fmt.Sprintf("%d/%s", capacity, id)
	if v, ok := probes.Load(k); ok {
		p := v.([2]int)
		return p[0], p[1]
	}
	i1, i2 := cache.VerifC31Probe(capacity, id)
	probes.Store(k, [2]int{i1, i2})
	return i1, i2
}

// ---- skipping excluded branches ---------------------------------------------------------------------------
var excluded sync.Map // history key -> reason

func hkey(h []event) string { return fmt.Sprint(h) }

// skey: histories of the families that start from another configuration live in their own key space
func skey(st start, h []event) string {
	if st == (start{}) {
		return hkey(h)
	}
	return fmt.Sprint(st, h)
}

type subject struct {
	c    cache.TraceSentCache
	ctl  *cache.VerifC31
	clk  *clockwork.FakeClock
	nIDs int
}

func build(st start) *subject {
	cfg := config.SampleCacheConfig{KeptSize: keptCaps[st.k], DroppedSize: dropCaps[st.d], SizeCheckInterval: config.Duration(10000 * time.Hour), WorkerCount: 1}
	c, err := cache.NewCuckooSentCache(cfg, &metrics.NullMetrics{})
	if err != nil {
		ev.Harness("NewCuckooSentCache: %v", err)
	}
	ctl := cache.VerifC31Wrap(c)
	if ctl == nil {
		ev.Harness("NewCuckooSentCache returned an unexpected implementation")
	}
	clk := clockwork.NewFakeClockAt(t0)
	ctl.Quiesce(clk)
	return &subject{c: c, ctl: ctl, clk: clk}
}

type answer struct {
	found, kept bool
	rate        uint
	reason      string
}

func (a answer) String() string {
	switch {
	case !a.found:
		return "not-found"
	case !a.kept:
		return "dropped"
	}
	return fmt.Sprintf("kept(%d,%s)", a.rate, a.reason)
}

func toAnswer(rec cache.TraceSentRecord, reason string, found bool) answer {
	if !found || rec == nil {
		return answer{}
	}
	if !rec.Kept() {
		return answer{found: true}
	}
	return answer{found: true, kept: true, rate: rec.Rate(), reason: reason}
}

func preserved(before, after []byte) bool {
	// fingerprints are 16 bit little endian; every occupied slot must still hold the same fingerprint
	if len(before) != len(after) {
		return false
	}
	for i := 0; i+1 < len(before); i += 2 {
		if (before[i] != 0 || before[i+1] != 0) && (before[i] != after[i] || before[i+1] != after[i+1]) {
			return false
		}
	}
	return true
}

// exec runs one history. Maintain() contains a single drain() call that gives up after 1ms of REAL
// time; on a loaded machine that can leave part of the queue behind. That is a wall-clock artefact, not
// a behaviour of interest, so such an execution is discarded and repeated (counted).
func exec(r *ev.Run, nIDs int, h []event) (string, string, *seqx.Failure) {
	return execFrom(r, start{}, nIDs, h)
}

func execFrom(r *ev.Run, st start, nIDs int, h []event) (string, string, *seqx.Failure) {
	for try := 0; ; try++ {
		c, o, f, again := exec1(r, st, nIDs, h)
		if !again {
			return c, o, f
		}
		r.Add("reruns_after_realtime_drain_cutoff", 1)
		if try > 50 {
			ev.Harness("drain() keeps hitting its 1ms real-time cut-off")
		}
	}
}

// VERIF_DUMP=<file> writes one line per executed history (debugging aid for determinism diffs)
var dumpMu sync.Mutex
var dumpF *os.File

func exec1(r *ev.Run, st start, nIDs int, h []event) (string, string, *seqx.Failure, bool) {
	again := false
	c, o, f := exec3(r, st, nIDs, h, &again)
	if dumpF != nil && !again {
		dumpMu.Lock()
		fmt.Fprintf(dumpF, "%v\t%s\t%s\n", h, o, c)
		dumpMu.Unlock()
	}
	return c, o, f, again
}

func exec3(r *ev.Run, st start, nIDs int, h []event, again *bool) (string, string, *seqx.Failure) {
	s := build(st)
	defer s.c.Stop()
	m := &model{k: st.k, d: st.d, tr: make([]traceModel, nIDs), capOf: map[any]uint{}, filled: map[any]bool{}}
	var trail []string // configurations applied by Resize so far, in order
	resizes := 0
	for _, tb := range []bool{true, false} {
		for _, db := range []bool{false, true} {
			m.lrus = append(m.lrus, &lruModel{traceBumps: tb, droppedAnswerBumps: db})
		}
	}
	snap0 := s.ctl.Snapshot()
	m.capOf[snap0.Cur] = dropCaps[st.d]
	outcome := "init"
	exclude := func(kind string) (string, string, *seqx.Failure) {
		excluded.Store(skey(st, h), kind)
		r.Add("excluded_"+kind, 1)
		return "", "excluded:" + kind, nil
	}
	pre := snap0
	for step, e := range h {
		last := step == len(h)-1
		type gen struct {
			h      any
			count  uint
			layout []byte
		}
		var gens []gen
		for _, hd := range []any{pre.Cur, pre.Fut} {
			if hd != nil {
				c, l := cache.VerifC31FilterInfo(hd)
				gens = append(gens, gen{hd, c, l})
			}
		}
		var ans answer
		asked := false
		switch e.Op {
		case "recK":
			v := variants[e.V]
			s.c.Record(&ktrace{id: tid(e.T), rate: v.rate}, true, v.reason)
			m.tr[e.T].keptEver, m.tr[e.T].kept = true, v
			for _, l := range m.lrus {
				l.touch(e.T, true, int(keptCaps[m.k]))
			}
		case "recD":
			if len(m.queue) >= queueDepth {
				return exclude("add_queue_overflow")
			}
			qBefore := s.ctl.Snapshot().Queued
			s.c.Record(&ktrace{id: tid(e.T)}, false, "")
			m.tr[e.T].droppedEver = true
			switch grown := s.ctl.Snapshot().Queued - qBefore; grown {
			case 1:
				m.queue = append(m.queue, tid(e.T))
			case 0:
				// The implementation did not hand this record to the dropped-trace filter. That is only harmless if
				// the filter cannot forget the ID any sooner than if it had: the ID is already waiting in the add
				// queue, or every generation a new insert would go into already holds it. Otherwise the record is
				// remembered by nothing but the short-lived recent-drop set, although the filter has not been
				// filled since the record.
				held := len(gens) > 0
				for _, g := range gens {
					held = held && cache.VerifC31FilterHas(g.h, tid(e.T))
				}
				for _, x := range m.queue {
					held = held || x == tid(e.T)
				}
				if !held {
					return "", "", &seqx.Failure{Sig: "dropped:record-not-passed-to-a-filter-that-does-not-hold-it",
						What: fmt.Sprintf("step %d %v of %v: the drop record of %s was not queued for the dropped-trace filter, and not every one of its %d generation(s) that take new inserts holds the ID (it was recorded before the newest generation existed): once the 3 s recent-drop set expires nothing answers 'dropped' for it, although the filter has not been filled to capacity since this record", step, e, h, tid(e.T), len(gens))}
				}
			default:
				ev.Harness("one drop record grew the add queue by %d", grown)
			}
		case "fill", "topup":
			// the first pool names that are in neither generation nor queued: a function of the state.
			// "fill" adds a batch of fillN; "topup" adds ONE name chosen so that (given the bucket occupancy of
			// both generations and an empty queue) it needs no eviction — the single-step filler that lets a
			// generation be topped up exactly to its capacity.
			want := fillN
			if e.Op == "topup" {
				want = 1
			}
			fits := func(n string) bool {
				if e.Op != "topup" {
					return true
				}
				if len(m.queue) > 0 {
					return false // occupancy is only known for what is already in the filters
				}
				for _, g := range gens {
					nb := len(g.layout) / 8
					occ := make([]int, nb)
					for i := 0; i+1 < len(g.layout); i += 2 {
						if g.layout[i] != 0 || g.layout[i+1] != 0 {
							occ[i/8]++
						}
					}
					i1, i2 := probe(uint(float64(nb)*3.6), n)
					if occ[i1] >= 4 && occ[i2] >= 4 {
						return false
					}
				}
				return true
			}
			var names []string
			for _, n := range fillerPool {
				if len(names) == want {
					break
				}
				if cache.VerifC31FilterHas(pre.Cur, n) || cache.VerifC31FilterHas(pre.Fut, n) {
					continue
				}
				q := false
				for _, x := range m.queue {
					q = q || x == n
				}
				if !q && fits(n) {
					names = append(names, n)
				}
			}
			if len(names) < want {
				if e.Op == "topup" {
					return "", "topup:no-fitting-name", nil // both buckets of every candidate are full (or the queue is not empty): a no-op
				}
				ev.Harness("filler pool exhausted")
			}
			for _, n := range names {
				s.c.Record(&ktrace{id: n}, false, "")
				m.queue = append(m.queue, n)
			}
		case "drain":
			for i := 0; i < 1000 && s.ctl.Snapshot().Queued > 0; i++ {
				s.ctl.Drain() // the drainer's tick body: drain until the queue is empty
			}
		case "maintain":
			s.ctl.Maintain()
			if s.ctl.Snapshot().Queued > 0 {
				*again = true
				return "", "", nil
			}
		case "resizeK", "resizeD", "cfg":
			// resizeK / resizeD toggle one setting; cfg is a reload to an explicitly named configuration (possibly
			// the one in force, possibly one that was in force earlier, possibly the one the cache was built with)
			switch e.Op {
			case "resizeK":
				m.k = 1 - m.k
			case "resizeD":
				m.d = 1 - m.d
			default:
				m.k, m.d = e.T, e.V
			}
			resizes++
			trail = append(trail, fmt.Sprintf("KeptSize=%d/DroppedSize=%d", keptCaps[m.k], dropCaps[m.d]))
			cfg := config.SampleCacheConfig{KeptSize: keptCaps[m.k], DroppedSize: dropCaps[m.d], SizeCheckInterval: config.Duration(10000 * time.Hour), WorkerCount: 1}
			if err := s.c.Resize(cfg); err != nil {
				return "", "", &seqx.Failure{Sig: "resize:error", What: fmt.Sprintf("step %d %v: Resize failed: %v", step, e, err)}
			}
			for _, l := range m.lrus {
				l.trim(int(keptCaps[m.k]))
			}
		case "adv":
			s.clk.Advance(3*time.Second + 1)
		case "span":
			rec, reason, found := s.c.CheckSpan(&types.Span{TraceID: tid(e.T), Event: &types.Event{}})
			ans, asked = toAnswer(rec, reason, found), true
		case "trace":
			rec, reason, found := s.c.CheckTrace(tid(e.T))
			ans, asked = toAnswer(rec, reason, found), true
		}
		post := s.ctl.Snapshot()
		// --- what went into the filters during this event?
		nIns := len(m.queue) - post.Queued
		if nIns < 0 {
			ev.Harness("queue bookkeeping: model %d, real %d", len(m.queue), post.Queued)
		}
		inserted := m.queue[:nIns]
		// would any of these inserts have had to displace stored fingerprints? (predicted from bucket
		// occupancy; the library's victim choice is random, so such branches are excluded)
		for _, g := range gens {
			nb := len(g.layout) / 8
			occ := make([]int, nb)
			for i := 0; i+1 < len(g.layout); i += 2 {
				if g.layout[i] != 0 || g.layout[i+1] != 0 {
					occ[i/8]++
				}
			}
			for _, id := range inserted {
				i1, i2 := probe(uint(float64(nb)*3.6), id) // any capacity that yields nb buckets
				if i1 >= nb || i2 >= nb {
					ev.Harness("probe filter has more buckets than the generation under test (%d)", nb)
				}
				switch {
				case occ[i1] < 4:
					occ[i1]++
				case occ[i2] < 4:
					occ[i2]++
				default:
					if os.Getenv("VERIF_HISTORY") != "" {
						fmt.Printf(" eviction predicted at step %d %v: id=%s buckets=(%d,%d) occupancy=%v inserted=%v\n", step, e, id, i1, i2, occ, inserted)
					}
					return exclude("cuckoo_eviction")
				}
			}
		}
		for _, g := range gens {
			c2, l2 := cache.VerifC31FilterInfo(g.h)
			if !preserved(g.layout, l2) || int(c2)-int(g.count) != nIns {
				ev.Harness("the filter displaced or lost fingerprints although the occupancy prediction said no eviction was needed (history %v)", h)
			}
		}
		m.queue = append([]string{}, m.queue[nIns:]...)
		for _, id := range inserted {
			for i := range m.tr {
				if tid(i) == id {
					m.tr[i].mustDropped = true
					for _, g := range gens {
						m.tr[i].heldBy = append(m.tr[i].heldBy, g.h)
					}
				}
			}
		}
		for _, hd := range []any{post.Cur, post.Fut} {
			if hd != nil {
				if _, ok := m.capOf[hd]; !ok {
					// a generation created during this event. (The code as it is never creates one during a Resize; an
					// implementation that does gets the capacity in force after the event attributed to it, and what
					// the generation it replaced was holding is judged by the retention clause like any other loss.)
					m.capOf[hd] = dropCaps[m.d]
				}
			}
		}
		for _, hd := range []any{pre.Cur, pre.Fut, post.Cur, post.Fut} {
			if hd == nil {
				continue
			}
			if c, _ := cache.VerifC31FilterInfo(hd); c >= m.capOf[hd] {
				if !m.filled[hd] && last {
					r.Add("generation_filled_to_capacity", 1)
				}
				m.filled[hd] = true
				m.release()
			}
		}
		if last {
			if pre.Fut == nil && post.Fut != nil {
				r.Add("future_generation_started", 1)
			}
			if pre.Cur != post.Cur {
				r.Add("rotations", 1)
				if pre.Fut == nil {
					// DESIGN C31 P: load jumped past 0.5 and 0.99 between two Maintain calls, so the filter
					// rotated to a generation created in the same call: every dropped record is forgotten at
					// once. The filter WAS filled to capacity since those records, so the statement as
					// worded is not violated; counted for the record.
					r.Add("rotations_to_a_just_created_empty_generation", 1)
				}
			}
		}
		// --- judge the answer
		if asked {
			t := &m.tr[e.T]
			mustKept := t.keptEver
			for _, l := range m.lrus {
				mustKept = mustKept && l.has(e.T)
			}
			where := fmt.Sprintf("step %d %v answered %v", step, e, ans)
			kind := e.Op
			unfilledHolder := false
			for _, g := range t.heldBy {
				if !m.filled[g] {
					unfilledHolder = true
				}
			}
			if unfilledHolder && !(ans.found && !ans.kept) {
				return "", "", &seqx.Failure{Sig: "dropped:lost-although-a-generation-that-received-it-was-never-filled:" + kind,
					What: where + " although a filter generation that received its dropped record has never been filled to capacity (a not-yet-full generation was discarded: retention across rotation broken)"}
			}
			switch {
			case ans.found && !ans.kept: // "dropped"
				if !t.droppedEver {
					if cache.VerifC31FilterHas(pre.Cur, tid(e.T)) {
						return exclude("filter_false_positive")
					}
					return "", "", &seqx.Failure{Sig: "dropped:answered-for-a-trace-never-recorded-dropped:" + kind, What: where + " although the trace was never recorded as dropped and the filter does not contain it"}
				}
			case ans.found && ans.kept:
				if t.mustDropped {
					return "", "", &seqx.Failure{Sig: "dropped:kept-record-answered-instead:" + kind, What: where + " although its dropped record reached the filter and no filter generation has been filled to capacity since"}
				}
				if !t.keptEver {
					return "", "", &seqx.Failure{Sig: "kept:answered-for-a-trace-never-recorded-kept:" + kind, What: where}
				}
				if ans.rate != t.kept.rate || ans.reason != t.kept.reason {
					return "", "", &seqx.Failure{Sig: "kept:wrong-rate-or-reason:" + kind, What: fmt.Sprintf("%s, last recorded kept(%d,%s)", where, t.kept.rate, t.kept.reason)}
				}
			default: // not found
				if t.mustDropped {
					return "", "", &seqx.Failure{Sig: "dropped:forgotten-before-the-filter-was-full:" + kind, What: where + " although its dropped record reached the filter and no filter generation has been filled to capacity since"}
				}
				if mustKept {
					sig, hist := "kept:forgotten-within-capacity:", ""
					if resizes > 0 {
						// same clause of the oracle; the signature says that the capacity in force was set by a Resize
						// ("a resize keeps the newest of them up to the new capacity")
						sig = "kept:forgotten-within-the-capacity-set-by-a-resize:"
						hist = fmt.Sprintf("; built with KeptSize %d, then resized to %v", keptCaps[st.k], trail)
					}
					return "", "", &seqx.Failure{Sig: sig + kind, What: fmt.Sprintf("%s although it is among the %d most recently recorded/consulted kept decisions under every reading (kept LRU %v)%s", where, keptCaps[m.k], s.ctl.Kept(), hist)}
				}
			}
			// recency effect of the consultation, per reading
			for _, l := range m.lrus {
				if e.Op == "trace" && !l.traceBumps {
					continue
				}
				if ans.found && !ans.kept && !l.droppedAnswerBumps {
					continue
				}
				l.touch(e.T, false, 0)
			}
			cls := "free"
			if t.mustDropped {
				cls = "must-dropped"
			} else if mustKept && !t.droppedEver {
				cls = "must-kept"
			} else if mustKept {
				cls = "kept-or-dropped"
			}
			outcome = fmt.Sprintf("%s/%s/%s", e.Op, cls, strings.SplitN(ans.String(), "(", 2)[0])
			if last {
				r.Add("answers_"+cls, 1)
			}
		} else {
			outcome = e.Op
		}
		pre = post
	}
	// --- canonical state
	fin := pre
	now := s.clk.Now()
	var b bytes.Buffer
	fmt.Fprintf(&b, "K%dD%d|kept=%s|next=%d|q=%s|", m.k, m.d, strings.Join(s.ctl.Kept(), ","), fin.NextCap, strings.Join(m.queue, ","))
	if st.trail {
		fmt.Fprintf(&b, "trail=%v|", trail)
	}
	for _, hd := range []any{fin.Cur, fin.Fut} {
		if hd == nil {
			b.WriteString("gen:-|")
			continue
		}
		_, l := cache.VerifC31FilterInfo(hd)
		fmt.Fprintf(&b, "gen:%x/%d/%v|", l, m.capOf[hd], m.filled[hd])
	}
	// expired entries of the recently-dropped set behave alike (Contains is false, clean-up removes them)
	fmt.Fprintf(&b, "recent=%s|", strings.Join(s.ctl.Recent(now), ","))
	for i, t := range m.tr {
		// which LIVE generations received the record, and whether some generation that received it was
		// discarded before it was ever full (that promise can then never be released): both decide the
		// future verdicts of the retention-across-rotation clause
		held := ""
		lostUnfilled := false
		for _, g := range t.heldBy {
			switch g {
			case fin.Cur:
				held += "c"
			case fin.Fut:
				held += "f"
			default:
				if !m.filled[g] {
					lostUnfilled = true
				}
			}
		}
		fmt.Fprintf(&b, "%d:%v%v%v%v%s%v;", i, t.keptEver, t.kept, t.droppedEver, t.mustDropped, held, lostUnfilled)
	}
	for _, l := range m.lrus {
		fmt.Fprintf(&b, "%v", l.order)
	}
	sum := sha1.Sum(b.Bytes()) // the key is long; a 160-bit digest keeps the seen-set small
	return hex.EncodeToString(sum[:]), outcome, nil
}

// enabled builds the menu: trace IDs are introduced in index order, queries only name traces that
// have been recorded, the second rate/reason variant is offered for the first two traces only.
func enabled(nIDs int, h []event) []event {
	used := 0
	for _, e := range h {
		if (e.Op == "recK" || e.Op == "recD") && e.T+1 > used {
			used = e.T + 1
		}
	}
	lim := used + 1
	if lim > nIDs {
		lim = nIDs
	}
	var out []event
	for t := 0; t < lim; t++ {
		out = append(out, event{Op: "recK", T: t})
		if t < 2 {
			out = append(out, event{Op: "recK", T: t, V: 1})
		}
		out = append(out, event{Op: "recD", T: t})
	}
	for t := 0; t < used; t++ {
		out = append(out, event{Op: "trace", T: t}, event{Op: "span", T: t})
	}
	out = append(out, event{Op: "drain"}, event{Op: "maintain"}, event{Op: "fill"}, event{Op: "resizeK"}, event{Op: "resizeD"}, event{Op: "adv"})
	return out
}

// enabledReload is the menu of the reload-sequence family: kept records (IDs introduced in index order,
// the second rate/reason variant for the first trace only), both look-ups for every recorded trace, and -
// while fewer than maxReloads reloads have happened - a reload to EVERY configuration of the grid
// keptCaps x dropCaps, i.e. also to the one in force (a reload that changes nothing for the cache, such
// as a rules-only reload) and to any one that was in force earlier, including the start-up one.
func enabledReload(nIDs, maxReloads int, h []event) []event {
	used, reloads := 0, 0
	for _, e := range h {
		if e.Op == "recK" && e.T+1 > used {
			used = e.T + 1
		}
		if e.Op == "cfg" {
			reloads++
		}
	}
	lim := used + 1
	if lim > nIDs {
		lim = nIDs
	}
	var out []event
	for t := 0; t < lim; t++ {
		out = append(out, event{Op: "recK", T: t})
		if t == 0 {
			out = append(out, event{Op: "recK", T: t, V: 1})
		}
	}
	for t := 0; t < used; t++ {
		out = append(out, event{Op: "trace", T: t}, event{Op: "span", T: t})
	}
	if reloads < maxReloads {
		for k := range keptCaps {
			for d := range dropCaps {
				out = append(out, event{Op: "cfg", T: k, V: d})
			}
		}
	}
	return out
}

// reloadSequences: the resize clause quantified over SEQUENCES of reloads. The cache is built with every
// configuration of the grid in turn (so the start-up capacity is the larger as well as the smaller one),
// and up to maxReloads reloads to arbitrary grid configurations are interleaved with kept records and
// look-ups. Same oracle as everywhere else in this check: the K most recently recorded/consulted kept
// decisions (K = the capacity configured by the last reload, or at start-up if there was none) answer
// kept with the recorded rate and reason. Nothing is demanded about what a cache that was larger earlier
// may still remember.
func reloadSequences(r *ev.Run) {
	const nIDs, maxReloads = 4, 3
	depth := ev.Pick(r, 7, 8)
	if d := os.Getenv("VERIF_RELOAD_DEPTH"); d != "" {
		fmt.Sscan(d, &depth)
	}
	for k0 := range keptCaps {
		for d0 := range dropCaps {
			st := start{k: k0, d: d0, trail: true}
			seqx.Explore(r, seqx.Scenario[event]{
				Name:     fmt.Sprintf("reload-sequences/start(KeptSize=%d,DroppedSize=%d)", keptCaps[k0], dropCaps[d0]),
				Enabled:  func(h []event) []event { return enabledReload(nIDs, maxReloads, h) },
				Exec:     func(h []event) (string, string, *seqx.Failure) { return execFrom(r, st, nIDs, h) },
				Expand:   func(h []event) bool { _, ex := excluded.Load(skey(st, h)); return !ex },
				MaxDepth: depth, Workers: 16,
				NoMergeDepth: 2,
			})
		}
	}
	r.Set("bounds_reload_sequences", map[string]any{"start_configurations": "keptCaps x dropCaps (4)", "reload_targets": "keptCaps x dropCaps (4, including the configuration in force and the start-up one)",
		"max_reloads_per_history": maxReloads, "trace_ids": nIDs, "depth": depth, "kept_variants": "both for trace-1, the first for the others", "events": "record kept, CheckTrace, CheckSpan, reload"})
}

func main() {
	r := ev.New("C31", "model_checking")
	if p := os.Getenv("VERIF_DUMP"); p != "" {
		dumpF, _ = os.Create(p)
	}
	if p := os.Getenv("VERIF_PROF"); p != "" {
		f, _ := os.Create(p)
		pprof.StartCPUProfile(f)
	}
	if _, _, isShard := ev.ShardInfo(); isShard {
		concurrentPart(r) // worker process of the E3 part
	}
	nIDs := ev.Pick(r, 4, 6)
	if hs := os.Getenv("VERIF_HISTORY"); hs != "" {
		// debugging / replay aid: run one history, e.g. "fill;maintain;recD0;drain;resizeD;trace0"
		// VERIF_START="k,d" (indices) replays a history of the reload-sequence family; there cfgKD is a reload to
		// keptCaps[K], dropCaps[D], e.g. VERIF_START=1,0 VERIF_HISTORY="recK0;recK1;cfg00;cfg10;recK2;trace0"
		var h []event
		var st start
		if ss := os.Getenv("VERIF_START"); ss != "" {
			fmt.Sscanf(ss, "%d,%d", &st.k, &st.d)
			st.trail = true
		}
		for _, w := range strings.Split(hs, ";") {
			e := event{Op: strings.TrimRight(w, "0123456789")}
			if n := strings.TrimPrefix(w, e.Op); n != "" {
				fmt.Sscan(n, &e.T)
			}
			if e.Op == "cfg" {
				e.T, e.V = e.T/10, e.T%10
			}
			h = append(h, e)
		}
		c, o, f := execFrom(r, st, nIDs, h)
		_, ex := excluded.Load(skey(st, h))
		fmt.Printf("history %v\n canon=%q\n outcome=%q\n failure=%+v excluded=%v\n", h, c, o, f, ex)
		for i := 1; i <= len(h); i++ {
			if why, ex := excluded.Load(skey(st, h[:i])); ex {
				fmt.Printf(" prefix %d excluded: %v\n", i, why)
			}
		}
		os.Exit(0)
	}
	depth := ev.Pick(r, 7, 8)
	if d := os.Getenv("VERIF_DEPTH"); d != "" {
		fmt.Sscan(d, &depth)
	}
	if d := os.Getenv("VERIF_IDS"); d != "" {
		fmt.Sscan(d, &nIDs)
	}
	concurrentPart(r)     // the (cheap) E3 part first: a deadline under load then cuts the deep end of the BFS, not this
	tReload := time.Now() // reporting only (stderr), never part of a verdict
	reloadSequences(r)    // small; before the two large searches so that neither the deadline nor the heap guard cuts it
	fmt.Fprintf(os.Stderr, "C31: reload-sequence family took %v\n", time.Since(tReload).Round(time.Millisecond))
	seqx.Explore(r, seqx.Scenario[event]{
		Name:     "sentcache",
		Enabled:  func(h []event) []event { return enabled(nIDs, h) },
		Exec:     func(h []event) (string, string, *seqx.Failure) { return exec(r, nIDs, h) },
		Expand:   func(h []event) bool { _, ex := excluded.Load(hkey(h)); return !ex },
		MaxDepth: depth, Workers: 16,
		// every history of length <= 4 (quick) / 3 (thorough, whose deeper bound multiplies the unmerged states) is
		// executed whatever the canonical key says
		NoMergeDepth: ev.Pick(r, 3, 2),
	})
	// Directed family for the dropped side: only one trace ID and the events that move the two filter
	// generations (fill, maintain, drain, resize of the dropped capacity, clock), so that histories such as
	// "future generation started, record, resize, fill, rotate, look up" (9-10 events) are inside the bound.
	dd := ev.Pick(r, 9, 12)
	seqx.Explore(r, seqx.Scenario[event]{
		Name: "dropped-side",
		Enabled: func(h []event) []event {
			// trace 0 is the record under observation; `fill` adds three fillers, `topup` exactly one that fits
			out := []event{{Op: "recD", T: 0}, {Op: "fill"}, {Op: "topup"}, {Op: "maintain"}, {Op: "resizeD"}}
			for _, e := range h {
				if e.Op == "recD" && e.T == 0 {
					return append(out, event{Op: "trace", T: 0})
				}
			}
			return out
		},
		Exec:     func(h []event) (string, string, *seqx.Failure) { return exec(r, nIDs, h) },
		Expand:   func(h []event) bool { _, ex := excluded.Load(hkey(h)); return !ex },
		MaxDepth: dd, Workers: 16,
		// every history of length <= 5 (quick) / 4 (thorough) is executed whatever the canonical key says
		NoMergeDepth: ev.Pick(r, 4, 3),
	})
	r.Set("traces_validated_against_impl", r.Count("transitions"))
	for _, k := range []string{"excluded_filter_false_positive", "excluded_add_queue_overflow", "excluded_cuckoo_eviction"} {
		r.Add(k, 0)
	}
	r.Set("bounds", map[string]any{"trace_ids": nIDs, "depth": depth, "kept_capacity": fmt.Sprint(keptCaps), "dropped_capacity": fmt.Sprint(dropCaps) + " (8 and 4 filter slots)",
		"filler_batch": fillN, "kept_variants": fmt.Sprint(variants), "id_order": "trace-(i+1) is first recorded only after trace-i", "advance": "3s+1ns"})
	r.Assume("'consulted' is read in every way at once: a kept decision is guaranteed only if it is among the K most recent whether or not CheckTrace counts as a consultation and whether or not a consultation answered 'dropped' refreshes recency (4 LRU readings, intersection)")
	r.Assume("a dropped record counts from the moment it left the add queue (the queue is asynchronous by design); while it is only queued either answer is accepted, for CheckSpan as well as CheckTrace")
	r.Assume("retention across rotation (mechanism anchor 'two-generation filter', why_tests_cant 'retention across filter rotation'): in addition to the weak reading below, a dropped record must still be answered 'dropped' while any generation that received it has never been filled to capacity; this holds on the unchanged tree because Maintain only ever discards the full current generation")
	r.Assume("'filled to capacity since the record': some filter generation has, at or after the record, held at least as many entries as the DroppedSize configured when that generation was created; from then on either answer is accepted for every earlier record")
	r.Assume("branches with a cuckoo filter false positive, an add-queue overflow, or an insert that displaced stored fingerprints (library picks victims with runtime.fastrand) are skipped and counted as excluded_*")
	r.Assume("reload-sequence family: the per-worker kept capacity promised at any moment is the KeptSize of the last reload (of start-up if none), whatever was configured before; a reload to the configuration already in force or to an earlier one is a reload like any other. Its canonical state additionally contains the whole sequence of configurations applied, so histories with different reload sequences are never merged")
	r.Assume("canonical state = capacities, real kept LRU (order, rate, reason), both filter bucket layouts with their creation capacity, next capacity, add-queue contents, recently-dropped entries as offsets from now (expired ones merged), per-trace model flags, the four model LRU orders; filler IDs are chosen as a function of that state")
	pprof.StopCPUProfile()
	r.Finish()
}
