package main

// E3 part of C30: a liveness / readiness probe that runs WHILE a subsystem is reporting answers as the probe
// would have answered just before or just after that report - never with an answer from an earlier state.
//
// Threads (cooperative scheduler; every mutex operation of internal/health is a scheduling point; the tick body
// is extracted from the current source of the ticker loop, which itself stays parked as a daemon):
//
//	reporter:  Ready(other subsystem, true)          (takes the lock, changes nothing the probe depends on)
//	probe:     IsAlive() ; IsReady()
//	[ticker:   one tick body]
//
// from two initial states reached sequentially: "was dead, probed, reported again -> alive" and "was alive,
// probed, then timed out -> dead". Oracle: the probe's answers equal the answers of the same sequential state
// (the reporter does not change them; with the ticker thread either side of the tick is accepted).

import (
	"fmt"
	"time"

	hb "github.com/honeycombio/refinery/verifbridge/health"
	"github.com/jonboulle/clockwork"

	"verif/engine/ev"
	"verif/engine/vsched"
)

func concurrentPart(r *ev.Run) {
	bound := ev.Pick(r, 2, 3)
	vsched.SpawnPolicy["health.go"] = "daemon"
	type scen struct {
		Name      string
		Dead      bool // state when the threads start: subsystem x is dead (else alive again after having been dead)
		WithTick  bool
		WantAlive []bool // acceptable IsAlive answers
	}
	scens := []scen{
		{"alive-again-after-a-probe-saw-it-dead", false, false, []bool{true}},
		{"dead-after-a-probe-saw-it-alive", true, false, []bool{false}},
		{"alive-again-after-a-probe-saw-it-dead+tick", false, true, []bool{true}},
	}
	for _, sc := range scens {
		sc := sc
		var alive, ready bool
		var h = hb.VerifC30New(nil)
		e := &vsched.Explorer{Bound: bound, Stop: func() bool { return r.Expired("c30 concurrent") }, Setup: func() {
			h = hb.VerifC30New(clockwork.NewFakeClockAt(t0)) // the loop's ticker never fires: ticks are the extracted body
			if err := h.Start(); err != nil {
				ev.Harness("Health.Start: %v", err)
			}
			h.Register("x", 2*tickEvery)
			h.Register("y", 1000*time.Hour)
			h.Ready("x", true)
			h.Ready("y", true)
			if !h.IsAlive() {
				ev.Harness("c30 concurrent: not alive after both subsystems reported")
			}
			for i := 0; i < 3; i++ {
				h.VerifC30TickBody()
			}
			if sc.Dead {
				// the last probe saw everything alive (above); x has timed out since
			} else {
				if h.IsAlive() {
					ev.Harness("c30 concurrent: x should be dead after 3 silent ticks of a 2-tick timeout")
				}
				h.Ready("x", true) // reports again
			}
			vsched.Go("reporter", func() { h.Ready("y", true) })
			vsched.Go("probe", func() { alive = h.IsAlive(); ready = h.IsReady() })
			if sc.WithTick {
				vsched.Go("ticker", func() { h.VerifC30TickBody() })
			}
		}, Check: func(x *vsched.Exec) string {
			defer h.Stop()
			ok := false
			for _, w := range sc.WantAlive {
				ok = ok || alive == w
			}
			if !ok {
				return fmt.Sprintf("stale-liveness-answer: IsAlive() = %v while a subsystem was reporting; the state before and after that report both give %v (table %v)", alive, sc.WantAlive, hb.VerifC30State(h))
			}
			_ = ready
			r.Distinct("distinct_outcomes", fmt.Sprintf("conc:%s:%v", sc.Name, alive))
			return ""
		}}
		okRun := e.Explore()
		e.Report(r)
		r.Add("concurrent_scenarios", 1)
		if !okRun {
			r.Violation("concurrent:"+firstWordC30(e.Failure), sc.Name+": "+e.Failure, map[string]any{"scenario": sc.Name, "schedule": e.FailExec.Choices})
		}
	}
	r.Set("preemption_bound_completed", bound)
}

func firstWordC30(s string) string {
	for i, c := range s {
		if c == ':' || c == ' ' {
			return s[:i]
		}
	}
	return s
}
