// C30: liveness and readiness follow subsystem reports within one health tick.
//
// Engine E1 (seqx): breadth-first search over histories of register(s, timeout) / ready(s, flag) /
// unregister(s) / tick / advance(d) for two subsystems on a real, Start()ed internal/health.Health.
// The real ticker goroutine runs; it is driven through a harness clock whose ticker channel is
// unbuffered: a tick is delivered by a blocking send (returns when the loop has taken it), and the end
// of the loop body is observed when the loop re-evaluates `tick.Chan()` on re-entering its select - a
// rendezvous, no sleep or wall-clock timeout decides anything (a 30 s horizon only turns a hung
// rendezvous into a harness error). Ticks happen exactly every 500 ms of harness time; events that take
// no time may be ordered before or after a tick that is due at the same instant.
//
// Oracle = timed model from the statement, with "either answer accepted between the two bounds".
package main

import (
	"fmt"
	"os"
	"sort"
	"strings"
	"time"

	hb "github.com/honeycombio/refinery/verifbridge/health"
	"github.com/jonboulle/clockwork"

	"verif/engine/ev"
	"verif/engine/seqx"
)

var t0 = time.Date(2024, 1, 1, 0, 0, 0, 0, time.UTC)

var tickEvery = hb.VerifC30TickerTime()

// ---- harness clock ------------------------------------------------------------------------------------
type vclock struct {
	*clockwork.FakeClock
	tk *vticker
}

type vticker struct {
	c       chan time.Time // unbuffered: send returns when the loop took the tick
	entered chan struct{}  // the loop signals every (re-)entry into its select here
	d       time.Duration
}

func (t *vticker) Chan() <-chan time.Time {
	t.entered <- struct{}{}
	return t.c
}
func (t *vticker) Reset(d time.Duration) { t.d = d }
func (t *vticker) Stop()                 {}

func (c *vclock) NewTicker(d time.Duration) clockwork.Ticker {
	if c.tk.d != 0 {
		ev.Harness("Health created a second ticker")
	}
	c.tk.d = d
	return c.tk
}

const horizon = 30 * time.Second

func (c *vclock) awaitLoop(what string) {
	select {
	case <-c.tk.entered: // fast path
		return
	default:
	}
	tm := time.NewTimer(horizon)
	defer tm.Stop()
	select {
	case <-c.tk.entered:
	case <-tm.C:
		ev.Harness("rendezvous with the health ticker loop (%s) did not clear", what)
	}
}

func (c *vclock) fire() {
	tm := time.NewTimer(horizon)
	select {
	case c.tk.c <- c.Now():
	case <-tm.C:
		ev.Harness("health ticker loop did not take the tick")
	}
	tm.Stop()
	c.awaitLoop("end of tick body")
}

// ---- events ---------------------------------------------------------------------------------------------
type event struct {
	Op string // reg | ready | unreg | tick | adv
	S  string
	T  time.Duration // reg: timeout, adv: requested duration (cut at the next tick instant)
	B  bool
}

func (e event) String() string {
	switch e.Op {
	case "reg":
		return fmt.Sprintf("register(%s,%v)", e.S, e.T)
	case "ready":
		return fmt.Sprintf("ready(%s,%v)", e.S, e.B)
	case "unreg":
		return "unregister(" + e.S + ")"
	case "adv":
		return fmt.Sprintf("advance(%v)", e.T)
	}
	return e.Op
}

var subsystems = []string{"s1", "s2"}

// ---- timed reference model ----------------------------------------------------------------------------------
type sub struct {
	registered   bool
	unregistered bool // was registered, called Unregister, has not registered again
	ghostUnreg   bool // called Unregister without being registered (and has not registered since): is that "has unregistered"? left open
	timeout      time.Duration
	regAt        time.Time
	reported     bool // since the last registration
	lastReport   time.Time
	flag         bool
}

type verdict struct{ must, value bool }

func (v verdict) String() string {
	if !v.must {
		return "either"
	}
	return fmt.Sprint(v.value)
}

type model struct {
	subs map[string]*sub
}

func (m *model) names() []string {
	var n []string
	for k := range m.subs {
		n = append(n, k)
	}
	sort.Strings(n)
	return n
}

// silence since the last sign of life (report, or registration if none yet)
func (s *sub) silence(now time.Time) time.Duration {
	if s.reported {
		return now.Sub(s.lastReport)
	}
	return now.Sub(s.regAt)
}

func (m *model) expect(now time.Time) (alive, ready verdict, why string) {
	nReg := 0
	allSurelyAlive, someSurelyDead := true, false
	allReportedReady, anyUnreg, anyGhost := true, false, false
	var notes []string
	for _, n := range m.names() {
		s := m.subs[n]
		if s.unregistered {
			anyUnreg = true
		}
		if s.ghostUnreg {
			anyGhost = true
		}
		if !s.registered {
			continue
		}
		nReg++
		sil := s.silence(now)
		switch {
		case sil < s.timeout-tickEvery:
			notes = append(notes, fmt.Sprintf("%s silent %v < timeout-tick", n, sil))
		case s.reported && sil > s.timeout+tickEvery:
			someSurelyDead = true
			allSurelyAlive = false
			notes = append(notes, fmt.Sprintf("%s silent %v > timeout+tick", n, sil))
		default:
			allSurelyAlive = false
			notes = append(notes, fmt.Sprintf("%s silent %v: between the bounds", n, sil))
		}
		if !s.reported || !s.flag {
			allReportedReady = false
		}
	}
	switch {
	case someSurelyDead:
		alive = verdict{true, false}
	case nReg > 0 && allSurelyAlive:
		alive = verdict{true, true}
	}
	necessary := nReg > 0 && allReportedReady && !anyUnreg
	switch {
	case !necessary:
		ready = verdict{true, false}
	case allSurelyAlive && !anyGhost:
		ready = verdict{true, true}
	}
	return alive, ready, strings.Join(notes, "; ")
}

func clipSilence(d, timeout time.Duration) int64 {
	if d > timeout+tickEvery {
		return int64(timeout + tickEvery + 1)
	}
	return int64(d)
}

// ---- one execution -------------------------------------------------------------------------------------------
func nextTick(now time.Time) time.Time {
	el := now.Sub(t0)
	k := el / tickEvery
	return t0.Add((k + 1) * tickEvery)
}

// state that Enabled() needs: is a tick due right now? (pure function of the history)
func tickDue(h []event) bool {
	now, fired := replayTime(h)
	return now.Sub(t0) > 0 && now.Sub(t0)%tickEvery == 0 && !fired
}

// replayTime returns the harness time after h and whether the tick of that very instant was already delivered.
func replayTime(h []event) (time.Time, bool) {
	now := t0
	fired := true // no tick at t0 itself (the ticker is created at t0)
	for _, e := range h {
		switch e.Op {
		case "adv":
			nt := nextTickAfter(now, fired)
			d := e.T
			if now.Add(d).After(nt) {
				d = nt.Sub(now)
			}
			if d > 0 {
				now = now.Add(d)
				fired = false
			}
		case "tick":
			nt := nextTickAfter(now, fired)
			now = nt
			fired = true
		}
	}
	return now, fired
}

// the next instant at which a tick is (still) to be delivered
func nextTickAfter(now time.Time, fired bool) time.Time {
	el := now.Sub(t0)
	if el > 0 && el%tickEvery == 0 && !fired {
		return now
	}
	return nextTick(now)
}

func exec(r *ev.Run, h []event) (string, string, *seqx.Failure) {
	clk := &vclock{FakeClock: clockwork.NewFakeClockAt(t0), tk: &vticker{c: make(chan time.Time), entered: make(chan struct{})}}
	hl := hb.VerifC30New(clk)
	if err := hl.Start(); err != nil {
		ev.Harness("Health.Start: %v", err)
	}
	clk.awaitLoop("first entry into select")
	if clk.tk.d != tickEvery {
		ev.Harness("health ticker period is %v, harness assumes %v", clk.tk.d, tickEvery)
	}
	defer func() {
		// real Stop(): closes done and waits for the loop goroutine (which is parked in select)
		hl.Stop()
	}()
	m := &model{subs: map[string]*sub{}}
	fired := true
	outcome := "init"
	for step, e := range h {
		last := step == len(h)-1
		now := clk.Now()
		switch e.Op {
		case "reg":
			hl.Register(e.S, e.T)
			m.subs[e.S] = &sub{registered: true, timeout: e.T, regAt: now}
		case "ready":
			hl.Ready(e.S, e.B)
			if s := m.subs[e.S]; s != nil && s.registered {
				s.reported, s.lastReport, s.flag = true, now, e.B
			}
		case "unreg":
			hl.Unregister(e.S)
			if s := m.subs[e.S]; s != nil && s.registered {
				s.registered, s.unregistered = false, true
			} else if s == nil {
				// Unregister by a name that was never registered: whether that counts as "a subsystem has
				// unregistered" is left open - readiness is not judged positively while it lasts.
				m.subs[e.S] = &sub{ghostUnreg: true}
			}
		case "adv":
			nt := nextTickAfter(now, fired)
			d := e.T
			if now.Add(d).After(nt) {
				d = nt.Sub(now)
			}
			if d > 0 {
				clk.Advance(d)
				fired = false
			}
		case "tick":
			nt := nextTickAfter(now, fired)
			if d := nt.Sub(now); d > 0 {
				clk.Advance(d)
			}
			clk.fire()
			fired = true
		}
		now = clk.Now()
		gotAlive, gotReady := hl.IsAlive(), hl.IsReady()
		wantAlive, wantReady, why := m.expect(now)
		where := fmt.Sprintf("step %d %v at t0+%v", step, e, now.Sub(t0))
		if wantAlive.must && gotAlive != wantAlive.value {
			sig := "alive:reported-dead-although-every-subsystem-reports-in-time"
			if !wantAlive.value {
				sig = "alive:not-reported-dead-after-timeout-plus-tick"
			}
			return "", "", &seqx.Failure{Sig: sig, What: fmt.Sprintf("%s: IsAlive=%v, statement requires %v (%s)", where, gotAlive, wantAlive.value, why)}
		}
		if wantReady.must && gotReady != wantReady.value {
			sig := "ready:ready-without-the-necessary-conditions"
			if wantReady.value {
				sig = "ready:not-ready-although-all-registered-reported-ready-in-time"
			}
			return "", "", &seqx.Failure{Sig: sig, What: fmt.Sprintf("%s: IsReady=%v, statement requires %v (%s; table %v)", where, gotReady, wantReady.value, why, hb.VerifC30State(hl))}
		}
		outcome = fmt.Sprintf("%s/alive=%v(%v)/ready=%v(%v)", e.Op, gotAlive, wantAlive, gotReady, wantReady)
		if last {
			r.Distinct("distinct_alive_ready_verdict_pairs", fmt.Sprintf("%v%v|%v%v", gotAlive, wantAlive, gotReady, wantReady))
			if !wantAlive.must {
				r.Add("alive_between_bounds_either_accepted", 1)
			} else if wantAlive.value {
				r.Add("alive_must_true", 1)
			} else {
				r.Add("alive_must_false", 1)
			}
			if !wantReady.must {
				r.Add("ready_between_bounds_either_accepted", 1)
			} else if wantReady.value {
				r.Add("ready_must_true", 1)
			} else {
				r.Add("ready_must_false", 1)
			}
		}
	}
	// canonical state. Health never looks at subsystem names except as map keys, so the two subsystems are
	// interchangeable: the per-subsystem tuples are sorted (symmetry reduction).
	now := clk.Now()
	real := map[string]string{}
	for _, line := range hb.VerifC30State(hl) {
		name, rest, _ := strings.Cut(line, "{")
		real[name] = rest
	}
	var tuples []string
	for _, n := range subsystems {
		t := "real{" + real[n] + "|model:"
		if s := m.subs[n]; s != nil {
			t += fmt.Sprintf("%v,%v,%v,%d,%v,%v,", s.registered, s.unregistered, s.ghostUnreg, int64(s.timeout), s.reported, s.flag)
			if s.registered {
				t += fmt.Sprint(clipSilence(s.silence(now), s.timeout))
			}
		}
		tuples = append(tuples, t)
	}
	sort.Strings(tuples)
	phase := nextTickAfter(now, fired).Sub(now)
	canon := fmt.Sprintf("%d|%s", int64(phase), strings.Join(tuples, "#"))
	return canon, outcome, nil
}

func main() {
	r := ev.New("C30", "model_checking")
	concurrentPart(r) // E3 part: probes concurrent with reports (concurrent.go)
	timeouts := []time.Duration{400 * time.Millisecond, 500 * time.Millisecond, time.Second, 1250 * time.Millisecond}
	var zero []event // events that take no time
	for _, s := range subsystems {
		for _, t := range timeouts {
			zero = append(zero, event{Op: "reg", S: s, T: t})
		}
	}
	for _, s := range subsystems {
		zero = append(zero, event{Op: "ready", S: s, B: true}, event{Op: "ready", S: s, B: false})
	}
	for _, s := range subsystems {
		zero = append(zero, event{Op: "unreg", S: s})
	}
	timed := []event{{Op: "adv", T: 1}, {Op: "adv", T: 499 * time.Millisecond}, {Op: "adv", T: 500 * time.Millisecond}}
	tick := event{Op: "tick"}
	depth := ev.Pick(r, 8, 14)
	if d := os.Getenv("VERIF_DEPTH"); d != "" {
		fmt.Sscan(d, &depth)
	}
	seqx.Explore(r, seqx.Scenario[event]{
		Name: "health",
		Enabled: func(h []event) []event {
			out := []event{tick}
			out = append(out, zero...)
			if !tickDue(h) {
				out = append(out, timed...) // time cannot pass an instant at which a tick is still due
			}
			return out
		},
		Exec:     func(h []event) (string, string, *seqx.Failure) { return exec(r, h) },
		MaxDepth: depth, Workers: 16,
		// every history of length <= 4 (alphabet 18) is executed whatever the canonical key says
		NoMergeDepth: 3,
	})
	r.Set("traces_validated_against_impl", r.Count("transitions"))
	r.Set("bounds", map[string]any{"subsystems": subsystems, "timeouts": fmt.Sprint(timeouts), "advance": "1ns, 499ms, 500ms (cut at the next tick instant)", "tick": tickEvery.String(), "depth": depth})
	r.Assume("ticks are delivered exactly every 500 ms of harness time (no scheduling jitter); zero-time events at a tick instant may precede or follow the tick")
	r.Assume("liveness: a registered subsystem must be counted alive while (now - last report, or - registration if it has not reported yet) < timeout - tick; it must be counted dead only if it has reported since registration and has been silent > timeout + tick; in between, and for subsystems that never reported, either answer is accepted; IsAlive must be true if every registered subsystem must be alive and false if some must be dead; with no registered subsystem no liveness answer is required")
	r.Assume("Register() starts a new life: earlier reports and an earlier Unregister of the same name are forgotten ('no subsystem has unregistered' is read as 'none is currently unregistered'); reports of a subsystem that is not registered add no constraint; Unregister by a never-registered name leaves readiness open (either answer) until that name registers")
	r.Assume("readiness: necessary conditions exactly as stated; sufficiency is demanded only when additionally every registered subsystem is inside its must-be-alive window")
	r.Assume("canonical state = tick phase, per subsystem the real countdown row (timeout, time left, ready flag) and the model row (silence clipped beyond timeout+tick), rows sorted because Health is symmetric in subsystem names; the real `alives` map only de-duplicates log lines and is left out")
	r.Finish()
}
