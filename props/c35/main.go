// C35: concurrent components never race on shared state.
// Engine E3 in race mode: for every unordered pair of activities that run on different goroutines in
// the real wiring, every schedule with at most 1 (quick) / 2 (thorough) preemptions is executed under
// the cooperative scheduler in a -race build; the hand-off is invisible to the detector, so Go's
// happens-before race detector is the oracle inside each controlled schedule.
package main

import (
	"os"

	"verif/engine/ev"
)

func main() {
	r := ev.New("C35", "model_checking")
	bound := ev.Pick(r, 1, 2)
	jobs := allPairs()
	if _, _, isShard := ev.ShardInfo(); !isShard {
		p := raceLogPrefix()
		os.Setenv("VERIF_RACELOG", p)
		os.Setenv("GORACE", "log_path="+p+" halt_on_error=0 exitcode=0 history_size=2")
	}
	r.Sharded(16, func(si, sn int) { runPairs(r, jobs, si, sn, bound) })
	r.Set("preemption_bound_completed", bound)
	r.Set("activity_groups", len(groups))
	r.Set("traces_validated_against_impl", r.Count("executions"))
	r.Assume("oracle = Go race detector (happens-before) inside each controlled schedule; accesses ordered only by the scheduler's hand-off are reported because the baton is invisible to the detector")
	r.Assume("native channel operations are not scheduling points; interleavings are explored at sync/atomic operations of the rewritten packages")
	r.Finish()
}
