package main

import (
	"time"

	"github.com/honeycombio/refinery/collect"
	"github.com/honeycombio/refinery/config"
	"github.com/honeycombio/refinery/logger"
	"github.com/honeycombio/refinery/metrics"
	"github.com/honeycombio/refinery/sample"
	"github.com/honeycombio/refinery/types"
	peer "github.com/honeycombio/refinery/verifexport/peerx"
	"github.com/jonboulle/clockwork"
)

type nopHealth struct{}

func (nopHealth) Register(string, time.Duration) {}
func (nopHealth) Unregister(string)              {}
func (nopHealth) Ready(string, bool)             {}

type stressEnv struct{ s *collect.StressRelief }

type samplerEnv struct {
	f      *sample.SamplerFactory
	s1, s2 sample.Sampler // the samplers of two collector workers for one definition (they share the dynsampler only)
	mp     *peer.MockPeers
}

func mkTrace(id string) *types.Trace {
	tr := &types.Trace{TraceID: id}
	sp := &types.Span{TraceID: id, IsRoot: true, Event: &types.Event{Data: types.NewPayload(&config.MockConfig{}, map[string]any{"f": "v"})}}
	tr.AddSpan(sp)
	tr.RootSpan = sp
	return tr
}

func init() {
	// two operating points, so that every field Recalc can write is written by it in one of them:
	// monitor mode held on by a stressed peer (stayOnUntil, levels, reason) and always mode (stressed)
	for _, mode := range []string{"monitor", "always"} {
		mode := mode
		groups = append(groups, group{
			Name: "stress-relief-" + mode,
			Setup: func() any {
				cfg := &config.MockConfig{StressRelief: config.StressReliefConfig{Mode: mode, ActivationLevel: 80, DeactivationLevel: 50, SamplingRate: 10, MinimumActivationDuration: config.Duration(time.Second)}}
				m := metrics.NewMultiMetrics()
				m.Store("INCOMING_CAP", 100)
				s := &collect.StressRelief{RefineryMetrics: m, Config: cfg, Logger: &logger.NullLogger{}, Health: nopHealth{}, PubSub: stubPubSub{},
					Peer: peer.NewMockPeers([]string{"me"}, "me"), Clock: clockwork.NewFakeClockAt(time.Unix(1700000000, 0)), Done: make(chan struct{})}
				// Recalc has exactly one caller in Refinery, the monitor goroutine that Start() launches. The activity
				// "monitor.Recalc" below IS that caller, so Start's own loop is switched off: with both running, two
				// goroutines would be inside Recalc at once, which Refinery never does (it showed up as an intermittent
				// race report between the two on the unchanged tree when the fake ticker happened to fire).
				collect.VerifC35NoMonitorLoop(s)
				if err := s.Start(); err != nil {
					panic(err)
				}
				s.UpdateFromConfig()
				collect.VerifC35OnStressLevelUpdate(s, "peer1", 90)
				s.Recalc()
				if mode == "monitor" {
					// the next Recalc sees a calmer cluster: relief switches state (writes `stressed`)
					collect.VerifC35OnStressLevelUpdate(s, "peer1", 10)
					s.Clock.(*clockwork.FakeClock).Advance(2 * time.Second)
				}
				return &stressEnv{s}
			},
			Done: func(e any) { close(e.(*stressEnv).s.Done) },
			Acts: []activity{
				{"monitor.Recalc", "stress-monitor", func(e any) { e.(*stressEnv).s.Recalc() }},
				{"pubsub.onStressLevelUpdate", "*", func(e any) { collect.VerifC35OnStressLevelUpdate(e.(*stressEnv).s, "peer2", 70) }},
				{"router.Stressed+GetSampleRate", "*", func(e any) {
					s := e.(*stressEnv).s
					s.Stressed()
					s.GetSampleRate("abc")
				}},
				{"collector-monitor.UpdateFromConfig", "collector-monitor", func(e any) { e.(*stressEnv).s.UpdateFromConfig() }},
			},
		})
	}
	groups = append(groups, group{
		Name: "sampler-factory",
		Setup: func() any {
			cfg := &config.MockConfig{GetSamplerTypeVal: &config.TotalThroughputSamplerConfig{GoalThroughputPerSec: 100, UseClusterSize: true, FieldList: []string{"f"}}}
			mp := peer.NewMockPeers([]string{"a", "b"}, "a")
			f := &sample.SamplerFactory{Config: cfg, Logger: &logger.NullLogger{}, Metrics: &metrics.NullMetrics{}, Peers: mp}
			if err := f.Start(); err != nil {
				panic(err)
			}
			return &samplerEnv{f, f.GetSamplerImplementationForKey("env1"), f.GetSamplerImplementationForKey("env1"), mp}
		},
		Done: func(e any) { e.(*samplerEnv).f.Stop() },
		Acts: []activity{
			{"worker.GetSamplerImplementationForKey(same)", "*", func(e any) { e.(*samplerEnv).f.GetSamplerImplementationForKey("env1") }},
			{"worker.GetSamplerImplementationForKey(other)", "*", func(e any) { e.(*samplerEnv).f.GetSamplerImplementationForKey("env2") }},
			{"worker1.GetSampleRate", "worker1", func(e any) { e.(*samplerEnv).s1.GetSampleRate(mkTrace("t1")) }},
			{"worker2.GetSampleRate", "worker2", func(e any) { e.(*samplerEnv).s2.GetSampleRate(mkTrace("t2")) }},
			{"peers-callback.updatePeerCounts", "peers-callback", func(e any) { e.(*samplerEnv).mp.UpdatePeers([]string{"a", "b", "c"}) }},
			{"collector-monitor.ClearDynsamplers", "collector-monitor", func(e any) { e.(*samplerEnv).f.ClearDynsamplers() }},
		},
	})
}
