package main

import (
	"time"

	"github.com/honeycombio/refinery/config"

	"verif/fix/e3node"
)

// The started collector: its worker loops, sendTraces loop, monitor loop, the decision-cache
// goroutines and the upstream transmission's dispatcher all run as scheduled service threads
// (channel-aware scheduling); the activities below are what OTHER goroutines do to it in the real
// wiring. Each pair of activities therefore also races against every loop body that reacts to it.
type collEnv struct{ n *e3node.Node }

func init() {
	mk := func(stress bool) func() any {
		return func() any {
			e3node.SpawnAsThreads()
			o := e3node.Options{Workers: 2}
			n := e3node.Build(o)
			return &collEnv{n}
		}
	}
	groups = append(groups, group{
		Name:    "started-collector",
		Setup:   mk(false),
		Started: func(e any) { must(e.(*collEnv).n.Start()) },
		Stopped: func(e any) { must(e.(*collEnv).n.Stop()) },
		Acts: []activity{
			{"router.AddSpan(root)", "*", func(e any) { e.(*collEnv).n.Coll.AddSpan(e3node.Span("t1", "a", true)) }},
			{"router.AddSpan(child)+AddSpanFromPeer", "*", func(e any) {
				n := e.(*collEnv).n
				n.Coll.AddSpan(e3node.Span("t2", "b", false))
				n.Coll.AddSpanFromPeer(e3node.Span("t2", "c", false))
			}},
			{"router.ProcessSpanImmediately", "*", func(e any) { e.(*collEnv).n.Coll.ProcessSpanImmediately(e3node.Span("t3", "d", true)) }},
			{"router.Stressed+GetStressedSampleRate", "*", func(e any) {
				n := e.(*collEnv).n
				n.Coll.Stressed()
				n.Coll.GetStressedSampleRate("t1")
			}},
			{"clock.tick(100ms)x3", "clock", func(e any) {
				n := e.(*collEnv).n
				for i := 0; i < 3; i++ {
					n.Clk.Advance(100 * time.Millisecond)
				}
			}},
			{"clock.tick(1s)", "clock", func(e any) { e.(*collEnv).n.Clk.Advance(time.Second) }},
			{"config.reload-callback", "config-reload", func(e any) {
				n := e.(*collEnv).n
				n.Cfg.Mux.Lock()
				n.Cfg.GetSamplerTypeVal = &config.DeterministicSamplerConfig{SampleRate: 2}
				n.Cfg.SampleCache.KeptSize = 50
				n.Cfg.AddRuleReasonToTrace = false
				n.Cfg.Mux.Unlock()
				for _, cb := range n.Cfg.Callbacks {
					cb("h1", "h2")
				}
			}},
			{"peers-callback.updatePeerCounts", "peers-callback", func(e any) { e.(*collEnv).n.MP.UpdatePeers([]string{"api1", "api2"}) }},
		},
	})
}

func must(err error) {
	if err != nil {
		panic(err)
	}
}
