package main

import (
	"bufio"
	"fmt"
	"os"
	"path/filepath"
	"regexp"
	"sort"
	"strings"

	"verif/engine/ev"
	"verif/engine/vsched"
	"verif/shim/vsync"
)

// An activity is one short real-code operation; Goroutine names the goroutine that runs it in the real
// wiring (pairs on the same goroutine are excluded; "*" = may run on several goroutines at once,
// e.g. HTTP handlers, so it is also paired with itself).
type activity struct {
	Name      string
	Goroutine string
	Run       func(env any)
}

type group struct {
	Name  string
	Setup func() any // fresh objects; must create everything BEFORE threads are registered
	Acts  []activity
	Done  func(env any) // teardown after the execution (stop daemons)
	// Started/Stopped, when set, run inside the schedule on a main thread: Started before the two
	// activities are spawned (it starts the component's real loops as service threads), Stopped after
	// both returned (graceful stop, so the loops drain and exit under the scheduler too).
	Started func(env any)
	Stopped func(env any)
}

var groups []group

type pairJob struct {
	g    *group
	a, b int
}

func allPairs() []pairJob {
	// groups whose loops are really started are by far the most expensive: they go last, so that a
	// deadline cuts those and not the cheap component groups
	sort.SliceStable(groups, func(i, j int) bool { return groups[i].Started == nil && groups[j].Started != nil })
	var out []pairJob
	for gi := range groups {
		g := &groups[gi]
		if only := os.Getenv("C35_GROUP"); only != "" && only != g.Name {
			continue // experiments / replay: restrict to one activity group
		}
		for i := range g.Acts {
			for j := i; j < len(g.Acts); j++ {
				ai, aj := g.Acts[i], g.Acts[j]
				if i == j && ai.Goroutine != "*" {
					continue
				}
				if i != j && ai.Goroutine == aj.Goroutine && ai.Goroutine != "*" {
					continue
				}
				out = append(out, pairJob{g, i, j})
			}
		}
	}
	return out
}

var reRace = regexp.MustCompile(`(?s)WARNING: DATA RACE\n(.*?)\n==================`)

// frame picks the innermost frame of the code under verification from one access stack.
func frame(stack string) string {
	sc := bufio.NewScanner(strings.NewReader(stack))
	first := ""
	for sc.Scan() {
		l := sc.Text()
		if !strings.HasPrefix(l, "  ") || strings.HasPrefix(l, "      ") {
			continue
		}
		fn := strings.TrimSpace(l)
		fn = strings.TrimSuffix(fn, "()")
		if first == "" {
			first = fn
		}
		if strings.Contains(fn, "github.com/honeycombio/refinery/") {
			fn = strings.TrimPrefix(fn, "github.com/honeycombio/refinery/")
			// drop closure suffixes so line shifts do not change the signature
			fn = regexp.MustCompile(`\.func\d+(\.\d+)*$`).ReplaceAllString(fn, "")
			return fn
		}
	}
	return "non-refinery:" + first
}

func raceSignature(block string) string {
	// split into the two accesses: "<Read|Write> at ... by goroutine N:" and "Previous <read|write> at ..."
	parts := regexp.MustCompile(`(?m)^(?:Read|Write|Previous read|Previous write|Atomic read|Atomic write|Previous atomic read|Previous atomic write) at .*$`).Split(block, -1)
	if len(parts) < 3 {
		return "race:unparsed"
	}
	cut := func(s string) string {
		if i := strings.Index(s, "\nGoroutine "); i >= 0 {
			s = s[:i]
		}
		return s
	}
	a, b := frame(cut(parts[1])), frame(cut(parts[2]))
	fs := []string{a, b}
	sort.Strings(fs)
	return "race:" + fs[0] + "|" + fs[1]
}

// runPairs explores every pair job of this shard under the race detector.
func runPairs(r *ev.Run, jobs []pairJob, si, sn, bound int) {
	logPrefix := os.Getenv("VERIF_RACELOG")
	logFile := fmt.Sprintf("%s.%d", logPrefix, os.Getpid())
	var offset int64
	newReports := func() []string {
		st, err := os.Stat(logFile)
		if err != nil || st.Size() == offset {
			return nil
		}
		f, err := os.Open(logFile)
		if err != nil {
			return nil
		}
		defer f.Close()
		buf := make([]byte, st.Size()-offset)
		f.ReadAt(buf, offset)
		offset = st.Size()
		var out []string
		for _, m := range reRace.FindAllStringSubmatch(string(buf), -1) {
			out = append(out, m[1])
		}
		return out
	}
	for ji, j := range jobs {
		if ji%sn != si {
			continue
		}
		if r.Expired("pairs") {
			return
		}
		a, b := j.g.Acts[j.a], j.g.Acts[j.b]
		pairName := j.g.Name + ":" + a.Name + "||" + b.Name
		var env any
		// groups that start real service loops have far too many free switches for preemption bounding:
		// they are explored with deviation bounding (every departure from the canonical choice costs)
		e := &vsched.Explorer{Bound: bound, AllDeviationsCost: j.g.Started != nil, MaxExecs: 20000, Stop: func() bool { return r.Expired("pair " + pairName) }, Setup: func() {
			env = j.g.Setup()
			if j.g.Started == nil {
				vsched.Go(a.Name, func() { a.Run(env) })
				vsched.Go(b.Name, func() { b.Run(env) })
				return
			}
			vsched.Go("main", func() {
				j.g.Started(env)
				var wg vsync.WaitGroup
				wg.Add(2)
				vsched.Go(a.Name, func() { defer wg.Done(); a.Run(env) })
				vsched.Go(b.Name, func() { defer wg.Done(); b.Run(env) })
				wg.Wait()
				if j.g.Stopped != nil {
					j.g.Stopped(env)
				}
			})
		}, Check: func(x *vsched.Exec) string {
			if j.g.Done != nil {
				j.g.Done(env)
			}
			for _, rep := range newReports() {
				sig := raceSignature(rep)
				r.Violation(sig, "data race detected in pair "+pairName+"\n"+trim(rep, 3000), map[string]any{"pair": pairName, "schedule": x.Choices, "report": rep})
			}
			return ""
		}}
		ok := e.Explore()
		e.Report(r)
		r.Add("pairs", 1)
		r.Distinct("pairs_with_contention", fmt.Sprintf("%s:%v", pairName, e.Stats.ContendedPoints > 0))
		if e.Stats.ContendedPoints == 0 {
			r.Add("pairs_without_contended_point", 1)
		}
		if ji%7 == 0 {
			r.Sample(map[string]any{"pair": pairName, "executions": e.Stats.Executions, "max_points": e.Stats.MaxPoints, "bound": bound})
		}
		if !ok {
			// deadlock or panic inside the pair: also a finding for C35's "under any interleaving" (reported distinctly)
			r.Violation("exec-failure:"+pairName, e.Failure, map[string]any{"pair": pairName, "schedule": e.FailExec.Choices})
		}
	}
}

func trim(s string, n int) string {
	if len(s) > n {
		return s[:n] + "…"
	}
	return s
}

func raceLogPrefix() string {
	w := os.Getenv("VERIF_WORK")
	if w == "" {
		w = "/verif/.work/c35"
	}
	d := filepath.Join(w, "racelogs")
	os.RemoveAll(d)
	os.MkdirAll(d, 0o755)
	return filepath.Join(d, "race")
}
