package main

import (
	"time"

	"github.com/honeycombio/refinery/route"
)

type routerEnv struct{ r *route.Router }

func init() {
	// the router's API-key -> environment cache, entered by every request handler goroutine. Two operating
	// points: the entry for the key is live (both lookups hit) and the entry has expired (each lookup misses and
	// refreshes the entry under the write lock).
	for _, ttl := range []time.Duration{time.Hour, time.Nanosecond} {
		ttl := ttl
		name := "router-environment-cache-live-entry"
		if ttl == time.Nanosecond {
			name = "router-environment-cache-expired-entry"
		}
		groups = append(groups, group{
			Name: name,
			Setup: func() any {
				r := &route.Router{}
				r.SetEnvironmentCache(ttl, func(key string) (string, error) { return "env-of-" + key, nil })
				r.VerifC35EnvGet("key1") // the entry exists (and, with the 1 ns TTL, has expired by now)
				time.Sleep(time.Microsecond)
				return &routerEnv{r}
			},
			Done: func(e any) {},
			Acts: []activity{
				{"handler.environment-lookup(same key)", "*", func(e any) { e.(*routerEnv).r.VerifC35EnvGet("key1") }},
				{"handler.environment-lookup(other key)", "*", func(e any) { e.(*routerEnv).r.VerifC35EnvGet("key2") }},
			},
		})
	}
}
