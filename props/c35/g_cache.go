package main

import (
	"time"

	"github.com/honeycombio/refinery/collect/cache"
	"github.com/honeycombio/refinery/config"
	"github.com/honeycombio/refinery/metrics"
	"github.com/honeycombio/refinery/types"
	"github.com/jonboulle/clockwork"

	"verif/engine/vsched"
	"verif/shim/vtime"
)

type keptTrace struct {
	id     string
	rate   uint
	reason uint
}

func (k *keptTrace) ID() string              { return k.id }
func (k *keptTrace) SampleRate() uint        { return k.rate }
func (k *keptTrace) DescendantCount() uint32 { return 3 }
func (k *keptTrace) SpanEventCount() uint32  { return 1 }
func (k *keptTrace) SpanLinkCount() uint32   { return 0 }
func (k *keptTrace) SpanCount() uint32       { return 2 }
func (k *keptTrace) SetKeptReason(r uint)    { k.reason = r }
func (k *keptTrace) KeptReason() uint        { return k.reason }

type cacheEnv struct {
	c   cache.TraceSentCache
	cfg config.SampleCacheConfig
}

func span(id string) *types.Span {
	return &types.Span{TraceID: id, Event: &types.Event{Data: types.NewPayload(&config.MockConfig{}, map[string]any{"a": 1})}}
}

func init() {
	// the decision cache of one collector worker: used by the worker goroutine, by router goroutines
	// (ProcessSpanImmediately under stress relief), by its own monitor and drainer goroutines, and by Stop.
	groups = append(groups, group{
		Name: "decision-cache",
		Setup: func() any {
			// the cache's own goroutines run as scheduled service threads (their fake-clock tickers never fire)
			vsched.SpawnPolicy["cuckooSentCache.go"] = "thread"
			vsched.SpawnPolicy["cuckoo.go"] = "thread"
			vtime.Clock = clockwork.NewFakeClockAt(time.Unix(1700000000, 0))
			cfg := config.SampleCacheConfig{KeptSize: 4, DroppedSize: 100, SizeCheckInterval: config.Duration(10 * time.Second), WorkerCount: 1}
			c, err := cache.NewCuckooSentCache(cfg, &metrics.NullMetrics{})
			if err != nil {
				panic(err)
			}
			c.Record(&keptTrace{id: "k1", rate: 2}, true, "r1")
			c.Record(&keptTrace{id: "d1"}, false, "")
			cache.VerifC35Drain(cache.VerifC35Dropped(c))
			return &cacheEnv{c: c, cfg: cfg}
		},
		Done: func(env any) { env.(*cacheEnv).c.Stop() },
		Acts: []activity{
			{"worker.Record(kept)", "worker", func(e any) { e.(*cacheEnv).c.Record(&keptTrace{id: "k2", rate: 3}, true, "r2") }},
			{"worker.Record(dropped)", "worker", func(e any) { e.(*cacheEnv).c.Record(&keptTrace{id: "d2"}, false, "") }},
			{"worker.CheckSpan(kept)", "worker", func(e any) { e.(*cacheEnv).c.CheckSpan(span("k1")) }},
			{"worker.CheckSpan(dropped)", "worker", func(e any) { e.(*cacheEnv).c.CheckSpan(span("d1")) }},
			{"worker.Resize", "worker", func(e any) {
				cfg := e.(*cacheEnv).cfg
				cfg.KeptSize = 2
				cfg.DroppedSize = 50
				e.(*cacheEnv).c.Resize(cfg)
			}},
			{"router.CheckSpan(kept)", "*", func(e any) { e.(*cacheEnv).c.CheckSpan(span("k1")) }},
			{"router.CheckSpan(unknown)+Record", "*", func(e any) {
				c := e.(*cacheEnv).c
				if _, _, found := c.CheckSpan(span("n1")); !found {
					c.Record(&keptTrace{id: "n1", rate: 5}, true, "stress")
				}
			}},
			{"router.CheckSpan(dropped)", "*", func(e any) { e.(*cacheEnv).c.CheckSpan(span("d1")) }},
			{"monitor.tick", "cache-monitor", func(e any) { cache.VerifC35MonitorTick(e.(*cacheEnv).c) }},
			{"drainer.tick", "cache-drainer", func(e any) { cache.VerifC35Drain(cache.VerifC35Dropped(e.(*cacheEnv).c)) }},
		},
	})
}
