package main

import (
	"context"
	"time"

	"github.com/honeycombio/refinery/config"
	"github.com/honeycombio/refinery/logger"
	"github.com/honeycombio/refinery/pubsub"
	"github.com/honeycombio/refinery/sharder"
	peer "github.com/honeycombio/refinery/verifexport/peerx"
	"github.com/jonboulle/clockwork"
)

type stubPubSub struct{}

type stubSub struct{}

func (stubSub) Close() {}

func (stubPubSub) Publish(ctx context.Context, topic, message string) error { return nil }
func (stubPubSub) Subscribe(ctx context.Context, topic string, cb pubsub.SubscriptionCallback) pubsub.Subscription {
	return stubSub{}
}
func (stubPubSub) FormatTopic(t string) string { return t }
func (stubPubSub) Close()                      {}
func (stubPubSub) Start() error                { return nil }
func (stubPubSub) Stop() error                 { return nil }

type peersEnv struct {
	p *peer.RedisPubsubPeers
	s *sharder.DeterministicSharder
}

func init() {
	groups = append(groups, group{
		Name: "redis-peers+sharder",
		Setup: func() any {
			cfg := &config.MockConfig{GetPeerListenAddrVal: "0.0.0.0:8081", RedisIdentifier: "me", PeerTimeout: time.Second}
			p := &peer.RedisPubsubPeers{Config: cfg, PubSub: stubPubSub{}, Clock: clockwork.NewFakeClockAt(time.Unix(1700000000, 0)), InstanceID: "id-me", Done: make(chan struct{})}
			if err := p.Start(); err != nil {
				panic(err)
			}
			peer.VerifC35Listen(p, peer.VerifC35Msg(true, "http://b:8081", "id-b"))
			s := &sharder.DeterministicSharder{Config: cfg, Logger: &logger.NullLogger{}, Peers: p}
			if err := s.Start(); err != nil { // registers the reload callback, loads the list, finds self
				panic(err)
			}
			return &peersEnv{p, s}
		},
		Acts: []activity{
			{"pubsub.listen(register c)", "*", func(e any) {
				peer.VerifC35Listen(e.(*peersEnv).p, peer.VerifC35Msg(true, "http://c:8081", "id-c"))
			}},
			{"pubsub.listen(unregister b)", "*", func(e any) {
				peer.VerifC35Listen(e.(*peersEnv).p, peer.VerifC35Msg(false, "http://b:8081", "id-b"))
			}},
			{"GetPeers", "*", func(e any) { e.(*peersEnv).p.GetPeers() }},
			{"startup.RegisterUpdatedPeersCallback", "startup", func(e any) { e.(*peersEnv).p.RegisterUpdatedPeersCallback(func() {}) }},
			{"ready-loop.peer-report", "peers-ready-loop", func(e any) { peer.VerifC35PeerReport(e.(*peersEnv).p) }},
			{"router.WhichShard+MyShard", "*", func(e any) {
				s := e.(*peersEnv).s
				s.WhichShard("abc123")
				s.MyShard()
			}},
			{"peers-callback.loadPeerList", "peers-callback", func(e any) { sharder.VerifC35LoadPeerList(e.(*peersEnv).s) }},
		},
	})
}
