package main

import (
	"fmt"
	"os"
	"path/filepath"
	"sync/atomic"

	"github.com/honeycombio/refinery/config"
)

type cfgEnv struct {
	c   config.Config
	dir string
}

var cfgSeq atomic.Int64

func writeCfg(dir string, dryRun bool, rate int) {
	os.WriteFile(filepath.Join(dir, "config.yaml"), []byte(fmt.Sprintf("General:\n  ConfigurationVersion: 2\nDebugging:\n  DryRun: %v\n", dryRun)), 0o644)
	os.WriteFile(filepath.Join(dir, "rules.yaml"), []byte(fmt.Sprintf("RulesVersion: 2\nSamplers:\n  __default__:\n    DeterministicSampler:\n      SampleRate: %d\n", rate)), 0o644)
}

func init() {
	groups = append(groups, group{
		Name: "file-config",
		Setup: func() any {
			w := os.Getenv("VERIF_WORK")
			if w == "" {
				w = "/verif/.work/c35"
			}
			dir := filepath.Join(w, fmt.Sprintf("cfg_%d", os.Getpid()))
			os.MkdirAll(dir, 0o755)
			writeCfg(dir, false, 1)
			c, err := config.NewConfig(&config.CmdEnv{ConfigLocations: []string{filepath.Join(dir, "config.yaml")}, RulesLocations: []string{filepath.Join(dir, "rules.yaml")}})
			if err != nil {
				panic(err)
			}
			c.RegisterReloadCallback(func(a, b string) {})
			writeCfg(dir, true, 2) // the files changed on disk: the next Reload applies them
			return &cfgEnv{c, dir}
		},
		Acts: []activity{
			{"configwatcher.monitor→Reload", "configwatcher-monitor", func(e any) { e.(*cfgEnv).c.Reload() }},
			{"pubsub-listener→Reload", "*", func(e any) { e.(*cfgEnv).c.Reload() }},
			{"getters", "*", func(e any) {
				c := e.(*cfgEnv).c
				c.GetIsDryRun()
				c.GetTracesConfig()
				c.GetSamplerConfigForDestName("x")
				c.GetAllSamplerRules()
				c.DetermineSamplerKey("abc", "env", "ds")
				c.GetAdditionalAttributes()
			}},
			{"GetHashes", "*", func(e any) { e.(*cfgEnv).c.GetHashes() }},
			{"opamp.GetConfigMetadata", "opamp-agent", func(e any) { e.(*cfgEnv).c.GetConfigMetadata() }},
			{"startup.RegisterReloadCallback", "startup", func(e any) { e.(*cfgEnv).c.RegisterReloadCallback(func(a, b string) {}) }},
		},
	})
}
