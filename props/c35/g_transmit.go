package main

import (
	"bytes"
	"context"
	"io"
	"net/http"
	"time"

	"github.com/honeycombio/refinery/config"
	"github.com/honeycombio/refinery/logger"
	"github.com/honeycombio/refinery/metrics"
	"github.com/honeycombio/refinery/transmit"
	"github.com/honeycombio/refinery/types"
	"github.com/jonboulle/clockwork"
)

type okRT struct{}

func (okRT) RoundTrip(r *http.Request) (*http.Response, error) {
	if r.Body != nil {
		io.Copy(io.Discard, r.Body)
		r.Body.Close()
	}
	return &http.Response{StatusCode: 200, Header: http.Header{"Content-Type": []string{"application/json"}},
		Body: io.NopCloser(bytes.NewReader([]byte(`[{"status":202},{"status":202},{"status":202},{"status":202}]`)))}, nil
}

type txEnv struct {
	d   *transmit.DirectTransmission
	clk *clockwork.FakeClock
}

func mkEvent(host, ds string) *types.Event {
	return &types.Event{Context: context.Background(), APIHost: host, APIKey: "k", Dataset: ds, SampleRate: 1,
		Timestamp: time.Unix(1700000000, 0), Data: types.NewPayload(&config.MockConfig{}, map[string]any{"f": 1})}
}

func init() {
	groups = append(groups, group{
		Name: "direct-transmission",
		Setup: func() any {
			clk := clockwork.NewFakeClockAt(time.Unix(1700000000, 0))
			d := transmit.NewDirectTransmission(types.TransmitTypeUpstream, nil, 3, 400*time.Millisecond, time.Second, true, nil)
			d.Clock = clk
			d.Logger = &logger.NullLogger{}
			d.Metrics = &metrics.NullMetrics{}
			d.Config = &config.MockConfig{}
			if err := d.Start(); err != nil {
				panic(err)
			}
			transmit.VerifC35SetRoundTripper(d, okRT{})
			d.EnqueueEvent(mkEvent("http://a", "ds1")) // a pending batch for destination a/ds1
			clk.Advance(500 * time.Millisecond)        // … which is now stale (the parked dispatcher's tickers are never read)
			return &txEnv{d, clk}
		},
		Done: func(e any) { e.(*txEnv).d.Stop() },
		Acts: []activity{
			{"EnqueueEvent(existing batch)", "*", func(e any) { e.(*txEnv).d.EnqueueEvent(mkEvent("http://a", "ds1")) }},
			{"EnqueueEvent(new destination)", "*", func(e any) { e.(*txEnv).d.EnqueueEvent(mkEvent("http://a", "ds2")) }},
			{"EnqueueEvent(fills batch)", "*", func(e any) {
				e.(*txEnv).d.EnqueueEvent(mkEvent("http://a", "ds1"))
				e.(*txEnv).d.EnqueueEvent(mkEvent("http://a", "ds1"))
			}},
			{"dispatcher.batch-tick", "transmit-dispatcher", func(e any) { e.(*txEnv).d.VerifC35DispatchTick() }},
			{"dispatcher.metrics-tick", "transmit-dispatcher", func(e any) { e.(*txEnv).d.VerifC35MetricsTick() }},
		},
	})
}
