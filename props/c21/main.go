// C21: trace identity and root status follow the ID-field configuration.
// Engine E2 (enumx) on fix/pipeline (single-node cluster, so every span reaches the capturing collector):
// TraceNames/ParentNames configurations × every combination of values of meta.trace_id, three trace-ID
// fields, two parent-ID fields and meta.signal_type × every order of the identity keys (× placements of the
// other keys; all orders of all keys in the thorough tier) × ingestion path: msgpack batch (str keys, bin keys),
// JSON batch (these three decide from the wire bytes, in wire order), JSON single event and msgpack single
// event (these two decide from a Go map). On the map paths Go's random iteration order is owned: check.conf
// rewrites the range-over-map in types/payload.go into a loop over hooks/types VerifMapKeys, whose order the
// harness dictates per event (every permutation is one the runtime can produce).
// Oracle = the statement: belongs / trace ID / root computed by a reference written from the statement, compared
// with the TraceID and IsRoot of the span handed to the collector (or with "went upstream" = not part of a trace).
package main

import (
	"fmt"
	"sort"
	"strings"
	"sync"

	rconfig "github.com/honeycombio/refinery/config"
	"github.com/honeycombio/refinery/types"

	"verif/engine/enumx"
	"verif/engine/ev"
	"verif/fix/codec"
	"verif/fix/pipeline"
)

const apiKey = "0123456789abcdef0123456789abcdef"

var (
	tNames = []string{"trace.trace_id", "traceId", "trace_id"}
	pNames = []string{"trace.parent_id", "parentId"}
)

// value domain of one field: absent / empty string / its own non-empty string / non-string
type val int

const (
	absent val = iota
	empty
	str
	nonstr
)

func (v val) String() string { return [...]string{"absent", `""`, "str", "int"}[v] }

type slot struct {
	key    string
	strVal string
	dom    []val
}

// the seven slots; identity slots first
var slots = []slot{
	{"meta.trace_id", "M", []val{absent, empty, str, nonstr}},
	{tNames[0], "A", []val{absent, empty, str, nonstr}},
	{tNames[1], "B", []val{absent, empty, str, nonstr}},
	{tNames[2], "C", []val{absent, str}},
	{pNames[0], "p", []val{absent, empty, str, nonstr}},
	{pNames[1], "q", []val{absent, str}},
	{"meta.signal_type", "", []val{absent, str, nonstr}}, // str = "log"; nonstr here = the string "trace" (another signal type)
}

const nIdentity = 4

type caseT struct {
	vals  [7]val
	order []int // slot indices of the present keys, in wire / iteration order
}

// config: TraceNames, ParentNames and K = the sampler's key fields (the fields the wire-bytes extraction memoizes
// for the sampler; they may overlap with the ID fields: a dynamic sampler keyed on a trace-ID field, a rule
// condition on trace.parent_id)
type config struct{ T, P, K []string }

func buildConfigs(thorough bool) []config {
	ts := [][]string{{tNames[0]}, {tNames[0], tNames[1]}, {tNames[1], tNames[0]}, {tNames[0], tNames[1], tNames[2]}, {tNames[2], tNames[1], tNames[0]}, {}}
	ps := [][]string{{pNames[0], pNames[1]}, {pNames[0]}, {}}
	var out []config
	for _, t := range ts {
		for pi, p := range ps {
			// quick: every TraceNames list with both parent fields, plus the two other ParentNames lists with one TraceNames list
			if thorough || pi == 0 || len(t) == 2 && t[0] == tNames[0] {
				out = append(out, config{t, p, nil})
			}
		}
	}
	// sampler key fields that are ID fields as well (and one that is not)
	ks := [][]string{{pNames[0]}, {tNames[0]}, {pNames[1], tNames[1], "case"}, {"meta.trace_id", "meta.signal_type"}}
	for _, k := range ks {
		out = append(out, config{ts[1], ps[0], k})
		if thorough {
			out = append(out, config{ts[4], ps[0], k}, config{ts[3], ps[1], k})
		}
	}
	return out
}

var paths = []string{"msgpack-batch/str-keys", "msgpack-batch/bin-keys", "json-batch", "json-single(map)", "msgpack-single(map)"}

func isMapPath(p string) bool { return strings.HasSuffix(p, "(map)") }

func (c caseT) value(i int) (codec.Value, bool) {
	s := slots[i]
	switch c.vals[i] {
	case absent:
		return codec.Value{}, false
	case empty:
		return codec.Str(""), true
	case str:
		if s.key == "meta.signal_type" {
			return codec.Str("log"), true
		}
		return codec.Str(s.strVal), true
	}
	if s.key == "meta.signal_type" {
		return codec.Str("trace"), true
	}
	return codec.Int(7), true
}

func (c caseT) describe() map[string]any {
	fields := []string{}
	for _, i := range c.order {
		v, _ := c.value(i)
		fields = append(fields, slots[i].key+"="+v.Canon())
	}
	return map[string]any{"fields_in_order": fields}
}

// reference model, written from the statement
func reference(cfg config, c caseT) (belongs bool, id string, root bool) {
	nonEmpty := func(key string) (string, bool) {
		for i, s := range slots {
			if s.key == key {
				v, ok := c.value(i)
				if ok && v.Kind == codec.KStr && v.S != "" {
					return v.S, true
				}
			}
		}
		return "", false
	}
	if s, ok := nonEmpty("meta.trace_id"); ok {
		belongs, id = true, s
	} else {
		for _, n := range cfg.T {
			if s, ok := nonEmpty(n); ok {
				belongs, id = true, s
				break
			}
		}
	}
	hasParent := false
	for _, n := range cfg.P {
		if _, ok := nonEmpty(n); ok {
			hasParent = true
		}
	}
	sig, _ := nonEmpty("meta.signal_type")
	root = belongs && !hasParent && sig != "log"
	return
}

func buildCases(thorough bool) []caseT {
	var out []caseT
	dims := make([]int, len(slots))
	for i, s := range slots {
		dims[i] = len(s.dom)
	}
	idx := make([]int, len(slots))
	var rec func(d int)
	rec = func(d int) {
		if d == len(slots) {
			var c caseT
			var ident, others []int
			for i := range slots {
				c.vals[i] = slots[i].dom[idx[i]]
				if c.vals[i] != absent {
					if i < nIdentity {
						ident = append(ident, i)
					} else {
						others = append(others, i)
					}
				}
			}
			if len(ident)+len(others) == 0 {
				return // an event needs at least one field besides the bookkeeping ones; covered by C19 (no ID fields)
			}
			emit := func(order []int) {
				cc := c
				cc.order = append([]int(nil), order...)
				out = append(out, cc)
			}
			if thorough && len(ident)+len(others) <= 6 {
				all := append(append([]int{}, ident...), others...)
				for _, p := range enumx.Perms(len(all)) {
					o := make([]int, len(all))
					for i, x := range p {
						o[i] = all[x]
					}
					emit(o)
				}
				return
			}
			for _, p := range enumx.Perms(len(ident)) {
				io := make([]int, len(ident))
				for i, x := range p {
					io[i] = ident[x]
				}
				if len(others) == 0 || len(io) == 0 {
					emit(append(append([]int{}, others...), io...))
					continue
				}
				emit(append(append([]int{}, others...), io...))                    // others first
				emit(append(append([]int{}, io...), others...))                    // others last
				emit(append(append(append([]int{}, io[0]), others...), io[1:]...)) // others after the first identity key
			}
			return
		}
		for i := 0; i < dims[d]; i++ {
			idx[d] = i
			rec(d + 1)
		}
	}
	rec(0)
	return out
}

func (c caseT) event(caseNo int, path string) codec.Event {
	e := codec.Event{SampleRate: 1}
	var keys []string
	for _, i := range c.order {
		v, _ := c.value(i)
		f := codec.F(slots[i].key, v)
		f.KeyBin = path == "msgpack-batch/bin-keys"
		e.Data = append(e.Data, f)
		keys = append(keys, slots[i].key)
	}
	e.Data = append(e.Data, codec.F("case", codec.Int(int64(caseNo))))
	if isMapPath(path) {
		e.Data = append(e.Data, codec.F(types.VerifOrderField, codec.Str(strings.Join(keys, ","))))
	}
	return e
}

type outcome struct {
	seen    int
	belongs bool
	id      string
	root    bool
}

type failure struct {
	cfg    config
	c      caseT
	path   string
	aspect string
	want   string
	got    string
}

func num(v any) (int, bool) {
	switch x := v.(type) {
	case int64:
		return int(x), true
	case uint64:
		return int(x), true
	case float64:
		return int(x), true
	case int:
		return x, true
	}
	return 0, false
}

func main() {
	r := ev.New("C21", "exploration")
	cases := buildCases(r.Thorough())
	configs := buildConfigs(r.Thorough())
	workers := 16
	pool := make(chan *pipeline.Node, workers)
	for i := 0; i < workers; i++ {
		pool <- pipeline.New(pipeline.Options{Peers: []string{}, MaxBatchSize: 4096})
	}

	// is the map-order rewrite active in this build?
	{
		n := <-pool
		before := types.VerifMapKeysCalls()
		n.Do(pipeline.Incoming, codec.SingleEvent("c21", apiKey, codec.CTJSON, codec.Event{Data: []codec.Field{codec.F("x", codec.Int(1))}}))
		n.Reset()
		pool <- n
		if types.VerifMapKeysCalls() == before {
			r.Set("map_order_owned", false)
			r.Assume("map-order rewrite NOT active in this build (no range over memoizedFields found): on the map paths only inputs whose statement answer cannot depend on iteration order were evaluated")
		} else {
			r.Set("map_order_owned", true)
		}
	}
	owned := types.VerifMapKeysCalls() > 0

	const chunk = 400
	type job struct {
		cfg    int
		path   string
		lo, hi int
	}
	var jobs []job
	for ci := range configs {
		for _, p := range paths {
			for lo := 0; lo < len(cases); lo += chunk {
				hi := lo + chunk
				if hi > len(cases) {
					hi = len(cases)
				}
				jobs = append(jobs, job{ci, p, lo, hi})
			}
		}
	}

	var mu sync.Mutex
	fails := map[string][]failure{}
	failCount := map[string]int{}
	var total, skipped int64
	keyOf := func(f failure) string {
		return fmt.Sprintf("%02d|%s|%s|%v", len(f.c.order), f.path, ev.J(f.c.describe()), f.cfg)
	}

	enumx.Each(r, "identity", []int{len(jobs)}, workers, func(idx []int) {
		n := <-pool
		defer func() { pool <- n }()
		jb := jobs[idx[0]]
		cfg := configs[jb.cfg]
		n.Cfg.Mux.Lock()
		n.Cfg.TraceIdFieldNames, n.Cfg.ParentIdFieldNames = cfg.T, cfg.P
		n.Cfg.GetSamplerTypeVal = &rconfig.DynamicSamplerConfig{SampleRate: 1, FieldList: cfg.K}
		n.Cfg.Mux.Unlock()

		var active []int
		for i := jb.lo; i < jb.hi; i++ {
			if isMapPath(jb.path) && !owned {
				// restricted mode: skip inputs whose answer could depend on iteration order
				nonEmptyT, emptyMeta := 0, cases[i].vals[0] == empty
				for si := 1; si <= 3; si++ {
					for _, tn := range cfg.T {
						if slots[si].key == tn && cases[i].vals[si] == str {
							nonEmptyT++
						}
					}
				}
				if nonEmptyT >= 2 || (emptyMeta && nonEmptyT >= 1) {
					continue
				}
			}
			active = append(active, i)
		}
		mu.Lock()
		skipped += int64(jb.hi - jb.lo - len(active))
		mu.Unlock()
		if len(active) == 0 {
			return
		}
		rejected := ""
		switch jb.path {
		case "json-single(map)", "msgpack-single(map)":
			ct := codec.CTJSON
			if jb.path == "msgpack-single(map)" {
				ct = codec.CTMsgpack
			}
			for _, i := range active {
				resp := n.Do(pipeline.Incoming, codec.SingleEvent("c21", apiKey, ct, cases[i].event(i, jb.path)))
				if resp.Status != 200 && rejected == "" {
					rejected = fmt.Sprintf("case %d: %d %s", i, resp.Status, resp.Body)
				}
			}
		default:
			evs := make([]codec.Event, len(active))
			for k, i := range active {
				evs[k] = cases[i].event(i, jb.path)
			}
			ct := codec.CTMsgpack
			if jb.path == "json-batch" {
				ct = codec.CTJSON
			}
			resp := n.Do(pipeline.Incoming, codec.Batch("c21", apiKey, ct, evs...))
			if resp.Status != 200 {
				rejected = fmt.Sprintf("batch: %d %s", resp.Status, resp.Body)
			} else {
				for k, st := range resp.BatchStatuses() {
					if st != 202 && rejected == "" {
						rejected = fmt.Sprintf("case %d: per-event status %d", active[k], st)
					}
				}
			}
		}
		n.Flush()
		got := map[int]*outcome{}
		for _, rec := range n.Collector.Records() {
			if ci, ok := num(rec.Data["case"]); ok {
				o := got[ci]
				if o == nil {
					o = &outcome{}
					got[ci] = o
				}
				o.seen++
				o.belongs, o.id, o.root = true, rec.TraceID, rec.IsRoot
			}
		}
		for _, s := range n.Sent() {
			if cv, ok := s.Event.Field("case"); ok {
				ci, _ := num(cv.Native())
				o := got[ci]
				if o == nil {
					o = &outcome{}
					got[ci] = o
				}
				o.seen++
			}
		}
		probs := n.DecodeProblems()
		n.Net.Reset()
		n.Collector.Reset()
		if rejected != "" {
			r.Violation("rejected:"+jb.path, "a well-formed event was rejected: "+rejected, map[string]any{"path": jb.path, "config": cfg})
			return
		}
		if len(probs) > 0 {
			r.Violation("undecodable-output:"+jb.path, probs[0], map[string]any{"path": jb.path})
			return
		}
		pathClass := "wire-bytes"
		if isMapPath(jb.path) {
			pathClass = "map"
		}
		localDistinct := map[string]struct{}{}
		defer func() {
			for k := range localDistinct {
				r.Distinct("distinct_nontrivial", k)
			}
		}()
		for _, i := range active {
			c := cases[i]
			wb, wid, wroot := reference(cfg, c)
			o := got[i]
			if o == nil || o.seen != 1 {
				seen := 0
				if o != nil {
					seen = o.seen
				}
				r.Violation("lost-or-duplicated:"+jb.path, fmt.Sprintf("event observed %d times (collector + upstream)", seen), map[string]any{"path": jb.path, "config": cfg, "event": c.describe()})
				continue
			}
			// input class (what makes the case special), for the signature
			nonEmptyT := 0
			for si := 1; si <= 3; si++ {
				for _, tn := range cfg.T {
					if slots[si].key == tn && c.vals[si] == str {
						nonEmptyT++
					}
				}
			}
			class := "single-id-source"
			switch {
			case nonEmptyT >= 2 && c.vals[0] == empty:
				class = "several-trace-fields+empty-meta.trace_id"
			case nonEmptyT >= 2 && c.vals[0] != str:
				class = "several-configured-trace-fields-set"
			case c.vals[0] == empty && nonEmptyT >= 1:
				class = "empty-meta.trace_id-next-to-trace-field"
			}
			var f *failure
			switch {
			case o.belongs != wb:
				f = &failure{aspect: "belongs", want: fmt.Sprint(wb), got: fmt.Sprint(o.belongs)}
			case wb && o.id != wid:
				f = &failure{aspect: "trace-id", want: wid, got: o.id}
			case wb && o.root != wroot:
				f = &failure{aspect: "root", want: fmt.Sprint(wroot), got: fmt.Sprint(o.root)}
			}
			if wb {
				localDistinct[fmt.Sprintf("%s|id=%s|root=%v|%s", pathClass, wid, wroot, class)] = struct{}{}
			} else {
				localDistinct[pathClass+"|not-a-trace|"+class] = struct{}{}
			}
			if f != nil {
				f.cfg, f.c, f.path = cfg, c, jb.path
				sig := fmt.Sprintf("%s:%s:%s", f.aspect, class, pathClass)
				mu.Lock()
				failCount[sig]++
				fails[sig] = append(fails[sig], *f)
				if len(fails[sig]) > 64 {
					sort.Slice(fails[sig], func(a, b int) bool { return keyOf(fails[sig][a]) < keyOf(fails[sig][b]) })
					fails[sig] = fails[sig][:4]
				}
				mu.Unlock()
			}
		}
		mu.Lock()
		total += int64(len(active))
		mu.Unlock()
	})
	for i := 0; i < workers; i++ {
		(<-pool).Close()
	}
	r.Add("evaluations", total-r.Count("evaluations"))
	r.Set("skipped_order_sensitive_on_unowned_map_path", skipped)

	var sigs []string
	for s := range fails {
		sigs = append(sigs, s)
	}
	sort.Strings(sigs)
	counts := map[string]int{}
	for _, sig := range sigs {
		fs := fails[sig]
		sort.Slice(fs, func(a, b int) bool { return keyOf(fs[a]) < keyOf(fs[b]) })
		m := fs[0]
		counts[sig] = failCount[sig]
		r.Violation(sig, fmt.Sprintf("TraceNames=%v ParentNames=%v, event %v via %s: %s is %q, the statement requires %q (%d cases of this class fail)",
			m.cfg.T, m.cfg.P, m.c.describe()["fields_in_order"], m.path, m.aspect, m.got, m.want, failCount[sig]),
			map[string]any{"TraceNames": m.cfg.T, "ParentNames": m.cfg.P, "event": m.c.describe(), "path": m.path, "aspect": m.aspect, "got": m.got, "want": m.want})
	}
	r.Set("failing_cases_per_class", counts)
	r.Set("rule", "for every configuration × field-value combination × key order × path: (belongs, trace ID, root) of the span handed to the collector — or 'sent upstream' = not part of a trace — equals the reference computed from the statement")
	r.Set("bounds", map[string]any{"configs": len(configs), "cases_per_config_and_path": len(cases), "paths": paths,
		"values": "meta.trace_id/trace fields/parent field: absent, \"\", own non-empty string, int 7; third trace field and second parent field: absent or non-empty; meta.signal_type: absent, log, trace",
		"orders": ev.Pick(r, "every permutation of the identity keys (meta.trace_id + trace fields) × {other keys first, last, after the first identity key}", "every permutation of all present keys (≤6 keys), else as quick")})
	r.Sample(map[string]any{"example_case": cases[len(cases)/2].describe(), "jobs": len(jobs)})
	r.Assume("'meta.trace_id if present' is read as 'if it holds a non-empty string' (the first sentence defines membership by non-empty strings; an empty meta.trace_id cannot be the ID of an event that belongs to a trace)")
	r.Assume("TraceNames and ParentNames lists are disjoint (a field that is both a trace-ID and a parent-ID field makes the statement self-contradictory)")
	r.Assume("a non-string value is represented by the integer 7 (JSON number / msgpack int); bin-typed values are not strings and are not enumerated")
	r.Assume("single-node cluster so that every span reaches the (capturing) collector where TraceID and IsRoot are observed; routing is C19's subject")
	r.Assume("map paths: iteration order of Payload.memoizedFields is dictated per event through the verif.order field (rewrite of range-over-map, DESIGN §2.4); every dictated order is one Go's runtime can produce for that map")
	r.Finish()
}
