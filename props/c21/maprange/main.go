// Command maprange rewrites, in one Go source file, every `for K, V := range <expr>.memoizedFields { BODY }`
// into `for _, K := range VerifMapKeys(<expr>.memoizedFields) { V := <expr>.memoizedFields[K]; BODY }`
// so that the iteration order of Payload.memoizedFields is owned by the harness (hooks/types/zz_verif_maporder.go).
// It never fails on a file without such loops (prints rewritten=0): the check then notices at run time that the
// hook is never called and restricts itself to order-independent inputs on the map paths.
package main

import (
	"bytes"
	"flag"
	"fmt"
	"go/ast"
	"go/parser"
	"go/printer"
	"go/token"
	"os"
)

func main() {
	in := flag.String("in", "", "source file")
	out := flag.String("out", "", "output file")
	field := flag.String("field", "memoizedFields", "map field whose range loops are rewritten")
	flag.Parse()
	fset := token.NewFileSet()
	f, err := parser.ParseFile(fset, *in, nil, parser.ParseComments)
	if err != nil {
		fmt.Fprintln(os.Stderr, err)
		os.Exit(1)
	}
	n := 0
	ast.Inspect(f, func(nd ast.Node) bool {
		rs, ok := nd.(*ast.RangeStmt)
		if !ok || rs.Tok != token.DEFINE {
			return true
		}
		sel, ok := rs.X.(*ast.SelectorExpr)
		if !ok || sel.Sel.Name != *field {
			return true
		}
		n++
		keyName := fmt.Sprintf("_vk%d", n)
		if id, ok := rs.Key.(*ast.Ident); ok && id.Name != "_" {
			keyName = id.Name
		}
		mapExpr := rs.X
		var pre []ast.Stmt
		if id, ok := rs.Value.(*ast.Ident); ok && id.Name != "_" {
			pre = append(pre, &ast.AssignStmt{Lhs: []ast.Expr{ast.NewIdent(id.Name)}, Tok: token.DEFINE,
				Rhs: []ast.Expr{&ast.IndexExpr{X: mapExpr, Index: ast.NewIdent(keyName)}}})
		}
		rs.Key = ast.NewIdent("_")
		rs.Value = ast.NewIdent(keyName)
		rs.X = &ast.CallExpr{Fun: ast.NewIdent("VerifMapKeys"), Args: []ast.Expr{mapExpr}}
		rs.Body.List = append(pre, rs.Body.List...)
		return true
	})
	var buf bytes.Buffer
	if err := printer.Fprint(&buf, fset, f); err != nil {
		fmt.Fprintln(os.Stderr, err)
		os.Exit(1)
	}
	if err := os.WriteFile(*out, buf.Bytes(), 0o644); err != nil {
		fmt.Fprintln(os.Stderr, err)
		os.Exit(1)
	}
	fmt.Printf("maprange: %s -> %s rewritten=%d\n", *in, *out, n)
}
