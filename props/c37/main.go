// C37: unhandled paths are proxied to Honeycomb faithfully (route/proxy.go).
// Engine E2 (enumx) on fix/pipeline: method x path x query x request body x request header set x upstream
// status x upstream header set x upstream body x listener. The client request is built from HTTP/1.1 wire
// text with net/http's server-side parser and served by the real mux of a real route.Router; the real
// Router.proxy runs with its real http.Client, behind which sits an in-memory "Honeycomb API" (fakeAPI) that
// (1) serialises the outgoing request with net/http's own wire writer (Request.Write, what the real Transport
// uses) and parses it back as a server would — that is "what upstream sees" — and (2) answers with a scripted
// HTTP/1.1 response text parsed by http.ReadResponse, so multi-line headers, HEAD/204 framing etc. are real.
// Oracle (from the statement): upstream sees the same method, request-target (path+query), body and header
// values plus X-Forwarded-For; the client sees the upstream status, headers and body unchanged.
package main

import (
	"bufio"
	"bytes"
	"crypto/tls"
	"fmt"
	"io"
	"net/http"
	"net/http/httptest"
	"net/textproto"
	"sort"
	"strings"
	"sync"

	"github.com/honeycombio/refinery/route"

	"verif/engine/enumx"
	"verif/engine/ev"
	"verif/fix/pipeline"
)

const (
	clientIP   = "192.0.2.7"
	clientAddr = clientIP + ":40123"
	apiHost    = "api.hny.test"
)

// ------------------------------------------------------------------------------------------------
// domains

var methods = []string{"GET", "POST", "PUT", "DELETE", "PATCH", "HEAD", "OPTIONS"}

type pathCase struct {
	Path string
	// HandledFor lists the methods for which Refinery answers this path itself (then the case is not in scope)
	HandledFor []string
}

var paths = []pathCase{
	{"/1/markers/x", nil},
	{"/1/auth", nil}, // also what Refinery itself asks for environment look-ups; from a client it is just another path
	{"/x%2Fy", nil},  // escaped slash: must stay escaped (RFC 3986: %2F is not equivalent to /)
	{"/1/events/ds", []string{"POST"}},
	{"/", nil},
	{"/1/markers/sp%20ace%3Fq", nil}, // escaped space and escaped question mark
}

var queries = []string{"", "a=1&b=%20"}

type bodyCase struct {
	Name    string
	Data    []byte
	Chunked bool // sent with Transfer-Encoding: chunked (no Content-Length: net/http reports length -1)
}

func bigBody(seed byte) []byte {
	b := make([]byte, 1<<20+17)
	x := uint32(seed) + 1
	for i := range b {
		x = x*1664525 + 1013904223
		b[i] = byte(x >> 24)
	}
	return b
}

var reqBodies = []bodyCase{{Name: "empty"}, {Name: "small", Data: []byte(`{"message":"deploy","type":"marker"}`)}, {Name: "1MiB", Data: bigBody(1)},
	{Name: "small-chunked", Data: []byte(`{"message":"deploy","type":"marker"}`), Chunked: true}}

var binary256 = func() []byte {
	b := make([]byte, 256)
	for i := range b {
		b[i] = byte(i)
	}
	return b
}()

var upBodies = []bodyCase{{Name: "empty"}, {Name: "small", Data: []byte(`{"id":"abc","ok":true}`)}, {Name: "binary", Data: binary256}, {Name: "1MiB", Data: bigBody(2)}}

type hdrSet struct {
	Name  string
	Lines []string
}

var reqHdrSets = []hdrSet{
	{"single", []string{"X-Honeycomb-Team: k3y", "Content-Type: application/json"}},
	{"multi-valued", []string{"X-Honeycomb-Team: k3y", "X-Multi: a", "X-Multi: b", "Accept: text/html, application/json;q=0.9", "User-Agent: libhoney-test/1.0", "Cookie: a=1; b=2"}},
	{"xff-one", []string{"X-Honeycomb-Team: k3y", "X-Forwarded-For: 203.0.113.9"}},
	{"xff-list", []string{"X-Forwarded-For: 203.0.113.9, 198.51.100.7", "User-Agent: curl/8"}},
	{"xff-two-lines", []string{"X-Forwarded-For: 203.0.113.9", "X-Honeycomb-Team: k3y", "X-Forwarded-For: 198.51.100.7"}},
	{"hop-by-hop", []string{"X-Honeycomb-Team: k3y", "Connection: keep-alive, X-Hop", "X-Hop: 1", "Keep-Alive: timeout=5", "TE: trailers", "Upgrade: h2c", "Proxy-Authorization: Basic eHl6", "X-End-To-End: stays"}},
}

var upHdrSets = []hdrSet{
	{"single", []string{"Content-Type: application/json"}},
	{"multi-valued", []string{"Content-Type: text/plain; charset=utf-8", "X-Multi: a", "X-Multi: b", "Cache-Control: no-cache, no-store", "x-lower-case-name: v"}},
	{"no-content-type", []string{"X-Honeycomb-Trace: 1;trace_id=abc,parent_id=def"}},
	{"msgpack+cors", []string{"Content-Type: application/msgpack", "Access-Control-Allow-Origin: https://ui.hny.test", "Ratelimit: limit=100, remaining=50, reset=60", "Vary: Origin"}},
}

type statusCase struct {
	Code     int
	Location string
}

var statuses = []statusCase{{200, ""}, {201, ""}, {204, ""}, {301, "https://ui.hny.test/moved/here?x=1"}, {404, ""}, {500, ""}, {307, "/1/elsewhere"}}

// hop-by-hop header names (RFC 7230 §6.1) + framing headers: HTTP itself forces these to differ per hop
var hopByHop = map[string]bool{"Connection": true, "Keep-Alive": true, "Proxy-Authenticate": true, "Proxy-Authorization": true,
	"Te": true, "Trailer": true, "Transfer-Encoding": true, "Upgrade": true, "Proxy-Connection": true}

// ------------------------------------------------------------------------------------------------
// the in-memory Honeycomb API

type seenReq struct {
	Method, URI, Host, Scheme string
	Header                    http.Header
	Body                      []byte
}

type answer struct {
	Status int
	Lines  []string
	Body   []byte
}

type fakeAPI struct {
	mu   sync.Mutex
	seen []seenReq
	ans  answer
}

func (f *fakeAPI) RoundTrip(req *http.Request) (*http.Response, error) {
	var wire bytes.Buffer
	wire.Grow(int(req.ContentLength) + 1024)
	if err := req.Write(&wire); err != nil {
		return nil, fmt.Errorf("fakeAPI: cannot serialise request: %w", err)
	}
	sr, err := http.ReadRequest(bufio.NewReaderSize(&wire, 1024))
	if err != nil {
		return nil, fmt.Errorf("fakeAPI: serialised request does not parse: %w", err)
	}
	body, _ := io.ReadAll(sr.Body)
	f.mu.Lock()
	f.seen = append(f.seen, seenReq{Method: sr.Method, URI: sr.RequestURI, Host: sr.Host, Scheme: req.URL.Scheme, Header: sr.Header, Body: body})
	first := len(f.seen) == 1
	a := f.ans
	f.mu.Unlock()
	if !first {
		// anything after the first request of a case can only be a redirect being followed (or a retry)
		a = answer{Status: 200, Lines: []string{"Content-Type: text/plain", "X-Followed: yes"}, Body: []byte("FOLLOWED-REDIRECT-TARGET")}
	}
	var raw bytes.Buffer
	raw.Grow(len(a.Body) + 512)
	fmt.Fprintf(&raw, "HTTP/1.1 %d %s\r\n", a.Status, http.StatusText(a.Status))
	for _, l := range a.Lines {
		raw.WriteString(l + "\r\n")
	}
	noBody := a.Status == 204 || a.Status == 304
	switch {
	case noBody:
	case req.Method == "HEAD":
		fmt.Fprintf(&raw, "Content-Length: %d\r\n", len(a.Body))
	default:
		fmt.Fprintf(&raw, "Content-Length: %d\r\n", len(a.Body))
	}
	raw.WriteString("Date: Wed, 09 Jul 2031 23:59:58 GMT\r\n\r\n")
	if !noBody && req.Method != "HEAD" {
		raw.Write(a.Body)
	}
	return http.ReadResponse(bufio.NewReaderSize(&raw, 1024), req)
}

func (f *fakeAPI) arm(a answer) { f.mu.Lock(); f.seen, f.ans = nil, a; f.mu.Unlock() }
func (f *fakeAPI) taken() []seenReq {
	f.mu.Lock()
	defer f.mu.Unlock()
	return f.seen
}

type world struct {
	n    *pipeline.Node
	api  *fakeAPI
	host string // the API host the configuration names at the moment
}

const apiHost2 = "api2.hny.test" // Network.HoneycombAPI after the live reload of block D

// reloadAPIHost: Network.HoneycombAPI is reloadable; the running configuration now names another host.
func (w *world) reloadAPIHost() {
	if w.host == apiHost2 {
		return
	}
	w.n.Cfg.Mux.Lock()
	w.n.Cfg.GetHoneycombAPIVal = "http://" + apiHost2
	w.n.Cfg.Mux.Unlock()
	w.n.Cfg.Reload() // fires the reload callbacks, as a real reload does
	w.host = apiHost2
}

func newWorld() *world {
	w := &world{n: pipeline.New(pipeline.Options{}), api: &fakeAPI{}, host: apiHost}
	// a real http.Transport in front (its request validation stays in the path), the fake API registered as the
	// protocol implementation — the same construction fix/pipeline uses for MemNet.
	tr := &http.Transport{TLSNextProto: map[string]func(string, *tls.Conn) http.RoundTripper{}}
	tr.RegisterProtocol("http", w.api)
	tr.RegisterProtocol("https", w.api)
	for _, rr := range w.n.Routers {
		pc := route.VerifProxyClient(rr)
		if pc == nil {
			ev.Harness("router has no proxy client after LnS")
		}
		pc.Timeout = 0 // in-memory: the 10 s wall-clock timeout must not be able to decide anything
		pc.Transport = tr
	}
	return w
}

// ------------------------------------------------------------------------------------------------
// helpers

func parseLines(lines []string) http.Header {
	h := http.Header{}
	for _, l := range lines {
		i := strings.Index(l, ":")
		k := textproto.CanonicalMIMEHeaderKey(l[:i])
		h[k] = append(h[k], strings.TrimSpace(l[i+1:]))
	}
	return h
}

// valueList: the weak reading for multi-valued headers — the comma-joined list of all field lines.
func valueList(vals []string) string {
	var out []string
	for _, v := range vals {
		for _, p := range strings.Split(v, ",") {
			out = append(out, strings.TrimSpace(p))
		}
	}
	return strings.Join(out, ",")
}

func sortedKeys(h http.Header) []string {
	var ks []string
	for k := range h {
		ks = append(ks, k)
	}
	sort.Strings(ks)
	return ks
}

func clientWire(method, target string, lines []string, body []byte, chunked bool) []byte {
	var b bytes.Buffer
	b.Grow(len(body) + 512)
	fmt.Fprintf(&b, "%s %s HTTP/1.1\r\nHost: refinery.test:8080\r\n", method, target)
	for _, l := range lines {
		b.WriteString(l + "\r\n")
	}
	if chunked {
		h := len(body) / 2
		fmt.Fprintf(&b, "Transfer-Encoding: chunked\r\n\r\n%x\r\n%s\r\n%x\r\n%s\r\n0\r\n\r\n", h, body[:h], len(body)-h, body[h:])
		return b.Bytes()
	}
	if len(body) > 0 {
		fmt.Fprintf(&b, "Content-Length: %d\r\n", len(body))
	}
	b.WriteString("\r\n")
	b.Write(body)
	return b.Bytes()
}

func bodyDiff(got, want []byte) string {
	if bytes.Equal(got, want) {
		return ""
	}
	i := 0
	for i < len(got) && i < len(want) && got[i] == want[i] {
		i++
	}
	return fmt.Sprintf("%d bytes instead of %d, first difference at offset %d (got starts %q)", len(got), len(want), i, trunc(string(got), 40))
}

func in(list []string, s string) bool {
	for _, x := range list {
		if x == s {
			return true
		}
	}
	return false
}

type caseDesc struct {
	Method, Target, ReqBody, ReqHeaders string
	Status                              int
	Location                            string
	UpHeaders, UpBody, Listener         string
	ReqHeaderLines, UpHeaderLines       []string
}

func main() {
	r := ev.New("C37", "exploration")
	workers := 16
	pool := make(chan *world, workers)
	for i := 0; i < workers; i++ {
		pool <- newWorld()
	}
	listeners := []pipeline.Listener{pipeline.Incoming, pipeline.Peer}

	// The enumeration is a list of blocks; each block is a full cartesian product over the listed index sets.
	// thorough: one block = the full product of all domains.
	// quick:    A  everything x {empty, small} request bodies x {empty, small, binary} upstream bodies on the incoming listener
	//           B  the 1 MiB bodies ({1 MiB request, 1 MiB answer, both}) x every method x every status, incoming listener, one path
	//           C  the peer listener x everything with small bodies
	type block struct {
		name string
		sets [9][]int // methods, paths, queries, reqBodies, reqHdrSets, statuses, upHdrSets, upBodies, listeners
		keep func(idx []int) bool
		// reloaded: before the request the configured API host is changed by a live reload (last block only: the
		// worlds stay on the new host afterwards)
		reloaded bool
	}
	all := func(n int) []int {
		o := make([]int, n)
		for i := range o {
			o[i] = i
		}
		return o
	}
	full := [9][]int{all(len(methods)), all(len(paths)), all(len(queries)), all(len(reqBodies)), all(len(reqHdrSets)), all(len(statuses)), all(len(upHdrSets)), all(len(upBodies)), all(len(listeners))}
	blocks := []block{{name: "full", sets: full}}
	if !r.Thorough() {
		a, b, c := full, full, full
		a[3], a[7], a[8] = []int{0, 1, 3}, []int{0, 1, 2}, []int{0}
		b[1], b[2], b[3], b[4], b[6], b[7], b[8] = []int{2}, []int{1}, []int{1, 2}, []int{1}, []int{1}, []int{1, 3}, []int{0}
		c[3], c[7], c[8] = []int{1}, []int{1}, []int{1}
		blocks = []block{{name: "A:shapes", sets: a}, {name: "B:1MiB", sets: b, keep: func(idx []int) bool { return idx[3] == 2 || idx[7] == 3 }}, {name: "C:peer-listener", sets: c}}
	}
	{ // block D (both tiers): the relay follows a reloaded Network.HoneycombAPI
		d := full
		d[1], d[2], d[3], d[4], d[5], d[6], d[7] = []int{0, 2}, []int{1}, []int{1}, []int{0}, []int{0, 4}, []int{0}, []int{1}
		blocks = append(blocks, block{name: "D:api-host-reloaded", sets: d, reloaded: true})
	}
	// violations are collected per signature and the case with the smallest enumeration index is reported, so the
	// replay of every signature is the same (simplest) case in every run, whatever the worker interleaving
	type pending struct {
		ord    int64
		what   string
		replay any
	}
	var pmu sync.Mutex
	pend := map[string]pending{}
	for bn, blk := range blocks {
		bn, blk := bn, blk
		bdims := make([]int, 9)
		for i := range bdims {
			bdims[i] = len(blk.sets[i])
		}
		enumx.Each(r, "proxy/"+blk.name, bdims, workers, func(bidx []int) {
			idx := make([]int, 9)
			for i := range idx {
				idx[i] = blk.sets[i][bidx[i]]
			}
			if blk.keep != nil && !blk.keep(idx) {
				r.Add("skipped_covered_by_other_block", 1)
				return
			}
			method, pc, q, rb, rh := methods[idx[0]], paths[idx[1]], queries[idx[2]], reqBodies[idx[3]], reqHdrSets[idx[4]]
			st, uh, ub, l := statuses[idx[5]], upHdrSets[idx[6]], upBodies[idx[7]], listeners[idx[8]]
			if in(pc.HandledFor, method) {
				r.Add("skipped_handled_by_refinery", 1)
				return
			}
			w := <-pool
			defer func() { pool <- w }()
			if blk.reloaded {
				w.reloadAPIHost()
			}

			target := pc.Path
			if q != "" {
				target += "?" + q
			}
			upLines := append([]string{}, uh.Lines...)
			if st.Location != "" {
				upLines = append(upLines, "Location: "+st.Location)
			}
			c := caseDesc{Method: method, Target: target, ReqBody: rb.Name, ReqHeaders: rh.Name, Status: st.Code, Location: st.Location,
				UpHeaders: uh.Name, UpBody: ub.Name, Listener: l.String(), ReqHeaderLines: rh.Lines, UpHeaderLines: upLines}
			wantUpBody := ub.Data
			if method == "HEAD" || st.Code == 204 {
				wantUpBody = nil // HTTP: no body on these
			}
			w.api.arm(answer{Status: st.Code, Lines: upLines, Body: ub.Data})

			req, err := http.ReadRequest(bufio.NewReaderSize(bytes.NewReader(clientWire(method, target, rh.Lines, rb.Data, rb.Chunked)), 1024))
			if err != nil {
				ev.Harness("client request does not parse: %v (%s %s)", err, method, target)
			}
			req.RemoteAddr = clientAddr
			rec := httptest.NewRecorder()
			w.n.ServeHTTP(l, rec, req)
			res := rec.Result() // header snapshot as of WriteHeader = what goes on the wire
			gotBody := rec.Body.Bytes()
			seen := w.api.taken()
			if other := w.n.Net.Requests(); len(other) > 0 {
				w.n.Net.Reset()
				ev.Harness("request left through the fixture's MemNet instead of the fake API: %s %s%s", other[0].Method, other[0].BaseURL, other[0].Path)
			}

			ord := int64(bn)
			for i := range bidx {
				ord = ord*int64(bdims[i]+1) + int64(bidx[i])
			}
			nfail := 0
			fail := func(sig, what string) {
				nfail++
				pmu.Lock()
				if p, ok := pend[sig]; !ok || ord < p.ord {
					pend[sig] = pending{ord, fmt.Sprintf("%s; case=%s", what, ev.J(c)), c}
				}
				pmu.Unlock()
			}
			r.Distinct("distinct_nontrivial", strings.Join([]string{method, target, rb.Name, rh.Name, fmt.Sprint(st.Code), uh.Name, ub.Name}, "|"))

			// ---------------- request side
			if len(seen) == 0 {
				fail("request:not-relayed:"+method+" "+pc.Path, fmt.Sprintf("nothing reached the Honeycomb API; client got %d %s", res.StatusCode, trunc(string(gotBody), 120)))
				return
			}
			u := seen[0]
			if u.Host != w.host || u.Scheme != "http" {
				dsig := "request:destination"
				if blk.reloaded {
					dsig += ":after-api-host-reload"
				}
				fail(dsig, fmt.Sprintf("sent to %s://%s, configured API is http://%s", u.Scheme, u.Host, w.host))
			}
			if u.Method != method {
				fail("request:method:"+method, fmt.Sprintf("upstream saw method %s, client sent %s", u.Method, method))
			}
			if u.URI != target {
				class := "path:" + pc.Path
				if strings.SplitN(u.URI, "?", 2)[0] == pc.Path {
					class = "query"
				}
				fail("request:target:"+class, fmt.Sprintf("upstream saw request-target %q, client sent %q", u.URI, target))
			}
			if d := bodyDiff(u.Body, rb.Data); d != "" {
				fail("request:body:"+rb.Name, "upstream saw a different body: "+d)
			}
			ch := parseLines(rh.Lines)
			nominated := map[string]bool{}
			for _, v := range ch["Connection"] {
				for _, p := range strings.Split(v, ",") {
					nominated[textproto.CanonicalMIMEHeaderKey(strings.TrimSpace(p))] = true
				}
			}
			skipReq := func(k string) bool {
				return hopByHop[k] || nominated[k] || k == "Content-Length" || k == "Host" || k == "X-Forwarded-For"
			}
			for _, k := range sortedKeys(ch) {
				if skipReq(k) {
					if _, ok := u.Header[k]; ok && (hopByHop[k] || nominated[k]) {
						r.Distinct("hop_by_hop_request_headers_forwarded", k)
					}
					continue
				}
				if g, want := valueList(u.Header[k]), valueList(ch[k]); g != want {
					fail("request:header-value:"+rh.Name+":"+k, fmt.Sprintf("upstream saw %s: %q, client sent %q", k, u.Header[k], ch[k]))
				}
			}
			for _, k := range sortedKeys(u.Header) {
				if _, sent := ch[k]; sent || skipReq(k) {
					continue
				}
				if k == "User-Agent" || k == "Accept-Encoding" {
					continue // net/http's client supplies these when the request has none
				}
				fail("request:header-added:"+k, fmt.Sprintf("upstream saw header %s: %q which the client did not send", k, u.Header[k]))
			}
			// X-Forwarded-For: the client's chain (all field lines) followed by one entry naming the client
			var wantChain []string
			for _, v := range ch["X-Forwarded-For"] {
				for _, p := range strings.Split(v, ",") {
					wantChain = append(wantChain, strings.TrimSpace(p))
				}
			}
			var gotChain []string
			for _, v := range u.Header["X-Forwarded-For"] {
				for _, p := range strings.Split(v, ",") {
					gotChain = append(gotChain, strings.TrimSpace(p))
				}
			}
			xffOK := len(gotChain) == len(wantChain)+1 && strings.Contains(gotChain[len(gotChain)-1], clientIP)
			for i := 0; xffOK && i < len(wantChain); i++ {
				xffOK = gotChain[i] == wantChain[i]
			}
			if !xffOK {
				fail("request:x-forwarded-for:"+rh.Name, fmt.Sprintf("upstream saw X-Forwarded-For chain %q; expected the client's chain %q followed by an entry for the client %s", gotChain, wantChain, clientIP))
			}

			// ---------------- response side
			isRedirect := st.Code >= 300 && st.Code < 400 && st.Location != ""
			if len(seen) > 1 {
				if isRedirect {
					fail(fmt.Sprintf("response:redirect-followed:%d", st.Code), fmt.Sprintf("upstream answered %d Location: %s; Refinery followed it itself (%d further request(s), first: %s %s://%s%s with %d body bytes) and the client got %d %s instead of the %d; the follow-up carried the client's X-Honeycomb-Team: %v",
						st.Code, st.Location, len(seen)-1, seen[1].Method, seen[1].Scheme, seen[1].Host, seen[1].URI, len(seen[1].Body), res.StatusCode, trunc(string(gotBody), 60), st.Code,
						ch.Get("X-Honeycomb-Team") != "" && seen[1].Header.Get("X-Honeycomb-Team") == ch.Get("X-Honeycomb-Team")))
				} else {
					fail("upstream:request-repeated", fmt.Sprintf("%d requests reached the API for one client request", len(seen)))
				}
				return
			}
			if res.StatusCode != st.Code {
				fail(fmt.Sprintf("response:status:%d", st.Code), fmt.Sprintf("client got status %d, upstream answered %d", res.StatusCode, st.Code))
			}
			uph := parseLines(upLines)
			skipResp := func(k string) bool { return hopByHop[k] || k == "Content-Length" || k == "Date" }
			for _, k := range sortedKeys(uph) {
				if skipResp(k) {
					continue
				}
				if g, want := valueList(res.Header[k]), valueList(uph[k]); g != want {
					fail("response:header-value:"+uh.Name+":"+k, fmt.Sprintf("client got %s: %q, upstream sent %q", k, res.Header[k], uph[k]))
				}
			}
			for _, k := range sortedKeys(res.Header) {
				if _, sent := uph[k]; sent || skipResp(k) {
					continue
				}
				if k == "Content-Type" || k == "Access-Control-Allow-Origin" {
					r.Distinct("refinery_default_response_headers_seen", k)
					continue // Refinery's own defaults, present only because upstream sent none (weak reading)
				}
				fail("response:header-added:"+k, fmt.Sprintf("client got header %s: %q which upstream did not send", k, res.Header[k]))
			}
			if d := bodyDiff(gotBody, wantUpBody); d != "" {
				fail("response:body:"+ub.Name, "client got a different body: "+d)
			}
			if nfail == 0 {
				r.Add("faithful_cases", 1)
				if r.Count("sampled") < 8 && idx[8] == 0 && idx[7] == 1 && idx[3] == 1 && idx[2] == 1 && idx[4] == idx[0]%len(reqHdrSets) && idx[5] == idx[0]%len(statuses) {
					r.Add("sampled", 1)
					r.Sample(map[string]any{"case": c, "upstream_saw": map[string]any{"method": u.Method, "target": u.URI, "header": u.Header, "body_bytes": len(u.Body)},
						"client_got": map[string]any{"status": res.StatusCode, "header": res.Header, "body_bytes": len(gotBody)}})
				}
			}
		})
		r.Add("blocks", 1)
	}
	for i := 0; i < workers; i++ {
		(<-pool).n.Close()
	}
	var sigs []string
	for sig := range pend {
		sigs = append(sigs, sig)
	}
	sort.Strings(sigs)
	for _, sig := range sigs {
		r.Violation(sig, pend[sig].what, pend[sig].replay)
	}

	names := func(hs []hdrSet) (out []string) {
		for _, h := range hs {
			out = append(out, h.Name)
		}
		return
	}
	var pn []string
	for _, p := range paths {
		pn = append(pn, p.Path)
	}
	var sn []string
	for _, s := range statuses {
		sn = append(sn, strings.TrimSpace(fmt.Sprintf("%d %s", s.Code, s.Location)))
	}
	r.Set("rule", "upstream (parsed from the wire form of the relayed request): same method, request-target, body, every end-to-end client header with the same comma-joined value list, nothing added except client-library defaults, X-Forwarded-For = client's chain + the client; client: upstream status, every upstream header with the same comma-joined value list (Refinery defaults only where upstream sent none), same body")
	r.Set("bounds", map[string]any{"methods": methods, "paths": pn, "queries": queries, "request_bodies": []string{"empty", "small", "1MiB", "small-chunked (Transfer-Encoding: chunked, two chunks)"}, "request_header_sets": names(reqHdrSets),
		"upstream_statuses": sn, "upstream_header_sets": names(upHdrSets), "upstream_bodies": []string{"empty", "small", "binary-256", "1MiB"}, "listeners": []string{"incoming", "peer"},
		"quick_blocks": "A: all x request bodies {empty,small} x upstream bodies {empty,small,binary} x incoming; B: 1 MiB on the request side, the answer side, or both x all methods x all statuses (multi-valued header sets, /x%2Fy with query, incoming); C: peer listener x all with small bodies. thorough = the full product"})
	r.Assume("multi-valued headers (several field lines) are compared as the comma-joined list of their values — HTTP treats the two forms as equivalent (Set-Cookie, which is not, is outside the enumerated sets)")
	r.Assume("hop-by-hop headers (Connection, Keep-Alive, TE, Trailer, Transfer-Encoding, Upgrade, Proxy-Authorization/-Authenticate and anything named in Connection), Content-Length, Host and Date are excluded from both comparisons: HTTP itself makes them per-hop; whether Refinery forwards them is only recorded (hop_by_hop_request_headers_forwarded)")
	r.Assume("upstream may additionally see User-Agent / Accept-Encoding supplied by Go's HTTP client when the client request carried none; anything else that the client did not send is a violation")
	r.Assume("the client may additionally see Refinery's own default Content-Type and Access-Control-Allow-Origin when upstream sent none of that name; when upstream sent one, the client must see upstream's")
	r.Assume("X-Forwarded-For: the client's existing chain (all field lines, in order) must be kept and exactly one entry containing the client's IP appended; the form of that entry (Refinery appends ip:port) is not judged")
	r.Assume("path and query are compared as the literal request-target on the wire (no percent-decoding equivalence: %2F vs / and %3F vs ? are different resources)")
	r.Assume("HEAD requests and 204 answers carry no response body (HTTP); the scripted upstream body is then not sent")
	r.Assume("POST /1/events/{dataset} is handled by Refinery itself and therefore out of scope; every other enumerated method/path pair is unhandled")
	r.Assume("'what upstream sees' = net/http's own serialisation (Request.Write) of the request Router.proxy hands to its http.Client, parsed back by http.ReadRequest; connection-level behaviour of http.Transport below RoundTrip (transparent gzip, connection reuse) and the 10 s client timeout are outside the bound")
	r.Finish()
}

func trunc(s string, n int) string {
	if len(s) > n {
		return s[:n] + "…"
	}
	return s
}
