// C04: forwarded sample rates compose the client's and Refinery's rates (DESIGN §6 C04).
//
// Engine E2 (enumx): the full product
//
//	client-rate rotation (5 quick / 8 thorough) × sampler case (20, two of them "rate 0 by configuration") × path (19)
//
// is executed on the REAL collect.InMemCollector (fix/collector, handler mode, fake clock, capturing
// transmission). Every cell builds a fresh collector, runs one short history and evaluates the oracle on every
// event the capturing transmission holds — both the deep snapshot taken when the event was enqueued and the
// live event at the end of the history (what an asynchronous transmission would serialise later).
//
// Reference (from the statement, not from the code):
//
//	forwarded SampleRate                     = max(client, 1) × T            (exact, as a mathematical integer)
//	meta.refinery.final_sample_rate          = that product
//	meta.refinery.original_sample_rate       present ⇔ client ≠ 0, and then = client
//	T ≥ 1
//
// where T is
//   - for spans of a trace decided by the sampler (on time: root / timeout / span limit / ejection): the rate the
//     configured sampler dictates for the trace (table below; the table is validated once per run against an
//     independently constructed sampler of the same configuration — a mismatch is a HARNESS error);
//   - for spans arriving after a kept decision: the rate recorded with that decision, even when the sampler
//     configuration was reloaded in between (the reload installs a deterministic sampler of rate 3, which is
//     different from every T in the table, so "asking the current sampler" is distinguishable);
//   - for spans decided by stress relief (ProcessSpanImmediately on a trace with no recorded decision): the
//     stress-relief rate; later spans of that trace — through stress relief again or through the normal path
//     after stress relief ended — use that recorded stress rate.
//
// Every span of a trace carries a DIFFERENT client rate (rotation through {0,1,2,7,2³¹−1}; thorough adds 3, 65536,
// 2³¹−2), so a rate taken
// from a sibling span or from the trace's first span is visible.
//
// The random keep draw (rand.Intn(rate) in the rules and dynsampler-backed samplers) is owned: the process-global
// math/rand stream is re-seeded immediately before the deciding handler call so that its first Intn(rate) is 0
// (keep) — or 1 (drop) in the would-be-dropped path; the whole product runs on ONE goroutine so that nothing
// else can consume the stream in between.
//
//go:debug randseednop=0
package main

import (
	"encoding/json"
	"fmt"
	"math/big"
	"math/rand"
	"reflect"
	"sort"
	"strings"
	"time"
	"unsafe"

	"github.com/honeycombio/refinery/collect"
	"github.com/honeycombio/refinery/config"
	"github.com/honeycombio/refinery/logger"
	"github.com/honeycombio/refinery/metrics"
	"github.com/honeycombio/refinery/sample"
	"github.com/honeycombio/refinery/types"

	"verif/engine/enumx"
	"verif/engine/ev"
	fx "verif/fix/collector"
	"verif/fix/collector/cx"
)

const (
	maxClient   = 1<<31 - 1
	reloadRate  = 3 // deterministic sampler installed by the reload; differs from every table rate
	never       = config.Duration(24 * time.Hour)
	fieldFinal  = types.MetaRefineryFinalSampleRate
	fieldOrig   = types.MetaRefineryOriginalSampleRate
	sendDelay   = time.Second
	traceTimout = 4 * time.Second
)

// client sample rates; 0 stands for "absent" as well: the collector receives a types.Event whose SampleRate is
// an unsigned integer, an absent rate and an explicit 0 are the same value there.
var clients = []uint{0, 1, 2, 7, maxClient}

func clientClass(c uint) string {
	switch {
	case c == 0:
		return "client-0"
	case c == 1:
		return "client-1"
	case c == maxClient:
		return "client-max"
	}
	return "client-small"
}

// ---------------------------------------------------------------- sampler cases

type samplerCase struct {
	name string
	cfg  func() any
	rate uint // T dictated by the configuration (+ pre-loaded state) for the test trace
	draw bool // the sampler draws rand.Intn(rate) for its keep decision
	// load: state to pre-load into the dynsampler behind the sampler: rate for the test trace's key.
	load int
	// rules: the dynsampler sits behind rule 0 of a rules-based sampler
	downstream bool
	key        string // dynsampler key of the test trace (discovered by the self-check)
	// free: the configuration dictates rate 0 for the test trace (a matched rule without a rate). Whether such a
	// trace is kept is not C04's subject and is not tabled; IF it is kept, "the trace's sampling rate, which is at
	// least 1" makes T = 1. The cell reads the decision the collector took and judges what is forwarded.
	free bool
}

var svcFields = []string{"svc"}

func condSvc() []*config.RulesBasedSamplerCondition {
	return []*config.RulesBasedSamplerCondition{{Field: "svc", Operator: config.EQ, Value: "a", Datatype: "string"}}
}

func samplerCases() []*samplerCase {
	return []*samplerCase{
		{name: "deterministic-1", rate: 1, cfg: func() any { return &config.DeterministicSamplerConfig{SampleRate: 1} }},
		{name: "deterministic-10", rate: 10, cfg: func() any { return &config.DeterministicSamplerConfig{SampleRate: 10} }},
		{name: "rules-match-rate-6", rate: 6, draw: true, cfg: func() any {
			return &config.RulesBasedSamplerConfig{Rules: []*config.RulesBasedSamplerRule{
				{Name: "svc-a", SampleRate: 6, Conditions: condSvc()}, {Name: "rest", SampleRate: 2}}}
		}},
		{name: "rules-fallthrough-rate-2", rate: 2, draw: true, cfg: func() any {
			return &config.RulesBasedSamplerConfig{Rules: []*config.RulesBasedSamplerRule{
				{Name: "svc-b", SampleRate: 6, Conditions: []*config.RulesBasedSamplerCondition{{Field: "svc", Operator: config.EQ, Value: "b", Datatype: "string"}}},
				{Name: "rest", SampleRate: 2}}}
		}},
		{name: "rules-no-rule-matches", rate: 1, cfg: func() any {
			return &config.RulesBasedSamplerConfig{Rules: []*config.RulesBasedSamplerRule{
				{Name: "svc-b", SampleRate: 6, Conditions: []*config.RulesBasedSamplerCondition{{Field: "svc", Operator: config.EQ, Value: "b", Datatype: "string"}}}}}
		}},
		{name: "rules-downstream-dynamic-goal-4", rate: 4, draw: true, downstream: true, cfg: func() any {
			return &config.RulesBasedSamplerConfig{Rules: []*config.RulesBasedSamplerRule{
				{Name: "svc-a", Conditions: condSvc(), Sampler: &config.RulesBasedDownstreamSampler{
					DynamicSampler: &config.DynamicSamplerConfig{SampleRate: 4, FieldList: svcFields, ClearFrequency: never}}},
				{Name: "rest", SampleRate: 2}}}
		}},
		{name: "rules-downstream-dynamic-loaded-9", rate: 9, draw: true, downstream: true, load: 9, cfg: func() any {
			return &config.RulesBasedSamplerConfig{Rules: []*config.RulesBasedSamplerRule{
				{Name: "svc-a", Conditions: condSvc(), Sampler: &config.RulesBasedDownstreamSampler{
					DynamicSampler: &config.DynamicSamplerConfig{SampleRate: 4, FieldList: svcFields, ClearFrequency: never}}},
				{Name: "rest", SampleRate: 2}}}
		}},
		{name: "dynamic-goal-5", rate: 5, draw: true, cfg: func() any {
			return &config.DynamicSamplerConfig{SampleRate: 5, FieldList: svcFields, ClearFrequency: never}
		}},
		{name: "dynamic-loaded-8", rate: 8, draw: true, load: 8, cfg: func() any {
			return &config.DynamicSamplerConfig{SampleRate: 5, FieldList: svcFields, ClearFrequency: never}
		}},
		{name: "ema-dynamic-goal-7", rate: 7, draw: true, cfg: func() any {
			return &config.EMADynamicSamplerConfig{GoalSampleRate: 7, FieldList: svcFields, AdjustmentInterval: never}
		}},
		{name: "ema-dynamic-loaded-11", rate: 11, draw: true, load: 11, cfg: func() any {
			return &config.EMADynamicSamplerConfig{GoalSampleRate: 7, FieldList: svcFields, AdjustmentInterval: never}
		}},
		{name: "total-throughput-fresh-1", rate: 1, cfg: func() any {
			return &config.TotalThroughputSamplerConfig{GoalThroughputPerSec: 100, FieldList: svcFields, ClearFrequency: never}
		}},
		{name: "total-throughput-loaded-12", rate: 12, draw: true, load: 12, cfg: func() any {
			return &config.TotalThroughputSamplerConfig{GoalThroughputPerSec: 100, FieldList: svcFields, ClearFrequency: never}
		}},
		{name: "ema-throughput-initial-13", rate: 13, draw: true, cfg: func() any {
			return &config.EMAThroughputSamplerConfig{GoalThroughputPerSec: 100, InitialSampleRate: 13, FieldList: svcFields, AdjustmentInterval: never}
		}},
		{name: "ema-throughput-loaded-14", rate: 14, draw: true, load: 14, cfg: func() any {
			return &config.EMAThroughputSamplerConfig{GoalThroughputPerSec: 100, InitialSampleRate: 13, FieldList: svcFields, AdjustmentInterval: never}
		}},
		// a fresh windowed-throughput dynsampler answers 0 for an unknown key: the "at least 1" floor
		{name: "windowed-throughput-fresh-0-floored-to-1", rate: 1, cfg: func() any {
			return &config.WindowedThroughputSamplerConfig{GoalThroughputPerSec: 100, FieldList: svcFields, UpdateFrequency: never}
		}},
		{name: "windowed-throughput-loaded-15", rate: 15, draw: true, load: 15, cfg: func() any {
			return &config.WindowedThroughputSamplerConfig{GoalThroughputPerSec: 100, FieldList: svcFields, UpdateFrequency: never}
		}},
		{name: "rules-match-rate-0-floor", rate: 1, free: true, cfg: func() any {
			return &config.RulesBasedSamplerConfig{Rules: []*config.RulesBasedSamplerRule{
				{Name: "svc-a", SampleRate: 0, Conditions: condSvc()}, {Name: "rest", SampleRate: 2}}}
		}},
		{name: "rules-catchall-rate-unset-floor", rate: 1, free: true, cfg: func() any {
			return &config.RulesBasedSamplerConfig{Rules: []*config.RulesBasedSamplerRule{{Name: "everything"}}}
		}},
		// a loaded rate of 0 (what a dynsampler reports for "no data") must be floored as well
		{name: "dynamic-loaded-0-floored-to-1", rate: 1, load: -1, cfg: func() any {
			return &config.DynamicSamplerConfig{SampleRate: 5, FieldList: svcFields, ClearFrequency: never}
		}},
	}
}

// dynsamplerBehind returns the dynsampler-go instance the factory shares among all samplers of this case.
func (sc *samplerCase) dynsamplerBehind(fac *sample.SamplerFactory) any {
	smp := fac.GetSamplerImplementationForKey("ds")
	if sc.downstream {
		smp = sample.VerifDownstreamOf(smp, 0)
	}
	d := sample.VerifDynsamplerOf(smp)
	if d == nil || reflect.ValueOf(d).IsNil() {
		ev.Harness("%s: no dynsampler behind the sampler", sc.name)
	}
	return d
}

// preload installs "rate for the test trace's key" into the shared dynsampler, the way a previous adjustment
// interval (or a restored state) would have: through LoadState where the dynsampler supports it, else by setting
// its saved-rate map (TotalThroughput and WindowedThroughput implement LoadState as a no-op).
func (sc *samplerCase) preload(fac *sample.SamplerFactory) {
	if sc.load == 0 {
		return
	}
	rate := sc.load
	if rate < 0 {
		rate = 0
	}
	d := sc.dynsamplerBehind(fac)
	rates := map[string]int{sc.key: rate}
	if l, ok := d.(interface{ LoadState([]byte) error }); ok {
		b, _ := json.Marshal(map[string]any{"saved_sample_rates": rates, "moving_average": map[string]float64{sc.key: 100}})
		if err := l.LoadState(b); err != nil {
			ev.Harness("%s: LoadState: %v", sc.name, err)
		}
	}
	v := reflect.ValueOf(d).Elem()
	f := v.FieldByName("savedSampleRates")
	if !f.IsValid() || f.Type() != reflect.TypeOf(rates) {
		ev.Harness("%s: dynsampler %T has no savedSampleRates map[string]int", sc.name, d)
	}
	cur := reflect.NewAt(f.Type(), unsafe.Pointer(f.UnsafeAddr())).Elem()
	if got, _ := cur.Interface().(map[string]int); got[sc.key] != rate || len(got) != 1 {
		// no LoadState support: the adjustment ticker never fires in a run (period 24h), nobody else touches the map
		cur.Set(reflect.ValueOf(rates))
	}
}

func newFactory(cfg any) *sample.SamplerFactory {
	mc := &config.MockConfig{GetSamplerTypeVal: cfg}
	fac := &sample.SamplerFactory{Config: mc, Metrics: &metrics.NullMetrics{}, Logger: &logger.NullLogger{}}
	fac.Start()
	return fac
}

// seedFor returns a seed after which the first rand.Intn(n) of the global stream is d.
func seedFor(n, d int) int64 {
	for s := int64(1); ; s++ {
		if rand.New(rand.NewSource(s)).Intn(n) == d {
			return s
		}
	}
}

var seeds = map[[2]int]int64{}

func ownDraw(rate uint, d int) {
	k := [2]int{int(rate), d}
	s, ok := seeds[k]
	if !ok {
		s = seedFor(int(rate), d)
		seeds[k] = s
	}
	rand.Seed(s)
}

func probeTrace(id string, conf config.Config, withRoot bool) *types.Trace {
	t := &types.Trace{TraceID: id, Dataset: "ds", APIKey: fx.LegacyAPIKey}
	mk := func(root bool) *types.Span {
		data := map[string]any{"trace.trace_id": id, "svc": "a"}
		if !root {
			data["trace.parent_id"] = "p"
		}
		sp := &types.Span{TraceID: id, IsRoot: root, Event: &types.Event{Dataset: "ds", APIKey: fx.LegacyAPIKey, Data: types.NewPayload(conf, data)}}
		sp.Data.ExtractMetadata()
		return sp
	}
	t.AddSpan(mk(false))
	t.AddSpan(mk(false))
	if withRoot {
		rs := mk(true)
		t.AddSpan(rs)
		t.RootSpan = rs
	}
	return t
}

// selfCheck validates the table: an independently built sampler of each case must give exactly the tabled rate
// for the test trace, keep it under draw 0 and (rate > 1) drop it under draw 1.
func selfCheck(r *ev.Run, cases []*samplerCase, keptID, droppedID string) {
	for n := 1; n <= 4; n++ {
		for d := 0; d < n; d++ {
			ownDraw(uint(n), d)
			if got := rand.Intn(n); got != d {
				ev.Harness("global math/rand is not owned by the harness (Seed has no effect): wanted draw %d of %d, got %d", d, n, got)
			}
		}
	}
	conf := &config.MockConfig{TraceIdFieldNames: []string{"trace.trace_id"}, ParentIdFieldNames: []string{"trace.parent_id"}}
	for _, sc := range cases {
		if sc.free {
			continue
		}
		// 1. discover the key
		fac := newFactory(sc.cfg())
		_, _, _, key := fac.GetSamplerImplementationForKey("ds").GetSampleRate(probeTrace(keptID, conf, false))
		fac.Stop()
		sc.key = key
		if sc.load != 0 && key == "" {
			ev.Harness("%s: no dynsampler key for the test trace", sc.name)
		}
		// 2. tabled rate and verdicts
		for _, withRoot := range []bool{false, true} {
			for _, d := range []int{0, 1} {
				if d == 1 && sc.rate == 1 {
					continue
				}
				fac := newFactory(sc.cfg())
				sc.preload(fac)
				smp := fac.GetSamplerImplementationForKey("ds")
				id := keptID
				if d == 1 {
					id = droppedID
				}
				if sc.draw {
					ownDraw(sc.rate, d)
				}
				rate, keep, _, _ := smp.GetSampleRate(probeTrace(id, conf, withRoot))
				fac.Stop()
				if rate != sc.rate || keep != (d == 0) {
					ev.Harness("sampler table is wrong for %s (root=%v, draw %d): the real sampler says rate=%d keep=%v, the table rate=%d keep=%v",
						sc.name, withRoot, d, rate, keep, sc.rate, d == 0)
				}
			}
		}
		r.Add("sampler_table_rows_validated", 1)
	}
}

// ---------------------------------------------------------------- paths

type pathCase struct {
	name     string
	decide   string // root | timeout | spanlimit | eject | "" (stress only)
	late     bool   // deliver late spans after the decision
	reload   bool   // reload to deterministic(reloadRate) between decision and late spans
	drop     bool   // the sampler's draw/ID is chosen so that the trace is dropped
	stress   uint   // ≠0: stress-relief rate of the stress reliever
	stressAt string // "new": stress relief decides the trace; "decided": trace decided by the sampler first, then a span through stress relief
}

func pathCases() []pathCase {
	var out []pathCase
	for _, d := range []string{"root", "timeout", "spanlimit", "eject"} {
		out = append(out,
			pathCase{name: d + "/on-time", decide: d},
			pathCase{name: d + "/late", decide: d, late: true},
			pathCase{name: d + "/reload+late", decide: d, late: true, reload: true})
	}
	out = append(out,
		pathCase{name: "stress-new/rate-1", stress: 1, stressAt: "new", late: true},
		pathCase{name: "stress-new/rate-4", stress: 4, stressAt: "new", late: true},
		pathCase{name: "stress-new/rate-4/reload+late", stress: 4, stressAt: "new", late: true, reload: true},
		pathCase{name: "stress-new/rate-max32", stress: 1<<32 - 1, stressAt: "new", late: true},
		pathCase{name: "decided-by-sampler-then-stress-relief/rate-4", decide: "root", stress: 4, stressAt: "decided"},
		pathCase{name: "decided-by-sampler-then-reload-then-stress-relief/rate-4", decide: "timeout", stress: 4, stressAt: "decided", reload: true},
		pathCase{name: "root/dropped+late", decide: "root", drop: true, late: true},
	)
	return out
}

// expectation attached to every span the harness hands to the collector
type exp struct {
	client uint
	T      uint   // 0 = the trace is dropped: nothing is said about it by C04
	phase  string // oracle class (part of the signature)
	via    string
}

type cell struct {
	r      *ev.Run
	ci     int
	sc     *samplerCase
	pc     pathCase
	f      *fx.Fixture
	id     string
	n      int
	exps   map[string]*exp
	hist   []string
	ridx   []int
	failed bool
	// second pass: every span arrives from an upstream Refinery, i.e. already carrying meta.refinery.original_sample_rate
	upstreamRefinery bool
}

// upstreamNoted is the meta.refinery.original_sample_rate an upstream Refinery has already put on the spans of the
// second pass; it is not a member of the client-rate rotation.
const upstreamNoted = 5

func (c *cell) nextClient() uint {
	v := clients[(c.ci+c.n)%len(clients)]
	return v
}

func (c *cell) span(kind fx.Kind, T uint, phase string, immediate bool) {
	cl := c.nextClient()
	c.n++
	sid := fmt.Sprintf("%s.%d", c.id, c.n)
	spec := fx.SpanSpec{TraceID: c.id, Kind: kind, ID: sid, SampleRate: cl, Fields: map[string]any{"svc": "a", "pad": strings.Repeat("x", 64)}}
	if c.upstreamRefinery {
		// the sender is another Refinery that has already sampled this span: it notes the rate IT received (here 5,
		// different from every client rate of the rotation) and sends its own resulting rate as the sample rate
		spec.Fields[fieldOrig] = int64(upstreamNoted)
	}
	via := "span"
	if immediate {
		via = "immediately"
	}
	c.exps[sid] = &exp{client: cl, T: T, phase: phase, via: via}
	c.hist = append(c.hist, fmt.Sprintf("%s(%s,client=%d)", via, kind, cl))
	if immediate {
		c.f.Immediately(c.f.MakeSpan(spec))
	} else {
		c.f.Span(spec)
	}
}

func (c *cell) note(what string) { c.hist = append(c.hist, what) }

// stressReliever: fixed stress-relief rate, always keep (dropped stress decisions forward nothing).
func stressReliever(rate uint) collect.StressReliever {
	return &collect.MockStressReliever{IsStressed: true, ShouldKeep: true, SampleRate: rate}
}

func (c *cell) run(keptID, droppedID string) {
	sc, pc := c.sc, c.pc
	tc := config.TracesConfig{SendDelay: config.Duration(sendDelay), TraceTimeout: config.Duration(traceTimout), SendTicker: config.Duration(100 * time.Millisecond)}
	if pc.decide == "spanlimit" {
		tc.SpanLimit = 2
	}
	o := fx.Options{Workers: 1, Traces: tc, Sampler: sc.cfg, AddRuleReasonToTrace: true}
	if pc.stress != 0 {
		o.StressRelief = stressReliever(pc.stress)
	}
	f := fx.New(o)
	defer f.Close()
	c.f = f
	c.id = keptID
	if pc.drop {
		c.id = droppedID
	}
	sc.preload(f.Factory)

	T := sc.rate
	if pc.drop {
		if sc.free {
			c.r.Add("dropped_path_not_applicable", 1)
			return
		}
		T = 0
	}
	// ---- sampler decision
	if pc.decide != "" {
		ph := "on-time/" + pc.decide
		switch pc.decide {
		case "root":
			c.span(fx.Child, T, ph, false)
			c.span(fx.Child, T, ph, false)
			c.span(fx.Root, T, ph, false)
			f.Advance(sendDelay)
			c.note("adv(SendDelay)")
		case "timeout":
			c.span(fx.Child, T, ph, false)
			c.span(fx.Child, T, ph, false)
			f.Advance(traceTimout)
			c.note("adv(TraceTimeout)")
		case "spanlimit":
			c.span(fx.Child, T, ph, false)
			c.span(fx.Child, T, ph, false)
			c.span(fx.Child, T, ph, false)
			f.Advance(time.Nanosecond)
			c.note("adv(1ns)")
		case "eject":
			c.span(fx.Child, T, ph, false)
			c.span(fx.Child, T, ph, false)
		}
		if sc.draw {
			d := 0
			if pc.drop {
				d = 1
			}
			ownDraw(sc.rate, d)
		}
		if pc.decide == "eject" {
			f.Eject(0, 1<<40)
			c.note("eject")
		} else {
			f.Tick(0)
			c.note("tick")
		}
		if len(f.Buffered(0)) != 0 {
			// when a trace is decided is C03's subject; this cell did not reach its path
			c.r.Add("cells_whose_decision_did_not_happen", 1)
			return
		}
		d := f.Remembered(c.id)
		if sc.free {
			if d.Kept {
				c.r.Add("rate_0_configured_but_trace_kept", 1)
			} else {
				// dropped: C04 says nothing about this trace (and nothing must be forwarded for it: C02)
				c.r.Add("rate_0_configured_and_trace_dropped", 1)
				T = 0
				for _, e := range c.exps {
					e.T = 0
				}
			}
		} else if d.Kept == pc.drop || d.Dropped() != pc.drop {
			if sc.rate == 1 && pc.drop {
				// a rate-1 sampler keeps everything: the dropped path does not exist for it
				c.r.Add("dropped_path_not_applicable", 1)
				c.exps = map[string]*exp{}
				return
			}
			ev.Harness("%s/%s: the keep draw is not owned: wanted dropped=%v, decision cache says %+v", sc.name, pc.name, pc.drop, d)
		}
		f.SendAll()
		c.note("send*")
	}
	// ---- stress relief decides a new trace
	recorded := T
	if pc.stressAt == "new" {
		recorded = pc.stress
		c.span(fx.Child, recorded, "stress-relief/new-trace", true)
		c.span(fx.Child, recorded, "stress-relief/trace-already-decided-by-stress-relief", true)
	}
	if pc.reload {
		f.Reload(func(m *config.MockConfig) {
			m.GetSamplerTypeVal = &config.DeterministicSamplerConfig{SampleRate: reloadRate}
		})
		c.note(fmt.Sprintf("reload(deterministic %d)", reloadRate))
	}
	rl := ""
	if pc.reload {
		rl = "/after-reload"
	}
	if pc.stressAt == "decided" {
		c.span(fx.Child, recorded, "stress-relief/trace-already-decided-by-sampler"+rl, true)
		c.span(fx.Root, recorded, "stress-relief/trace-already-decided-by-sampler"+rl, true)
	}
	if pc.late {
		ph := "late/decided-by-" + pc.decide + rl
		if pc.stressAt == "new" {
			ph = "late/decided-by-stress-relief" + rl
		}
		c.span(fx.Child, recorded, ph, false)
		c.span(fx.SpanEvent, recorded, ph, false)
		c.span(fx.Root, recorded, ph, false)
	}
	c.judge()
}

func num(v any) (*big.Int, bool) {
	switch x := v.(type) {
	case int64:
		return big.NewInt(x), true
	case int:
		return big.NewInt(int64(x)), true
	case uint64:
		return new(big.Int).SetUint64(x), true
	case uint:
		return new(big.Int).SetUint64(uint64(x)), true
	case int32:
		return big.NewInt(int64(x)), true
	case uint32:
		return big.NewInt(int64(x)), true
	case float64:
		if x == float64(int64(x)) {
			return big.NewInt(int64(x)), true
		}
	}
	return nil, false
}

func (c *cell) violation(sig, what string, s fx.Sent, e *exp) {
	c.failed = true
	c.r.Violation("c04:"+sig, fmt.Sprintf("%s [sampler %s, path %s, span %s (%s, client rate %d, trace rate %d); history: %s]",
		what, c.sc.name, c.pc.name, s.SpanID, e.via, e.client, e.T, strings.Join(c.hist, " ")),
		map[string]any{"index": c.ridx, "sampler": c.sc.name, "path": c.pc.name, "client_rotation": c.ci, "span": s.SpanID, "history": c.hist})
}

func (c *cell) judge() {
	log := c.f.Tx.Log(0)
	seen := map[string]int{}
	for _, s := range log {
		e := c.exps[s.SpanID]
		if e == nil || s.TraceID != c.id {
			c.r.Add("transmissions_of_unknown_spans", 1) // C02's subject
			continue
		}
		seen[s.SpanID]++
		if e.T == 0 {
			c.r.Add("transmissions_for_dropped_traces", 1) // C02's subject
			continue
		}
		if r, ok := s.Fields[types.MetaRefinerySendReason].(string); ok {
			c.r.Distinct("send_reasons_seen", r)
		}
		c.r.Distinct("phases_seen", e.phase)
		// both what was enqueued and what the transmission finally holds
		final := map[string]any{}
		for k, v := range s.Event.Data.All() {
			final[k] = v
		}
		c.check(s, e, "", s.SampleRate, s.Fields)
		c.check(s, e, ":after-enqueue", s.Event.SampleRate, final)
		c.r.Add("forwarded_events_checked", 1)
		if e.T > 1 || e.client > 1 {
			c.r.Distinct("distinct_nontrivial", fmt.Sprintf("%s|client=%d|T=%d", e.phase, e.client, e.T))
		}
		c.r.Distinct("distinct_products", fmt.Sprintf("%d*%d", e.client, e.T))
	}
	for sid, e := range c.exps {
		if e.T != 0 && seen[sid] == 0 {
			c.r.Add("spans_of_kept_traces_not_forwarded", 1) // C02's subject; reported, not judged
		}
	}
}

func (c *cell) check(s fx.Sent, e *exp, when string, rate uint, fields map[string]any) {
	cc := clientClass(e.client)
	base := e.client
	if base < 1 {
		base = 1
	}
	want := new(big.Int).Mul(new(big.Int).SetUint64(uint64(base)), new(big.Int).SetUint64(uint64(e.T)))
	got := new(big.Int).SetUint64(uint64(rate))
	tag := e.phase + ":" + cc + when
	if got.Cmp(want) != 0 {
		sig := "sample-rate:" + tag
		if c.upstreamRefinery {
			sig = "sample-rate:span-from-an-upstream-refinery:" + tag
		}
		c.violation(sig, fmt.Sprintf("forwarded SampleRate is %v, statement says max(client,1) × trace rate = %d × %d = %v", got, base, e.T, want), s, e)
	}
	if e.T < 1 {
		return
	}
	if v, ok := fields[fieldFinal]; !ok {
		c.violation("final-sample-rate-meta:missing:"+tag, fmt.Sprintf("%s is absent, statement says it records the product %v", fieldFinal, want), s, e)
	} else if n, ok := num(v); !ok || n.Cmp(want) != 0 {
		c.violation("final-sample-rate-meta:wrong:"+tag, fmt.Sprintf("%s is %v (%T), statement says it records the product %v", fieldFinal, v, v, want), s, e)
	}
	v, present := fields[fieldOrig]
	if c.upstreamRefinery && e.client == 0 {
		return // no rate arrived with the span: whatever the upstream Refinery noted is not this node's to judge
	}
	switch {
	case e.client == 0 && present:
		c.violation("original-sample-rate-meta:unexpected:"+tag, fmt.Sprintf("%s = %v although the client sent no (zero) rate", fieldOrig, v), s, e)
	case e.client != 0 && !present:
		c.violation("original-sample-rate-meta:missing:"+tag, fmt.Sprintf("%s is absent although the client rate is %d", fieldOrig, e.client), s, e)
	case e.client != 0:
		if n, ok := num(v); !ok || n.Cmp(new(big.Int).SetUint64(uint64(e.client))) != 0 {
			c.violation("original-sample-rate-meta:wrong:"+tag, fmt.Sprintf("%s is %v, the client rate is %d", fieldOrig, v, e.client), s, e)
		}
	}
}

func main() {
	r := ev.New("C04", "exploration")
	if r.Thorough() {
		clients = []uint{0, 1, 2, 3, 7, 65536, maxClient - 1, maxClient}
	}
	cases := samplerCases()
	paths := pathCases()
	k, d := true, false
	ids := cx.PickIDs(1, func() any { return &config.DeterministicSamplerConfig{SampleRate: 10} }, []cx.Want{{Worker: 0, Keep: &k}, {Worker: 0, Keep: &d}})
	keptID, droppedID := ids[0], ids[1]
	selfCheck(r, cases, keptID, droppedID)

	var samples int
	// ONE goroutine: the keep draw is the process-global math/rand stream (see header)
	enumx.Each(r, "client x sampler x path", []int{len(clients), len(cases), len(paths)}, 1, func(idx []int) {
		c := &cell{r: r, ci: idx[0], sc: cases[idx[1]], pc: paths[idx[2]], exps: map[string]*exp{}, ridx: append([]int{}, idx...)}
		c.run(keptID, droppedID)
		if samples < 6 && idx[0] == samples%len(clients) && idx[1] == (samples*5+1)%len(cases) && !c.failed {
			samples++
			r.Sample(map[string]any{"sampler": c.sc.name, "path": c.pc.name, "history": c.hist, "transmitted": c.f.Tx.Multiset(0)})
		}
	})
	// second pass: the same sampler × path product, every span sent by an upstream Refinery (one rotation offset)
	enumx.Each(r, "spans from an upstream refinery: sampler x path", []int{len(cases), len(paths)}, 1, func(idx []int) {
		c := &cell{r: r, ci: 1, sc: cases[idx[0]], pc: paths[idx[1]], exps: map[string]*exp{}, ridx: append([]int{1}, idx...), upstreamRefinery: true}
		c.run(keptID, droppedID)
	})
	// vacuity guards: every decision reason and every phase must really have been exercised
	if r.NViolations() == 0 {
		for _, want := range []string{collect.TraceSendGotRoot, collect.TraceSendExpired, collect.TraceSendSpanLimit, collect.TraceSendEjectedMemsize, collect.TraceSendLateSpan} {
			r.Distinct("send_reasons_wanted", want)
		}
		if r.NDistinct("send_reasons_seen") < r.NDistinct("send_reasons_wanted") {
			ev.Harness("not every decision path was exercised: %d of %d send reasons seen on forwarded spans", r.NDistinct("send_reasons_seen"), r.NDistinct("send_reasons_wanted"))
		}
		if r.Count("forwarded_events_checked") == 0 || r.Count("cells_whose_decision_did_not_happen") > 0 || r.Count("spans_of_kept_traces_not_forwarded") > 0 {
			ev.Harness("paths not reached on this tree: checked=%d undecided cells=%d kept-but-unforwarded spans=%d",
				r.Count("forwarded_events_checked"), r.Count("cells_whose_decision_did_not_happen"), r.Count("spans_of_kept_traces_not_forwarded"))
		}
	}
	var sn []string
	for _, c := range cases {
		sn = append(sn, fmt.Sprintf("%s→T=%d", c.name, c.rate))
	}
	var pn []string
	for _, p := range paths {
		pn = append(pn, p.name)
	}
	sort.Strings(pn)
	r.Set("rule", "for every event held by the capturing transmission (snapshot at enqueue AND live event at the end): SampleRate = max(client,1) × T exactly; "+
		"meta.refinery.final_sample_rate = that product; meta.refinery.original_sample_rate present ⇔ client ≠ 0 and = client; "+
		"T = configured sampler's rate for on-time spans, the rate recorded with the decision for late spans (also after a reload to a different sampler) and for "+
		"stress-relief spans of an already decided trace, the stress-relief rate for spans of a trace decided by stress relief")
	r.Set("bounds", map[string]any{"client_rates": clients, "samplers": sn, "paths": pn, "reload_installs": fmt.Sprintf("deterministic %d", reloadRate),
		"kept_id": keptID, "dropped_id": droppedID})
	r.Assume("client rate = SampleRate of the event as the collector receives it; absent and 0 are the same value there (types.Event.SampleRate is an unsigned integer), so they are one class; " +
		"how the router turns a missing wire-level rate into that value is outside this check")
	r.Assume("overflow: the statement quantifies over client rates in [0, 2^31) and says the forwarded rate EQUALS client × trace rate, so (2^31−1) × N must be held exactly although it exceeds 32 bits for N ≥ 3; " +
		"uint is 64-bit on this platform and the oracle compares with arbitrary-precision integers; the largest product exercised is (2^31−1) × (2^32−1) < 2^63 (stress rate 2^32−1, the largest value a recorded decision can hold)")
	r.Assume("a span handed to stress relief (ProcessSpanImmediately) whose trace already has a recorded decision is a late span of that trace: it uses the recorded rate (weakest reading of 'late spans use the rate recorded with the decision; stress-relief spans use the stress-relief rate')")
	r.Assume("the samplers are trusted (C08–C13): the trace rate T of each configuration is tabled from the configuration and validated against an independently built sampler before the search; " +
		"dynsampler state is pre-loaded through LoadState, or by setting the saved-rate map where the library implements LoadState as a no-op (TotalThroughput, WindowedThroughput); adjustment tickers (24h) never fire")
	r.Assume("the keep draw is the process-global math/rand stream, owned by re-seeding (GODEBUG randseednop=0) right before the deciding handler call; the product is enumerated on one goroutine")
	r.Assume("whether a span is forwarded at all (kept: exactly once, dropped: never) is C01/C02's subject; unforwarded spans of kept traces are counted in the evidence and abort the run as a harness error on a clean run, they are not C04 violations")
	cx.RunLiveToggle(r) // DryRun reloaded to off on the real goroutines: rates compose again (fix/collector/cx/c05_toggle.go)
	r.Finish()
}
