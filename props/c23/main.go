// C23: responses reflect what happened to the data.
// Engine E4 (faultx = enumx over fault scripts) on fix/pipeline: every ingestion endpoint × batch size 1–3 × event
// route (span owned by this node / span owned by a peer / non-trace event) × listener × every fault script of at
// most two faults drawn from {dataset variable fails URL-decoding, environment lookup fails (401 / 500 / transport
// error), request body read fails (at byte 0 / mid-body), body unparsable (garbage / truncated), event k empty,
// collector queue full for event k}. The request is served by the real handlers into a recording ResponseWriter;
// afterwards everything that reached the collector and everything that left on the in-memory wire is attributed
// to the request's events and compared with what the client was told.
package main

import (
	"bytes"
	"encoding/hex"
	"encoding/json"
	"errors"
	"fmt"
	"io"
	"net/http"
	"os"
	"reflect"
	"sort"
	"strings"
	"sync"
	"time"

	"github.com/honeycombio/refinery/route"
	"github.com/honeycombio/refinery/types"

	"verif/engine/enumx"
	"verif/engine/ev"
	"verif/fix/codec"
	"verif/fix/pipeline"
)

// API keys. None of them is a classic key, so every request needs an environment lookup (GET /1/auth).
// A key's lookup either always succeeds or always fails, so the router's environment cache (which only keeps
// successes) cannot change an outcome between cases.
const (
	keyOK   = "verif-c23-key-ok"
	key401  = "verif-c23-key-401"
	key500  = "verif-c23-key-500"
	keyNet  = "verif-c23-key-net"
	dataset = "c23 ds"
	maxN    = 3
)

var instant = time.Date(2031, 7, 9, 23, 59, 58, 0, time.UTC)

type endpoint struct {
	Name   string // dimension label
	Sig    string // endpoint class used in signatures
	Family string // event | batch | otlp-http | grpc
	Signal string // traces | logs (OTLP only)
	CT     string
}

var endpoints = []endpoint{
	{"/1/events json", "/1/events", "event", "", codec.CTJSON},
	{"/1/events msgpack", "/1/events", "event", "", codec.CTMsgpack},
	{"/1/batch json", "/1/batch", "batch", "", codec.CTJSON},
	{"/1/batch msgpack", "/1/batch", "batch", "", codec.CTMsgpack},
	{"/v1/traces json", "/v1/traces", "otlp-http", "traces", codec.CTJSON},
	{"/v1/traces protobuf", "/v1/traces", "otlp-http", "traces", codec.CTProto},
	{"/v1/logs json", "/v1/logs", "otlp-http", "logs", codec.CTJSON},
	{"/v1/logs protobuf", "/v1/logs", "otlp-http", "logs", codec.CTProto},
	{"grpc traces", "grpc-traces", "grpc", "traces", codec.CTProto},
	{"grpc logs", "grpc-logs", "grpc", "logs", codec.CTProto},
}

type fault struct {
	Kind string // dsdecode | envfail | bodyread | unparsable | invalid | full
	Var  string // variant
	K    int    // event index for invalid / full
}

func (f fault) String() string {
	switch f.Kind {
	case "invalid", "full":
		return fmt.Sprintf("%s(%d)", f.Kind, f.K)
	case "dsdecode":
		return f.Kind
	}
	return f.Kind + ":" + f.Var
}

// menu lists the faults that can be injected into a request of n events on this endpoint.
func menu(ep endpoint, n int) []fault {
	var m []fault
	if ep.Family == "event" || ep.Family == "batch" {
		m = append(m, fault{Kind: "dsdecode"})
	}
	m = append(m, fault{Kind: "envfail", Var: "401"}, fault{Kind: "envfail", Var: "500"}, fault{Kind: "envfail", Var: "transport-error"})
	if ep.Family != "grpc" {
		m = append(m, fault{Kind: "bodyread", Var: "at-0"}, fault{Kind: "bodyread", Var: "mid-body"})
	}
	m = append(m, fault{Kind: "unparsable", Var: "garbage"}, fault{Kind: "unparsable", Var: "truncated"})
	if ep.Family == "event" || ep.Family == "batch" {
		for k := 0; k < n; k++ {
			m = append(m, fault{Kind: "invalid", K: k})
		}
	}
	for k := 0; k < n; k++ {
		m = append(m, fault{Kind: "full", K: k})
	}
	return m
}

func compatible(a, b fault) bool {
	if a.Kind != b.Kind {
		return true
	}
	return (a.Kind == "invalid" || a.Kind == "full") && a.K != b.K
}

// scripts enumerates every fault script with at most maxFaults faults: none, every single fault, every pair …
func scripts(m []fault, maxFaults int) [][]fault {
	out := [][]fault{nil}
	var rec func(start int, cur []fault)
	rec = func(start int, cur []fault) {
		if len(cur) > 0 {
			out = append(out, append([]fault(nil), cur...))
		}
		if len(cur) == maxFaults {
			return
		}
		for i := start; i < len(m); i++ {
			ok := true
			for _, c := range cur {
				if !compatible(c, m[i]) {
					ok = false
				}
			}
			if ok {
				rec(i+1, append(cur, m[i]))
			}
		}
	}
	rec(0, nil)
	// simplest first
	sort.SliceStable(out, func(i, j int) bool { return len(out[i]) < len(out[j]) })
	return out
}

type caseT struct {
	EP       endpoint
	N        int
	Route    string // self-span | peer-span | non-trace
	Listener pipeline.Listener
	Script   []fault
}

type caseDesc struct {
	Endpoint string   `json:"endpoint"`
	Events   int      `json:"events"`
	Route    string   `json:"event_route"`
	Listener string   `json:"listener"`
	Faults   []string `json:"faults"`
}

func (c caseT) desc() caseDesc {
	d := caseDesc{Endpoint: c.EP.Name, Events: c.N, Route: c.Route, Listener: c.Listener.String(), Faults: []string{}}
	for _, f := range c.Script {
		d.Faults = append(d.Faults, f.String())
	}
	return d
}

func (c caseT) has(kind string) (fault, bool) {
	for _, f := range c.Script {
		if f.Kind == kind {
			return f, true
		}
	}
	return fault{}, false
}

func (c caseT) hasK(kind string, k int) bool {
	for _, f := range c.Script {
		if f.Kind == kind && f.K == k {
			return true
		}
	}
	return false
}

func (c caseT) kinds() string {
	set := map[string]bool{}
	for _, f := range c.Script {
		set[f.Kind] = true
	}
	if len(set) == 0 {
		return "none"
	}
	var ks []string
	for k := range set {
		ks = append(ks, k)
	}
	sort.Strings(ks)
	return strings.Join(ks, "+")
}

// ---------------------------------------------------------------------------------------------
// recording ResponseWriter

type recWriter struct {
	hdr         http.Header
	writeHeader []int // every WriteHeader call
	writes      int
	body        bytes.Buffer
	ctAtCommit  string
}

func newRec() *recWriter { return &recWriter{hdr: http.Header{}} }

func (w *recWriter) Header() http.Header { return w.hdr }
func (w *recWriter) commit() {
	if w.ctAtCommit == "" {
		w.ctAtCommit = w.hdr.Get("Content-Type")
	}
}
func (w *recWriter) WriteHeader(code int) {
	w.writeHeader = append(w.writeHeader, code)
	w.commit()
}
func (w *recWriter) Write(b []byte) (int, error) {
	w.commit()
	w.writes++
	return w.body.Write(b)
}

// status is what the client sees: the first WriteHeader, or 200 when the handler never called it.
func (w *recWriter) status() int {
	if len(w.writeHeader) > 0 {
		return w.writeHeader[0]
	}
	return 200
}

// trailingDocument reports whether a JSON response body holds a complete JSON document followed by more data
// (= a second answer was written after the first one).
func trailingDocument(b []byte) (bool, string) {
	dec := json.NewDecoder(bytes.NewReader(b))
	var first json.RawMessage
	if err := dec.Decode(&first); err != nil {
		return false, ""
	}
	if s := strings.TrimSpace(string(b[dec.InputOffset():])); s != "" {
		return true, s
	}
	return false, ""
}

type failBody struct {
	r   io.Reader
	err error
}

func (f *failBody) Read(p []byte) (int, error) {
	n, err := f.r.Read(p)
	if err == io.EOF {
		return n, f.err
	}
	return n, err
}
func (f *failBody) Close() error { return nil }

var errInjected = errors.New("verif: injected body read failure")

// ---------------------------------------------------------------------------------------------
// fixture per worker

type worker struct {
	n *pipeline.Node
}

type idSet struct {
	str  map[string][]string // route -> string trace IDs for /1/ endpoints
	otlp map[string][][]byte // route -> 16-byte trace IDs for OTLP endpoints
}

var ids idSet

func findIDs(n *pipeline.Node) {
	ids.str = map[string][]string{"self-span": n.TraceIDs(n.Self, maxN, "c23-s-"), "peer-span": n.TraceIDs(n.Peers[0], maxN, "c23-p-")}
	ids.otlp = map[string][][]byte{}
	for i := 0; len(ids.otlp["self-span"]) < maxN || len(ids.otlp["peer-span"]) < maxN; i++ {
		if i > 100000 {
			ev.Harness("no OTLP trace IDs found")
		}
		b := []byte{0xc2, 0x30, 0, 0, 0, 0, 0, 0, 0, 0, 0, 0, 0, 0, byte(i >> 8), byte(i)}
		who := "peer-span"
		if n.OwnedBySelf(hex.EncodeToString(b)) {
			who = "self-span"
		}
		if len(ids.otlp[who]) < maxN {
			ids.otlp[who] = append(ids.otlp[who], b)
		}
	}
}

func newWorker() *worker {
	n := pipeline.New(pipeline.Options{})
	n.Net.Auth = func(key string) (string, string, int) {
		switch key {
		case key401:
			return "", "", 401
		case key500:
			return "", "", 500
		}
		return "c23-env", "hcxik_c23", 200
	}
	n.Net.Respond = func(c *pipeline.Captured) pipeline.Reply {
		if c.Path == "/1/auth" && c.APIKey == keyNet {
			return pipeline.Reply{Err: errors.New("verif: injected transport error")}
		}
		return pipeline.Reply{}
	}
	return &worker{n: n}
}

// ---------------------------------------------------------------------------------------------
// one case

type observation struct {
	HTTPStatus   int      `json:"http_status,omitempty"`
	WriteHeaders []int    `json:"write_header_calls,omitempty"`
	Writes       int      `json:"body_writes,omitempty"`
	Body         string   `json:"body,omitempty"`
	Trailing     string   `json:"second_document,omitempty"`
	GRPCError    string   `json:"grpc_error,omitempty"`
	GRPCBoth     string   `json:"grpc_result_shape,omitempty"`
	IsErr        bool     `json:"whole_request_error"`
	PerEvent     []int    `json:"batch_statuses,omitempty"`
	Collector    []string `json:"collector_per_event"` // e.g. "queued", "full", "" per event
	Sent         []string `json:"sent_per_event"`      // destinations per event
	Stray        []string `json:"unattributed,omitempty"`
	Panic        string   `json:"handler_panic,omitempty"`
}

func marker(i int) string { return fmt.Sprintf("e%d", i) }

func (w *worker) run(c caseT) observation {
	n := w.n
	key := keyOK
	if f, ok := c.has("envfail"); ok {
		key = map[string]string{"401": key401, "500": key500, "transport-error": keyNet}[f.Var]
	}
	otlp := c.EP.Family == "otlp-http" || c.EP.Family == "grpc"

	// ---- trace IDs and the queue-full script
	tid := make([]string, c.N) // "" for non-trace events
	raw := make([][]byte, c.N)
	full := map[string]bool{}
	for i := 0; i < c.N; i++ {
		if c.Route != "non-trace" {
			if otlp {
				raw[i] = ids.otlp[c.Route][i]
				tid[i] = hex.EncodeToString(raw[i])
			} else {
				tid[i] = ids.str[c.Route][i]
			}
		}
		if c.hasK("full", i) && tid[i] != "" {
			full[tid[i]] = true
		}
	}
	n.Collector.FullFn = func(sp *types.Span, fromPeer bool) bool { return full[sp.TraceID] }
	defer func() { n.Collector.FullFn = nil }()

	// ---- the request
	var body []byte
	var cr codec.Request
	switch c.EP.Family {
	case "event", "batch":
		evs := make([]codec.Event, c.N)
		for i := range evs {
			e := codec.Event{TimeText: instant.Format(time.RFC3339Nano), SampleRate: 2}
			if c.EP.CT == codec.CTMsgpack {
				tv := codec.Time(instant, 0)
				e.TimeVal = &tv
			}
			if !c.hasK("invalid", i) {
				e.Data = []codec.Field{codec.F("marker", codec.Str(marker(i))), codec.F("name", codec.Str("op"))}
				if tid[i] != "" {
					e.Data = append(e.Data, codec.F("trace.trace_id", codec.Str(tid[i])), codec.F("trace.parent_id", codec.Str("p1")))
				}
			}
			evs[i] = e
		}
		if c.EP.Family == "event" {
			cr = codec.SingleEvent(dataset, key, c.EP.CT, evs[0])
		} else {
			cr = codec.Batch(dataset, key, c.EP.CT, evs...)
		}
	default:
		res := []codec.Field{codec.F("service.name", codec.Str("c23svc"))}
		path := "/v1/" + c.EP.Signal
		if c.EP.Signal == "traces" {
			spans := make([]codec.OTLPSpan, c.N)
			for i := range spans {
				spans[i] = codec.OTLPSpan{TraceID: raw[i], SpanID: []byte{1, 2, 3, 4, 5, 6, 7, byte(i + 1)}, ParentSpanID: []byte{9, 9, 9, 9, 9, 9, 9, 9},
					Name: "op", Start: instant, End: instant.Add(time.Millisecond), Attrs: []codec.Field{codec.F("marker", codec.Str(marker(i)))}}
			}
			cr = codec.OTLPHTTP(path, key, "", c.EP.CT, codec.OTLPTraceMessage(res, spans...))
		} else {
			recs := make([]codec.OTLPLog, c.N)
			for i := range recs {
				recs[i] = codec.OTLPLog{TraceID: raw[i], Time: instant, Body: "log line", Attrs: []codec.Field{codec.F("marker", codec.Str(marker(i)))}}
				if raw[i] != nil {
					recs[i].SpanID = []byte{1, 2, 3, 4, 5, 6, 7, byte(i + 1)}
				}
			}
			cr = codec.OTLPHTTP(path, key, "", c.EP.CT, codec.OTLPLogsMessage(res, recs...))
		}
	}
	body = cr.Body
	if f, ok := c.has("unparsable"); ok {
		if f.Var == "garbage" {
			body = []byte{0xff, 0xff, 0xff, 0xff}
		} else {
			body = body[:len(body)/2]
		}
	}
	cr.Body = body

	var o observation
	if c.EP.Family == "grpc" {
		md := map[string]string{"x-honeycomb-team": key}
		var resp any
		var err error
		if c.EP.Signal == "traces" {
			resp, err = n.GRPCTraceExport(pipeline.Incoming, md, body)
		} else {
			resp, err = n.GRPCLogsExport(pipeline.Incoming, md, body)
		}
		respNil := resp == nil || (reflect.ValueOf(resp).Kind() == reflect.Ptr && reflect.ValueOf(resp).IsNil())
		o.IsErr = err != nil
		if err != nil {
			o.GRPCError = err.Error()
		}
		if respNil == (err == nil) {
			o.GRPCBoth = fmt.Sprintf("response nil=%v, error nil=%v", respNil, err == nil)
		}
	} else {
		req := pipeline.HTTPRequest(cr)
		if f, ok := c.has("bodyread"); ok {
			cut := 0
			if f.Var == "mid-body" {
				cut = len(body) / 2
			}
			req.Body = &failBody{r: bytes.NewReader(body[:cut]), err: errInjected}
		}
		rw := newRec()
		if _, ok := c.has("dsdecode"); ok {
			h := route.VerifDirectHandler(n.Routers[c.Listener], c.EP.Family, map[string]string{"datasetName": "%zz"})
			if h == nil {
				ev.Harness("no direct handler for %s", c.EP.Family)
			}
			func() {
				// no mux, hence no panicCatcher middleware around this call: a panic is recorded, not propagated
				defer func() {
					if p := recover(); p != nil {
						o.Panic = trunc(fmt.Sprint(p), 200)
					}
				}()
				h(rw, req)
			}()
		} else {
			n.ServeHTTP(c.Listener, rw, req)
		}
		o.HTTPStatus, o.WriteHeaders, o.Writes = rw.status(), rw.writeHeader, rw.writes
		o.IsErr = o.HTTPStatus >= 400
		o.Body = trunc(rw.body.String(), 300)
		if strings.Contains(rw.ctAtCommit, "json") || c.EP.Family == "event" || c.EP.Family == "batch" {
			if extra, rest := trailingDocument(rw.body.Bytes()); extra {
				o.Trailing = trunc(rest, 200)
			}
		}
		if c.EP.Family == "batch" && !o.IsErr {
			var rs []struct {
				Status *int `json:"status"`
			}
			if dec := json.NewDecoder(bytes.NewReader(rw.body.Bytes())); dec.Decode(&rs) == nil {
				o.PerEvent = []int{}
				for _, x := range rs {
					if x.Status == nil {
						o.PerEvent = append(o.PerEvent, 0)
					} else {
						o.PerEvent = append(o.PerEvent, *x.Status)
					}
				}
			}
		}
	}

	// ---- what happened to the data
	n.Flush()
	o.Collector, o.Sent = make([]string, c.N), make([]string, c.N)
	idx := map[string]int{}
	for i := 0; i < c.N; i++ {
		if tid[i] != "" {
			idx[tid[i]] = i
		}
		idx["marker:"+marker(i)] = i
	}
	for _, rec := range n.Collector.Records() {
		i, ok := idx[rec.TraceID]
		if !ok {
			o.Stray = append(o.Stray, "collector:"+rec.TraceID)
			continue
		}
		o.Collector[i] = join(o.Collector[i], rec.Result)
	}
	for _, s := range n.Sent() {
		m, _ := s.Event.Field("marker")
		i, ok := idx["marker:"+m.S]
		if !ok {
			o.Stray = append(o.Stray, "sent:"+s.Event.Data.Canon())
			continue
		}
		o.Sent[i] = join(o.Sent[i], s.Dest)
	}
	for _, p := range n.DecodeProblems() {
		o.Stray = append(o.Stray, "undecodable:"+p)
	}
	n.Net.Reset()
	n.Collector.Reset()
	return o
}

func join(a, b string) string {
	if a == "" {
		return b
	}
	return a + "," + b
}

func trunc(s string, n int) string {
	if len(s) > n {
		return s[:n] + "…"
	}
	return s
}

// ---------------------------------------------------------------------------------------------
// oracle

type finding struct {
	Rule, EP, Kinds, What string
	Case                  caseDesc
	Obs                   observation
	order                 int
}

func count(list, what string) int {
	if list == "" {
		return 0
	}
	n := 0
	for _, x := range strings.Split(list, ",") {
		if x == what {
			n++
		}
	}
	return n
}

func judge(c caseT, o observation) []finding {
	var out []finding
	add := func(rule, what string) {
		out = append(out, finding{Rule: rule, EP: c.EP.Sig, Kinds: c.kinds(), What: what, Case: c.desc(), Obs: o})
	}
	if len(o.Stray) > 0 {
		add("unattributed-output", "output that belongs to no event of the request: "+strings.Join(o.Stray, "; "))
	}
	held, tried, valid := 0, 0, 0
	heldI, fullI := make([]int, c.N), make([]int, c.N)
	for i := 0; i < c.N; i++ {
		if !c.hasK("invalid", i) {
			valid++
		}
		heldI[i] = count(o.Collector[i], "queued") + count(o.Collector[i], "kept")
		fullI[i] = count(o.Collector[i], "full")
		if o.Sent[i] != "" {
			heldI[i] += strings.Count(o.Sent[i], ",") + 1
		}
		held += heldI[i]
		tried += heldI[i] + fullI[i] + count(o.Collector[i], "dropped")
	}

	// R1 exactly one status per request
	if len(o.WriteHeaders) > 1 {
		add("second-status", fmt.Sprintf("WriteHeader was called %d times %v for one request", len(o.WriteHeaders), o.WriteHeaders))
	}
	if o.Trailing != "" {
		add("second-status", fmt.Sprintf("after answering %d the handler wrote a second response document: %s", o.HTTPStatus, o.Trailing))
	}
	if o.GRPCBoth != "" {
		add("second-status", "gRPC handler must return exactly one of response / error: "+o.GRPCBoth)
	}

	if o.Panic != "" {
		add("second-status", "the handler panicked after (or instead of) answering — behind the panic middleware that is one more WriteHeader(500): "+o.Panic)
	}

	// R2 whole-request error status => none of its events forwarded or buffered
	if o.IsErr && held > 0 {
		add("error-status-but-events-accepted", fmt.Sprintf("request answered with error (%s) but %d of its events were buffered/forwarded: collector=%v sent=%v",
			o.status(), held, o.Collector, o.Sent))
	}

	// R3 success => its events were not all discarded before any attempt to process them
	if !o.IsErr && c.EP.Family != "batch" && valid > 0 && tried == 0 {
		add("success-but-events-discarded", fmt.Sprintf("request with %d valid event(s) answered with success (%s) although none of them was handed to the collector or a transmission",
			valid, o.status()))
	}

	// R4 batch responses: 202 exactly for accepted, 429 exactly for queue-full, 400 for invalid events
	if c.EP.Family == "batch" && !o.IsErr {
		if o.PerEvent == nil || len(o.PerEvent) != c.N {
			add("batch-status-list", fmt.Sprintf("success answer to a batch of %d events does not list %d statuses: %q", c.N, c.N, o.Body))
		} else {
			for i, got := range o.PerEvent {
				want := 202
				switch {
				case c.hasK("invalid", i):
					want = 400
				case c.hasK("full", i) && c.Route == "self-span":
					want = 429
				}
				switch {
				case got != want:
					add(fmt.Sprintf("batch-event-status:want%d-got%d", want, got), fmt.Sprintf("event %d: listed status %d, the statement prescribes %d (collector=%q sent=%q)", i, got, want, o.Collector[i], o.Sent[i]))
				case (got == 202) != (heldI[i] > 0):
					add("batch-202-vs-accepted", fmt.Sprintf("event %d: listed %d but accepted %d time(s) (collector=%q sent=%q)", i, got, heldI[i], o.Collector[i], o.Sent[i]))
				case (got == 429) != (fullI[i] > 0):
					add("batch-429-vs-queue-full", fmt.Sprintf("event %d: listed %d but the collector refused it %d time(s)", i, got, fullI[i]))
				}
			}
		}
	}
	return out
}

func (o observation) status() string {
	if o.HTTPStatus != 0 {
		return fmt.Sprintf("HTTP %d", o.HTTPStatus)
	}
	if o.GRPCError != "" {
		return "gRPC error " + trunc(o.GRPCError, 80)
	}
	return "gRPC OK"
}

func (o observation) class(c caseT) string {
	s := o.status()
	if o.GRPCError != "" {
		s = "gRPC error"
	}
	per := ""
	for i := 0; i < c.N; i++ {
		switch {
		case o.Collector[i] == "" && o.Sent[i] == "":
			per += "-"
		case o.Collector[i] != "":
			per += o.Collector[i][:1]
		default:
			per += "s"
		}
	}
	return fmt.Sprintf("%s|%v|%s", s, o.PerEvent, per)
}

func main() {
	r := ev.New("C23", "fault_enumeration")
	maxFaults := ev.Pick(r, 2, 3)
	workers := 16

	pool := make(chan *worker, workers)
	for i := 0; i < workers; i++ {
		w := newWorker()
		if i == 0 {
			findIDs(w.n)
		}
		pool <- w
	}

	// ---- the case list: endpoint × batch size × event route × listener × fault script
	var cases []caseT
	for _, ep := range endpoints {
		for n := 1; n <= maxN; n++ {
			if ep.Family == "event" && n > 1 {
				continue
			}
			for _, rt := range []string{"self-span", "peer-span", "non-trace"} {
				if rt == "non-trace" && ep.Signal == "traces" {
					continue // an OTLP span always has a trace ID
				}
				for _, l := range []pipeline.Listener{pipeline.Incoming, pipeline.Peer} {
					if ep.Family == "grpc" && l == pipeline.Peer {
						continue // gRPC is served on the client-facing listener only
					}
					for _, s := range scripts(menu(ep, n), maxFaults) {
						cases = append(cases, caseT{EP: ep, N: n, Route: rt, Listener: l, Script: s})
					}
				}
			}
		}
	}

	// ---- evidence for the dsdecode assumption: through the real mux a path segment "%zz" never reaches the handler undecoded
	{
		w := <-pool
		req := pipeline.HTTPRequest(codec.Batch("placeholder", keyOK, codec.CTJSON, codec.Event{Data: []codec.Field{codec.F("marker", codec.Str("e0"))}}))
		req.URL.Path, req.URL.RawPath = "/1/batch/%zz", "/1/batch/%zz"
		rw := newRec()
		w.n.ServeHTTP(pipeline.Incoming, rw, req)
		w.n.Flush()
		got := "nothing sent"
		for _, s := range w.n.Sent() {
			got = fmt.Sprintf("event forwarded to dataset %q", s.Dataset)
		}
		r.Set("dsdecode_through_real_mux", fmt.Sprintf("hand-built URL{Path,RawPath=/1/batch/%%zz}: mux matched on EscapedPath()=%q, HTTP %d, %s (net/http itself rejects the request line \"/1/batch/%%zz\" before any handler)", req.URL.EscapedPath(), rw.status(), got))
		w.n.Net.Reset()
		w.n.Collector.Reset()
		pool <- w
	}

	// ---- determinism self-check: the same cases twice on one node must give identical observations
	{
		w := <-pool
		for _, i := range []int{0, len(cases) / 3, len(cases) / 2, len(cases) - 1} {
			a, b := ev.J(w.run(cases[i])), ev.J(w.run(cases[i]))
			if a != b {
				ev.Harness("replaying case %s twice gave different observations:\n%s\n%s", ev.J(cases[i].desc()), a, b)
			}
		}
		pool <- w
	}
	if only := os.Getenv("C23_ONLY"); only != "" { // debugging aid: print every case whose description contains the text
		w := <-pool
		for _, c := range cases {
			if d := ev.J(c.desc()); strings.Contains(d, only) {
				o := w.run(c)
				fmt.Printf("%s\n   %s\n", d, ev.J(o))
				for _, f := range judge(c, o) {
					fmt.Printf("   !! %s: %s\n", f.Rule, f.What)
				}
			}
		}
		pool <- w
	}

	// evidence samples: a fixed, schedule-independent selection (two-fault scripts on 2-event requests, every 37th)
	sampleAt, samples := map[int]bool{}, map[int]any{}
	for i, c := range cases {
		if len(sampleAt) < 10 && len(c.Script) == 2 && c.N == 2 && c.Route == "self-span" && c.Listener == pipeline.Incoming && i%37 == 0 {
			sampleAt[i] = true
		}
	}
	var mu sync.Mutex
	var found []finding
	enumx.Each(r, "fault-scripts", []int{len(cases)}, workers, func(idx []int) {
		w := <-pool
		defer func() { pool <- w }()
		c := cases[idx[0]]
		o := w.run(c)
		fs := judge(c, o)
		if len(fs) > 0 {
			mu.Lock()
			for _, f := range fs {
				f.order = idx[0]
				found = append(found, f)
			}
			mu.Unlock()
		}
		r.Add(fmt.Sprintf("scripts_with_%d_faults", len(c.Script)), 1)
		if o.IsErr {
			r.Add("whole_request_errors", 1)
		} else {
			r.Add("success_answers", 1)
		}
		for _, s := range o.PerEvent {
			r.Add(fmt.Sprintf("batch_event_status_%d", s), 1)
		}
		r.Distinct("observed_outcomes", c.EP.Sig+"|"+o.class(c))
		if len(c.Script) > 0 {
			r.Distinct("distinct_nontrivial", c.EP.Sig+"|"+c.kinds()+"|"+c.Route+"|"+o.class(c))
		}
		if sampleAt[idx[0]] {
			mu.Lock()
			samples[idx[0]] = map[string]any{"case": c.desc(), "observed": o}
			mu.Unlock()
		}
	})
	for i := 0; i < workers; i++ {
		(<-pool).n.Close()
	}

	// ---- report: one violation per (rule, endpoint, minimal fault-kind set). A failing script whose fault kinds are a
	// strict superset of another failing script's (same rule, same endpoint) is attributed to the smaller one.
	sort.SliceStable(found, func(i, j int) bool { return found[i].order < found[j].order })
	type key struct{ rule, ep string }
	kindSets := map[key][]string{}
	for _, f := range found {
		k := key{f.Rule, f.EP}
		seen := false
		for _, s := range kindSets[k] {
			if s == f.Kinds {
				seen = true
			}
		}
		if !seen {
			kindSets[k] = append(kindSets[k], f.Kinds)
		}
	}
	subset := func(a, b string) bool { // a strict subset of b
		if a == b {
			return false
		}
		if a == "none" {
			return true
		}
		bs := map[string]bool{}
		for _, x := range strings.Split(b, "+") {
			bs[x] = true
		}
		for _, x := range strings.Split(a, "+") {
			if !bs[x] {
				return false
			}
		}
		return true
	}
	counts := map[string]int{}
	first := map[string]finding{}
	var order []string
	for _, f := range found {
		minimal := f.Kinds
		for _, s := range kindSets[key{f.Rule, f.EP}] {
			if subset(s, minimal) {
				minimal = s
			}
		}
		sig := fmt.Sprintf("%s:%s:%s", f.Rule, f.EP, minimal)
		if _, ok := first[sig]; !ok && minimal == f.Kinds {
			first[sig] = f
			order = append(order, sig)
		}
		counts[sig]++
	}
	sort.Strings(order)
	for _, sig := range order {
		f := first[sig]
		r.Violation(sig, fmt.Sprintf("%s; case=%s; %d failing script(s) in this class", f.What, ev.J(f.Case), counts[sig]),
			map[string]any{"case": f.Case, "observed": f.Obs})
	}
	r.Set("failing_cases", len(found))
	var sk []int
	for k := range samples {
		sk = append(sk, k)
	}
	sort.Ints(sk)
	for _, k := range sk {
		r.Sample(samples[k])
	}

	r.Set("rule", "per case: (R1) one status: ≤1 WriteHeader call, no second document after the first in the response body, gRPC returns exactly one of response/error; (R2) whole-request error status ⇒ no event of the request in the collector (queued/kept) or on the wire after Flush; (R3) success on a non-batch endpoint ⇒ at least one of its valid events was handed to the collector or a transmission; (R4) batch success ⇒ n statuses, status_i = 400 if event i empty, 429 if its queue admission was refused, else 202, and 202 ⇔ accepted exactly where observed, 429 ⇔ refused exactly where observed")
	r.Set("bounds", map[string]any{"endpoints": len(endpoints), "batch_sizes": "1..3 (single-event endpoint: 1)", "event_routes": []string{"self-span", "peer-span", "non-trace"},
		"listeners": []string{"incoming", "peer (HTTP only)"}, "max_faults_per_script": maxFaults,
		"fault_menu": "dsdecode | envfail{401,500,transport-error} | bodyread{at-0,mid-body} | unparsable{garbage,truncated} | invalid(k) | full(k)"})
	r.Assume("'error status for the request as a whole' = HTTP status ≥ 400 / a gRPC error; 'success' = anything else (an untouched ResponseWriter is the implicit 200 net/http sends)")
	r.Assume("'forwarded or buffered' = handed to the collector and admitted (queued / immediately kept), or present in a /1/batch request on the in-memory wire after Flush; a span the collector refused (queue full) is neither")
	r.Assume("'discarded before trying to process them' (weakest reading) = success answered although NO valid event of the request was handed to the collector or a transmission; a queue-full refusal counts as an attempt, so OTLP success with some/all spans refused is not flagged")
	r.Assume("which error status a fault produces is not prescribed; only the implications above are checked. Per-event statuses are only prescribed for /1/batch")
	r.Assume("a dataset variable that fails URL-decoding cannot be produced through gorilla/mux (EscapedPath never yields an invalid escape): that one fault is injected with mux.SetURLVars + a direct call of the route's handler (hooks/route/zz_verif_c23_direct.go), all other cases go through the real mux and middleware")
	r.Assume("capturing collector stub (FullFn scripted per trace ID) instead of InMemCollector; in-memory RoundTripper answers /1/auth per key (always-failing keys are distinct from the always-succeeding key, so the environment cache cannot alter outcomes)")
	r.Finish()
}
